import SkimModel.Model.Editor
import SkimModel.Spec.Editor
