import SkimModel.Driver.C01
import SkimModel.Driver.C09
import SkimModel.Driver.C10
import SkimModel.Driver.C13
import SkimModel.Driver.C12
import SkimModel.Driver.C02
import SkimModel.Driver.C03
import SkimModel.Driver.C04
import SkimModel.Driver.C19
import SkimModel.Driver.C20
import SkimModel.Driver.C06
import SkimModel.Driver.C07
import SkimModel.Driver.C17
import SkimModel.Driver.C11
import SkimModel.Driver.C05Cli
import SkimModel.Driver.C08
import SkimModel.Driver.C15
import SkimModel.Driver.C16
import SkimModel.Driver.C18
open SkimModel.Driver

/-- one request per line: `<prop>\t<case>\t<impl_out>`; one answer per line:
    `<model_out>\t<spec_verdict>` where the verdict is `ok` or `bad:<why>` and judges the
    IMPLEMENTATION's output against the property's executable spec. -/
def answer (line : String) : String :=
  match line.splitOn "\t" with
  | prop :: case :: rest =>
    let impl := rest.headD ""
    match prop with
    | "C18" =>
      match C18.handle case with
      | .ok (m, s) => m ++ "\t" ++ (if impl == s then "ok" else "bad:differs-from-reference-editor")
      | .error e => "error:" ++ e ++ "\terror"
    | "C01" | "C14" | "C05" | "C10S" | "C20S" | "C07S" => C01.answer case impl
    | "C09" => C09.answer case impl
    | "C10" =>
      match C10.handle case impl with
      | .ok (m, v) => m ++ "\t" ++ v
      | .error e => "error:" ++ e ++ "\terror"
    | "C16" =>
      match C16.handle case impl with
      | .ok (m, v) => m ++ "\t" ++ v
      | .error e => "error:" ++ e ++ "\terror"
    | "C13" =>
      match C13.handle case impl with
      | .ok (m, v) => m ++ "\t" ++ v
      | .error e => "error:" ++ e ++ "\terror"
    | "C12" => C12.answer case impl
    | "C02" =>
      match C02.handle case impl with
      | .ok (m, v) => m ++ "\t" ++ v
      | .error e => "error:" ++ e ++ "\terror"
    | "C03" =>
      match C03.handle case impl with
      | .ok (m, v) => m ++ "\t" ++ v
      | .error e => "error:" ++ e ++ "\terror"
    | "C04" =>
      match C04.handle case impl with
      | .ok (m, v) => m ++ "\t" ++ v
      | .error e => "error:" ++ e ++ "\terror"
    | "C19" =>
      match C19.handle case impl with
      | .ok (m, v) => m ++ "\t" ++ v
      | .error e => "error:" ++ e ++ "\terror"
    | "C20" =>
      if case.startsWith "E~" then C20.endState case impl else
      match C20.handle case impl with
      | .ok (m, v) => m ++ "\t" ++ v
      | .error e => "error:" ++ e ++ "\terror"
    | "C06" =>
      match C06.handle case impl with
      | .ok (m, v) => m ++ "\t" ++ v
      | .error e => "error:" ++ e ++ "\terror"
    | "C07" =>
      match C07.handle case impl with
      | .ok (m, v) => m ++ "\t" ++ v
      | .error e => "error:" ++ e ++ "\terror"
    | "C17" =>
      match C17.handle case impl with
      | .ok (m, v) => m ++ "\t" ++ v
      | .error e => "error:" ++ e ++ "\terror"
    | "C11" => C11.answer case impl
    | "C05CLI" => C05Cli.answer case impl
    | "C07CLI" => C05Cli.answerWith true case impl
    | "C08" => C08.answer case impl
    | "C15" => C15.answer case impl
    | _ => "error:unknown-property\terror"
  | _ => "error:bad-line\terror"

partial def loop (h : IO.FS.Stream) (out : IO.FS.Stream) : IO Unit := do
  let line ← h.getLine
  if line.isEmpty then return ()
  let l := if line.endsWith "\n" then (line.dropEnd 1).toString else line
  out.putStrLn (answer l)
  loop h out

def main : IO Unit := do
  let i ← IO.getStdin
  let o ← IO.getStdout
  loop i o
