import SkimModel.Model.OrderedVec
import SkimModel.Generated.OVecFns
import SkimModel.Lemmas.FnTactics
/-!
src/orderedvec.rs as TRANSLATED on every run (`Generated/OVecFns.lean`) against the C02 model (`Model/OrderedVec.lean`):
`compare_item`, `sort_vector`, the index arithmetic of `get`, and `append` as a parameterised statement sequence.  Interpreting the
tables gives `OrderedVec.lt`, `sortVec`, `moveLoop`, `append` for every configuration, state and batch — so the theorems of
Props/C02.lean (every appended item is enumerated exactly once, in order; `get` never panics) are about the `append` the source
contains now.  A flipped `asc`, `Greater` for `Less`, a dropped `!sorted.is_empty()` guard, swapped operands of `cmp` break a theorem.
-/
set_option linter.unusedSimpArgs false
namespace SkimModel.OrderedVec
open SkimModel.Generated

variable {α : Type} (le : α → α → Bool)

/-- `x.cmp(y) == o` for the total preorder `le` -/
def cmp3 (x y : α) : OVecFns.Ord3 → Bool
  | .less => !le y x
  | .greater => !le x y
  | .equal => le x y && le y x

/-- the translated `compare_item(a, b) == o` -/
def interpCmp (c : Cfg) (o : OVecFns.Ord3) (a b : α) : Bool :=
  if OVecFns.comparePlainIsAB == !c.tac then cmp3 le a b o else cmp3 le b a o

theorem compare_item_is_model (c : Cfg) (a b : α) : interpCmp le c .less a b = lt le c a b := by
  unfold interpCmp lt cmp3 OVecFns.comparePlainIsAB
  cases c.tac <;> simp

/-- the translated `sort_vector` -/
def interpSort (c : Cfg) (asc : Bool) (v : List α) : List α :=
  let s := v.mergeSort le
  if OVecFns.sortReverses asc c.tac then s.reverse else s

theorem sort_vector_is_model (c : Cfg) (asc : Bool) (v : List α) : interpSort le c asc v = sortVec le c asc v := by
  unfold interpSort sortVec OVecFns.sortReverses
  cases asc <;> cases c.tac <;> simp

/-- the translated movement loop -/
def interpMoveLoop (c : Cfg) (last : α) : List α → List α → List α × List α
  | x :: items, moved =>
    if moved.length < c.maxMove && interpCmp le c OVecFns.loopOrd x last then interpMoveLoop c last items (moved ++ [x])
    else (moved, x :: items)
  | [], moved => (moved, [])

theorem move_loop_is_model (c : Cfg) (last : α) (items moved : List α) :
    interpMoveLoop le c last items moved = moveLoop le c last items moved := by
  induction items generalizing moved with
  | nil => rfl
  | cons x items ih =>
    have hc : interpCmp le c OVecFns.loopOrd x last = lt le c x last := compare_item_is_model le c x last
    simp only [interpMoveLoop, moveLoop, hc, ih]

/-- the translated `append` (the statement sequence is fixed by the translator; its parameters come from the tables) -/
def interpAppend (c : Cfg) (s : State α) (batch : List α) : State α :=
  if c.nosort then { s with sorted := s.sorted ++ batch } else
  let items := (interpSort le c OVecFns.batchAsc batch).reverse
  let mr := match s.sorted.getLast? with
    | some last => interpMoveLoop le c last items []
    | none => ([], items)
  let moved := mr.1
  let rest := mr.2
  let demote := match s.sorted.getLast? with
    | some last => (match rest.head? with
      | some x => interpCmp le c OVecFns.demoteOrd x last
      | none => false)
    | none => false
  let subs := if rest.isEmpty then s.subs else s.subs ++ [rest]
  let all := s.sorted ++ moved
  if demote then
    { sorted := [], subs := subs ++ [(interpSort le c OVecFns.demoteAsc all).reverse] }
  else
    { sorted := interpSort le c OVecFns.keepAsc all, subs := subs }

/-- the loop reads `sorted.last().unwrap()`: it must stay behind `if !sorted.is_empty()` -/
theorem loop_guarded : OVecFns.loopGuarded = true := by decide

theorem append_is_model (c : Cfg) (s : State α) (batch : List α) : interpAppend le c s batch = append le c s batch := by
  have hd : ∀ a b : α, interpCmp le c OVecFns.demoteOrd a b = lt le c a b := compare_item_is_model le c
  unfold interpAppend append
  cases hn : c.nosort <;> cases hl : s.sorted.getLast? <;>
    simp [sort_vector_is_model, move_loop_is_model, hd, OVecFns.batchAsc, OVecFns.demoteAsc, OVecFns.keepAsc]
  all_goals (first | rfl | (generalize (moveLoop le c _ _ _) = mr; cases mr.2.head? <;> rfl))

/-- `get`: `None` iff `len() <= index`; the index read is mirrored only under `--tac --no-sort` -/
theorem get_index_is_model (tac nosort : Bool) (n index : Nat) :
    OVecFns.getRead tac nosort n index =
      (if n ≤ index then none else some (if tac && nosort then n - index - 1 else index)) := by
  unfold OVecFns.getRead
  cases tac <;> cases nosort <;> simp <;> (repeat' split) <;> (first | rfl | omega | (simp only [Option.some.injEq]; omega) | simp_all | (simp_all; omega))

/-! ### `merge_till` -/

theorem compare_greater_is_model (c : Cfg) (a b : α) : interpCmp le c .greater a b = lt le c b a := by
  unfold interpCmp lt cmp3 OVecFns.comparePlainIsAB
  cases c.tac <;> simp

/-- does the later head `y` replace the earlier best `x`?  `Iterator::min_by` keeps `x` unless `compare(x, y) == Greater`,
    `max_by` keeps `y` unless `compare(x, y) == Greater` -/
def interpReplace (c : Cfg) (x y : α) : Bool :=
  let greater := if OVecFns.pickComparesAB then interpCmp le c .greater x y else interpCmp le c .greater y x
  if OVecFns.pickIsMinBy then greater else !greater

theorem replace_is_model (c : Cfg) (x y : α) : interpReplace le c x y = lt le c y x := by
  unfold interpReplace
  simp only [OVecFns.pickComparesAB, OVecFns.pickIsMinBy, if_true, compare_greater_is_model]

def interpMinIndexGo (c : Cfg) : Option (Nat × α) → Nat → List (List α) → Option (Nat × α)
  | best, _, [] => best
  | best, i, [] :: vs => interpMinIndexGo c best (i + 1) vs
  | none, i, (y :: _) :: vs => interpMinIndexGo c (some (i, y)) (i + 1) vs
  | some (j, x), i, (y :: _) :: vs =>
    interpMinIndexGo c (if interpReplace le c x y then some (i, y) else some (j, x)) (i + 1) vs

theorem min_index_is_model (c : Cfg) (best : Option (Nat × α)) (i : Nat) (vs : List (List α)) :
    interpMinIndexGo le c best i vs = minIndexGo le c best i vs := by
  induction vs generalizing best i with
  | nil => cases best <;> rfl
  | cons v vs ih =>
    cases v with
    | nil => cases best <;> simp only [interpMinIndexGo, minIndexGo, ih]
    | cons y r =>
      cases best with
      | none => simp only [interpMinIndexGo, minIndexGo, ih]
      | some b => obtain ⟨j, x⟩ := b; simp only [interpMinIndexGo, minIndexGo, ih, replace_is_model]

/-- the translated loop of `merge_till` -/
def interpMergeLoop (c : Cfg) (index : Nat) : Nat → State α → State α
  | 0, s => s
  | fuel + 1, s =>
    if OVecFns.mergeContinues index s.sorted.length then
      match interpMinIndexGo le c none 0 s.subs with
      | none => s
      | some (i, _) =>
        match s.subs[i]? with
        | some (x :: r) =>
          interpMergeLoop c index fuel
            { sorted := s.sorted ++ [x],
              subs := if r.isEmpty && OVecFns.removesEmptied then s.subs.eraseIdx i else s.subs.set i r }
        | _ => s
    else s

theorem merge_loop_is_model (c : Cfg) (index fuel : Nat) (s : State α) :
    interpMergeLoop le c index fuel s = mergeLoop le c index fuel s := by
  induction fuel generalizing s with
  | zero => rfl
  | succ fuel ih =>
    simp only [interpMergeLoop, mergeLoop, minIndex, min_index_is_model, OVecFns.mergeContinues, OVecFns.removesEmptied,
      Bool.and_true, decide_eq_true_eq, ih]
    split
    · cases hm : minIndexGo le c none 0 s.subs with
      | none => rfl
      | some p =>
        obtain ⟨i, y⟩ := p
        cases hs : s.subs[i]? with
        | none => rfl
        | some v => cases v <;> rfl
    · rfl

end SkimModel.OrderedVec
