/-
C12 — field ranges (`--nth`, `--with-nth`, `{N}`) select exactly the designated fields.
Property theorems only (helper lemmas live in `Lemmas/Field.lean`, the model in `Model/Field.lean`,
the declarative spec in `Spec/Field.lean`).

Reading guide.  `x : Bytes` is the line (UTF-8 bytes), `ms` the delimiter matches
`delimiter.find_iter(x)` (a PARAMETER: the regex crate is not modelled), `okMatches x ms` the assumed
contract of `find_iter` (in order, non-overlapping, inside the line, on char boundaries; the driver
evaluates exactly this Boolean on every case).  The line has the fields `1..k`, `k = ms.length + 1`;
`Spec.field x ms i` is the text of field `i`, `Spec.delim x ms i` the delimiter it owns,
`Spec.sel r k` the field numbers a range denotes.  Every model function returns an outer `Option`
whose `none` means "the Rust code panics"; all theorems below prove `some …`, i.e. no panic.
-/
import SkimModel.Lemmas.Field
namespace SkimModel.Field
open Spec

set_option linter.unusedSimpArgs false

/-! ## which fields a range selects -/

/-- `sel` is the set comprehension of the property: field `i` is selected iff it is one of the
    fields `1..k` and lies between the (translated) bounds of the range. -/
theorem c12_sel_mem (r : FieldRange) (k i : Nat) :
    i ∈ sel r k ↔ (1 ≤ i ∧ i ≤ k) ∧ inRange r k i = true := by
  simp [sel, List.mem_range'_1]; omega

/-- `to_index_pair` computes exactly that set: `None` iff nothing is selected (empty or out of
    bounds), and `Some((a, b))` iff the selected fields are `a+1, …, b` (non-empty, inside `1..k`).
    Holds for every `k`, including 0. -/
theorem c12_index_pair (r : FieldRange) (k : Nat) :
    (toIndexPair r k = none ↔ sel r k = []) ∧
    (∀ a b, toIndexPair r k = some (a, b) ↔ (a < b ∧ b ≤ k ∧ sel r k = List.range' (a + 1) (b - a))) := by
  have h := index_pair_spec r k
  cases hh : toIndexPair r k with
  | none =>
    rw [hh] at h; simp only [] at h
    refine ⟨by simp [h], ?_⟩
    intro a b
    simp only [h, reduceCtorEq, false_iff, not_and]
    intro hab _ he
    have : (List.range' (a + 1) (b - a)).length = 0 := by rw [← he]; rfl
    simp at this; omega
  | some ab =>
    obtain ⟨a, b⟩ := ab
    rw [hh] at h; simp only [] at h
    obtain ⟨h1, h2, h3⟩ := h
    constructor
    · simp only [reduceCtorEq, false_iff]
      intro he
      have : (List.range' (a + 1) (b - a)).length = 0 := by rw [← h3, he]; rfl
      simp at this; omega
    · intro a' b'
      constructor
      · intro e; simp only [Option.some.injEq, Prod.mk.injEq] at e
        obtain ⟨rfl, rfl⟩ := e; exact ⟨h1, h2, h3⟩
      · rintro ⟨g1, g2, g3⟩
        rw [h3] at g3
        have hl := congrArg List.length g3
        have hh' := congrArg List.head? g3
        rw [range'_head? _ _ (by omega), range'_head? _ _ (by omega)] at hh'
        simp at hl hh'
        have : a = a' := by omega
        have : b = b' := by omega
        subst_vars; rfl

/-! ## the fields of a line -/

/-- `get_ranges_by_delimiter` yields one range per field, range `j` (0-based) being field `j+1`
    WITHOUT its delimiter; under the `find_iter` contract the fields with the delimiters they own
    tile the line in order: field i owns delimiter i. -/
theorem c12_ranges (x : Bytes) (ms : List (Nat × Nat)) (hm : okMatches x ms = true) :
    (rangesByDelimiter ms x.length).length = ms.length + 1 ∧
    (∀ j, j ≤ ms.length →
      (rangesByDelimiter ms x.length)[j]? = some (fieldStart ms (j + 1), fieldEnd ms x.length (j + 1))) ∧
    (∀ i, 1 ≤ i → i ≤ ms.length + 1 →
      fieldStart ms i ≤ fieldEnd ms x.length i ∧ fieldEnd ms x.length i ≤ delimEnd ms x.length i ∧
      delimEnd ms x.length i ≤ x.length ∧ (i ≤ ms.length → fieldStart ms (i + 1) = delimEnd ms x.length i)) ∧
    (List.range' 1 (ms.length + 1)).flatMap (fun i => field x ms i ++ delim x ms i) = x := by
  refine ⟨ranges_length ms x.length, ?_, ?_, ?_⟩
  · intro j hj; rw [ranges_getElem?, if_pos hj]
  · intro i h1 h2
    have f := field_facts x ms hm i h1 h2
    exact ⟨f.1, f.2.1, f.2.2.1, fun h3 => fieldStart_next ms x.length i h1 h3⟩
  · have c := contiguous x ms hm ms.length 1 (by omega) (by omega)
    have e : (fun i => field x ms i ++ delim x ms i) = fieldD x ms := rfl
    rw [e, ← c.2, fieldStart_one, Nat.add_comm, delimEnd_last, sub_all]

/-! ## the three consumers -/

/-- `--with-nth` (`parse_transform_fields`): the concatenation, range after range in the order
    written, of the selected fields, each with the delimiter it owns.  No panic. -/
theorem c12_with_nth (x : Bytes) (ms : List (Nat × Nat)) (hm : okMatches x ms = true)
    (rs : List FieldRange) :
    parseTransformFields x ms rs =
      some (rs.flatMap (fun r => (sel r (ms.length + 1)).flatMap (fun i => field x ms i ++ delim x ms i))) :=
  parseTransformFields_eq x ms hm rs

/-- `{N}` placeholders (`get_string_by_field`): `None` iff the range selects nothing, otherwise the
    selected fields with their delimiters except that the LAST field comes without its trailing
    delimiter.  No panic. -/
theorem c12_placeholder (x : Bytes) (ms : List (Nat × Nat)) (hm : okMatches x ms = true)
    (r : FieldRange) :
    getStringByField x ms r = some (
      match (sel r (ms.length + 1)).getLast? with
      | none => none
      | some l => some ((sel r (ms.length + 1)).dropLast.flatMap (fun i => field x ms i ++ delim x ms i)
                        ++ field x ms l)) :=
  getStringByField_eq x ms hm r

/-- `get_string_by_range` = grammar, then `get_string_by_field`; junk yields `None`. -/
theorem c12_placeholder_range (isD : Char → Bool) (x : Bytes) (ms : List (Nat × Nat))
    (hm : okMatches x ms = true) (s : List Char) :
    getStringByRange isD x ms s = some ((fromStr isD s).bind (specPlaceholder x ms)) := by
  unfold getStringByRange
  cases fromStr isD s with
  | none => rfl
  | some f => simp [getStringByField_eq x ms hm f]

/-- `--nth` (`parse_matching_fields`): one byte span per range that selects something, in the order
    written: from the start of its first selected field to the end of the delimiter owned by its
    last selected field.  Needs no assumption on the matches (nothing is sliced). -/
theorem c12_nth (x : Bytes) (ms : List (Nat × Nat)) (rs : List FieldRange) :
    parseMatchingFields x ms rs = some (rs.filterMap (fun r =>
      match (sel r (ms.length + 1)).head?, (sel r (ms.length + 1)).getLast? with
      | some f, some l => some (fieldStart ms f, delimEnd ms x.length l)
      | _, _ => none)) :=
  parseMatchingFields_eq x ms rs

/-- the span of a range covers exactly its selected fields: the bytes of the span are the
    concatenation of those fields (with their delimiters). -/
theorem c12_nth_content (x : Bytes) (ms : List (Nat × Nat)) (hm : okMatches x ms = true)
    (r : FieldRange) (b e : Nat) (h : spanOf ms x.length r = some (b, e)) :
    sub x b e = (sel r (ms.length + 1)).flatMap (fun i => field x ms i ++ delim x ms i) := by
  rcases spanOf_cases ms x.length r with ⟨_, hn⟩ | ⟨a, n, ha, hn, hs, hsp⟩
  · rw [hn] at h; cases h
  · rw [hsp] at h; cases h
    rw [hs]; exact (contiguous x ms hm n a ha hn).2

/-- all byte ranges produced for `--nth` lie inside the line, are well-ordered and fall on
    character boundaries (so the engines can slice them without panic). -/
theorem c12_boundaries (x : Bytes) (ms : List (Nat × Nat)) (hm : okMatches x ms = true)
    (rs : List FieldRange) : ValidSpans x (specNth x ms rs) := by
  intro p hp
  simp only [specNth, List.mem_filterMap] at hp
  obtain ⟨r, _, hr⟩ := hp
  rcases spanOf_cases ms x.length r with ⟨_, hn⟩ | ⟨a, n, ha, hn, hs, hsp⟩
  · rw [hn] at hr; cases hr
  · rw [hsp] at hr; cases hr
    have c := contiguous x ms hm n a ha hn
    have f := field_facts x ms hm (a + n) (by omega) hn
    exact ⟨c.1, f.2.2.1, fieldStart_boundary x ms hm a ha (by omega), f.2.2.2.2⟩

/-- the strings produced by `--with-nth` and `{N}` are slices of the line on character boundaries:
    the model's `slice` (= `&text[b..e]`, which panics off a boundary) succeeded for each of them. -/
theorem c12_no_panic (isD : Char → Bool) (x : Bytes) (ms : List (Nat × Nat)) (hm : okMatches x ms = true)
    (rs : List FieldRange) (s : List Char) :
    (parseTransformFields x ms rs).isSome = true ∧ (parseMatchingFields x ms rs).isSome = true ∧
    (getStringByRange isD x ms s).isSome = true := by
  rw [c12_with_nth x ms hm, c12_nth, c12_placeholder_range isD x ms hm]; simp


/-- The item built for a line (`DefaultSkimItem::new`, no `--ansi`): its text is the `--with-nth`
    concatenation (the line itself without `--with-nth`), and its matching ranges are the `--nth`
    spans of THAT text — valid spans of it whenever the delimiter matches on it (`ms'`) satisfy the
    contract, so the engines' slicing cannot panic. -/
theorem c12_item (x : Bytes) (ms ms' : List (Nat × Nat)) (hm : okMatches x ms = true)
    (trans matching : List FieldRange) :
    let text := if trans = [] then x else specWithNth x ms trans
    itemNew x ms trans matching ms' =
      some (text, if matching = [] then none else some (specNth text ms' matching)) ∧
    (okMatches text ms' = true → ValidSpans text (specNth text ms' matching)) := by
  intro text
  refine ⟨?_, fun h => c12_boundaries text ms' h matching⟩
  unfold itemNew
  cases trans with
  | nil =>
    cases matching with
    | nil => simp [text]
    | cons m ms2 => simp [text, parseMatchingFields_eq]
  | cons t ts =>
    cases matching with
    | nil => simp [text, parseTransformFields_eq x ms hm]
    | cons m ms2 => simp [text, parseTransformFields_eq x ms hm, parseMatchingFields_eq]

/-! ## matching restricted to the selected fields -/

/-- Exact and regex engines (`inverse = false` for the latter) on an item whose matching ranges are
    valid spans: the item matches iff the term matches inside one of the spans; the first such span
    (in the order written) decides and the position found inside it is shifted by the span's start.
    `find` is the external regex search on the slice. -/
theorem c12_nth_restricts (find : Bytes → Option (Nat × Nat)) (inverse : Bool) (text : Bytes)
    (spans : List (Nat × Nat)) (hv : ValidSpans text spans) :
    matchBytes find false inverse text (some spans) = some (specMatch find inverse text spans) := by
  simp [matchBytes, matchBytes_go find inverse text spans hv]

/-- consequence spelled out for a plain (non-inverse) term: there is a match iff the term matches
    inside some selected span -/
theorem c12_nth_restricts_iff (find : Bytes → Option (Nat × Nat)) (text : Bytes)
    (spans : List (Nat × Nat)) :
    (specMatch find false text spans).isSome = true ↔
      ∃ p ∈ spans, (find (sub text p.1 p.2)).isSome = true := by
  unfold specMatch
  cases h : spans.find? (fun p => (find (sub text p.1 p.2)).isSome != false) with
  | none =>
    simp only [Option.isSome_none, Bool.false_eq_true, false_iff, not_exists, not_and]
    intro p hp
    have := List.find?_eq_none.mp h p hp
    simpa using this
  | some p =>
    have h1 := List.find?_some h
    have h2 := List.mem_of_find?_eq_some h
    simp only [bne_iff_ne, ne_eq, Bool.not_eq_false] at h1
    simp only [Bool.false_eq_true, if_false, Option.isSome_map, h1, true_iff]
    exact ⟨p, h2, h1⟩

/-- the empty exact term (`^`, `$`, `^$`: `ExactEngine` keeps no regex) matches exactly when there is
    at least one selected span — with `--nth` selecting nothing, nothing matches -/
theorem c12_empty_term (find : Bytes → Option (Nat × Nat)) (inverse : Bool) (text : Bytes)
    (spans : List (Nat × Nat)) :
    matchBytes find true inverse text (some spans) = some (if spans = [] then none else some (0, 0)) := by
  cases spans with
  | nil => simp [matchBytes, matchBytes.go]
  | cons p rest => obtain ⟨s, e⟩ := p; simp [matchBytes, matchBytes.go]

/-- without `--nth` the only span is the whole line -/
theorem c12_no_nth (find : Bytes → Option (Nat × Nat)) (inverse : Bool) (text : Bytes) :
    matchBytes find false inverse text none = some (specMatch find inverse text [(0, text.length)]) := by
  have hv : ValidSpans text [(0, text.length)] := by
    intro p hp; simp at hp; subst hp; simp [isBoundary_zero, isBoundary_len]
  simp [matchBytes, matchBytes_go find inverse text _ hv]

/-- positions are relative to the whole line: if the term was found at `[b, e)` inside the slice of
    span `[s, t)`, the reported range `[b+s, e+s)` lies inside the span and reads the very same bytes
    in the whole line. -/
theorem c12_positions (text : Bytes) (s t b e : Nat) (hst : s ≤ t) (he : e ≤ (sub text s t).length) :
    s ≤ b + s ∧ e + s ≤ t ∧ sub text (b + s) (e + s) = sub (sub text s t) b e := by
  have hl : (sub text s t).length = min (t - s) (text.length - s) := by simp [sub]
  have h1 : e ≤ t - s := by omega
  exact ⟨by omega, by omega, (sub_sub text s t b e h1).symm⟩

/-- Fuzzy engine: the first span inside which the query matches decides; the char indices found
    inside the slice are shifted by the number of characters before the span. -/
theorem c12_nth_restricts_fuzzy (fz : Bytes → Option (List Nat)) (text : Bytes)
    (spans : List (Nat × Nat)) (hv : ValidSpans text spans) :
    matchChars fz text (some spans) = some (specMatchChars fz text spans) := by
  simp [matchChars, matchChars_go fz text spans hv]

/-- … and that shift is right: character number `n` of the slice `[s, t)` is character number
    `n + (characters before s)` of the whole line and starts at the same byte. -/
theorem c12_char_offset (text : Bytes) (s t n : Nat) (h1 : s ≤ t) (h2 : t ≤ text.length)
    (hn : n < charCount (sub text s t)) :
    (charStarts 0 text)[n + charCount (sub text 0 s)]? =
      ((charStarts 0 (sub text s t))[n]?).map (· + s) :=
  char_offset text s t n h1 h2 hn


/-! ## the range grammar -/

/-- Every string in one of the four written forms `N`, `N..`, `..M`, `N..M` (decimal numerals with
    optional `-`, inside `i32`) is parsed by `from_str` to the range it denotes.  `isD` is the regex
    class `\d`; all that is assumed about it is that it contains the ASCII digits and not `.`.
    (Numbers outside `i32` are outside the property: the code falls back to 1 / -1 there.) -/
theorem c12_parse (isD : Char → Bool) (hd : ∀ c, isAsciiDigit c = true → isD c = true)
    (hdot : isD '.' = false) (s : List Char) (r : FieldRange) (h : specParse s = some r) :
    fromStr isD s = some r :=
  fromStr_of_specParse isD hd hdot s r h


/-- Junk yields `None`: whatever `from_str` accepts has the shape `(-?\d+)?(\.\.)?(-?\d+)?`
    (`Cap` = what the numeric group can capture). -/
theorem c12_parse_junk (isD : Char → Bool) (s : List Char) (h : (fromStr isD s).isSome = true) :
    ∃ l sep r, s = l ++ sep ++ r ∧ Cap isD l ∧ (sep = [] ∨ sep = ['.', '.']) ∧ Cap isD r :=
  fromStr_shape isD s h

/-- non-vacuity and the corner cases of the grammar, on the class `\d` = ASCII digits -/
example : specParse "-2..3".toList = some (.both (-2) 3) := by decide
example : fromStr isAsciiDigit "-2..3".toList = some (.both (-2) 3) := by decide
example : fromStr isAsciiDigit "..".toList = some (.rightInf 0) := by decide
example : fromStr isAsciiDigit "".toList = some (.rightInf 0) := by decide
example : fromStr isAsciiDigit "1-2".toList = some (.both 1 (-2)) := by decide
example : fromStr isAsciiDigit "1...2".toList = none := by decide
example : fromStr isAsciiDigit "a..".toList = none := by decide
example : fromStr isAsciiDigit "-".toList = none := by decide
example : fromStr isAsciiDigit "99999999999..-99999999999".toList = some (.both 1 (-1)) := by decide

/-- non-vacuity of the contract and of the consumers: the line `a,b,,c` with delimiter `,` -/
example : okMatches [97, 44, 98, 44, 44, 99] [(1, 2), (3, 4), (4, 5)] = true := by decide
example : parseTransformFields [97, 44, 98, 44, 44, 99] [(1, 2), (3, 4), (4, 5)] [.single 4, .leftInf 2] =
    some [99, 97, 44, 98, 44] := by decide
example : getStringByField [97, 44, 98, 44, 44, 99] [(1, 2), (3, 4), (4, 5)] (.both (-3) 3) =
    some (some [98, 44]) := by decide
example : parseMatchingFields [97, 44, 98, 44, 44, 99] [(1, 2), (3, 4), (4, 5)] [.single 9, .rightInf (-2)] =
    some [(4, 6)] := by decide
/-- a match list that breaks the contract (a "match" inside the 3-byte character 中) makes the model
    report the panic instead of inventing a result -/
example : okMatches [228, 184, 173] [(1, 2)] = false := by decide
example : parseTransformFields [228, 184, 173] [(1, 2)] [.single 2] = none := by decide
/-- `ValidSpans` / `c12_positions` hypotheses are met by the spans of that line -/
example : ValidSpans [97, 44, 98, 44, 44, 99] [(2, 4), (4, 6)] := by
  intro p hp; simp at hp; rcases hp with rfl | rfl <;> decide

/-- `c12_char_offset` / `c12_positions` on the line `中,a中b` (bytes), span `[4, 9)` = field 2 -/
example : charStarts 0 [228, 184, 173, 44, 97, 228, 184, 173, 98] = [0, 3, 4, 5, 8] := by decide
example : (2 : Nat) < charCount (sub [228, 184, 173, 44, 97, 228, 184, 173, 98] 4 9) := by decide
example : (charStarts 0 [228, 184, 173, 44, 97, 228, 184, 173, 98])[2 + charCount (sub [228, 184, 173, 44, 97, 228, 184, 173, 98] 0 4)]? = some 8 := by decide
example : (4 : Nat) ≤ (sub [228, 184, 173, 44, 97, 228, 184, 173, 98] 4 9).length := by decide

end SkimModel.Field
