import SkimModel.Model.Positions
import SkimModel.Model.LinePrinter
import SkimModel.Model.Draw
import SkimModel.Generated.ReshapeFns
import SkimModel.Lemmas.FnTactics
/-!
`reshape_string` of src/util.rs as TRANSLATED from the source on every run (`Generated/ReshapeFns.lean`: indexing outside the vector
reads 0, subtraction is truncated) computes, wherever the C08 model's `Positions.reshapeString` says "no panic, result `r`", exactly `r`
(`reshape_is_model`).  Two steps: the translated function equals a hand-written TOTAL version (`reshape_is_total`, closed by the
shape-independent `fn_eq`), and the total version agrees with the model on every non-panicking input (`total_is_model`, independent of
the source).  The model's own theorems (`c08_consumers_total`) show that valid match positions never reach a panic.
-/
set_option linter.unusedSimpArgs false
namespace SkimModel.Positions
open SkimModel.Generated

/-- `reshape_string` with total indexing / subtraction, written by hand in the shape of the model -/
def reshapeTotalP (textEmpty : Bool) (acc : List Nat) (cw ms me : Nat) : Nat × Nat :=
  if textEmpty then (0, 0)
  else
    let full := ReshapeFns.accAt acc (acc.length - 1)
    if full ≤ cw then (0, full)
    else
      let w1 := if ms = 0 then 0 else ReshapeFns.accAt acc (ms - 1)
      let w2 := if me ≥ acc.length then full - w1 else ReshapeFns.accAt acc me - w1
      let w3 := full - w1 - w2
      if (w1 > w3 ∧ w2 + w3 ≤ cw) ∨ w3 ≤ 2 then (full - cw, full)
      else if w1 ≤ w3 ∧ w1 + w2 ≤ cw then (0, full)
      else (ReshapeFns.accAt acc me - cw + 2, full)

/-- the C08 model passes `acc.isEmpty` (one entry per character) -/
def reshapeTotal (acc : List Nat) (cw ms me : Nat) : Nat × Nat := reshapeTotalP acc.isEmpty acc cw ms me

theorem reshape_is_total (e : Bool) (acc : List Nat) (cw ms me : Nat) :
    ReshapeFns.reshape e acc acc.length cw ms me = reshapeTotalP e acc cw ms me := by
  unfold ReshapeFns.reshape reshapeTotalP
  generalize ReshapeFns.accAt acc (acc.length - 1) = aF
  generalize ReshapeFns.accAt acc (ms - 1) = aS
  generalize ReshapeFns.accAt acc me = aE
  generalize acc.length = n
  -- the inner conditionals (`w1`, `w2`) are decided first, so that what is left is linear arithmetic under `if`s
  by_cases hm : ms = 0 <;> by_cases hn : me ≥ n <;>
    (first
      | (simp only [hm, hn, if_true, if_false, ge_iff_le, gt_iff_lt] <;> fn_eq)
      | (simp only [hm, hn, if_true, if_false] <;> (repeat' split) <;> (simp only [Prod.mk.injEq] at *) <;> omega)
      | (simp [hm, hn] <;> (repeat' split) <;> (try simp only [Prod.mk.injEq] at *) <;> omega))

theorem total_is_model (acc : List Nat) (cw ms me : Nat) (r : Nat × Nat)
    (h : reshapeString acc cw ms me = some r) : reshapeTotal acc cw ms me = r := by
  unfold reshapeString at h
  unfold reshapeTotal reshapeTotalP ReshapeFns.accAt
  obtain ⟨r1, r2⟩ := r
  generalize acc[acc.length - 1]? = oF at h ⊢
  generalize acc[ms - 1]? = oS at h ⊢
  generalize acc[me]? = oE at h ⊢
  generalize acc.isEmpty = em at h ⊢
  generalize acc.length = n at h ⊢
  cases em
  case true => simpa using h
  case false =>
    cases oF with
    | none => simp at h
    | some full =>
      by_cases hfc : full ≤ cw
      · simpa [hfc] using h
      · by_cases hm : ms = 0 <;> by_cases hn : me ≥ n <;> cases oS <;> cases oE <;>
          simp [hfc, hm, hn, csub] at h ⊢
        all_goals (first | omega | skip)
        all_goals ((repeat' split at h) <;> (try (simp only [Option.some.injEq, Prod.mk.injEq, reduceCtorEq, Option.bind_some, Option.bind_none] at *)) <;> (try (repeat' split at *)) <;> (try (simp only [Option.some.injEq, Prod.mk.injEq, reduceCtorEq] at *)) <;> (try omega))
        all_goals (try (simp only [Option.bind_some, Option.bind_none, reduceCtorEq] at *))
        all_goals (try (repeat' split at *))
        all_goals (try (simp only [Option.some.injEq, reduceCtorEq] at *))
        all_goals (try omega)

theorem total_is_printer_model (chw : Char → Nat) (text : List Char) (cw ms me tabstop : Nat) (r : Nat × Nat)
    (h : SkimModel.Draw.reshapeString chw text cw ms me tabstop = some r) :
    reshapeTotalP text.isEmpty (SkimModel.Draw.accumulateTextWidth chw text tabstop) cw ms me = r := by
  unfold SkimModel.Draw.reshapeString SkimModel.Draw.reshapeW1 SkimModel.Draw.reshapeW2 SkimModel.Draw.reshapeW3 at h
  unfold reshapeTotalP ReshapeFns.accAt
  simp only [] at h
  generalize SkimModel.Draw.accumulateTextWidth chw text tabstop = acc at h ⊢
  obtain ⟨r1, r2⟩ := r
  generalize acc[acc.length - 1]? = oF at h ⊢
  generalize acc[ms - 1]? = oS at h ⊢
  generalize acc[me]? = oE at h ⊢
  generalize text.isEmpty = em at h ⊢
  generalize acc.length = n at h ⊢
  cases em
  case true => simpa using h
  case false =>
    cases oF with
    | none => simp at h
    | some full =>
      by_cases hfc : full ≤ cw
      · simpa [hfc] using h
      · by_cases hm : ms = 0 <;> by_cases hn : me ≥ n <;> cases oS <;> cases oE <;>
          simp [hfc, hm, hn, SkimModel.Draw.csub] at h ⊢
        all_goals (first | omega | skip)
        all_goals ((repeat' split at h) <;> (try (simp only [Option.some.injEq, Prod.mk.injEq, reduceCtorEq, Option.bind_some, Option.bind_none] at *)) <;> (try (repeat' split at *)) <;> (try (simp only [Option.some.injEq, Prod.mk.injEq, reduceCtorEq] at *)) <;> (try omega))
        all_goals (try (simp only [Option.bind_some, Option.bind_none, reduceCtorEq] at *))
        all_goals (try (repeat' split at *))
        all_goals (try (simp only [Option.some.injEq, reduceCtorEq] at *))
        all_goals (try omega)

/-- the translated `reshape_string` returns what the model returns, wherever the model says the Rust does not panic -/
theorem reshape_is_model (acc : List Nat) (cw ms me : Nat) (r : Nat × Nat)
    (h : reshapeString acc cw ms me = some r) :
    ReshapeFns.reshape acc.isEmpty acc acc.length cw ms me = r := by
  rw [reshape_is_total]; exact total_is_model acc cw ms me r h

/-- the same against the C11 model (`SkimModel.Draw.reshapeString`, on the text and the width function) -/
theorem reshape_is_printer_model (chw : Char → Nat) (text : List Char) (cw ms me tabstop : Nat) (r : Nat × Nat)
    (h : SkimModel.Draw.reshapeString chw text cw ms me tabstop = some r) :
    ReshapeFns.reshape text.isEmpty (SkimModel.Draw.accumulateTextWidth chw text tabstop)
      (SkimModel.Draw.accumulateTextWidth chw text tabstop).length cw ms me = r := by
  rw [reshape_is_total]; exact total_is_printer_model chw text cw ms me tabstop r h

/-! ### `accumulate_text_width` -/

/-- the translated loop over the characters of the C08 model (`none` = a tab, `some k` = display width `k`) -/
def interpAcc (tabstop w : Nat) : List (Option Nat) → List Nat
  | [] => []
  | c :: cs =>
    let w' := ReshapeFns.accStep tabstop w c.isNone (c.getD 0)
    w' :: interpAcc tabstop w' cs

theorem acc_step_is_model (tabstop w : Nat) (c : Option Nat) (ht : 0 < tabstop) :
    ReshapeFns.accStep tabstop w c.isNone (c.getD 0) = w + (match c with | none => tabstop - w % tabstop | some k => k) := by
  unfold ReshapeFns.accStep
  have hmod := Nat.mod_lt w ht
  cases c <;> simp <;> fn_eq

/-- (`tabstop = 0` is a division by zero in the Rust; `drawShift` returns `none` there) -/
theorem accumulate_is_model (tabstop w : Nat) (cs : List (Option Nat)) (ht : 0 < tabstop) : interpAcc tabstop w cs = accWidth tabstop w cs := by
  induction cs generalizing w with
  | nil => rfl
  | cons c cs ih =>
    simp only [interpAcc, accWidth, acc_step_is_model _ _ _ ht, ih]
    cases c <;> rfl

/-- the same loop over the characters of the C11 model (a width function on `Char`) -/
def interpAccP (chw : Char → Nat) (tabstop w : Nat) : List Char → List Nat
  | [] => []
  | ch :: t =>
    let w' := ReshapeFns.accStep tabstop w (ch == '\t') (chw ch)
    w' :: interpAccP chw tabstop w' t

theorem accumulate_is_printer_model (chw : Char → Nat) (tabstop w : Nat) (t : List Char) (ht : 0 < tabstop) :
    interpAccP chw tabstop w t = SkimModel.Draw.accFrom chw tabstop w t := by
  induction t generalizing w with
  | nil => rfl
  | cons ch t ih =>
    have hs : ReshapeFns.accStep tabstop w (ch == '\t') (chw ch) = w + (if ch = '\t' then tabstop - w % tabstop else chw ch) := by
      unfold ReshapeFns.accStep
      have hmod := Nat.mod_lt w ht
      by_cases h : ch = '\t' <;> simp [h] <;> fn_eq
    simp only [interpAccP, SkimModel.Draw.accFrom, hs, ih]

theorem acc_init_is_model : ReshapeFns.accInit = 0 := by decide

/-! ### `draw_item`: the shift handed to the line printer -/

/-- against the C11 model (`View.shiftOf`) -/
theorem draw_shift_is_printer_model (v : SkimModel.Draw.View) (text : List Char) (cwidth ms me shift full : Nat) :
    ReshapeFns.drawShift v.noHscroll v.keepRight (v.calcSkipWidth text) ms me full cwidth shift =
      v.shiftOf text cwidth ms me shift full := by
  unfold ReshapeFns.drawShift SkimModel.Draw.View.shiftOf
  cases v.noHscroll <;> cases v.keepRight <;> simp <;> fn_eq

/-- against the C08 model: the last step of `drawShift` -/
theorem draw_shift_is_model (noHscroll keepRight : Bool) (skip ms me full cw shift : Nat) :
    ReshapeFns.drawShift noHscroll keepRight skip ms me full cw shift =
      (if noHscroll then 0 else if ms == 0 && me == 0 then (if keepRight then max full cw - cw else skip) else shift) := by
  unfold ReshapeFns.drawShift
  cases noHscroll <;> cases keepRight <;> simp <;> fn_eq

/-- `container_width = screen_width - 2`, refused below 3 columns (`drawItem` of the C11 model) -/
theorem container_width_is_model (w : Nat) : ReshapeFns.containerWidth w = w - 2 ∧ ReshapeFns.minScreenWidth = 3 := by
  unfold ReshapeFns.containerWidth ReshapeFns.minScreenWidth
  exact ⟨by omega, rfl⟩

/-! ### `draw_item`: `(match_start_char, match_end_char)`; `calc_skip_width` -/

def bndD (text : SkimModel.Field.Bytes) (s e : Nat) (left : Bool) : ReshapeFns.Bound → Nat
  | .open => if left then 0 else text.length
  | .start => s
  | .stop => e

/-- the translated `(match_start_char, match_end_char)`; `none` = a slice of `item_text` panics -/
def interpMatchStartEnd (text : SkimModel.Field.Bytes) : MatchRange → Option (Nat × Nat)
  | .chars v => some (ReshapeFns.matchStartEndChars v.isEmpty v v.length)
  | .bytes s e =>
    match SkimModel.Field.slice text (bndD text s e true ReshapeFns.startSlice.1) (bndD text s e false ReshapeFns.startSlice.2),
          SkimModel.Field.slice text (bndD text s e true ReshapeFns.diffSlice.1) (bndD text s e false ReshapeFns.diffSlice.2) with
    | some pre, some mid => some (SkimModel.Field.charCount pre, SkimModel.Field.charCount pre + SkimModel.Field.charCount mid)
    | _, _ => none

/-- wherever the model says "no panic, result `r`", the translated code returns `r` (the index reads of the `Chars` arm are the only
    place where the translated code is total and the Rust is not) -/
theorem match_start_end_is_model (text : SkimModel.Field.Bytes) (m : MatchRange) (r : Nat × Nat) (h : matchStartEnd text m = some r) :
    interpMatchStartEnd text m = some r := by
  cases m with
  | bytes s e =>
    simp only [matchStartEnd, byteToCharRange] at h
    simp only [interpMatchStartEnd, ReshapeFns.startSlice, ReshapeFns.diffSlice, bndD, if_true]
    exact h
  | chars v =>
    simp only [matchStartEnd] at h
    simp only [interpMatchStartEnd, ReshapeFns.matchStartEndChars, ReshapeFns.accAt, Option.some.injEq]
    cases hv : v.isEmpty with
    | true => simp [hv] at h ⊢; first | exact h | omega | simp_all
    | false =>
      simp only [hv] at h
      cases h0 : v[0]? <;> cases h1 : v[v.length - 1]? <;> simp [h0, h1] at h ⊢
      obtain ⟨r1, r2⟩ := r
      simp only [Prod.mk.injEq] at h ⊢
      first | exact h | omega | (constructor <;> omega)

theorem match_start_end_none : ReshapeFns.matchStartEndNone = (0, 0) := by decide

/-- `calc_skip_width` against the C11 model -/
theorem calc_skip_width_is_model (v : SkimModel.Draw.View) (text : List Char) :
    ReshapeFns.skipTail (match v.skip with
      | none => ReshapeFns.skipNoPattern
      | some p => (SkimModel.Draw.skipBefore v.cwj p text).getD ReshapeFns.skipNoMatch) = v.calcSkipWidth text := by
  unfold SkimModel.Draw.View.calcSkipWidth ReshapeFns.skipTail ReshapeFns.skipNoPattern ReshapeFns.skipNoMatch
  cases v.skip <;> simp <;> fn_eq

end SkimModel.Positions
