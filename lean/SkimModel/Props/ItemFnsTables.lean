import SkimModel.Model.Reader
import SkimModel.Generated.ItemFns
/-!
The glue of `DefaultSkimItem::new` and `DefaultSkimItem::output` as TRANSLATED from src/helper/item.rs (`Generated/ItemFns.lean`,
rewritten from the source on every run), with the library functions (`parse_transform_fields`, `ANSIParser::parse_ansi`, `.into()`,
`AnsiString::stripped` / `has_attrs`, `parse_matching_fields`) as parameters related to the model's `Fns` by the stated equations:

* which text is kept as the original, which text the item shows and is matched on, and whether it carries attributes, are the C06
  model's `newDefault` — for every combination of --ansi / --with-nth / --nth;
* the `--nth` ranges are computed on the STRIPPED ITEM TEXT (what is shown and matched), never on the raw or untransformed line
  (the clause seeds C06-h and C12-g break);
* `output()` is the model's `Item.output`.
-/
namespace SkimModel.Reader
open SkimModel.Generated

variable {A R : Type}

/-- the parameters of the translated glue stand for the model's library functions -/
structure Stands (f : Fns) (parseAnsi plain : Bytes → A) (stripped : A → Bytes) (hasA : A → Bool) : Prop where
  plain_stripped : ∀ x, stripped (plain x) = x
  plain_attrs : ∀ x, hasA (plain x) = false
  ansi_stripped : ∀ x, stripped (parseAnsi x) = f.stripAnsi x
  ansi_attrs : ∀ x, hasA (parseAnsi x) = f.hasAttrs x

theorem item_new_is_model (o : Opt) (f : Fns) (parseAnsi plain : Bytes → A) (stripped : A → Bytes) (hasA : A → Bool)
    (ranges : Bytes → R) (h : Stands f parseAnsi plain stripped hasA) (line : Bytes) :
    let g := ItemFns.itemNew f.transform parseAnsi plain stripped hasA ranges line o.ansi o.withNth o.nth
    newDefault o f line = .dflt g.1 (stripped g.2.1) (hasA g.2.1) ∧
    g.2.2 = (if o.nth then some (ranges (stripped g.2.1)) else none) := by
  unfold ItemFns.itemNew newDefault
  cases ha : o.ansi <;> cases hw : o.withNth <;> cases hn : o.nth <;>
    simp [h.plain_stripped, h.plain_attrs, h.ansi_stripped, h.ansi_attrs]

theorem item_output_is_model (f : Fns) (parseAnsi plain : Bytes → A) (stripped : A → Bytes) (hasA : A → Bool)
    (ranges : Bytes → R) (h : Stands f parseAnsi plain stripped hasA) (orig : Option Bytes) (text : A) :
    ItemFns.itemOutput f.transform parseAnsi plain stripped hasA ranges orig.isSome (orig.getD []) text =
      (Item.dflt orig (stripped text) (hasA text)).output f := by
  unfold ItemFns.itemOutput Item.output
  cases orig with
  | none => simp
  | some x => cases hh : hasA text <;> simp [hh, h.ansi_stripped]

end SkimModel.Reader
