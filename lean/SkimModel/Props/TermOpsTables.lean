import SkimModel.Model.Engine
import SkimModel.Generated.TermOps
/-!
`ExactOrFuzzyEngineFactory::create_engine_with_case` as TRANSLATED statement by statement from src/engine/factory.rs
(`Generated/TermOps.lean`, rewritten from the source on every run): interpreting the program IS the C03 model's `decodeTerm`, for
every term and both exact modes.  So the engine a term decodes to — which operator prefix is honoured in which order, what an empty
rest means, what exact mode changes — is what the source says now, by proof.
-/
namespace SkimModel.Engine
open SkimModel.Generated SkimModel.Generated.TermOps

/-- the locals of `create_engine_with_case` -/
structure Loc where
  q : List Char
  exact : Bool := false
  inv : Bool := false
  pre : Bool := false
  post : Bool := false

def simple (l : Loc) : Simple → Loc
  | .setExact => { l with exact := true }
  | .setInverse => { l with inv := true }
  | .setPrefix => { l with pre := true }
  | .setPostfix => { l with post := true }
  | .dropFirst => { l with q := l.q.tail }
  | .dropLast => { l with q := l.q.dropLast }

/-- one statement: either the function returns (`inl`) or goes on with new locals (`inr`) -/
def stmt (exactMode : Bool) (l : Loc) : Stmt → TermEngine ⊕ Loc
  | .ifStarts c body => if l.q.head? == some c then .inr (body.foldl simple l) else .inr l
  | .ifEnds c body => if l.q.getLast? == some c then .inr (body.foldl simple l) else .inr l
  | .ifStartsFuzzyInExactMode c body =>
      if l.q.head? == some c then
        (if exactMode then .inl (.fuzzy l.q.tail) else .inr (body.foldl simple l))
      else .inr l
  | .ifEmptyReturnAll => if l.q.isEmpty then .inl .all else .inr l
  | .ifExactMode body => if exactMode then .inr (body.foldl simple l) else .inr l
  | .finish => .inl (if l.exact then .exact l.q l.pre l.post l.inv else .fuzzy l.q)

def runProg (exactMode : Bool) : Loc → List Stmt → Option TermEngine
  | _, [] => none
  | l, s :: ss =>
    match stmt exactMode l s with
    | .inl r => some r
    | .inr l' => runProg exactMode l' ss

/-- from the `is_empty` test on: the anchors -/
theorem anchors_eq (exactMode exact inv : Bool) (q : List Char) (hq : q ≠ []) :
    runProg exactMode { q := q, exact := exact, inv := inv } (TermOps.program.drop 2) =
      some (decodeAnchors exactMode exact inv q) := by
  unfold TermOps.program
  cases q with
  | nil => exact absurd rfl hq
  | cons a r =>
    by_cases ha : a = '^'
    · subst ha
      cases hp : endsWithDollar r <;> cases exactMode <;> cases exact <;>
        simp_all [runProg, stmt, simple, decodeAnchors, endsWithDollar]
    · have hne : ¬ (some a = some '^') := by simpa using ha
      cases hp : endsWithDollar (a :: r) <;> cases exactMode <;> cases exact <;>
        simp_all [runProg, stmt, simple, decodeAnchors, endsWithDollar]

/-- from the `!` test on -/
theorem rest_eq (exactMode exact : Bool) (q : List Char) :
    runProg exactMode { q := q, exact := exact } (TermOps.program.drop 1) = some (decodeRest exactMode exact q) := by
  cases q with
  | nil => cases exactMode <;> cases exact <;> simp [TermOps.program, runProg, stmt, simple, decodeRest]
  | cons a r =>
    by_cases ha : a = '!'
    · subst ha
      cases r with
      | nil => cases exactMode <;> cases exact <;> simp [TermOps.program, runProg, stmt, simple, decodeRest]
      | cons b r' =>
        have h := anchors_eq exactMode true true (b :: r') (by simp)
        have e1 : runProg exactMode { q := '!' :: b :: r', exact := exact } (TermOps.program.drop 1) =
            runProg exactMode { q := b :: r', exact := true, inv := true } (TermOps.program.drop 2) := by
          simp [TermOps.program, runProg, stmt, simple]
        rw [e1, h]; simp [decodeRest]
    · have h := anchors_eq exactMode exact false (a :: r) (by simp)
      have e1 : runProg exactMode { q := a :: r, exact := exact } (TermOps.program.drop 1) =
          runProg exactMode { q := a :: r, exact := exact, inv := false } (TermOps.program.drop 2) := by
        simp [TermOps.program, runProg, stmt, simple, ha]
      rw [e1, h]
      cases r <;> simp [decodeRest, ha]

/-- the translated program decodes every term to the engine the model's `decodeTerm` gives -/
theorem term_program_is_model (exactMode : Bool) (q : List Char) :
    runProg exactMode { q := q } TermOps.program = some (decodeTerm exactMode q) := by
  cases q with
  | nil =>
    have h := rest_eq exactMode false []
    have e1 : runProg exactMode { q := [] } TermOps.program = runProg exactMode { q := [], exact := false } (TermOps.program.drop 1) := by
      simp [TermOps.program, runProg, stmt]
    rw [e1, h]; simp [decodeTerm]
  | cons a r =>
    by_cases ha : a = '\''
    · subst ha
      cases exactMode with
      | true => simp [TermOps.program, runProg, stmt, decodeTerm]
      | false =>
        have h := rest_eq false true r
        have e1 : runProg false { q := '\'' :: r } TermOps.program = runProg false { q := r, exact := true } (TermOps.program.drop 1) := by
          simp [TermOps.program, runProg, stmt, simple]
        rw [e1, h]; simp [decodeTerm]
    · have h := rest_eq exactMode false (a :: r)
      have e1 : runProg exactMode { q := a :: r } TermOps.program =
          runProg exactMode { q := a :: r, exact := false } (TermOps.program.drop 1) := by
        simp [TermOps.program, runProg, stmt, ha]
      rw [e1, h]
      simp [decodeTerm, ha]

end SkimModel.Engine
