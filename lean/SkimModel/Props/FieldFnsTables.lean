import SkimModel.Model.Field
import SkimModel.Generated.FieldFns
import SkimModel.Lemmas.FnTactics
/-!
`FieldRange::translate_neg` and the four arms of `FieldRange::to_index_pair` as TRANSLATED from src/field.rs
(`Generated/FieldFns.lean`, rewritten from the source on every run) are, for all inputs, what the C12 model computes.
-/
namespace SkimModel.Field
open SkimModel.Generated

theorem translate_neg_is_model (idx : Int) (length : Nat) : FieldFns.translateNeg idx length = translateNeg idx length := by
  unfold FieldFns.translateNeg translateNeg
  try simp only [Int.ofNat_eq_natCast]
  all_goals fn_eq

theorem to_index_pair_single_is_model (num : Int) (length : Nat) :
    FieldFns.single num length = toIndexPair (.single num) length := by
  unfold FieldFns.single toIndexPair
  try simp only [translate_neg_is_model, Bool.or_eq_true, beq_iff_eq, decide_eq_true_eq]
  all_goals fn_eq

theorem to_index_pair_left_inf_is_model (right : Int) (length : Nat) :
    FieldFns.leftInf right length = toIndexPair (.leftInf right) length := by
  unfold FieldFns.leftInf toIndexPair
  try simp only [translate_neg_is_model, Bool.or_eq_true, beq_iff_eq, decide_eq_true_eq]
  all_goals fn_eq

theorem to_index_pair_right_inf_is_model (left : Int) (length : Nat) :
    FieldFns.rightInf left length = toIndexPair (.rightInf left) length := by
  unfold FieldFns.rightInf toIndexPair
  try simp only [translate_neg_is_model, Bool.or_eq_true, beq_iff_eq, decide_eq_true_eq]
  all_goals fn_eq

theorem to_index_pair_both_is_model (left right : Int) (length : Nat) :
    FieldFns.both left right length = toIndexPair (.both left right) length := by
  unfold FieldFns.both toIndexPair
  try simp only [translate_neg_is_model, Bool.or_eq_true, beq_iff_eq, decide_eq_true_eq]
  all_goals fn_eq

end SkimModel.Field
