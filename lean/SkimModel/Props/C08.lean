/-
C08 — reported match positions are valid and are a witness of the match.
Property theorems only (model: `Model/Positions.lean` on top of `Model/Field.lean` + `Model/Engine.lean`;
validators and contracts: `Spec/Positions.lean`; helper lemmas: `Lemmas/Positions.lean`).

Reading guide.  `text : Bytes` is the item text as UTF-8 bytes, `x : List Char` its characters
(`text = utf8 x`), `ranges` = `item.get_matching_ranges()` (`none` without `--nth`), `clipped text ranges`
the `(min(start,len), min(end,len))` pairs the engines actually slice (the whole text without `--nth`).
`ValidSpans text (clipped text ranges)` is what C12 proves of the ranges `--nth` produces (`c12_boundaries`).
The external matchers are parameters; `ReContract` / `LitContract` / `FuzzyContract` are their assumed
contracts (`Spec/Positions.lean`), evaluated by the driver on every real answer.  Every model function
returns an outer `Option` whose `none` means "the Rust code panics"; the theorems prove `some …`.
-/
import SkimModel.Lemmas.Positions
import SkimModel.Props.C12
set_option linter.unusedSimpArgs false
namespace SkimModel.Positions
open SkimModel.Engine SkimModel.Field SkimModel.Field.Spec

/-! ## exact / regex engines: byte spans -/

/-- Exact / regex engines (`noRegex`: `query_regex = None`; `inverse`: `!term`): on ranges that are valid spans
    of the text the loop over the matching ranges never panics (no slice off a boundary or out of range),
    whatever the regex crate answers. -/
theorem c08_bytes_no_panic (find : Bytes → Option (Nat × Nat)) (noRegex inverse : Bool) (text : Bytes)
    (ranges : Option (List (Nat × Nat))) (hv : ValidSpans text (clipped text ranges)) :
    (matchBytes find noRegex inverse text ranges).isSome = true := by
  cases noRegex with
  | false => rw [matchBytes_eq find inverse text ranges hv]; rfl
  | true =>
    unfold matchBytes
    cases ranges.getD [(0, text.length)] with
    | nil => rfl
    | cons p rest => obtain ⟨s, e⟩ := p; simp [matchBytes.go]

/-- BYTE SPANS.  Under the regex crate's contract (`find` on a slice returns an ordered span inside the slice
    on character boundaries of the slice) every reported `ByteRange(b, e)` is valid FOR THE WHOLE TEXT:
    `b ≤ e ≤ len`, both on character boundaries.  An inverse term and an engine without regex (empty body,
    uncompilable expression) report the empty span `(0, 0)`.  Otherwise the span is the regex's answer on the
    slice of one matching range, shifted by that range's start (the `--nth` shift), and lies inside that range. -/
theorem c08_byte_span (find : Bytes → Option (Nat × Nat)) (noRegex inverse : Bool) (text : Bytes)
    (ranges : Option (List (Nat × Nat))) (hv : ValidSpans text (clipped text ranges))
    (hc : ReContract find) (b e : Nat)
    (h : matchBytes find noRegex inverse text ranges = some (some (b, e))) :
    validBytes text b e = true ∧
    (noRegex = true ∨ inverse = true → b = 0 ∧ e = 0) ∧
    (noRegex = false → inverse = false →
      ∃ p ∈ clipped text ranges, ∃ s' e', find (sub text p.1 p.2) = some (s', e') ∧
        b = s' + p.1 ∧ e = e' + p.1 ∧ p.1 ≤ b ∧ e ≤ p.2) := by
  have v00 : validBytes text 0 0 = true := by simp [validBytes, isBoundary]
  cases noRegex with
  | true =>
    have : b = 0 ∧ e = 0 := by
      unfold matchBytes at h
      cases hr : ranges.getD [(0, text.length)] with
      | nil => rw [hr] at h; simp [matchBytes.go] at h
      | cons p rest =>
        obtain ⟨s, t⟩ := p
        rw [hr] at h; simp [matchBytes.go] at h; omega
    obtain ⟨rfl, rfl⟩ := this
    exact ⟨v00, fun _ => ⟨rfl, rfl⟩, fun h => by cases h⟩
  | false =>
    rw [matchBytes_eq find inverse text ranges hv] at h
    simp only [Option.some.injEq] at h
    cases inverse with
    | true =>
      obtain ⟨rfl, rfl⟩ := specMatch_inv find text _ b e h
      exact ⟨v00, fun _ => ⟨rfl, rfl⟩, fun _ h => by cases h⟩
    | false =>
      obtain ⟨p, hp, s', e', hf, rfl, rfl⟩ := specMatch_hit find text _ b e h
      have hpv := hv p hp
      have ha := hc (sub text p.1 p.2)
      rw [hf] at ha
      simp only [reAnswerOk] at ha
      have := span_shift text p.1 p.2 s' e' hpv.1 hpv.2.1 hpv.2.2.1 hpv.2.2.2 ha
      refine ⟨this.1, ?_, fun _ _ => ⟨p, hp, s', e', hf, rfl, rfl, this.2.1, this.2.2⟩⟩
      intro h; rcases h with h | h <;> cases h


/-- EXACT TERMS REPORT AN OCCURRENCE.  Under the contract of the literal regex `[(?i)][^]escape(lit)[$]`
    the reported span reads, in the whole text, the term's bytes under the case rule (ASCII folding when
    `cs = false`) and respects the anchors relative to the matching range it was found in
    (`^`: starts at the range start, `$`: ends at the range end). -/
theorem c08_exact_occurrence (cs pre post : Bool) (lit : Bytes) (find : Bytes → Option (Nat × Nat)) (text : Bytes)
    (ranges : Option (List (Nat × Nat))) (hv : ValidSpans text (clipped text ranges))
    (hc : LitContract cs pre post lit find) (b e : Nat)
    (h : matchBytes find false false text ranges = some (some (b, e))) :
    ∃ p ∈ clipped text ranges, occurrenceB cs pre post lit text p.1 p.2 b e = true := by
  obtain ⟨_, _, h3⟩ := c08_byte_span find false false text ranges hv (lit_to_re cs pre post lit find hc) b e h
  obtain ⟨p, hp, s', e', hf, rfl, rfl, h4, h5⟩ := h3 rfl rfl
  refine ⟨p, hp, ?_⟩
  have hpv := hv p hp
  have ha := hc (sub text p.1 p.2)
  rw [hf] at ha
  simp only [litAnswerOk, occurrenceB, Bool.and_eq_true, decide_eq_true_eq, sub_length _ _ _ hpv.2.1] at ha
  obtain ⟨_, ⟨⟨⟨⟨_, h6⟩, h7⟩, h8⟩, h9⟩, h10⟩ := ha
  simp only [occurrenceB, Bool.and_eq_true, decide_eq_true_eq]
  rw [sub_sub _ _ _ _ _ h7] at h10
  refine ⟨⟨⟨⟨⟨h4, by omega⟩, h5⟩, ?_⟩, ?_⟩, h10⟩
  · cases pre <;> simp_all
  · cases post <;> simp_all


/-! ## fuzzy engine: character indices -/

/-- the fuzzy engine's loop over valid matching ranges never panics (both `&item_text[start..end]` and
    `&item_text[..start]` are sliceable), whatever the matcher answers -/
theorem c08_chars_no_panic (fz : Bytes → Option (List Nat)) (text : Bytes)
    (ranges : Option (List (Nat × Nat))) (hv : ValidSpans text (clipped text ranges)) :
    (matchChars fz text ranges).isSome = true := by
  rw [matchChars_eq fz text ranges hv]; rfl

/-- CHARACTER INDICES.  `x` = the characters of the item text (`utf8 x` its bytes).  Under fuzzy-matcher's contract
    (on a slice: strictly increasing indices inside the slice, one per pattern character, each equal to it under
    the case rule) the reported `Chars(v)` is valid for the WHOLE text — strictly increasing, every index
    `< x.length` — it is a witness (`x[v[j]]` equals `body[j]` under the case rule, for every `j`), and all
    indices lie inside the characters of one matching range: the shift by
    `item_text[..start].chars().count()` is the right one. -/
theorem c08_char_idx (cs : Bool) (body x : List Char) (fz : Bytes → Option (List Nat))
    (ranges : Option (List (Nat × Nat))) (hv : ValidSpans (utf8 x) (clipped (utf8 x) ranges))
    (hc : FuzzyContract cs body fz) (v : List Nat)
    (h : matchChars (fuzzyMatch fz body) (utf8 x) ranges = some (some v)) :
    validChars x.length v = true ∧ witnessB cs body x v = true ∧
    ∃ p ∈ clipped (utf8 x) ranges,
      within (charCount (sub (utf8 x) 0 p.1)) (charCount (sub (utf8 x) 0 p.2)) v = true := by
  rw [matchChars_eq _ _ ranges hv] at h
  simp only [Option.some.injEq] at h
  obtain ⟨p, hp, v0, hf, rfl⟩ := specMatchChars_hit _ _ _ v h
  have hpv := hv p hp
  obtain ⟨k1, k2, h12, h2, e1, e2⟩ := span_chars x p.1 p.2 hpv.1 hpv.2.1 hpv.2.2.1 hpv.2.2.2
  rw [e1, e2, sub_utf8 x k1 k2 h12] at hf
  have c1 : charCount (sub (utf8 x) 0 p.1) = k1 := by rw [e1]; exact charCount_prefix x k1 (by omega)
  have c2 : charCount (sub (utf8 x) 0 p.2) = k2 := by rw [e2]; exact charCount_prefix x k2 h2
  rw [c1]
  -- the answer on the slice is valid for the characters of the slice
  have hy : validChars (k2 - k1) v0 = true ∧ witnessB cs body (mid x k1 k2) v0 = true := by
    unfold fuzzyMatch at hf
    split at hf
    · rename_i hb
      simp only [Option.some.injEq] at hf; subst hf
      have : body = [] := by simpa using hb
      subst this
      exact ⟨rfl, rfl⟩
    · split at hf
      · cases hf
      · have := hc (mid x k1 k2)
        rw [hf] at this
        simp only [fzAnswerOk, Bool.and_eq_true, mid_length x k1 k2 h2] at this
        exact this
  obtain ⟨hvc, hw⟩ := hy
  rw [validChars_iff] at hvc
  refine ⟨?_, witness_shift cs body x k1 k2 v0 hvc.2 hw, p, hp, ?_⟩
  · rw [validChars_iff, strictInc_map_add]
    refine ⟨hvc.1, ?_⟩
    intro i hi
    simp only [List.mem_map] at hi
    obtain ⟨j, hj, rfl⟩ := hi
    have := hvc.2 j hj
    omega
  · rw [c1, c2]
    simp only [within, List.all_map, List.all_eq_true, Function.comp, Bool.and_eq_true, decide_eq_true_eq]
    intro j hj
    have := hvc.2 j hj
    omega


/-- a valid fuzzy report is a WITNESS of the verdict: strictly increasing indices whose characters are the
    pattern's characters under the case rule imply that the greedy scan (the matcher's verdict, C03)
    succeeds, i.e. the folded pattern is a subsequence of the folded text -/
theorem c08_witness_sound (cs : Bool) (body x : List Char) (v : List Nat)
    (hs : strictInc v = true) (hw : witnessB cs body x v = true) :
    greedy cs body x = true ∧ (fold cs body).Sublist (fold cs x) := by
  have hg : greedy cs body x = true := by
    simp only [witnessB, Bool.and_eq_true, beq_iff_eq] at hw
    exact witness_greedy cs x body v 0 hs (fun _ _ => Nat.zero_le _) hw.1 (by simpa using hw.2)
  refine ⟨hg, ?_⟩
  rw [fold_eq_map, fold_eq_map]
  exact (greedy_iff cs body x).1 hg

/-! ## range_char_indices and the AND merge -/

/-- `range_char_indices` of a valid report: no panic; a byte span yields the CONTIGUOUS char indices from the
    number of characters before the span, one per character of the span; all indices are valid char indices -/
theorem c08_range_char_indices (text : Bytes) (r : MatchRange) (h : validPositions text r = true) :
    ∃ v, rangeCharIndices text r = some v ∧ validChars (charCount text) v = true ∧
      (∀ b e, r = .bytes b e → v = List.range' (charCount (sub text 0 b)) (charCount (sub text b e))) ∧
      (∀ is, r = .chars is → v = is) := by
  cases r with
  | chars is =>
    refine ⟨is, rfl, h, ?_, ?_⟩
    · intro b e h; cases h
    · intro is' h; cases h; rfl
  | bytes b e =>
    simp only [validPositions] at h
    obtain ⟨h1, h2⟩ := byteToCharRange_valid text b e h
    refine ⟨List.range' (charCount (sub text 0 b)) (charCount (sub text b e)), ?_, ?_, ?_, ?_⟩
    rotate_right 1
    · intro is h; cases h
    · simp only [rangeCharIndices, h1, Option.map_some]
      congr 2; omega
    · rw [validChars_iff]
      refine ⟨strictInc_range' _ _, fun i hi => ?_⟩
      rw [List.mem_range'_1] at hi; omega
    · intro b' e' h; cases h; rfl

/-- the loop of `merge_matched_items`: no panic, the concatenation of the terms' char indices -/
theorem c08_collect_indices (text : Bytes) (items : List MatchRange)
    (hv : ∀ r ∈ items, validPositions text r = true) :
    ∃ parts : List (List Nat), items.map (rangeCharIndices text) = parts.map some ∧
      collectIndices text items = some parts.flatten ∧
      ∀ p ∈ parts, ∀ i ∈ p, i < charCount text := by
  induction items with
  | nil => exact ⟨[], rfl, rfl, by simp⟩
  | cons r rs ih =>
    obtain ⟨parts, h1, h2, h3⟩ := ih (fun q hq => hv q (by simp [hq]))
    obtain ⟨v, hv1, hv2, _⟩ := c08_range_char_indices text r (hv r (by simp))
    rw [validChars_iff] at hv2
    refine ⟨v :: parts, by simp [hv1, h1], by simp [collectIndices, hv1, h2], ?_⟩
    intro p hp i hi
    rcases List.mem_cons.mp hp with rfl | hp'
    · exact hv2.2 i hi
    · exact h3 p hp' i hi

/-- `merge_matched_items` on valid term reports: no panic, and the merged report is the strictly
    increasing, duplicate-free union of the terms' character positions, all inside the text -/
theorem c08_and_union (text : Bytes) (items : List MatchRange)
    (hv : ∀ r ∈ items, validPositions text r = true) :
    ∃ (parts : List (List Nat)) (l : List Nat), items.map (rangeCharIndices text) = parts.map some ∧
      mergeMatched text items = some (.chars l) ∧
      strictInc l = true ∧ (∀ i, i ∈ l ↔ ∃ p ∈ parts, i ∈ p) ∧
      isSortedUnion l parts = true ∧ validPositions text (.chars l) = true := by
  obtain ⟨parts, h1, h2, h3⟩ := c08_collect_indices text items hv
  have hs := sort_dedup_spec parts.flatten
  have hmem : ∀ i, i ∈ dedupAdj (sortNat parts.flatten) ↔ ∃ p ∈ parts, i ∈ p := by
    intro i; rw [hs.2 i, List.mem_flatten]
  refine ⟨parts, dedupAdj (sortNat parts.flatten), h1, by simp [mergeMatched, h2], hs.1, hmem, ?_, ?_⟩
  · simp only [isSortedUnion, Bool.and_eq_true, List.all_eq_true, List.any_eq_true, List.contains_iff_mem]
    refine ⟨⟨hs.1, fun i hi => ?_⟩, fun p hp i hi => ?_⟩
    · exact (hmem i).1 hi
    · exact (hmem i).2 ⟨p, hp, hi⟩
  · simp only [validPositions]
    rw [validChars_iff]
    refine ⟨hs.1, fun i hi => ?_⟩
    obtain ⟨p, hp, hip⟩ := (hmem i).1 hi
    exact h3 p hp i hip


/-! ## the leaf engines, conjunctions, the whole tree -/

/-- ONE leaf engine (match-all, fuzzy, exact, regex) on an item whose matching ranges are valid spans:
    it does not panic, and whatever it reports is valid and is the witness C08 asks for
    (`leafReportOk`: fuzzy = indices of the term's characters under the case rule inside one range;
    exact = an occurrence of the term inside one range respecting the anchors; inverse / empty / match-all /
    uncompilable regex = the empty span at 0; regex = a span inside one range). -/
theorem c08_leaf (cfg : Cfg) (xs : List Char) (ranges : Option (List (Nat × Nat)))
    (hv : ValidSpans (utf8 xs) (clipped (utf8 xs) ranges)) (l : Leaf) (x : Ext) (hx : ExtOk cfg l x) :
    ∃ r, leafMatch x (utf8 xs) ranges l = some r ∧
      ∀ m, r = some m → leafReportOk cfg xs (utf8 xs) ranges l m = true ∧ validPositions (utf8 xs) m = true := by
  have v00 : validBytes (utf8 xs) 0 0 = true := by simp [validBytes, isBoundary]
  cases l with
  | term e =>
    cases e with
    | all =>
      refine ⟨_, rfl, ?_⟩
      intro m hm; cases hm
      exact ⟨by simp [leafReportOk], v00⟩
    | fuzzy body =>
      simp only [ExtOk] at hx
      have hn := c08_chars_no_panic (fuzzyMatch x.fz body) (utf8 xs) ranges hv
      cases hr : matchChars (fuzzyMatch x.fz body) (utf8 xs) ranges with
      | none => rw [hr] at hn; cases hn
      | some r =>
        refine ⟨r.map .chars, by simp [leafMatch, hr], ?_⟩
        intro m hm
        cases r with
        | none => cases hm
        | some v =>
          simp only [Option.map_some, Option.some.injEq] at hm; subst hm
          obtain ⟨h1, h2, p, hp, h3⟩ := c08_char_idx _ body xs x.fz ranges hv hx v hr
          refine ⟨?_, by simpa [validPositions, charCount_utf8] using h1⟩
          simp only [leafReportOk, Bool.and_eq_true]
          exact ⟨⟨h1, h2⟩, any_of_mem _ _ p hp h3⟩
    | exact body pre post inv =>
      simp only [ExtOk] at hx
      have hre := lit_to_re _ _ _ _ _ hx
      have hn := c08_bytes_no_panic x.find body.isEmpty inv (utf8 xs) ranges hv
      cases hr : matchBytes x.find body.isEmpty inv (utf8 xs) ranges with
      | none => rw [hr] at hn; cases hn
      | some r =>
        refine ⟨r.map pairToRange, by simp [leafMatch, hr], ?_⟩
        intro m hm
        cases r with
        | none => cases hm
        | some be =>
          obtain ⟨b, e⟩ := be
          simp only [Option.map_some, Option.some.injEq] at hm; subst hm
          obtain ⟨h1, h2, _⟩ := c08_byte_span x.find body.isEmpty inv (utf8 xs) ranges hv hre b e hr
          refine ⟨?_, h1⟩
          simp only [leafReportOk, pairToRange]
          by_cases hbi : (body.isEmpty || inv) = true
          · rw [if_pos hbi]
            have := h2 (by simpa using hbi)
            simp [this.1, this.2]
          · rw [if_neg hbi]
            simp only [Bool.or_eq_true, not_or, Bool.not_eq_true] at hbi
            rw [hbi.1, hbi.2] at hr
            obtain ⟨p, hp, ho⟩ := c08_exact_occurrence _ pre post (utf8 body) x.find (utf8 xs) ranges hv hx b e hr
            simp only [Bool.and_eq_true]
            exact ⟨h1, any_of_mem _ _ p hp ho⟩
  | regex compiled =>
    simp only [ExtOk] at hx
    have hn := c08_bytes_no_panic x.find (!compiled) false (utf8 xs) ranges hv
    cases hr : matchBytes x.find (!compiled) false (utf8 xs) ranges with
    | none => rw [hr] at hn; cases hn
    | some r =>
      refine ⟨r.map pairToRange, by simp [leafMatch, hr], ?_⟩
      intro m hm
      cases r with
      | none => cases hm
      | some be =>
        obtain ⟨b, e⟩ := be
        simp only [Option.map_some, Option.some.injEq] at hm; subst hm
        obtain ⟨h1, h2, h3⟩ := c08_byte_span x.find (!compiled) false (utf8 xs) ranges hv hx b e hr
        refine ⟨?_, h1⟩
        simp only [leafReportOk, pairToRange]
        cases compiled with
        | false =>
          have := h2 (by simp)
          simp [this.1, this.2]
        | true =>
          obtain ⟨p, hp, s', e', _, _, _, h4, h5⟩ := h3 rfl rfl
          simp only [Bool.not_true, Bool.false_eq_true, if_false, Bool.and_eq_true]
          exact ⟨h1, any_of_mem _ _ p hp (by simp [h4, h5])⟩


/-- the `begin` / `end` rank keys of a valid report never point outside the text -/
theorem c08_rank_keys (text : Bytes) (m : MatchRange) (h : validPositions text m = true) :
    (rankKeys m).1 ≤ (rankKeys m).2 ∧ (rankKeys m).2 ≤ text.length := by
  cases m with
  | bytes b e =>
    simp only [validPositions] at h
    rw [validBytes_iff] at h
    exact ⟨h.1, h.2.1⟩
  | chars v =>
    simp only [validPositions] at h
    rw [validChars_iff] at h
    have hl := charCount_le_length text
    simp only [rankKeys]
    cases hh : v.head? with
    | none =>
      have : v = [] := by simpa using hh
      subst this; simp
    | some a =>
      cases hg : v.getLast? with
      | none =>
        have : v = [] := by simpa using hg
        subst this; simp at hh
      | some b =>
        have h1 := strictInc_head_le_last v h.1 a (by simp [hh]) b (by simp [hg])
        have h2 := h.2 b (List.mem_of_getLast? hg)
        simp only [Option.getD_some]
        omega


/-- the loop of `AndEngine::match_item`: no panic; when every term matches, one valid witness report per term, in order -/
theorem c08_and_collect (cfg : Cfg) (xs : List Char) (ranges : Option (List (Nat × Nat)))
    (hv : ValidSpans (utf8 xs) (clipped (utf8 xs) ranges)) (leaves : List (Leaf × Ext))
    (hx : ∀ lx ∈ leaves, ExtOk cfg lx.1 lx.2) :
    ∃ r, andCollect (utf8 xs) ranges leaves = some r ∧
      ∀ rs, r = some rs → rs.length = leaves.length ∧
        ∀ q ∈ leaves.zip rs, leafReportOk cfg xs (utf8 xs) ranges q.1.1 q.2 = true ∧
          validPositions (utf8 xs) q.2 = true := by
  induction leaves with
  | nil => exact ⟨_, rfl, fun rs h => by cases h; simp⟩
  | cons lx rest ih =>
    obtain ⟨l, x⟩ := lx
    obtain ⟨r1, h1, h2⟩ := c08_leaf cfg xs ranges hv l x (hx (l, x) (by simp))
    obtain ⟨r2, h3, h4⟩ := ih (fun q hq => hx q (by simp [hq]))
    simp only [andCollect, h1]
    cases r1 with
    | none => exact ⟨_, rfl, fun rs h => by cases h⟩
    | some m =>
      simp only [h3]
      cases r2 with
      | none => exact ⟨_, rfl, fun rs h => by cases h⟩
      | some ms =>
        refine ⟨_, rfl, ?_⟩
        intro rs h
        simp only [Option.some.injEq] at h; subst h
        have := h4 ms rfl
        refine ⟨by simp [this.1], ?_⟩
        intro q hq
        simp only [List.zip_cons_cons, List.mem_cons] at hq
        rcases hq with rfl | hq
        · exact h2 m rfl
        · exact this.2 q hq

/-- `AndEngine::match_item`: no panic; a report is the strictly increasing duplicate-free union of the
    terms' positions (`isSortedUnion`), valid for the text; the rank comes from the first term's (valid) report -/
theorem c08_and_report (cfg : Cfg) (xs : List Char) (ranges : Option (List (Nat × Nat)))
    (hv : ValidSpans (utf8 xs) (clipped (utf8 xs) ranges)) (leaves : List (Leaf × Ext))
    (hx : ∀ lx ∈ leaves, ExtOk cfg lx.1 lx.2) :
    ∃ r, andMatch (utf8 xs) ranges leaves = some r ∧
      ∀ rep, r = some rep →
        ∃ (m : MatchRange) (ms : List MatchRange) (parts : List (List Nat)) (l : List Nat),
          andCollect (utf8 xs) ranges leaves = some (some (m :: ms)) ∧ rep.first = m ∧
          (m :: ms).map (rangeCharIndices (utf8 xs)) = parts.map some ∧
          rep.range = .chars l ∧ isSortedUnion l parts = true ∧
          validPositions (utf8 xs) rep.range = true ∧ validPositions (utf8 xs) rep.first = true := by
  obtain ⟨r, h1, h2⟩ := c08_and_collect cfg xs ranges hv leaves hx
  simp only [andMatch, h1]
  cases r with
  | none => exact ⟨_, rfl, fun rep h => by cases h⟩
  | some rs =>
    cases rs with
    | nil => exact ⟨_, rfl, fun rep h => by cases h⟩
    | cons m ms =>
      have h3 := h2 (m :: ms) rfl
      have hval : ∀ q ∈ m :: ms, validPositions (utf8 xs) q = true := by
        intro q hq
        obtain ⟨i, hi, rfl⟩ := List.getElem_of_mem hq
        have hi' : i < leaves.length := by rw [← h3.1]; exact hi
        have hz : (leaves[i], (m :: ms)[i]) ∈ leaves.zip (m :: ms) := by
          have : (leaves.zip (m :: ms))[i]'(by rw [List.length_zip]; exact Nat.lt_min.mpr ⟨hi', hi⟩) = (leaves[i], (m :: ms)[i]) := by
            simp [List.getElem_zip]
          rw [← this]; exact List.getElem_mem _
        exact (h3.2 _ hz).2
      obtain ⟨parts, l, p1, p2, p3, _, p5, p6⟩ := c08_and_union (utf8 xs) (m :: ms) hval
      dsimp only
      rw [p2]
      refine ⟨_, rfl, ?_⟩
      intro rep h
      simp only [Option.map_some, Option.some.injEq] at h; subst h
      exact ⟨m, ms, parts, l, rfl, rfl, p1, rfl, p5, p6, hval m (by simp)⟩

/-- C08 for the whole engine tree (bare term / regex engine, or OR of ANDs of terms): matching never
    panics, and WHENEVER AN ITEM MATCHES the reported location is valid (inside the text, on character
    boundaries, strictly increasing) and so is the report the rank was computed from, whose begin / end
    keys stay inside the text. -/
theorem c08_report_valid (cfg : Cfg) (xs : List Char) (ranges : Option (List (Nat × Nat)))
    (hv : ValidSpans (utf8 xs) (clipped (utf8 xs) ranges)) (t : Tree) (ht : TreeOk cfg t) :
    ∃ r, treeMatch (utf8 xs) ranges t = some r ∧
      ∀ rep, r = some rep →
        validPositions (utf8 xs) rep.range = true ∧ validPositions (utf8 xs) rep.first = true ∧
        (rankKeys rep.first).1 ≤ (rankKeys rep.first).2 ∧ (rankKeys rep.first).2 ≤ (utf8 xs).length := by
  cases t with
  | leaf lx =>
    obtain ⟨l, x⟩ := lx
    obtain ⟨r, h1, h2⟩ := c08_leaf cfg xs ranges hv l x ht
    refine ⟨_, by simp only [treeMatch, h1, Option.map_some]; rfl, ?_⟩
    intro rep h
    cases r with
    | none => cases h
    | some m =>
      simp only [Option.map_some, Option.some.injEq] at h; subst h
      have := (h2 m rfl).2
      exact ⟨this, this, c08_rank_keys _ _ this⟩
  | alts as =>
    simp only [treeMatch]
    induction as with
    | nil => exact ⟨_, rfl, fun rep h => by cases h⟩
    | cons a rest ih =>
      obtain ⟨r, h1, h2⟩ := c08_and_report cfg xs ranges hv a (ht a (by simp))
      simp only [orMatch, h1]
      cases r with
      | some rep =>
        refine ⟨_, rfl, ?_⟩
        intro rep' h
        simp only [Option.some.injEq] at h; subst h
        obtain ⟨m, ms, parts, l, _, _, _, _, _, p6, p7⟩ := h2 rep rfl
        exact ⟨p6, p7, c08_rank_keys _ _ p7⟩
      | none => exact ih (fun a' ha' => ht a' (by simp [ha']))


/-! ## the consumers -/

/-- `draw_item`'s `match_start_char` / `match_end_char` of a valid report: no index out of range, no slice off a
    boundary, and `start ≤ end ≤ number of characters` -/
theorem c08_match_start_end (text : Bytes) (r : MatchRange) (h : validPositions text r = true) :
    ∃ ms me, matchStartEnd text r = some (ms, me) ∧ ms ≤ me ∧ me ≤ charCount text := by
  cases r with
  | bytes b e =>
    simp only [validPositions] at h
    obtain ⟨h1, h2⟩ := byteToCharRange_valid text b e h
    exact ⟨_, _, h1, by omega, h2⟩
  | chars v =>
    simp only [validPositions] at h
    rw [validChars_iff] at h
    cases v with
    | nil => exact ⟨0, 0, rfl, Nat.le_refl _, Nat.zero_le _⟩
    | cons a t =>
      have hl : (a :: t)[(a :: t).length - 1]? = (a :: t).getLast? := by
        rw [List.getLast?_eq_getElem?]
      cases hg : (a :: t).getLast? with
      | none => simp at hg
      | some b =>
        have h1 := strictInc_head_le_last (a :: t) h.1 a (by simp) b (by simp [hg])
        have h2 := h.2 b (List.mem_of_getLast? hg)
        refine ⟨a, b + 1, ?_, by omega, by omega⟩
        simp only [matchStartEnd, List.isEmpty_cons, Bool.not_false, if_true]
        rw [hl, hg]; rfl

/-- THE CONSUMERS of a valid report never slice off a character boundary nor index out of range:
    the highlight fragments built by `DefaultSkimItem::display` / `From<DisplayContext>`, the character span
    computed by `draw_item`, `reshape_string` on the accumulated display widths, and the final shift
    (model functions return `none` where the Rust code would panic; all are `some`).
    `chars` = per character a display width or `none` for a tab (`unicode-width` is a parameter);
    `tabstop ≥ 1` is what `Selection::parse_options` guarantees (`max(1, tabstop)`). -/
theorem c08_consumers_total (text : Bytes) (r : MatchRange) (h : validPositions text r = true)
    (chars : List (Option Nat)) (hn : chars.length = charCount text) (cw tabstop : Nat) (ht : 0 < tabstop)
    (noHscroll keepRight : Bool) (skip : Nat) :
    (fragments text r).isSome = true ∧ (highlighted text r).isSome = true ∧
    (rangeCharIndices text r).isSome = true ∧
    (∃ ms me, matchStartEnd text r = some (ms, me) ∧
      (reshapeString (accWidth tabstop 0 chars) cw ms me).isSome = true) ∧
    (drawShift text chars cw tabstop noHscroll keepRight skip r).isSome = true := by
  have hf : (fragments text r).isSome = true := by
    cases r with
    | chars v => rfl
    | bytes b e =>
      simp only [validPositions] at h
      simp [fragments, (byteToCharRange_valid text b e h).1]
  obtain ⟨ms, me, h1, h2, h3⟩ := c08_match_start_end text r h
  have hr := reshape_total (accWidth tabstop 0 chars) (accWidth_pairwise tabstop chars 0) cw ms me h2
    (by rw [accWidth_length, hn]; exact h3)
  obtain ⟨v, hv, _⟩ := c08_range_char_indices text r h
  refine ⟨hf, ?_, by simp [hv], ⟨ms, me, h1, hr⟩, ?_⟩
  · cases hh : fragments text r with
    | none => rw [hh] at hf; cases hf
    | some f => simp [highlighted, hh]
  · unfold drawShift
    rw [if_neg (by omega)]
    cases hh : fragments text r with
    | none => rw [hh] at hf; cases hf
    | some f =>
      rw [h1]
      simp only []
      cases hq : reshapeString (accWidth tabstop 0 chars) cw ms me with
      | none => rw [hq] at hr; cases hr
      | some sf => rfl


/-- THE HIGHLIGHT IS THE REPORT: the characters that carry the highlight attribute when the item is displayed
    (fragments of `display` / `From<DisplayContext>` read back by `AnsiStringIterator`) are exactly the reported
    character positions (`range_char_indices`), for every valid report -/
theorem c08_highlight (text : Bytes) (r : MatchRange) (h : validPositions text r = true) :
    highlighted text r = rangeCharIndices text r := by
  cases r with
  | chars v =>
    simp only [validPositions] at h
    rw [validChars_iff] at h
    simp only [highlighted, fragments, rangeCharIndices, Option.map_some]
    rw [iterFlags_singletons _ 0 v h.1 (fun _ _ => Nat.zero_le _)]
    congr 1
    rw [List.filter_eq_self]
    intro i hi
    have := h.2 i hi
    simp; omega
  | bytes b e =>
    simp only [validPositions] at h
    obtain ⟨h1, h2⟩ := byteToCharRange_valid text b e h
    simp only [highlighted, fragments, rangeCharIndices, h1, Option.map_some]
    rw [iterFlags_range]
    congr 2
    · omega
    · omega

/-! ## the ranges skim feeds the engines -/

/-- THE HYPOTHESIS ON THE RANGES IS MET by what skim feeds the engines: without `--nth` the only range is the
    whole text, and with `--nth` the ranges `DefaultSkimItem` computes (`c12_nth`: `specNth`) are valid spans
    under the delimiter contract (`c12_boundaries`); clipping leaves them unchanged. -/
theorem c08_ranges_valid (text : Bytes) (ms : List (Nat × Nat)) (hm : okMatches text ms = true)
    (rs : List FieldRange) :
    ValidSpans text (clipped text none) ∧
    clipped text (some (specNth text ms rs)) = specNth text ms rs ∧
    ValidSpans text (clipped text (some (specNth text ms rs))) := by
  have hb := c12_boundaries text ms hm rs
  have hc : clipped text (some (specNth text ms rs)) = specNth text ms rs := by
    simp only [clipped, Option.getD_some]
    conv => rhs; rw [← List.map_id (specNth text ms rs)]
    apply List.map_congr_left
    intro p hp
    have := hb p hp
    simp only [id]
    rw [Nat.min_eq_left (by omega), Nat.min_eq_left this.2.1]
  refine ⟨?_, hc, by rw [hc]; exact hb⟩
  intro p hp
  simp only [clipped, Option.getD_none, List.map_cons, List.map_nil, List.mem_cons, List.mem_nil_iff, or_false] at hp
  subst hp
  simp [isBoundary_zero, isBoundary_len]


/-- `c08_ranges_valid`: the delimiter contract holds for `,` on the line `a,中b,c` -/
example : okMatches (utf8 "a,中b,c".toList) [(1, 2), (6, 7)] = true := by decide

/-! ## non-vacuity: the line `a,中b,c` (bytes 61 2c e4 b8 ad 62 2c 63), `--nth 2` = bytes [2, 7) -/

/-- the encoder agrees with UTF-8 on 1-, 2-, 3- and 4-byte characters -/
example : utf8 "a,中b,c".toList = [97, 44, 228, 184, 173, 98, 44, 99] := by decide
example : utf8 "é😀".toList = [195, 169, 240, 159, 152, 128] := by decide
/-- the hypotheses on the ranges (`c12_boundaries` provides them for `--nth`); ranges beyond the end are clipped -/
example : clipped (utf8 "a,中b,c".toList) (some [(2, 7), (7, 100)]) = [(2, 7), (7, 8)] := by decide
example : ValidSpans (utf8 "a,中b,c".toList) (clipped (utf8 "a,中b,c".toList) (some [(2, 7), (7, 100)])) := by
  intro p hp
  have : p = (2, 7) ∨ p = (7, 8) := by simpa [clipped, utf8, encodeChar] using hp
  rcases this with rfl | rfl <;> decide
/-- a range that splits 中 is NOT a valid span, and the model then reports the panic -/
example : matchBytes (fun _ => none) false false (utf8 "a,中b,c".toList) (some [(3, 7)]) = none := by decide
/-- contracts are satisfiable by matchers that do find something -/
example : ReContract (fun sl => some (0, sl.length)) := by
  intro sl; simp [reAnswerOk, validBytes, isBoundary]
example : LitContract true true true [98] (fun sl => if sl = [98] then some (0, 1) else none) := by
  intro sl
  by_cases h : sl = [98]
  · subst h; decide
  · simp [h, litAnswerOk]
example : fzAnswerOk false "ab".toList "xAxb".toList (some [1, 3]) = true := by decide
example : fzAnswerOk true "ab".toList "xAxb".toList (some [1, 3]) = false := by decide
example : FuzzyContract false [] (fun _ => some []) := by
  intro y; simp [fzAnswerOk, validChars, strictInc, witnessB]

/-- `c08_byte_span` / `c08_exact_occurrence`: `'b` restricted to field 2 is found at bytes [5, 6) of the line -/
example : matchBytes (fun sl => if sl = utf8 "中b,".toList then some (3, 4) else none) false false
    (utf8 "a,中b,c".toList) (some [(2, 7)]) = some (some (5, 6)) := by decide
example : occurrenceB false false false (utf8 "B".toList) (utf8 "a,中b,c".toList) 2 7 5 6 = true := by decide
example : validBytes (utf8 "a,中b,c".toList) 5 6 = true ∧ validBytes (utf8 "a,中b,c".toList) 3 6 = false := by decide
/-- `c08_char_idx`: the fuzzy answer [1] on the slice `中b,` is reported as char index 3 of the line -/
example : matchChars (fuzzyMatch (fun sl => if sl = utf8 "中b,".toList then some [1] else none) ['b'])
    (utf8 "a,中b,c".toList) (some [(2, 7)]) = some (some [3]) := by decide
example : witnessB true ['b'] "a,中b,c".toList [3] = true ∧ witnessB true ['b'] "a,中b,c".toList [2] = false := by decide
/-- `c08_witness_sound` hypotheses -/
example : strictInc [1, 3] = true ∧ witnessB false "ab".toList "xAxb".toList [1, 3] = true := by decide
/-- `c08_range_char_indices` / `c08_and_union`: `中 'b` on the line: bytes [2,5) = char 2, bytes [5,6) = char 3 -/
example : rangeCharIndices (utf8 "a,中b,c".toList) (.bytes 2 6) = some [2, 3] := by decide
example : collectIndices (utf8 "a,中b,c".toList) [.chars [2], .bytes 5 6, .bytes 2 6, .bytes 0 0] = some [2, 3, 2, 3] := by decide
example : dedupAdj [2, 2, 3, 3] = [2, 3] ∧ isSortedUnion [2, 3] [[2], [3], [2, 3], []] = true ∧
    isSortedUnion [2, 3] [[2], [4]] = false := by decide
example : validPositions (utf8 "a,中b,c".toList) (.chars [2, 3]) = true ∧
    validPositions (utf8 "a,中b,c".toList) (.chars [3, 2]) = false ∧
    validPositions (utf8 "a,中b,c".toList) (.chars [6]) = false := by decide
/-- `c08_report_valid`: a tree whose leaves keep their contracts, and what it reports -/
example : TreeOk {} (.alts [[(.term (.exact ['x'] false false true), { find := fun _ => none }), (.term .all, {})]]) := by
  intro a ha lx hlx
  simp only [List.mem_cons, List.mem_nil_iff, or_false] at ha; subst ha
  simp only [List.mem_cons, List.mem_nil_iff, or_false] at hlx
  rcases hlx with rfl | rfl
  · intro sl; rfl
  · trivial
example : andCollect (utf8 "a,中b,c".toList) none
    [(.term (.exact ['x'] false false true), { find := fun _ => none }), (.term .all, {})] =
    some (some [.bytes 0 0, .bytes 0 0]) := by decide
example : treeMatch (utf8 "a,中b,c".toList) (some [(2, 7)])
    (.leaf (.term (.exact ['b'] false false false), { find := fun sl => if sl = utf8 "中b,".toList then some (3, 4) else none })) =
    some (some ⟨.bytes 5 6, .bytes 5 6⟩) := by decide
/-- `c08_consumers_total`: a long line (30 columns) in a 10-column container: right-fixed for a match at chars [20, 22),
    scrolled to the match end for a match at chars [10, 12) -/
example : reshapeString (accWidth 8 0 (List.replicate 30 (some 1))) 10 20 22 = some (20, 30) := by decide
example : drawShift (utf8 (List.replicate 30 'a')) (List.replicate 30 (some 1)) 10 8 false false 0 (.chars [10, 11]) =
    some (5, 30) := by decide
/-- … and what the model says when the report is NOT valid: the Rust code would index out of range / split 中 -/
example : reshapeString (accWidth 8 0 (List.replicate 30 (some 1))) 10 40 41 = none := by decide
example : fragments (utf8 "a,中b,c".toList) (.bytes 3 6) = none := by decide
/-- `c08_highlight` -/
example : highlighted (utf8 "a,中b,c".toList) (.chars [0, 3, 5]) = some [0, 3, 5] ∧
    highlighted (utf8 "a,中b,c".toList) (.bytes 2 6) = some [2, 3] := by decide


end SkimModel.Positions
