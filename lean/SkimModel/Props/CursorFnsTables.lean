import SkimModel.Model.SelCursor
import SkimModel.Generated.CursorFns
import SkimModel.Lemmas.FnTactics
/-!
The integer cores of the list cursor as TRANSLATED from src/selection.rs (`Generated/CursorFns.lean`, rewritten from the source on
every run) are, for all inputs, the functions the C09 model is built from.  A change of the arithmetic in the source changes the
generated definition and breaks one of these proofs; a behaviour-preserving rewrite of the source (renamed locals, re-ordered
independent statements, `min`/`max` spelled as comparisons) still proves, because the proofs are case splits closed by `omega` (`fn_eq`, Lemmas/FnTactics.lean).
-/
namespace SkimModel.SelCursor
open SkimModel.Generated

theorem known_height_is_model (s : Cur) : CursorFns.knownHeight s.h = s.H := by
  unfold CursorFns.knownHeight Cur.H; fn_eq

theorem move_line_cursor_is_model (s : Cur) (diff : Int) :
    CursorFns.actMoveLineCursor s.rev s.lc s.ic s.n s.H diff = ((moveLine s diff).ic, (moveLine s diff).lc) := by
  unfold CursorFns.actMoveLineCursor moveLine moveRaw
  cases hr : s.rev <;> (try simp only [Bool.false_eq_true, if_false, if_true, Int.ofNat_eq_natCast]) <;> fn_eq

theorem select_screen_row_is_model (s : Cur) (r : Nat) :
    CursorFns.selectScreenRowDiff s.rev s.lc s.H r = rowDiff s r := by
  unfold CursorFns.selectScreenRowDiff rowDiff
  cases hr : s.rev <;> (try simp only [Bool.false_eq_true, if_false, if_true, Int.ofNat_eq_natCast]) <;> fn_eq

theorem append_fixup_is_model (s : Cur) (k : Nat) :
    CursorFns.appendFixup s.lc s.ic (s.n + k) s.H = ((appendItems s k).ic, (appendItems s k).lc) := by
  unfold CursorFns.appendFixup appendItems
  first
    | rfl
    | ((try simp only []); fn_eq)

/-- `Draw::draw` paints the items `item_cursor .. item_cursor + rowsDrawn` (none when the range is empty) -/
theorem draw_range_is_model (s : Cur) (sh : Nat) :
    (CursorFns.drawRange s.ic s.n sh).1 = s.ic ∧
    (CursorFns.drawRange s.ic s.n sh).2 - (CursorFns.drawRange s.ic s.n sh).1 = rowsDrawn s sh := by
  unfold CursorFns.drawRange rowsDrawn
  refine ⟨?_, ?_⟩ <;> (try dsimp only) <;> fn_eq

/-- the `i`-th painted item is window row `i` and goes to the model's screen row -/
theorem draw_row_is_model (s : Cur) (sh i : Nat) :
    CursorFns.drawRow s.rev s.ic sh (s.ic + i) = (i, screenRow s sh i) := by
  unfold CursorFns.drawRow screenRow
  cases hr : s.rev <;> (try simp only [Bool.false_eq_true, if_false, if_true]) <;> fn_eq

/-- the pointer label goes to the window row that equals `line_cursor` -/
theorem pointer_row_is_model (i lc : Nat) : CursorFns.pointerHere i lc ↔ i = lc := by
  unfold CursorFns.pointerHere
  first | exact Iff.rfl | omega

end SkimModel.SelCursor
