import SkimModel.Model.Preview
import SkimModel.Generated.ScrollFns
import SkimModel.Lemmas.FnTactics
/-!
`act_scroll_down` / `act_scroll_right` as TRANSLATED from src/previewer.rs (`Generated/ScrollFns.lean`, rewritten from the source on
every run) are, for all inputs, the arithmetic of the C20 model; and the lock discipline the model's atomic scroll step rests on
(content lock held from the load of the offset to its store) is what the source does.
-/
namespace SkimModel.Preview
open SkimModel.Generated

theorem scroll_down_is_model (v len : Nat) (d : Int) :
    ScrollFns.actScrollDown v len d = clampScroll (scrollBy v d) len := by
  unfold ScrollFns.actScrollDown clampScroll scrollBy
  try simp only []
  all_goals fn_eq

theorem scroll_right_is_model (v : Nat) (d : Int) :
    ScrollFns.actScrollRight v d = max 1 (scrollBy v d) := by
  unfold ScrollFns.actScrollRight scrollBy
  try simp only []
  all_goals fn_eq

/-- the scroll action is one critical section on the content lock (what makes `scroll` an atomic step of the model) -/
theorem scroll_down_holds_content_lock : ScrollFns.scrollDownHoldsContentLock = true := by decide

end SkimModel.Preview
