import SkimModel.Props.C08
import SkimModel.Props.AndMergeTables
import SkimModel.Props.DisplayFnsTables
import SkimModel.Props.RankFeedTables
/-!
C08 stated about the TRANSLATED code: the conjunction's merge (`Generated/AndMerge.lean`), the highlight fragments and the iterator that
reads them back (`Generated/DisplayFns.lean`), the keys handed to `build_rank` (`Generated/RankFeed.lean`) — what the source says on
this run — satisfy the property's clauses; the `*Tables` files carry the model's theorems over.
-/
namespace SkimModel.Positions
open SkimModel.Generated SkimModel.Field

/-- "for a multi-term alternative the report is the sorted union of its terms' positions": the translated `merge_matched_items` on
    valid term reports does not panic and yields the strictly increasing, duplicate-free union, inside the text -/
theorem translated_merge_is_sorted_union (text : Bytes) (items : List MatchRange)
    (hv : ∀ r ∈ items, validPositions text r = true) :
    ∃ (parts : List (List Nat)) (l : List Nat), items.map (rangeCharIndices text) = parts.map some ∧
      interpMerge text items = some (.chars l) ∧
      strictInc l = true ∧ (∀ i, i ∈ l ↔ ∃ p ∈ parts, i ∈ p) ∧ validPositions text (.chars l) = true := by
  rw [merge_matched_is_model]
  obtain ⟨parts, l, h1, h2, h3, h4, _, h6⟩ := c08_and_union text items hv
  exact ⟨parts, l, h1, h2, h3, h4, h6⟩

/-- "the highlight is the report": the fragments both display sites build, read back by the translated iterator, mark exactly the
    reported character positions -/
theorem translated_highlight_is_report (site : DisplayFns.Site)
    (hs : site = DisplayFns.fromContext ∨ site = DisplayFns.displayItem)
    (text : Bytes) (r : MatchRange) (h : validPositions text r = true) :
    (interpFragments site text r).map (fun f => trueIdx 0 (interpFlags f 0 (charCount text))) = rangeCharIndices text r := by
  have hf : interpFragments site text r = fragments text r := by
    rcases hs with h' | h' <;> subst h'
    · exact from_context_is_model text r
    · exact display_item_is_model text r
  rw [hf]
  have := c08_highlight text r h
  unfold highlighted at this
  simpa only [iterator_is_model] using this

/-- "the begin/end rank keys ... never point outside the item": for every engine, the keys of the translated tuple, for a valid report -/
theorem translated_rank_keys_inside (f : RankFeed.Feed)
    (hf : f = RankFeed.all ∨ f = RankFeed.exact ∨ f = RankFeed.regex ∨ f = RankFeed.fuzzy)
    (text : Bytes) (span : Nat × Nat) (indices : List Nat) (matcher : Int)
    (hv : validPositions text (rangeOf span indices f.range) = true) :
    (tupleOf f span indices matcher text.length).begin ≤ (tupleOf f span indices matcher text.length).«end» ∧
    (tupleOf f span indices matcher text.length).«end» ≤ text.length := by
  have hk := (feed_keys_are_rank_keys f hf span indices matcher text.length).1
  have hr := c08_rank_keys text _ hv
  simp only [Prod.ext_iff] at hk
  rw [hk.1, hk.2]
  exact hr

end SkimModel.Positions
