/-
C14 — liveness under weak fairness: with --select-1 / --exit-0 the decision IS taken, and it is the right one.
Property theorems only (helpers: `Lemmas/Fair.lean`, `Lemmas/SessionFair.lean`, `Lemmas/SessionFairDecide.lean`).

`c14_decision_complete` says that whatever step decides does so on the complete result set and decides correctly; this file adds that
in every keystroke-free, accurately reading execution from the initial state in which each of the four threads is weakly fair such a
step occurs.  (Until the decision the system behaves like the one without the options, so the measure of C01's fairness theorem
applies; the options add that a wake-up stays pending in a quiescent state until the decision has been taken.)  Fairness of the
runtime is an assumption, as in `Props/C01Fair.lean`.
-/
import SkimModel.Props.C14
import SkimModel.Lemmas.SessionFairDecide
namespace SkimModel.Session
open SkimModel.Pool SkimModel.Fair
variable {α κ : Type}

/-- C14, liveness: from the initial state of a session with --select-1 and/or --exit-0, every weakly fair keystroke-free execution
    reaches a step that takes the decision — in a state where the source has ended and matching has caught up, and the decision is
    accept iff select-1 and exactly one item matches, abort iff exit-0 and none, the interactive session otherwise. -/
theorem c14_fair_decision (m : κ → α → Bool) (o : Opts) (q : κ) (src : List α) (hn : o.noClearIfEmpty = false)
    (hopt : o.select1 = true ∨ o.exit0 = true) (e : Exec (step (α := α) m)) (hstart : e.st 0 = initWith o q src)
    (hcanon : ∀ n, (e.lab n).canon = true) (hfair : FairExec m e) :
    ∃ k, (e.st k).decision = none ∧
      SourceEnded (e.st (k + 1)) ∧ CaughtUp (e.st (k + 1)) ∧
      (e.st (k + 1)).list.Perm (hitsFrom m (e.st (k + 1)).q 0 (e.st (k + 1)).pool.pool) ∧
      (e.st (k + 1)).decision =
        some (expectedDecision (e.st k).select1 (e.st k).exit0 (hitsFrom m (e.st (k + 1)).q 0 (e.st (k + 1)).pool.pool).length) := by
  have h0 : Undecided m (e.st 0) := by
    rw [hstart]
    refine ⟨inv_initWith m o q src, wake_initWith o q src, rfl, by simp [initWith, Ev.isHB], rfl, hopt, ?_, ?_⟩
    · intro _ _; simp [hbQueued, initWith, Ev.isHB]
    · intro hq; exact absurd hq.1.2.2 (by simp [initWith])
  obtain ⟨n, hdn⟩ := fair_decides m e h0 hcanon hfair
  -- the first position whose successor has decided
  have first : ∀ n, (e.st n).decision ≠ none → ∃ k, (e.st k).decision = none ∧ (e.st (k + 1)).decision ≠ none := by
    intro n
    induction n with
    | zero => intro h; exact absurd h0.dec h
    | succ n ih =>
      intro h
      by_cases hp : (e.st n).decision = none
      · exact ⟨n, hp, h⟩
      · exact ih hp
  obtain ⟨k, hk0, hk1⟩ := first n hdn
  -- every state of the execution is reachable from the initial state by a finite history
  have hreach : ∀ j, ∃ ls', e.st j = runL m (initWith o q src) ls' := by
    intro j
    induction j with
    | zero => exact ⟨[], hstart⟩
    | succ j ih =>
      obtain ⟨ls', hj⟩ := ih
      refine ⟨ls' ++ [e.lab j], ?_⟩
      rw [e.next j, runL_append, ← hj]; rfl
  obtain ⟨ls', hk⟩ := hreach k
  have hstep : step m (e.st k) (e.lab k) = some (e.st (k + 1)) := by
    cases hs : step m (e.st k) (e.lab k) with
    | some s' => rw [e.next k, hs]; rfl
    | none =>
      exfalso
      have : e.st (k + 1) = e.st k := by rw [e.next k, hs]; rfl
      rw [this] at hk1; exact hk1 hk0
  have hx := c14_decision_complete m o q src ls' (e.lab k) (e.st (k + 1)) hn
  simp only [] at hx
  rw [← hk] at hx
  obtain ⟨a, b, _, c, _, d⟩ := hx hstep (by rw [hk0]; exact hk1)
  exact ⟨k, hk0, a, b, c, d⟩

/-- the hypotheses are satisfiable: the round-robin schedule from the initial state of a select-1 session -/
example : ∃ e : Exec (step (α := Nat) (κ := Nat) (fun q x => x % 2 == q)),
    e.st 0 = initWith { select1 := true } 0 [1, 2, 3] ∧ (∀ n, (e.lab n).canon = true) ∧ FairExec _ e :=
  ⟨roundRobin _ _, rfl, rr_canon, rr_fair _ _⟩

end SkimModel.Session
