import SkimModel.Model.Positions
import SkimModel.Model.Rank
import SkimModel.Generated.RankFeed
/-!
What every leaf engine hands to `build_rank`, as TRANSLATED from src/engine/{all,exact,regexp,fuzzy}.rs on every run
(`Generated/RankFeed.lean`).  `tupleOf` builds the argument tuple from the translated table, the reported range, the matcher's score
and the byte length of the item text.  Theorems: the `begin` / `end` of that tuple are the `rankKeys` of the range the engine reports
(the keys property C08 proves to lie inside the text, `c08_rank_keys`), the score of an exact / regex match is the width of its byte
span, the fuzzy score is the matcher's, match-all feeds zeros, and the length is always the item's byte length — so the sort key of
property C13 (`Rank.buildRank` of this tuple) is a function of the reported match, for every item and every match.
-/
namespace SkimModel.Positions
open SkimModel.Generated SkimModel.Rank

/-- a key source evaluated on a reported range -/
def keyOf (r : MatchRange) (len : Nat) : RankFeed.KeySrc → Nat
  | .zero => 0
  | .textLen => len
  | .spanBegin => (match r with | .bytes b _ => b | .chars _ => 0)
  | .spanEnd => (match r with | .bytes _ e => e | .chars _ => 0)
  | .firstIdx => (match r with | .chars v => v.head?.getD 0 | .bytes _ _ => 0)
  | .lastIdx => (match r with | .chars v => v.getLast?.getD 0 | .bytes _ _ => 0)

/-- a score source: `(end - begin) as i32` of the span, the matcher's score, or 0 -/
def scoreOf (r : MatchRange) (matcher : Int) : RankFeed.ScoreSrc → Int
  | .zero => 0
  | .spanWidth => (match r with | .bytes b e => ((e - b : Nat) : Int) | .chars _ => 0)
  | .matcher => matcher

/-- the range an engine reports next to the rank: its span, the matcher's indices, or `ByteRange(0, 0)` -/
def rangeOf (span : Nat × Nat) (indices : List Nat) : RankFeed.RangeSrc → MatchRange
  | .empty => .bytes 0 0
  | .span => .bytes span.1 span.2
  | .indices => .chars indices

/-- the tuple handed to `build_rank` -/
def tupleOf (f : RankFeed.Feed) (span : Nat × Nat) (indices : List Nat) (matcher : Int) (len : Nat) : Tuple :=
  let r := rangeOf span indices f.range
  { score := scoreOf r matcher f.score, begin := keyOf r len f.begin, «end» := keyOf r len f.«end», length := len }

/-- exact and regex engines: keys = the reported byte span, score = its width -/
theorem exact_feed (span : Nat × Nat) (indices : List Nat) (matcher : Int) (len : Nat) :
    let r := rangeOf span indices RankFeed.exact.range
    r = .bytes span.1 span.2 ∧
    tupleOf RankFeed.exact span indices matcher len =
      { score := ((span.2 - span.1 : Nat) : Int), begin := (rankKeys r).1, «end» := (rankKeys r).2, length := len } := by
  simp [tupleOf, rangeOf, keyOf, scoreOf, rankKeys, RankFeed.exact]

theorem regex_feed (span : Nat × Nat) (indices : List Nat) (matcher : Int) (len : Nat) :
    let r := rangeOf span indices RankFeed.regex.range
    r = .bytes span.1 span.2 ∧
    tupleOf RankFeed.regex span indices matcher len =
      { score := ((span.2 - span.1 : Nat) : Int), begin := (rankKeys r).1, «end» := (rankKeys r).2, length := len } := by
  simp [tupleOf, rangeOf, keyOf, scoreOf, rankKeys, RankFeed.regex]

/-- fuzzy engine: keys = first / last matched character index (0 for an empty match), score = the matcher's -/
theorem fuzzy_feed (span : Nat × Nat) (indices : List Nat) (matcher : Int) (len : Nat) :
    let r := rangeOf span indices RankFeed.fuzzy.range
    r = .chars indices ∧
    tupleOf RankFeed.fuzzy span indices matcher len =
      { score := matcher, begin := (rankKeys r).1, «end» := (rankKeys r).2, length := len } := by
  simp [tupleOf, rangeOf, keyOf, scoreOf, rankKeys, RankFeed.fuzzy]

/-- match-all engine: zeros and `ByteRange(0, 0)`; the length criterion still sees the item's length -/
theorem all_feed (span : Nat × Nat) (indices : List Nat) (matcher : Int) (len : Nat) :
    let r := rangeOf span indices RankFeed.all.range
    r = .bytes 0 0 ∧
    tupleOf RankFeed.all span indices matcher len =
      { score := 0, begin := (rankKeys r).1, «end» := (rankKeys r).2, length := len } := by
  simp [tupleOf, rangeOf, keyOf, scoreOf, rankKeys, RankFeed.all]

/-- for every engine the keys handed to `build_rank` are the `rankKeys` of the range it reports -/
theorem feed_keys_are_rank_keys (f : RankFeed.Feed) (hf : f = RankFeed.all ∨ f = RankFeed.exact ∨ f = RankFeed.regex ∨ f = RankFeed.fuzzy)
    (span : Nat × Nat) (indices : List Nat) (matcher : Int) (len : Nat) :
    let t := tupleOf f span indices matcher len
    (t.begin, t.«end») = rankKeys (rangeOf span indices f.range) ∧ t.length = len := by
  rcases hf with h | h | h | h <;> subst h <;>
    simp [tupleOf, rangeOf, keyOf, rankKeys, RankFeed.all, RankFeed.exact, RankFeed.regex, RankFeed.fuzzy]

end SkimModel.Positions
