import SkimModel.Model.Editor
import SkimModel.Generated.QueryOps
/-!
The editing actions of `Query` that are stack programs over the two halves of the line, as TRANSLATED from src/query.rs
(`Generated/QueryOps.lean`, rewritten from the source on every run): interpreting the instruction list of each method IS the C18
model's action, for every editor state, character and character classification.  Together with `c18_refines` (the model refines the
(line, cursor) reference editor) this ties these fourteen methods of the source to the reference editor by proof; history, yank,
paste and the pasted-text buffer stay tied by correspondence.  `dispatch_is_model`: the event -> method table of `Query::handle` is
the one the model's `Action` constructors stand for.
-/
namespace SkimModel.Editor
open SkimModel.Generated SkimModel.Generated.QueryOps

def getS (b : Buf) : Stk → List Char
  | .before => b.before
  | .after => b.after

def setS (b : Buf) : Stk → List Char → Buf
  | .before, v => { b with before := v }
  | .after, v => { b with after := v }

def predOf (k : Cls) : Pred → Bool → Char → Bool
  | .ws, false => k.isWs
  | .ws, true => fun c => !k.isWs c
  | .alnum, false => k.isAlnum
  | .alnum, true => fun c => !k.isAlnum c

/-- one instruction; the state is the editor and the local kill vector `yank` (in push order) -/
def stepOp (k : Cls) (ch : Char) (st : Ed × List Char) : Op → Ed × List Char
  | .push s => (st.1.setCur (setS st.1.cur s (ch :: getS st.1.cur s)), st.2)
  | .pop1 s => (st.1.setCur (setS st.1.cur s (getS st.1.cur s).tail), st.2)
  | .move1 src dst =>
      match getS st.1.cur src with
      | [] => st
      | c :: r =>
        let b1 := setS st.1.cur src r
        (st.1.setCur (setS b1 dst (c :: getS b1 dst)), st.2)
  | .yankWhile src p neg =>
      let r := popWhile (predOf k p neg) (getS st.1.cur src)
      (st.1.setCur (setS st.1.cur src r.2), st.2 ++ r.1)
  | .moveWhile src dst p neg =>
      let r := popWhile (predOf k p neg) (getS st.1.cur src)
      let b1 := setS st.1.cur src r.2
      (st.1.setCur (setS b1 dst (r.1.reverse ++ getS b1 dst)), st.2)
  | .moveAll src dst =>
      let v := getS st.1.cur src
      let b1 := setS st.1.cur src []
      (st.1.setCur (setS b1 dst (v.reverse ++ getS b1 dst)), st.2)
  | .takeYank src rev =>
      -- `mem::take` hands over the Rust vector: bottom of the stack first
      let v := getS st.1.cur src
      (saveYank (st.1.setCur (setS st.1.cur src [])) v.reverse rev, st.2)
  | .saveYank rev => (saveYank st.1 st.2 rev, st.2)

def runOps (k : Cls) (ch : Char) (e : Ed) (ops : List Op) : Ed := (ops.foldl (stepOp k ch) (e, [])).1

theorem setCur_cur (e : Ed) (b : Buf) : (e.setCur b).cur = b := by
  cases hm : e.mode <;> simp [Ed.setCur, Ed.cur, hm]

theorem setCur_setCur (e : Ed) (b b' : Buf) : (e.setCur b).setCur b' = e.setCur b' := by
  cases hm : e.mode <;> simp [Ed.setCur, hm]

theorem saveYank_cur (e : Ed) (v : List Char) (r : Bool) : (saveYank e v r).cur = e.cur := by
  unfold saveYank; split <;> (cases hm : e.mode <;> simp [Ed.cur, hm])

theorem add_char_is_model (k : Cls) (e : Ed) (c : Char) : runOps k c e act_add_char = addCharRaw e c := by
  simp [runOps, act_add_char, stepOp, addCharRaw, getS, setS]

theorem backward_delete_char_is_model (k : Cls) (e : Ed) (c : Char) :
    runOps k c e act_backward_delete_char = act k e .backwardDeleteChar := by
  simp [runOps, act_backward_delete_char, stepOp, act, getS, setS]

theorem delete_char_is_model (k : Cls) (e : Ed) (c : Char) : runOps k c e act_delete_char = act k e .deleteChar := by
  simp [runOps, act_delete_char, stepOp, act, getS, setS]

theorem backward_char_is_model (k : Cls) (e : Ed) (c : Char) : runOps k c e act_backward_char = act k e .backwardChar := by
  simp only [runOps, act_backward_char, List.foldl_cons, List.foldl_nil, stepOp, act, getS, setS]
  cases h : e.cur.before <;> simp [h]

theorem forward_char_is_model (k : Cls) (e : Ed) (c : Char) : runOps k c e act_forward_char = act k e .forwardChar := by
  simp only [runOps, act_forward_char, List.foldl_cons, List.foldl_nil, stepOp, act, getS, setS]
  cases h : e.cur.after <;> simp [h]

theorem unix_word_rubout_is_model (k : Cls) (e : Ed) (c : Char) :
    runOps k c e act_unix_word_rubout = act k e .unixWordRubout := by
  simp [runOps, act_unix_word_rubout, stepOp, act, getS, setS, predOf, setCur_cur, setCur_setCur]

theorem backward_kill_word_is_model (k : Cls) (e : Ed) (c : Char) :
    runOps k c e act_backward_kill_word = act k e .backwardKillWord := by
  simp [runOps, act_backward_kill_word, stepOp, act, getS, setS, predOf, setCur_cur, setCur_setCur]

theorem kill_word_is_model (k : Cls) (e : Ed) (c : Char) : runOps k c e act_kill_word = act k e .killWord := by
  simp [runOps, act_kill_word, stepOp, act, getS, setS, predOf, setCur_cur, setCur_setCur]

theorem backward_word_is_model (k : Cls) (e : Ed) (c : Char) : runOps k c e act_backward_word = act k e .backwardWord := by
  simp [runOps, act_backward_word, stepOp, act, getS, setS, predOf, setCur_cur, setCur_setCur]

theorem forward_word_is_model (k : Cls) (e : Ed) (c : Char) : runOps k c e act_forward_word = act k e .forwardWord := by
  simp [runOps, act_forward_word, stepOp, act, getS, setS, predOf, setCur_cur, setCur_setCur]

theorem beginning_of_line_is_model (k : Cls) (e : Ed) (c : Char) :
    runOps k c e act_beginning_of_line = act k e .beginningOfLine := by
  simp [runOps, act_beginning_of_line, stepOp, act, getS, setS]

theorem end_of_line_is_model (k : Cls) (e : Ed) (c : Char) : runOps k c e act_end_of_line = act k e .endOfLine := by
  simp [runOps, act_end_of_line, stepOp, act, getS, setS]

theorem kill_line_is_model (k : Cls) (e : Ed) (c : Char) : runOps k c e act_kill_line = act k e .killLine := by
  simp [runOps, act_kill_line, stepOp, act, getS, setS]

theorem line_discard_is_model (k : Cls) (e : Ed) (c : Char) : runOps k c e act_line_discard = act k e .unixLineDiscard := by
  simp [runOps, act_line_discard, stepOp, act, getS, setS]

/-- the method the model's action stands for -/
def methodOf : String → Option String
  | "EvActDeleteChar" => some "act_delete_char"
  | "EvActDeleteCharEOF" => some "act_delete_char"
  | "EvActBackwardChar" => some "act_backward_char"
  | "EvActBackwardDeleteChar" => some "act_backward_delete_char"
  | "EvActBackwardKillWord" => some "act_backward_kill_word"
  | "EvActBackwardWord" => some "act_backward_word"
  | "EvActBeginningOfLine" => some "act_beginning_of_line"
  | "EvActEndOfLine" => some "act_end_of_line"
  | "EvActForwardChar" => some "act_forward_char"
  | "EvActForwardWord" => some "act_forward_word"
  | "EvActKillLine" => some "act_kill_line"
  | "EvActKillWord" => some "act_kill_word"
  | "EvActPreviousHistory" => some "previous_history"
  | "EvActNextHistory" => some "next_history"
  | "EvActUnixLineDiscard" => some "act_line_discard"
  | "EvActUnixWordRubout" => some "act_unix_word_rubout"
  | "EvActYank" => some "act_yank"
  | "EvActToggleInteractive" => some "act_query_toggle_interactive"
  | _ => none

/-- every arm `Ev => self.method()` of `Query::handle` calls the method the model's action of that event stands for, and all
    eighteen such events have an arm -/
theorem dispatch_is_model :
    (∀ p ∈ QueryOps.dispatch, methodOf p.1 = some p.2) ∧ QueryOps.dispatch.length = 18 ∧ QueryOps.saveYankShapeOk = true := by
  decide

end SkimModel.Editor
