/-
C10 (selection-set level) — multi-selection is a set of `(run, index)` keys.
Property theorems only (helper lemmas live in `Lemmas/SelSet.lean`).

Reading guide.  `keys s` is the list of keys of the `selected` map of a model state; `WF s` says the map
is strictly ascending in its keys (the BTreeMap representation invariant; it implies the keys are
duplicate-free).  `c10_wf_*` show that the invariant holds after every history, so the `WF` hypothesis of
the other theorems is met by every reachable state.
-/
import SkimModel.Lemmas.SelSet
namespace SkimModel.SelSet

/-- a concrete state for the non-vacuity examples: multi mode, run 0 had items 1 and 3 selected, run 1 item 0;
    three items of run 1 are listed -/
def exSel : Sel :=
  { multi := true, selected := [((0, 1), 11), ((0, 3), 13), ((1, 0), 20)],
    listed := [⟨0, 20, 5⟩, ⟨1, 21, 6⟩, ⟨2, 22, 7⟩] }

def exSt : St := { runs := { map := [("cmd", 1), ("", 0)], seq := 2, cur := 1 }, sel := exSel }

example : WF exSel := by unfold WF Sorted exSel; decide
example : exSel.multi = true ∧ exSel.listed[1]? = some ⟨1, 21, 6⟩ := ⟨rfl, rfl⟩
example : (listedKeys exSel 1).Nodup := by decide
example : RunsWF exSt.runs := by
  refine ⟨rfl, by decide, ?_, ?_⟩
  · intro c n h
    simp only [exSt, Runs.find] at h
    split at h
    · simp only [Option.some.injEq] at h; subst h; decide
    · split at h
      · simp only [Option.some.injEq] at h; subst h; decide
      · cases h
  · intro c d n h1 h2
    simp only [exSt, Runs.find] at h1 h2
    split at h1 <;> split at h2 <;> (try split at h1) <;> (try split at h2) <;> simp_all <;> omega

/-! ### the invariant holds along every history -/

theorem c10_wf_init (s : Sel) (h : s.selected = []) : WF s := by
  unfold WF; rw [h]; exact sorted_nil

theorem c10_wf_step {st st' : St} {o : Op} (h : WF st.sel) (hs : step st o = some st') : WF st'.sel := by
  unfold WF at *
  cases o with
  | run cmd => simp only [step, Option.some.injEq] at hs; subst hs; exact h
  | clear => simp only [step, Option.some.injEq] at hs; subst hs; exact h
  | append b =>
    simp only [step, Option.some.injEq] at hs; subst hs
    simp only [append_selected]
    split
    · split
      · exact sorted_insertAll _ _ h
      · exact h
    · exact h
  | toggle c =>
    simp only [step, Option.map_eq_some_iff] at hs
    obtain ⟨s', hs', rfl⟩ := hs
    unfold toggle at hs'
    split at hs'
    · simp only [Option.some.injEq] at hs'; subst hs'; exact h
    · split at hs'
      · cases hs'
      · simp only [Option.some.injEq] at hs'; subst hs'; exact sorted_toggleKey h
  | toggleAll =>
    simp only [step, Option.some.injEq] at hs; subst hs
    simp only [toggleAll]; split
    · exact h
    · exact sorted_foldl_toggle _ _ h
  | selectAll =>
    simp only [step, Option.some.injEq] at hs; subst hs
    simp only [selectAll]; split
    · exact h
    · exact sorted_foldl_insert _ _ h
  | deselectAll => simp only [step, Option.some.injEq] at hs; subst hs; exact sorted_nil
  | selectMatched i it =>
    simp only [step, Option.some.injEq] at hs; subst hs
    simp only [selectRaw]; split
    · exact h
    · exact sorted_insert h
  | accept c =>
    simp only [step, Option.map_eq_some_iff] at hs
    obtain ⟨_, _, rfl⟩ := hs; exact h

/-- every history keeps the selected map strictly ascending in its keys -/
theorem c10_wf_run {ops : List Op} {st st' : St} (h : WF st.sel) (hs : runOps st ops = some st') :
    WF st'.sel := by
  induction ops generalizing st with
  | nil => simp only [runOps, Option.some.injEq] at hs; subst hs; exact h
  | cons o os ih =>
    simp only [runOps] at hs
    split at hs
    · cases hs
    · rename_i st1 h1; exact ih (c10_wf_step h h1) hs

/-! ### the count shown is the size of the set -/

theorem c10_count {s : Sel} (h : WF s) : (keys s).Nodup ∧ numSelected s = (keys s).length := by
  refine ⟨?_, by simp [numSelected, keys]⟩
  unfold WF Sorted at h
  unfold keys
  rw [List.nodup_iff_pairwise_ne, List.pairwise_map]
  exact h.imp (fun hlt => keyLt_ne hlt)

/-! ### toggle: insertion when absent, removal when present -/

/-- in multi mode with the cursor on a listed item, toggle succeeds, changes nothing but `selected`,
    and the new key set is the symmetric difference of the old one with `{(run, idx of cursor item)}` -/
theorem c10_toggle {s : Sel} {run c : Nat} {cur : MItem} (hm : s.multi = true) (hwf : WF s)
    (hc : s.listed[c]? = some cur) :
    ∃ s', toggle s run c = some s' ∧ s'.listed = s.listed ∧
      ∀ k, k ∈ keys s' ↔ (k ∈ keys s ∧ k ≠ (run, cur.idx)) ∨ (k = (run, cur.idx) ∧ (run, cur.idx) ∉ keys s) := by
  have hne : s.listed.isEmpty = false := by
    cases hl : s.listed with
    | nil => simp [hl] at hc
    | cons _ _ => rfl
  refine ⟨{ s with selected := toggleKey (run, cur.idx) cur.item s.selected }, ?_, rfl, ?_⟩
  · simp [toggle, hm, hne, hc]
  · intro k
    have hk := containsKey_toggleKey k (run, cur.idx) cur.item hwf
    simp only [mem_keys, hk]
    by_cases hkk : k = (run, cur.idx)
    · rw [hkk]; cases containsKey (run, cur.idx) s.selected <;> simp
    · simp [beq_false_of_ne hkk, hkk]

example : ∃ s' , toggle { multi := true, listed := [⟨7, 70, 0⟩], selected := [((0, 7), 70)] } 0 0 = some s' ∧ keys s' = [] :=
  ⟨_, rfl, rfl⟩

/-- the item remembered for a freshly toggled key is the cursor item; the values of all other keys are
    untouched (so accept returns the items that were selected) -/
theorem c10_toggle_value {s : Sel} {run c : Nat} {cur : MItem} (hm : s.multi = true) (hwf : WF s)
    (hc : s.listed[c]? = some cur) :
    ∃ s', toggle s run c = some s' ∧
      (∀ k, k ≠ (run, cur.idx) → lookup k s'.selected = lookup k s.selected) ∧
      lookup (run, cur.idx) s'.selected = (if (run, cur.idx) ∈ keys s then none else some cur.item) := by
  have hne : s.listed.isEmpty = false := by
    cases hl : s.listed with
    | nil => simp [hl] at hc
    | cons _ _ => rfl
  refine ⟨{ s with selected := toggleKey (run, cur.idx) cur.item s.selected }, ?_, ?_, ?_⟩
  · simp [toggle, hm, hne, hc]
  · intro k hk
    simp only [toggleKey]; split
    · simp [lookup_insert, hk]
    · simp [lookup_remove _ _ hwf, hk]
  · simp only [toggleKey, mem_keys]
    cases hcon : containsKey (run, cur.idx) s.selected with
    | false => simp [lookup_insert]
    | true => simp [lookup_remove _ _ hwf]

/-- toggling the same key again (e.g. after the list was re-filtered and the item came back under the same
    `(run, index)`) restores the set: the second toggle deselects the same item -/
theorem c10_toggle_twice (k : Key) (v v' : Item) {m : SelMap} (h : Sorted m) (k' : Key) :
    containsKey k' (toggleKey k v' (toggleKey k v m)) = containsKey k' m := by
  rw [containsKey_toggleKey _ _ _ (sorted_toggleKey h), containsKey_toggleKey _ _ _ h]
  cases containsKey k' m <;> cases (k' == k) <;> rfl

/-! ### select-all: union with the listed keys -/

theorem c10_select_all {s : Sel} (run : Nat) (hm : s.multi = true) (k : Key) :
    k ∈ keys (selectAll s run) ↔ k ∈ keys s ∨ k ∈ listedKeys s run := by
  unfold selectAll
  cases hl : s.listed with
  | nil => simp [listedKeys, hl]
  | cons a t =>
    have := containsKey_foldl_insert (fun x => (run, x.idx)) k (a :: t) s.selected
    simp only [hm, Bool.not_true, List.isEmpty_cons, Bool.or_self, Bool.false_eq_true, if_false, mem_keys, this,
      listedKeys, hl, Bool.or_eq_true, List.contains_eq_mem, decide_eq_true_eq]

/-! ### toggle-all: symmetric difference with the listed keys -/

/-- the general law (no assumption on the list): a key is flipped once per listing, so it changes
    membership iff it is listed an odd number of times -/
theorem c10_toggle_all_parity {s : Sel} (run : Nat) (hm : s.multi = true) (hwf : WF s) (k : Key) :
    containsKey k (toggleAll s run).selected
      = (containsKey k s.selected ^^ ((listedKeys s run).count k % 2 == 1)) := by
  unfold toggleAll
  cases hl : s.listed with
  | nil => simp [listedKeys, hl]
  | cons a t =>
    have := containsKey_foldl_toggle (fun x => (run, x.idx)) k (a :: t) hwf
    simp only [hm, Bool.not_true, List.isEmpty_cons, Bool.or_self, Bool.false_eq_true, if_false, this, listedKeys, hl]

/-- in a session every index is listed at most once; then toggle-all is the symmetric difference -/
theorem c10_toggle_all {s : Sel} (run : Nat) (hm : s.multi = true) (hwf : WF s)
    (hnd : (listedKeys s run).Nodup) (k : Key) :
    k ∈ keys (toggleAll s run) ↔
      (k ∈ keys s ∧ k ∉ listedKeys s run) ∨ (k ∈ listedKeys s run ∧ k ∉ keys s) := by
  have hp := c10_toggle_all_parity run hm hwf k
  simp only [mem_keys, hp]
  by_cases hin : k ∈ listedKeys s run
  · have h1 := List.nodup_iff_count.1 hnd k
    have h2 := List.count_pos_iff.2 hin
    have : (listedKeys s run).count k = 1 := by omega
    simp only [this, hin]
    cases containsKey k s.selected <;> simp
  · have : (listedKeys s run).count k = 0 := List.count_eq_zero.2 hin
    simp only [this, hin]
    cases containsKey k s.selected <;> simp

example : (listedKeys { listed := [⟨0, 1, 0⟩, ⟨1, 2, 0⟩, ⟨5, 3, 0⟩] } 2).Nodup := by decide

/-! ### deselect-all: the empty set -/

theorem c10_deselect_all (s : Sel) : keys (deselectAll s) = [] ∧ numSelected (deselectAll s) = 0 := ⟨rfl, rfl⟩

example : (deselectAll exSel).selected = [] := rfl

/-! ### single-selection mode ignores everything -/

/-- in single mode no action changes the state (deselect-all empties an already empty map) -/
theorem c10_single_ignored {s : Sel} (run : Nat) (hm : s.multi = false) :
    (∀ c, toggle s run c = some s) ∧ toggleAll s run = s ∧ selectAll s run = s ∧
    (∀ i it, selectRaw s run i it = s) ∧ (∀ b, (append s run b).selected = s.selected) := by
  refine ⟨fun c => by simp [toggle, hm], by simp [toggleAll, hm], by simp [selectAll, hm],
    fun i it => by simp [selectRaw, hm], fun b => ?_⟩
  rw [append_selected]; split <;> simp [hm]

/-- along every history of a single-mode widget the selected set stays empty -/
theorem c10_single_run {ops : List Op} {st st' : St} (hm : st.sel.multi = false) (he : st.sel.selected = [])
    (hs : runOps st ops = some st') : st'.sel.multi = false ∧ st'.sel.selected = [] := by
  induction ops generalizing st with
  | nil => simp only [runOps, Option.some.injEq] at hs; subst hs; exact ⟨hm, he⟩
  | cons o os ih =>
    simp only [runOps] at hs
    split at hs
    · cases hs
    · rename_i st1 h1
      have hsi := c10_single_ignored st.runs.cur hm
      have : st1.sel.multi = false ∧ st1.sel.selected = [] := by
        cases o with
        | run cmd => simp only [step, Option.some.injEq] at h1; subst h1; exact ⟨hm, he⟩
        | clear => simp only [step, Option.some.injEq] at h1; subst h1; exact ⟨hm, he⟩
        | append b =>
          simp only [step, Option.some.injEq] at h1; subst h1
          exact ⟨by simp [append_multi, hm], by simp [hsi.2.2.2.2 b, he]⟩
        | toggle c =>
          simp only [step, hsi.1 c, Option.map_some, Option.some.injEq] at h1; subst h1; exact ⟨hm, he⟩
        | toggleAll => simp only [step, hsi.2.1, Option.some.injEq] at h1; subst h1; exact ⟨hm, he⟩
        | selectAll => simp only [step, hsi.2.2.1, Option.some.injEq] at h1; subst h1; exact ⟨hm, he⟩
        | deselectAll => simp only [step, Option.some.injEq] at h1; subst h1; exact ⟨hm, rfl⟩
        | selectMatched i it =>
          simp only [step, hsi.2.2.2.1 i it, Option.some.injEq] at h1; subst h1; exact ⟨hm, he⟩
        | accept c =>
          simp only [step, Option.map_eq_some_iff] at h1
          obtain ⟨_, _, rfl⟩ := h1; exact ⟨hm, he⟩
      exact ih this.1 this.2 hs

example : (runOps { sel := { multi := false } }
    [.append [⟨0, 1, 0⟩, ⟨1, 2, 1⟩], .toggle 1, .selectAll, .toggleAll, .selectMatched 1 2, .deselectAll]).map
      (fun st => (st.sel.selected, accept st.sel 1)) = some ([], some ([1], [2])) := by decide

/-! ### the guards: nothing happens on an empty list -/

theorem c10_empty_list_noop {s : Sel} (run : Nat) (he : s.listed = []) :
    (∀ c, toggle s run c = some s) ∧ toggleAll s run = s ∧ selectAll s run = s := by
  refine ⟨fun c => by simp [toggle, he], by simp [toggleAll, he], by simp [selectAll, he]⟩

/-! ### accept: ascending `(run, index)` order; the cursor item only when nothing is selected -/

theorem c10_accept_order {s : Sel} (h : WF s) : (keys s).Pairwise (fun a b => keyLt a b = true) := by
  unfold keys; rw [List.pairwise_map]; exact h

/-- multi mode with a non-empty selection: exactly the selected items, in key order, whatever the cursor -/
theorem c10_accept_selected {s : Sel} (c : Nat) (hm : s.multi = true) (hne : s.selected ≠ []) :
    accept s c = some ((keys s).map (·.2), s.selected.map (·.2)) := by
  have : s.selected.isEmpty = false := by cases h : s.selected <;> simp_all
  simp [accept, hm, this, keys]

/-- single mode or empty selection: the cursor item (with its own index, i.e. its position in the input), nothing on an
    empty list; `none` (= the panic of the source) iff the cursor is outside a non-empty list -/
theorem c10_accept_cursor {s : Sel} (c : Nat) (h : s.multi = false ∨ s.selected = []) :
    accept s c =
      if s.listed.isEmpty then some ((keys s).map (·.2), s.selected.map (·.2))
      else (s.listed[c]?).map (fun cur => ((keys s).map (·.2) ++ [cur.idx], s.selected.map (·.2) ++ [cur.item])) := by
  have : (!s.multi || s.selected.isEmpty) = true := by
    rcases h with h | h <;> simp [h]
  simp only [accept, this, Bool.true_and, keys, List.map_map]
  cases hl : s.listed.isEmpty with
  | true => simp
  | false =>
    simp only [Bool.not_false, if_true]
    cases s.listed[c]? <;> rfl

/-- the item accept returns beside a key is the item stored under that key -/
theorem c10_accept_items {s : Sel} (h : WF s) : ∀ e ∈ s.selected, lookup e.1 s.selected = some e.2 := by
  unfold WF at h
  generalize s.selected = m at h
  induction m with
  | nil => intro e he; cases he
  | cons a t ih =>
    have ⟨h1, h2⟩ := sorted_cons.1 h
    intro e he
    rcases List.mem_cons.1 he with rfl | he
    · simp [lookup]
    · have : e.1 ≠ a.1 := fun eq => keyLt_ne (h1 e he) eq.symm
      simp only [lookup, this, if_false]
      exact ih h2 e he

/-! ### selections of other runs are never touched -/

/-- whatever is done under run `run`, the entry of every key of ANOTHER run — present or absent, and its
    item — stays as it was (only deselect-all, which has no run, clears everything) -/
theorem c10_other_runs_untouched {s : Sel} (run : Nat) (hwf : WF s) (k : Key) (hk : k.1 ≠ run) :
    (∀ c s', toggle s run c = some s' → lookup k s'.selected = lookup k s.selected) ∧
    lookup k (toggleAll s run).selected = lookup k s.selected ∧
    lookup k (selectAll s run).selected = lookup k s.selected ∧
    (∀ i it, lookup k (selectRaw s run i it).selected = lookup k s.selected) ∧
    (∀ b, lookup k (append s run b).selected = lookup k s.selected) := by
  have hne : ∀ i : Nat, (run, i) ≠ k := fun i e => hk (e ▸ rfl)
  refine ⟨?_, ?_, ?_, ?_, ?_⟩
  · intro c s' hs'
    unfold toggle at hs'
    split at hs'
    · simp only [Option.some.injEq] at hs'; subst hs'; rfl
    · split at hs'
      · cases hs'
      · simp only [Option.some.injEq] at hs'; subst hs'
        exact lookup_toggleKey_other hwf (hne _)
  · unfold toggleAll; split
    · rfl
    · exact lookup_foldl_toggle_other _ _ hwf (fun x _ => hne x.idx)
  · unfold selectAll; split
    · rfl
    · exact lookup_foldl_insert_other _ _ _ (fun x _ => hne x.idx)
  · intro i it; unfold selectRaw; split
    · rfl
    · have : k ≠ (run, i) := fun e => hne i e.symm
      simp [lookup_insert, this]
  · intro b; rw [append_selected]
    split
    · split
      · exact lookup_foldl_insert_other _ _ _ (fun x _ => hne x.idx)
      · rfl
    · rfl

/-- a selection made under an earlier run is still there, with its item, after any history that never
    deselects-all and never returns to that run -/
theorem c10_other_runs_untouched_run {ops : List Op} {st st' : St} (hwf : WF st.sel) (k : Key)
    (hs : runOps st ops = some st')
    (hcur : st.runs.cur ≠ k.1)
    (hops : ∀ o ∈ ops, o ≠ .deselectAll ∧ ∀ cmd, o ≠ .run cmd) :
    lookup k st'.sel.selected = lookup k st.sel.selected := by
  induction ops generalizing st with
  | nil => simp only [runOps, Option.some.injEq] at hs; subst hs; rfl
  | cons o os ih =>
    simp only [runOps] at hs
    split at hs
    · cases hs
    · rename_i st1 h1
      have ho := hops o (List.mem_cons_self ..)
      have hk : k.1 ≠ st.runs.cur := fun e => hcur e.symm
      have hu := c10_other_runs_untouched st.runs.cur hwf k hk
      have h2 : st1.runs = st.runs ∧ lookup k st1.sel.selected = lookup k st.sel.selected := by
        cases o with
        | run cmd => exact absurd rfl (ho.2 cmd)
        | clear => simp only [step, Option.some.injEq] at h1; subst h1; exact ⟨rfl, rfl⟩
        | append b => simp only [step, Option.some.injEq] at h1; subst h1; exact ⟨rfl, hu.2.2.2.2 b⟩
        | toggle c =>
          simp only [step, Option.map_eq_some_iff] at h1
          obtain ⟨s', hs', rfl⟩ := h1; exact ⟨rfl, hu.1 c s' hs'⟩
        | toggleAll => simp only [step, Option.some.injEq] at h1; subst h1; exact ⟨rfl, hu.2.1⟩
        | selectAll => simp only [step, Option.some.injEq] at h1; subst h1; exact ⟨rfl, hu.2.2.1⟩
        | deselectAll => exact absurd rfl ho.1
        | selectMatched i it => simp only [step, Option.some.injEq] at h1; subst h1; exact ⟨rfl, hu.2.2.2.1 i it⟩
        | accept c =>
          simp only [step, Option.map_eq_some_iff] at h1
          obtain ⟨_, _, rfl⟩ := h1; exact ⟨rfl, rfl⟩
      rw [← h2.2]
      exact ih (c10_wf_step hwf h1) hs (by rw [h2.1]; exact hcur) (fun o ho' => hops o (List.mem_cons_of_mem _ ho'))

/-- the hypotheses are met by a real history: under run 1, toggling, toggle-all, select-all and re-filtering
    leave the two selections of run 0 in place -/
example : exSt.runs.cur ≠ (0, 1).1 ∧
    ((runOps exSt [.toggle 1, .toggleAll, .clear, .append [⟨2, 22, 1⟩], .selectAll]).map
      (fun st => (lookup (0, 1) st.sel.selected, lookup (0, 3) st.sel.selected, keys st.sel)))
      = some (some 11, some 13, [(0, 1), (0, 3), (1, 2)]) := by decide

/-! ### re-filtering does not touch the selection -/

/-- the steps a query edit causes at this level (clear the list, append the new matches — without a
    pre-selector —, a new command run, looking at the result) leave the selected map exactly as it was -/
theorem c10_survives_refilter {st st' : St} {o : Op} (hs : step st o = some st')
    (ho : (∃ cmd, o = .run cmd) ∨ o = .clear ∨ (∃ c, o = .accept c) ∨
          (∃ b, o = .append b ∧ (st.sel.selector = none ∨ st.sel.multi = false))) :
    st'.sel.selected = st.sel.selected := by
  rcases ho with ⟨cmd, rfl⟩ | rfl | ⟨c, rfl⟩ | ⟨b, rfl, hb⟩
  · simp only [step, Option.some.injEq] at hs; subst hs; rfl
  · simp only [step, Option.some.injEq] at hs; subst hs; rfl
  · simp only [step, Option.map_eq_some_iff] at hs
    obtain ⟨_, _, rfl⟩ := hs; rfl
  · simp only [step, Option.some.injEq] at hs; subst hs
    simp only [append_selected]
    rcases hb with hb | hb
    · simp [hb]
    · split <;> simp [hb]

example : (runOps exSt [.clear, .append [⟨1, 21, 3⟩], .run "other", .accept 0]).map (·.sel.selected)
    = some exSel.selected := by decide

/-! ### pre-selection and select-matched are insertions -/

/-- `append_sorted_items` adds exactly the keys `(run, idx)` of the batch items the selector accepts, and only
    in multi mode with a selector and when the watermark rule says the batch was not seen before -/
theorem c10_preselect_union {s : Sel} (run : Nat) (b : List MItem) (k : Key) :
    k ∈ keys (append s run b) ↔
      k ∈ keys s ∨ ∃ sel, s.selector = some sel ∧ s.multi = true ∧ preSelectDue s run b = true ∧ k ∈ preKeys sel run b := by
  simp only [mem_keys, append_selected]
  cases hsel : s.selector with
  | none => simp
  | some sel =>
    simp only []
    by_cases hc : (s.multi && preSelectDue s run b) = true
    · have hc' := hc
      simp only [Bool.and_eq_true] at hc'
      simp [hc'.1, hc'.2, containsKey_insertAll, preKeys, preFilter]
    · simp only [hc, if_false, Bool.false_eq_true]
      simp only [Bool.and_eq_true, not_and] at hc
      constructor
      · exact Or.inl
      · rintro (h | ⟨sel', _, h1, h2, _⟩)
        · exact h
        · exact absurd h2 (hc h1)

theorem c10_select_matched {s : Sel} (run i : Nat) (it : Item) (hm : s.multi = true) (k : Key) :
    k ∈ keys (selectRaw s run i it) ↔ k = (run, i) ∨ k ∈ keys s := by
  simp [mem_keys, selectRaw, hm, containsKey_insert]

/-! ### refinement: the map code implements the set-valued reference semantics -/

/-- one step of the model = one step of the reference on the key set (toggle-all needs the listed indices
    to be different, which holds in a session: an index is the position of an item in the input) -/
theorem c10_refines_step {st st' : St} {o : Op} (hwf : WF st.sel) (hs : step st o = some st')
    (hnd : o = .toggleAll → (listedKeys st.sel st.runs.cur).Nodup) :
    SetEq (keys st'.sel) (specStep st (keys st.sel) o) := by
  intro k
  cases o with
  | run cmd => simp only [step, Option.some.injEq] at hs; subst hs; exact Iff.rfl
  | clear => simp only [step, Option.some.injEq] at hs; subst hs; exact Iff.rfl
  | accept c =>
    simp only [step, Option.map_eq_some_iff] at hs
    obtain ⟨_, _, rfl⟩ := hs; exact Iff.rfl
  | deselectAll => simp only [step, Option.some.injEq] at hs; subst hs; exact Iff.rfl
  | append b =>
    simp only [step, Option.some.injEq] at hs; subst hs
    rw [c10_preselect_union]
    simp only [specStep]
    cases hsel : st.sel.selector with
    | none => simp
    | some sel =>
      simp only []
      by_cases hc : (st.sel.multi && preSelectDue st.sel st.runs.cur b) = true
      · have hc' := hc
        simp only [Bool.and_eq_true] at hc'
        simp [hc'.1, hc'.2, mem_sUnion]
      · simp only [hc, if_false, Bool.false_eq_true]
        simp only [Bool.and_eq_true, not_and] at hc
        constructor
        · rintro (h | ⟨sel', _, h1, h2, _⟩)
          · exact h
          · exact absurd h2 (hc h1)
        · exact Or.inl
  | toggle c =>
    simp only [step, Option.map_eq_some_iff] at hs
    obtain ⟨s', hs', rfl⟩ := hs
    simp only [specStep]
    cases hm : st.sel.multi with
    | false =>
      rw [(c10_single_ignored st.runs.cur hm).1 c] at hs'
      simp only [Option.some.injEq] at hs'; subst hs'; simp
    | true =>
      simp only [Bool.not_true, Bool.false_eq_true, if_false]
      cases hc : st.sel.listed[c]? with
      | none =>
        simp only []
        unfold toggle at hs'
        simp only [hm, hc, Bool.not_true, Bool.false_or] at hs'
        split at hs'
        · simp only [Option.some.injEq] at hs'; subst hs'; exact Iff.rfl
        · cases hs'
      | some cur =>
        simp only []
        obtain ⟨s'', h1, _, h3⟩ := c10_toggle (run := st.runs.cur) hm hwf hc
        rw [h1] at hs'; simp only [Option.some.injEq] at hs'; subst hs'
        rw [h3 k, mem_sToggle]
  | toggleAll =>
    simp only [step, Option.some.injEq] at hs; subst hs
    simp only [specStep]
    cases hm : st.sel.multi with
    | false => rw [(c10_single_ignored st.runs.cur hm).2.1]; simp
    | true =>
      simp only [Bool.not_true, Bool.false_eq_true, if_false]
      rw [c10_toggle_all st.runs.cur hm hwf (hnd rfl) k, mem_sSymmDiff]
  | selectAll =>
    simp only [step, Option.some.injEq] at hs; subst hs
    simp only [specStep]
    cases hm : st.sel.multi with
    | false => rw [(c10_single_ignored st.runs.cur hm).2.2.1]; simp
    | true =>
      simp only [Bool.not_true, Bool.false_eq_true, if_false]
      rw [c10_select_all st.runs.cur hm k, mem_sUnion]
  | selectMatched i it =>
    simp only [step, Option.some.injEq] at hs; subst hs
    simp only [specStep]
    cases hm : st.sel.multi with
    | false => rw [(c10_single_ignored st.runs.cur hm).2.2.2.1]; simp
    | true =>
      simp only [Bool.not_true, Bool.false_eq_true, if_false]
      rw [c10_select_matched st.runs.cur i it hm k, mem_sInsert]

/-- for every history: the keys of the model's map are the reference set, and what is shown is the same —
    the reference set sorted by `(run, index)` IS the key sequence of the map (accept order), and its size IS
    `get_num_selected` -/
theorem c10_refines_run {ops : List Op} {st st' : St} {S S' : KSet} (hwf : WF st.sel)
    (hS : SetEq (keys st.sel) S) (hnd : S.Nodup) (hadm : Admissible st ops)
    (hs : specRun st S ops = some (st', S')) :
    SetEq (keys st'.sel) S' ∧ S'.Nodup ∧ sortKeys S' = keys st'.sel ∧ S'.length = numSelected st'.sel := by
  induction ops generalizing st S with
  | nil =>
    simp only [specRun, Option.some.injEq, Prod.mk.injEq] at hs
    obtain ⟨rfl, rfl⟩ := hs
    have hsort : sortKeys S = keys st.sel :=
      ksorted_ext (ksorted_sortKeys hnd) (c10_accept_order hwf) (fun k => by rw [mem_sortKeys]; exact (hS k).symm)
    refine ⟨hS, hnd, hsort, ?_⟩
    rw [← length_sortKeys, hsort]; simp [numSelected, keys]
  | cons o os ih =>
    simp only [specRun] at hs
    split at hs
    · cases hs
    · rename_i st1 h1
      have hstep := c10_refines_step hwf h1 hadm.1
      have hcong := specStep_congr st o hS
      exact ih (c10_wf_step hwf h1) (fun k => (hstep k).trans (hcong k)) (specStep_nodup st o hnd hadm.1)
        (hadm.2 st1 h1) hs

example : (specRun exSt (keys exSel) [.toggle 1, .toggleAll, .run "", .clear, .selectAll]).map (·.2)
    = some [(0, 1), (0, 3), (1, 2)] := by decide

example : Admissible {} [.append [⟨0, 1, 0⟩, ⟨1, 2, 0⟩], .toggleAll] := by
  simp only [Admissible, step, Option.some.injEq]
  refine ⟨fun h => (by cases h), fun st' h => ?_⟩
  subst h; exact ⟨fun _ => (by decide), fun _ _ => trivial⟩

/-- what accept reports is what the reference derives from its set: the indices of the keys in ascending
    `(run, index)` order, plus the index of the cursor item when nothing is selected / in single mode -/
theorem c10_accept_refines {st : St} {S : KSet} (c : Nat) (hsort : sortKeys S = keys st.sel)
    (hlen : S.length = numSelected st.sel) {r : List Nat × List Item} (ha : accept st.sel c = some r) :
    r.1 = specAccept st S c := by
  have hemp : S.isEmpty = st.sel.selected.isEmpty := by
    unfold numSelected at hlen
    cases S <;> cases h : st.sel.selected <;> simp_all
  simp only [specAccept, hsort, hemp, keys, List.map_map]
  by_cases hc : ((!st.sel.multi || st.sel.selected.isEmpty) && !st.sel.listed.isEmpty) = true
  · rw [if_pos hc]
    simp only [accept, hc, if_true] at ha
    cases hcur : st.sel.listed[c]? with
    | none => simp [hcur] at ha
    | some cur => simp only [hcur, Option.some.injEq] at ha; subst ha; simp
  · rw [if_neg hc]
    simp only [accept, hc, if_false, Bool.false_eq_true, Option.some.injEq] at ha
    subst ha; rfl

/-! ### identity: the item remembered for a key is the item of that key -/

/-- if `T` says which item sits at position `idx` of the input of run `run`, and what is listed / appended /
    select-matched under the current run carries those items, then after the step every selected key still
    carries its own item (so accept returns the items that were selected, not others) -/
theorem c10_identity_step {T : Key → Item} {st st' : St} {o : Op} (hs : step st o = some st')
    (hc : Consistent T st.sel.selected)
    (hl : ∀ x ∈ st.sel.listed, x.item = T (st.runs.cur, x.idx))
    (hb : ∀ b, o = .append b → ∀ x ∈ b, x.item = T (st.runs.cur, x.idx))
    (hm : ∀ i it, o = .selectMatched i it → it = T (st.runs.cur, i)) :
    Consistent T st'.sel.selected := by
  cases o with
  | run cmd => simp only [step, Option.some.injEq] at hs; subst hs; exact hc
  | clear => simp only [step, Option.some.injEq] at hs; subst hs; exact hc
  | accept c =>
    simp only [step, Option.map_eq_some_iff] at hs
    obtain ⟨_, _, rfl⟩ := hs; exact hc
  | deselectAll => simp only [step, Option.some.injEq] at hs; subst hs; intro e he; cases he
  | append b =>
    simp only [step, Option.some.injEq] at hs; subst hs
    simp only [append_selected]
    split
    · split
      · exact consistent_foldl_insert _ _ hc
          (fun x hx => hb b rfl x (List.mem_filter.1 hx).1)
      · exact hc
    · exact hc
  | toggle c =>
    simp only [step, Option.map_eq_some_iff] at hs
    obtain ⟨s', hs', rfl⟩ := hs
    unfold toggle at hs'
    split at hs'
    · simp only [Option.some.injEq] at hs'; subst hs'; exact hc
    · split at hs'
      · cases hs'
      · rename_i cur hcur
        simp only [Option.some.injEq] at hs'; subst hs'
        exact consistent_toggleKey hc (hl cur (List.mem_of_getElem? hcur))
  | toggleAll =>
    simp only [step, Option.some.injEq] at hs; subst hs
    simp only [toggleAll]; split
    · exact hc
    · exact consistent_foldl_toggle _ _ hc hl
  | selectAll =>
    simp only [step, Option.some.injEq] at hs; subst hs
    simp only [selectAll]; split
    · exact hc
    · exact consistent_foldl_insert _ _ hc hl
  | selectMatched i it =>
    simp only [step, Option.some.injEq] at hs; subst hs
    simp only [selectRaw]; split
    · exact hc
    · exact consistent_insert hc (hm i it rfl)

example : Consistent (fun k => k.1 * 10 + k.2 + 10) exSel.selected ∧
    ∀ x ∈ exSel.listed, x.item = (fun k : Key => k.1 * 10 + k.2 + 10) (1, x.idx) := by
  unfold Consistent exSel; decide

/-! ### run numbers: one number per distinct command string (global.rs) -/

theorem c10_runs_wf_init : RunsWF {} := by
  show RunsWF ⟨[("", 0)], 1, 0⟩
  refine ⟨rfl, by decide, ?_, ?_⟩
  · intro c n h
    simp only [Runs.find] at h
    split at h
    · simp only [Option.some.injEq] at h; subst h; decide
    · cases h
  · intro c d n h1 h2
    simp only [Runs.find] at h1 h2
    split at h1
    · split at h2
      · rename_i e1 e2; exact e1.symm.trans e2
      · cases h2
    · cases h1

/-- `mark_new_run` keeps the invariant, makes `cmd`'s number current, never changes the number of a command
    that already has one; a known command gets its old number back -/
theorem c10_mark_new_run {g : Runs} (cmd : String) (h : RunsWF g) :
    RunsWF (markNewRun g cmd) ∧
    Runs.find cmd (markNewRun g cmd).map = some (markNewRun g cmd).cur ∧
    (∀ c n, Runs.find c g.map = some n → Runs.find c (markNewRun g cmd).map = some n) := by
  obtain ⟨h0, hpos, hlt, hinj⟩ := h
  cases hf : Runs.find cmd g.map with
  | some n =>
    have e : markNewRun g cmd = { g with cur := n } := by simp only [markNewRun, hf]
    rw [e]
    exact ⟨⟨h0, hpos, hlt, hinj⟩, hf, fun c n h => h⟩
  | none =>
    have e : markNewRun g cmd = { map := (cmd, g.seq) :: g.map, seq := g.seq + 1, cur := g.seq } := by
      simp only [markNewRun, hf]
    rw [e]
    have hstable : ∀ c n, Runs.find c g.map = some n → Runs.find c ((cmd, g.seq) :: g.map) = some n := by
      intro c n hc
      simp only [Runs.find]
      split
      · rename_i e; have e' : cmd = c := e; rw [← e', hf] at hc; cases hc
      · exact hc
    refine ⟨⟨hstable _ _ h0, Nat.succ_pos _, ?_, ?_⟩, ?_, hstable⟩
    · intro c n hc
      show n < g.seq + 1
      simp only [Runs.find] at hc
      split at hc
      · simp only [Option.some.injEq] at hc; omega
      · exact Nat.lt_succ_of_lt (hlt c n hc)
    · intro c d n hc hd
      simp only [Runs.find] at hc hd
      split at hc
      · split at hd
        · rename_i e1 e2; exact e1.symm.trans e2
        · simp only [Option.some.injEq] at hc; subst hc
          exact absurd (hlt d _ hd) (Nat.lt_irrefl _)
      · split at hd
        · simp only [Option.some.injEq] at hd; subst hd
          exact absurd (hlt c _ hc) (Nat.lt_irrefl _)
        · exact hinj c d n hc hd
    · simp only [Runs.find, if_true]

/-- along every history the run-number table stays well-formed -/
theorem c10_runs_wf_run {ops : List Op} {st st' : St} (h : RunsWF st.runs) (hs : runOps st ops = some st') :
    RunsWF st'.runs := by
  induction ops generalizing st with
  | nil => simp only [runOps, Option.some.injEq] at hs; subst hs; exact h
  | cons o os ih =>
    simp only [runOps] at hs
    split at hs
    · cases hs
    · rename_i st1 h1
      refine ih ?_ hs
      cases o with
      | run cmd => simp only [step, Option.some.injEq] at h1; subst h1; exact (c10_mark_new_run cmd h).1
      | clear => simp only [step, Option.some.injEq] at h1; subst h1; exact h
      | append b => simp only [step, Option.some.injEq] at h1; subst h1; exact h
      | toggle c =>
        simp only [step, Option.map_eq_some_iff] at h1
        obtain ⟨_, _, rfl⟩ := h1; exact h
      | toggleAll => simp only [step, Option.some.injEq] at h1; subst h1; exact h
      | selectAll => simp only [step, Option.some.injEq] at h1; subst h1; exact h
      | deselectAll => simp only [step, Option.some.injEq] at h1; subst h1; exact h
      | selectMatched i it => simp only [step, Option.some.injEq] at h1; subst h1; exact h
      | accept c =>
        simp only [step, Option.map_eq_some_iff] at h1
        obtain ⟨_, _, rfl⟩ := h1; exact h

end SkimModel.SelSet
