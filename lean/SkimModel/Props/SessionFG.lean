import SkimModel.Lemmas.SessionFGLive
import SkimModel.Props.C14
/-!
# C01 / C14 at READ granularity

`Model/Session.lean` runs every handler of the event loop atomically and lets each read of a flag owned by
another thread return the current value or a stale `false`.  Here that abstraction is REMOVED: the heart-beat
handler (act_heart_beat followed by handle_select1_or_exit0) is split at every such read
(`Model/SessionFG.lean`), every read returns the value the shared state has at that very moment (label `.m true`; a
label `.m false` lets a read return `false` instead, so the stale readings of the coarse model are included), and the reader,
the matcher thread, the timer and the input thread may take any number of steps between any two of M's
micro-steps.  The theorems below are the C01 and C14 statements for THAT system, for every label sequence, i.e.
every interleaving at read granularity.

What remains atomic (and why nothing is lost): the harvest (one critical section on the result lock), the
restart (no matcher thread exists while it runs; a reader push in the middle of it commutes with it) and the
handlers of user events (a kill is store + join).  See DESIGN.md §1.2.
-/
namespace SkimModel.Session
open SkimModel.Pool
variable {α κ : Type}

/-- program points at which the accounting invariant `Inv` holds (everywhere except between the harvest and
    the end of act_heart_beat, where the list may already be replaced while the restart is still to come) -/
def PC.stable : PC → Bool
  | .hb4 _ => false
  | .hb5 _ _ => false
  | _ => true

theorem inv_of_stable (m : κ → α → Bool) (f : FSt α κ) (h : FInv m f) (hp : f.pc.stable = true) : Inv m f.s := by
  unfold FInv at h
  cases hpc : f.pc <;> simp only [hpc] at h hp <;> first | exact h | exact h.1 | (simp [PC.stable] at hp)

/-- Safety at read granularity: the invariant holds after EVERY fine-grained history. -/
theorem fg_invariant (m : κ → α → Bool) (o : Opts) (q : κ) (src : List α) (ls : List (FLabel α κ)) :
    FInv m (frun m (finit o q src) ls) :=
  finv_frun m _ ls (finv_init m o q src)

theorem fg_nce_mstep (f f' : FSt α κ) (rd : Bool) (hs : mstep f rd = some f') : f'.s.noClearIfEmpty = f.s.noClearIfEmpty := by
  unfold mstep at hs
  split at hs
  · cases hs
  · cases hpc : f.pc with
    | idle =>
      simp only [hpc] at hs
      split at hs
      · cases hs
      · cases hs; rfl
      · cases hs; exact (handleUser_opts _ _).2.2.2
    | hb1 => simp only [hpc] at hs; cases hs; rfl
    | hb2 rs => simp only [hpc] at hs; cases hs; rfl
    | hb3 rs ms => simp only [hpc] at hs; cases hs; exact (hbHarvest_opts _ _ _).2.2.2.1
    | hb4 rs => simp only [hpc] at hs; cases hs; rfl
    | hb5 rs ic =>
      simp only [hpc] at hs; cases hs
      show (hbFinish f.s rs ic).noClearIfEmpty = _
      unfold hbFinish; simp only []
      split <;> split <;> first | rfl | exact (restart_opts _).2.2.2.1
    | s1 => simp only [hpc] at hs; cases hs; rfl
    | s2 ic' => simp only [hpc] at hs; cases hs; rfl
    | s3 ic' rs' =>
      simp only [hpc] at hs; cases hs
      show (if _ then decide1 f.s else f.s).noClearIfEmpty = _
      split
      · exact decide1_nce f.s
      · rfl

theorem fg_nce_fstep (m : κ → α → Bool) (f f' : FSt α κ) (l : FLabel α κ) (hs : fstep m f l = some f') :
    f'.s.noClearIfEmpty = f.s.noClearIfEmpty := by
  cases l with
  | m rd => exact fg_nce_mstep f f' rd hs
  | foreign l =>
    cases l with
    | loop rd => simp [fstep] at hs
    | rPush => simp only [fstep, Option.map_eq_some_iff] at hs; obtain ⟨s', h1, rfl⟩ := hs; exact nce_step m _ _ _ h1
    | rEnd => simp only [fstep, Option.map_eq_some_iff] at hs; obtain ⟨s', h1, rfl⟩ := hs; exact nce_step m _ _ _ h1
    | tTake => simp only [fstep, Option.map_eq_some_iff] at hs; obtain ⟨s', h1, rfl⟩ := hs; exact nce_step m _ _ _ h1
    | tPublish => simp only [fstep, Option.map_eq_some_iff] at hs; obtain ⟨s', h1, rfl⟩ := hs; exact nce_step m _ _ _ h1
    | tStop => simp only [fstep, Option.map_eq_some_iff] at hs; obtain ⟨s', h1, rfl⟩ := hs; exact nce_step m _ _ _ h1
    | timer => simp only [fstep, Option.map_eq_some_iff] at hs; obtain ⟨s', h1, rfl⟩ := hs; exact nce_step m _ _ _ h1
    | user e => simp only [fstep, Option.map_eq_some_iff] at hs; obtain ⟨s', h1, rfl⟩ := hs; exact nce_step m _ _ _ h1

theorem fg_nce_frun (m : κ → α → Bool) (f : FSt α κ) (ls : List (FLabel α κ)) :
    (frun m f ls).s.noClearIfEmpty = f.s.noClearIfEmpty := by
  induction ls generalizing f with
  | nil => rfl
  | cons l ls ih =>
    unfold frun; simp only [List.foldl_cons]
    have := ih ((fstep m f l).getD f)
    unfold frun at this; rw [this]
    cases hs : fstep m f l with
    | none => rfl
    | some f' => exact fg_nce_fstep m f f' l hs

/-- what `Inv` says of a state in which the source has ended and matching has caught up -/
theorem quiescent_of_inv (m : κ → α → Bool) (s : St α κ) (hinv : Inv m s) (hnce : s.noClearIfEmpty = false)
    (hse : SourceEnded s) (hcu : CaughtUp s) :
    s.list.Perm (hitsFrom m s.q 0 s.pool.pool) ∧ s.pool.reserved ++ s.pool.pool = s.source ∧ s.clear = .dont := by
  obtain ⟨hu, hb, hl⟩ := hse
  obtain ⟨hmc, htk⟩ := hcu
  have hclear : s.clear = .dont := by
    cases hc : s.clear with
    | dont => rfl
    | clear => exact absurd hmc (hinv.pend hnce (by simp [hc]))
    | ifNotNull => exact absurd hmc (hinv.pend hnce (by simp [hc]))
  refine ⟨?_, ?_, hclear⟩
  · have hacc := hinv.acc
    unfold Acc at hacc; rw [hmc] at hacc
    rw [eff_dont s hclear, htk, List.take_length] at hacc
    exact hacc
  · have := hinv.core.src
    rw [hb, hu] at this; simpa using this

/-- C01 at read granularity: after every fine-grained history, at every program point of M outside the window
    between the harvest and the end of act_heart_beat — in particular whenever the event loop is idle —, if the
    source has ended and matching has caught up then the list is exactly the matching items of the source for the
    CURRENT query, each once. -/
theorem fg_quiescent_exact (m : κ → α → Bool) (o : Opts) (q : κ) (src : List α) (ls : List (FLabel α κ))
    (hn : o.noClearIfEmpty = false) :
    let f := frun m (finit o q src) ls
    f.pc.stable = true → SourceEnded f.s → CaughtUp f.s →
      f.s.list.Perm (hitsFrom m f.s.q 0 f.s.pool.pool) ∧ f.s.pool.reserved ++ f.s.pool.pool = f.s.source ∧
      f.s.clear = .dont := by
  intro f hp hse hcu
  have hinv : Inv m f.s := inv_of_stable m f (fg_invariant m o q src ls) hp
  have hnce : f.s.noClearIfEmpty = false := by
    show (frun m (finit o q src) ls).s.noClearIfEmpty = false
    rw [fg_nce_frun]; exact hn
  exact quiescent_of_inv m f.s hinv hnce hse hcu

/-- the decision point: `decide1` applied where the invariant holds, the reader is done, every item was taken and
    the last run was harvested -/
theorem decide1_exact (m : κ → α → Bool) (s3 : St α κ) (hinv : Inv m s3) (hrd : readerDone s3 = true)
    (hic : itemsConsumed s3 = true) (hmc : s3.mc = none) (hnce : s3.noClearIfEmpty = false) :
    let s' := decide1 s3
    SourceEnded s' ∧ CaughtUp s' ∧ s'.clear = .dont ∧
      s'.list.Perm (hitsFrom m s'.q 0 s'.pool.pool) ∧ s'.pool.reserved ++ s'.pool.pool = s'.source ∧
      s'.decision = some (expectedDecision s3.select1 s3.exit0 (hitsFrom m s'.q 0 s'.pool.pool).length) := by
  intro s'
  simp only [readerDone, Bool.and_eq_true, Bool.not_eq_true', List.isEmpty_iff] at hrd
  have hun : s3.unread = [] := hinv.core.dead hrd.1
  have htk : s3.pool.taken = s3.pool.pool.length := by simpa [itemsConsumed] using hic
  obtain ⟨hperm, hsrc, hclear⟩ := quiescent_of_inv m s3 hinv hnce ⟨hun, hrd.2, hrd.1⟩ ⟨hmc, htk⟩
  have hlen : s3.list.length = (hitsFrom m s3.q 0 s3.pool.pool).length := hperm.length_eq
  have hd : (decide1 s3).decision = some (expectedDecision s3.select1 s3.exit0 s3.list.length) ∧
      (decide1 s3).unread = s3.unread ∧ (decide1 s3).buf = s3.buf ∧ (decide1 s3).live = s3.live ∧
      (decide1 s3).mc = s3.mc ∧ (decide1 s3).pool = s3.pool ∧ (decide1 s3).clear = s3.clear ∧
      (decide1 s3).list = s3.list ∧ (decide1 s3).q = s3.q ∧ (decide1 s3).source = s3.source := by
    unfold decide1 expectedDecision
    simp only []
    by_cases c1 : (s3.list.length == 1 && s3.select1) = true
    · have c1' : s3.list.length = 1 ∧ s3.select1 = true := by simpa using c1
      rw [if_pos c1, if_pos c1']; exact ⟨rfl, rfl, rfl, rfl, rfl, rfl, rfl, rfl, rfl, rfl⟩
    · have c1' : ¬ (s3.list.length = 1 ∧ s3.select1 = true) := by simpa using c1
      rw [if_neg c1, if_neg c1']
      by_cases c2 : (s3.list.length == 0 && s3.exit0) = true
      · have c2' : s3.list.length = 0 ∧ s3.exit0 = true := by simpa using c2
        rw [if_pos c2, if_pos c2']; exact ⟨rfl, rfl, rfl, rfl, rfl, rfl, rfl, rfl, rfl, rfl⟩
      · have c2' : ¬ (s3.list.length = 0 ∧ s3.exit0 = true) := by simpa using c2
        rw [if_neg c2, if_neg c2']; exact ⟨rfl, rfl, rfl, rfl, rfl, rfl, rfl, rfl, rfl, rfl⟩
  obtain ⟨d0, d1, d2, d3, d4, d5, d6, d7, d8, d9⟩ := hd
  refine ⟨⟨by show (decide1 s3).unread = []; rw [d1]; exact hun, by show (decide1 s3).buf = []; rw [d2]; exact hrd.2,
      by show (decide1 s3).live = false; rw [d3]; exact hrd.1⟩,
    ⟨by show (decide1 s3).mc = none; rw [d4]; exact hmc,
      by show (decide1 s3).pool.taken = (decide1 s3).pool.pool.length; rw [d5]; exact htk⟩,
    by show (decide1 s3).clear = .dont; rw [d6]; exact hclear, ?_, ?_, ?_⟩
  · show (decide1 s3).list.Perm _; rw [d7, d8, d5]; exact hperm
  · show (decide1 s3).pool.reserved ++ _ = _; rw [d5, d9]; exact hsrc
  · show (decide1 s3).decision = _; rw [d0, d8, d5, ← hlen]

/-- M's micro-steps leave the decision alone, except the last one of handle_select1_or_exit0 when all three reads
    were positive -/
theorem fg_mstep_decision (f f' : FSt α κ) (rd : Bool) (hs : mstep f rd = some f') :
    f'.s.decision = f.s.decision ∨
    (∃ ic' rs', f.pc = .s3 ic' rs' ∧ rs' = true ∧ ic' = true ∧ f.s.mc = none ∧ f'.s = decide1 f.s) := by
  unfold mstep at hs
  split at hs
  · cases hs
  · cases hpc : f.pc with
    | idle =>
      simp only [hpc] at hs
      split at hs
      · cases hs
      · cases hs; left; rfl
      · cases hs; left; exact (handleUser_opts _ _).1
    | hb1 => simp only [hpc] at hs; cases hs; left; rfl
    | hb2 rs => simp only [hpc] at hs; cases hs; left; rfl
    | hb3 rs ms => simp only [hpc] at hs; cases hs; left; exact (hbHarvest_opts _ _ _).1
    | hb4 rs => simp only [hpc] at hs; cases hs; left; rfl
    | hb5 rs ic =>
      simp only [hpc] at hs; cases hs; left
      show (hbFinish f.s rs ic).decision = _
      unfold hbFinish; simp only []
      split <;> split <;> first | rfl | exact (restart_opts _).1
    | s1 => simp only [hpc] at hs; cases hs; left; rfl
    | s2 ic' => simp only [hpc] at hs; cases hs; left; rfl
    | s3 ic' rs' =>
      simp only [hpc] at hs; cases hs
      by_cases hc : (rs' && ic' && f.s.mc.isNone) = true
      · right
        simp only [Bool.and_eq_true, Option.isNone_iff_eq_none] at hc
        refine ⟨ic', rs', rfl, hc.1.1, hc.1.2, hc.2, ?_⟩
        show (if (rs' && ic' && f.s.mc.isNone) = true then decide1 f.s else f.s) = _
        rw [if_pos (by simp [hc.1.1, hc.1.2, hc.2])]
      · left
        show (if (rs' && ic' && f.s.mc.isNone) = true then decide1 f.s else f.s).decision = _
        rw [if_neg hc]

/-- C14 at read granularity: whichever step of whichever thread changes the decision, in whichever fine-grained
    history, it is taken in a state where the source has ended, every item has been matched, the last run has been
    harvested, the list is exactly the matching items, and the outcome is the one prescribed for their number — the
    positive reads of `is_done` and `num_not_taken == 0` that handle_select1_or_exit0 made EARLIER are still true
    when it acts, although other threads ran in between. -/
theorem fg_decision_complete (m : κ → α → Bool) (o : Opts) (q : κ) (src : List α)
    (ls : List (FLabel α κ)) (l : FLabel α κ) (f' : FSt α κ) (hn : o.noClearIfEmpty = false) :
    let f := frun m (finit o q src) ls
    fstep m f l = some f' → f'.s.decision ≠ f.s.decision →
      SourceEnded f'.s ∧ CaughtUp f'.s ∧ f'.s.clear = .dont ∧
      f'.s.list.Perm (hitsFrom m f'.s.q 0 f'.s.pool.pool) ∧ f'.s.pool.reserved ++ f'.s.pool.pool = f'.s.source ∧
      f'.s.decision = some (expectedDecision f.s.select1 f.s.exit0 (hitsFrom m f'.s.q 0 f'.s.pool.pool).length) := by
  intro f hs hne
  have hfi : FInv m f := fg_invariant m o q src ls
  have hnce : f.s.noClearIfEmpty = false := by
    show (frun m (finit o q src) ls).s.noClearIfEmpty = false
    rw [fg_nce_frun]; exact hn
  cases l with
  | foreign l =>
    exfalso; apply hne
    cases hl : l.isLoop with
    | true => cases l <;> simp_all [Label.isLoop, fstep]
    | false =>
      have e : fstep m f (.foreign l) = (step m f.s l).map (fun s' => { f with s := s' }) := by
        cases l <;> simp_all [Label.isLoop, fstep]
      rw [e] at hs
      cases hst : step m f.s l with
      | none => rw [hst] at hs; cases hs
      | some s' =>
        rw [hst] at hs; cases hs
        exact (foreign_frame m f.s s' l hl hst).2.1
  | m rd =>
    rcases fg_mstep_decision f f' rd hs with h | ⟨ic', rs', hpc, hrs, hic, hmc, he⟩
    · exact absurd h hne
    · unfold FInv at hfi; simp only [hpc] at hfi
      obtain ⟨hinv, h1, h2⟩ := hfi
      rw [he]
      exact decide1_exact m f.s hinv (h2 hrs) (h1 hic) hmc hnce

/-- the three forbidden windows at read granularity -/
theorem fg_no_partial (m : κ → α → Bool) (o : Opts) (q : κ) (src : List α)
    (ls : List (FLabel α κ)) (l : FLabel α κ) (f' : FSt α κ) (hn : o.noClearIfEmpty = false) :
    let f := frun m (finit o q src) ls
    fstep m f l = some f' → (¬ SourceEnded f'.s ∨ f'.s.mc ≠ none ∨ f'.s.pool.taken ≠ f'.s.pool.pool.length) →
      f'.s.decision = f.s.decision := by
  intro f hs hpart
  by_cases hd : f'.s.decision = f.s.decision
  · exact hd
  · obtain ⟨h1, h2, _⟩ := fg_decision_complete m o q src ls l f' hn hs hd
    rcases hpart with h | h | h
    · exact absurd h1 h
    · exact absurd h2.1 h
    · exact absurd h2.2 h

/-- The atomic handler of `Model/Session.lean` with accurate reads is one particular fine-grained schedule: M's
    micro-steps run back to back.  (So every behaviour of the coarse system whose reads are accurate is a
    behaviour of the fine-grained one.) -/
theorem fg_contains_atomic (s : St α κ) (rest : List (Ev α κ)) (hf : s.finished = none)
    (hq : s.queue = .hb :: rest) :
    ∃ k, mrun ({ s := s, pc := .idle } : FSt α κ) k =
      some { s := handleHB { s with queue := rest.dropWhile Ev.isHB } {}, pc := .idle } := by
  have e0 := mstep_idle_hb s rest hf hq
  have f0 : ({ s with queue := rest.dropWhile Ev.isHB } : St α κ).finished = none := hf
  generalize ({ s with queue := rest.dropWhile Ev.isHB } : St α κ) = s0 at e0 f0 ⊢
  generalize hs3 : hbHarvest s0 (readerDone s0) (matcherStopped s0) = s3
  have f3 : s3.finished = none := by rw [← hs3]; exact (hbHarvest_opts _ _ _).2.2.2.2.1.trans f0
  generalize hs5 : hbFinish s3 (readerDone s0) (itemsConsumed s3) = s5
  have f5 : s5.finished = none := by rw [← hs5]; exact (hbFinish_finished _ _ _).trans f3
  have hmain : hbMain s0 {} = s5 := by rw [← hs5, ← hs3]; rfl
  have e5 := mstep_hb5 s3 (readerDone s0) (itemsConsumed s3) f3
  rw [hs5] at e5
  by_cases hc : (!s5.select1 && !s5.exit0) = true
  · refine ⟨6, ?_⟩
    simp only [mrun, e0, mstep_hb1 s0 f0, mstep_hb2 s0 _ f0, mstep_hb3 s0 _ _ f0, hs3, mstep_hb4 s3 _ f3, e5,
      Option.bind_some, hc, if_true]
    unfold handleHB hbSelect
    rw [hmain]; simp only [hc, if_true]
  · refine ⟨9, ?_⟩
    simp only [mrun, e0, mstep_hb1 s0 f0, mstep_hb2 s0 _ f0, mstep_hb3 s0 _ _ f0, hs3, mstep_hb4 s3 _ f3, e5,
      Option.bind_some, hc, Bool.false_eq_true, if_false, mstep_s1 s5 f5, mstep_s2 s5 _ f5, mstep_s3 s5 _ _ f5]
    unfold handleHB hbSelect
    rw [hmain]; simp only [hc, Bool.false_eq_true, if_false, Bool.true_and]

/-! ### Liveness at read granularity (parts 1 and 2; as for the coarse system, termination itself needs weak fairness of the
threads, which is not formalised) -/

/-- Part 1: whenever the event loop is idle in a running session, a wake-up is pending while a run is outstanding or not
    everything has been read and taken — after EVERY fine-grained history, i.e. although the other threads ran between the
    reads on which act_heart_beat based its "processed, no timer needed". -/
theorem fg_wakeup_pending (m : κ → α → Bool) (o : Opts) (q : κ) (src : List α) (ls : List (FLabel α κ)) :
    let f := frun m (finit o q src) ls
    f.s.finished = none → f.pc = .idle → Wake f.s := by
  intro f hfin hpc
  have h := fwake_frun m (finit o q src) ls (fwake_init o q src) hfin
  rw [show (frun m (finit o q src) ls).pc = PC.idle from hpc] at h
  exact h

/-- inside a handler M itself can always take its next micro-step -/
theorem fg_m_enabled (f : FSt α κ) (hfin : f.s.finished = none) (hpc : f.pc ≠ .idle) : (mstep f true).isSome = true := by
  unfold mstep
  simp only [hfin, Option.isSome_none, Bool.false_eq_true, if_false]
  cases h : f.pc <;> simp_all

/-- Part 2 (no deadlock): in every reachable running state that is not "idle and quiescent", some step that is not a
    keystroke is enabled — M's next micro-step when it is inside a handler, otherwise the reader, the matcher thread, the
    timer, or M taking the queued heart beat. -/
theorem fg_no_deadlock (m : κ → α → Bool) (o : Opts) (q : κ) (src : List α) (ls : List (FLabel α κ)) :
    let f := frun m (finit o q src) ls
    f.s.finished = none → ¬ (f.pc = .idle ∧ SourceEnded f.s ∧ CaughtUp f.s) →
      ∃ l : FLabel α κ, (∀ e, l ≠ .foreign (.user e)) ∧ (fstep m f l).isSome = true := by
  intro f hfin hnq
  by_cases hpc : f.pc = .idle
  · have hinv : Inv m f.s := inv_of_stable m f (fg_invariant m o q src ls) (by rw [hpc]; rfl)
    have hw : Wake f.s := fg_wakeup_pending m o q src ls hfin hpc
    have hnq' : ¬ (SourceEnded f.s ∧ CaughtUp f.s) := fun h => hnq ⟨hpc, h.1, h.2⟩
    obtain ⟨l, hl, hen⟩ := no_deadlock_state m f.s hinv.core hw hfin hnq'
    cases l with
    | loop rd =>
      -- the coarse loop label is enabled iff an event is queued: M dequeues it
      refine ⟨.m true, (fun e h => by cases h), ?_⟩
      show (mstep f true).isSome = true
      unfold mstep
      simp only [hfin, Option.isSome_none, Bool.false_eq_true, if_false, hpc]
      cases hq : f.s.queue with
      | nil => simp [step, stepWith, hfin, hq] at hen
      | cons e rest => cases e <;> simp
    | user e => exact absurd rfl (hl e)
    | rPush => exact ⟨.foreign .rPush, (fun e h => by cases h), by simpa [fstep] using hen⟩
    | rEnd => exact ⟨.foreign .rEnd, (fun e h => by cases h), by simpa [fstep] using hen⟩
    | tTake => exact ⟨.foreign .tTake, (fun e h => by cases h), by simpa [fstep] using hen⟩
    | tPublish => exact ⟨.foreign .tPublish, (fun e h => by cases h), by simpa [fstep] using hen⟩
    | tStop => exact ⟨.foreign .tStop, (fun e h => by cases h), by simpa [fstep] using hen⟩
    | timer => exact ⟨.foreign .timer, (fun e h => by cases h), by simpa [fstep] using hen⟩
  · exact ⟨.m true, (fun e h => by cases h), fg_m_enabled f hfin hpc⟩


theorem frun_append (m : κ → α → Bool) (f : FSt α κ) (a b : List (FLabel α κ)) :
    frun m f (a ++ b) = frun m (frun m f a) b := by
  unfold frun; rw [List.foldl_append]

theorem frun_of_mrun (m : κ → α → Bool) : ∀ (k : Nat) (f f' : FSt α κ), mrun f k = some f' →
    frun m f (List.replicate k (.m true)) = f' := by
  intro k
  induction k with
  | zero => intro f f' h; simp [mrun] at h; subst h; rfl
  | succ n ih =>
    intro f f' h
    simp only [mrun] at h
    cases hs : mstep f with
    | none => rw [hs] at h; simp at h
    | some f1 =>
      rw [hs] at h; simp only [Option.bind_some] at h
      have : frun m f (List.replicate (n + 1) (.m true)) = frun m f1 (List.replicate n (.m true)) := by
        simp [List.replicate_succ, frun, fstep, hs]
      rw [this]; exact ih f1 f' h

/-- every canonical coarse schedule (no keystroke, event-loop iterations with accurate reads) from an idle state is matched by
    a fine-grained one: foreign labels as they are, each event-loop iteration as M's micro-steps back to back -/
theorem fg_simulates (m : κ → α → Bool) : ∀ (ls : List (Label α κ)) (s : St α κ), (∀ l ∈ ls, l.canon = true) →
    ∃ fls : List (FLabel α κ), (∀ l ∈ fls, ∀ e, l ≠ .foreign (.user e)) ∧
      frun m ({ s := s, pc := .idle } : FSt α κ) fls = { s := runL m s ls, pc := .idle } := by
  intro ls
  induction ls with
  | nil => intro s _; exact ⟨[], by simp, rfl⟩
  | cons l ls ih =>
    intro s hall
    have hl : l.canon = true := hall l (by simp)
    have hrest : ∀ x ∈ ls, x.canon = true := fun x hx => hall x (by simp [hx])
    cases hs : step m s l with
    | none =>
      obtain ⟨fls, h1, h2⟩ := ih s hrest
      refine ⟨fls, h1, ?_⟩
      rw [h2]; simp [runL, hs]
    | some s' =>
      obtain ⟨fls, h1, h2⟩ := ih s' hrest
      have hrun : runL m s (l :: ls) = runL m s' ls := by simp [runL, hs]
      rw [hrun]
      -- one coarse step = a block of fine-grained steps
      have blk : ∃ b : List (FLabel α κ), (∀ x ∈ b, ∀ e, x ≠ .foreign (.user e)) ∧
          frun m ({ s := s, pc := .idle } : FSt α κ) b = { s := s', pc := .idle } := by
        cases l with
        | user e => simp [Label.canon] at hl
        | loop rd =>
          have hrd : rd = {} := by simpa [Label.canon] using hl
          subst hrd
          simp only [step, stepWith] at hs
          split at hs
          · cases hs
          · rename_i hfin
            have hfin0 : s.finished = none := by
              cases hh : s.finished with
              | none => rfl
              | some b => simp [hh] at hfin
            split at hs
            · cases hs
            · rename_i rest hq
              cases hs
              obtain ⟨k, hk⟩ := fg_contains_atomic s rest hfin0 hq
              refine ⟨List.replicate k (.m true), ?_, frun_of_mrun m k _ _ hk⟩
              intro x hx e he
              rw [List.mem_replicate] at hx; rw [hx.2] at he; cases he
            · rename_i e rest hq
              cases hs
              refine ⟨[.m true], (fun x hx e he => by simp at hx; rw [hx] at he; cases he), ?_⟩
              simp [frun, fstep, mstep, hfin0, hq]
        | rPush => exact ⟨[.foreign .rPush], (fun x hx e he => by simp at hx; rw [hx] at he; cases he), by simp [frun, fstep, hs]⟩
        | rEnd => exact ⟨[.foreign .rEnd], (fun x hx e he => by simp at hx; rw [hx] at he; cases he), by simp [frun, fstep, hs]⟩
        | tTake => exact ⟨[.foreign .tTake], (fun x hx e he => by simp at hx; rw [hx] at he; cases he), by simp [frun, fstep, hs]⟩
        | tPublish => exact ⟨[.foreign .tPublish], (fun x hx e he => by simp at hx; rw [hx] at he; cases he), by simp [frun, fstep, hs]⟩
        | tStop => exact ⟨[.foreign .tStop], (fun x hx e he => by simp at hx; rw [hx] at he; cases he), by simp [frun, fstep, hs]⟩
        | timer => exact ⟨[.foreign .timer], (fun x hx e he => by simp at hx; rw [hx] at he; cases he), by simp [frun, fstep, hs]⟩
      obtain ⟨b, hb1, hb2⟩ := blk
      refine ⟨b ++ fls, ?_, ?_⟩
      · intro x hx
        rcases List.mem_append.1 hx with h | h
        · exact hb1 x h
        · exact h1 x h
      · rw [frun_append, hb2, h2]

/-- Part 3 at read granularity: from every reachable running state in which the event loop is idle, no keystroke is pending
    and select-1 / exit-0 are off, quiescence is reachable without a keystroke -/
theorem fg_quiescence_reachable (m : κ → α → Bool) (o : Opts) (q : κ) (src : List α) (ls : List (FLabel α κ)) :
    let f := frun m (finit o q src) ls
    f.s.finished = none → f.pc = .idle → f.s.queue.all Ev.isHB = true → f.s.select1 = false → f.s.exit0 = false →
      ∃ fls : List (FLabel α κ), (∀ l ∈ fls, ∀ e, l ≠ .foreign (.user e)) ∧
        (frun m f fls).pc = .idle ∧ SourceEnded (frun m f fls).s ∧ CaughtUp (frun m f fls).s := by
  intro f hf hpc hq h1 h0
  have hinv : Inv m f.s := inv_of_stable m f (fg_invariant m o q src ls) (by rw [hpc]; rfl)
  have hw : Wake f.s := fg_wakeup_pending m o q src ls hf hpc
  have hr : Ready m f.s := ⟨hinv, hw, hf, hq, h1, h0⟩
  obtain ⟨cls, hall, hquiet, _⟩ := reach_quiet m (mu f.s) f.s (Nat.le_refl _) hr
  obtain ⟨fls, hno, hsim⟩ := fg_simulates m cls f.s hall
  have hfeq : f = { s := f.s, pc := .idle } := by
    rw [← hpc]
  refine ⟨fls, hno, ?_⟩
  rw [hfeq, hsim]
  exact ⟨rfl, hquiet.1, hquiet.2⟩


def PC.inSelect : PC → Bool
  | .s1 => true
  | .s2 _ => true
  | .s3 _ _ => true
  | _ => false

/-- once the interactive session has been chosen: both options are off and M is not inside the select check -/
def Chosen (f : FSt α κ) : Prop :=
  f.s.decision = some .interactive ∧ f.s.select1 = false ∧ f.s.exit0 = false ∧ f.pc.inSelect = false

theorem hbFinish_opts (s : St α κ) (rs ic : Bool) :
    (hbFinish s rs ic).decision = s.decision ∧ (hbFinish s rs ic).select1 = s.select1 ∧ (hbFinish s rs ic).exit0 = s.exit0 := by
  unfold hbFinish; simp only []
  split <;> split <;> first | exact ⟨rfl, rfl, rfl⟩ | exact ⟨(restart_opts _).1, (restart_opts _).2.1, (restart_opts _).2.2.1⟩

theorem chosen_mstep (f f' : FSt α κ) (rd : Bool) (hs : mstep f rd = some f') (h : Chosen f) : Chosen f' := by
  obtain ⟨hd, h1, h0, hp⟩ := h
  unfold mstep at hs
  split at hs
  · cases hs
  · cases hpc : f.pc with
    | idle =>
      simp only [hpc] at hs
      split at hs
      · cases hs
      · cases hs; exact ⟨hd, h1, h0, rfl⟩
      · cases hs
        obtain ⟨a, b, c, _⟩ := handleUser_opts ({ f.s with queue := _ } : St α κ) _
        exact ⟨a.trans hd, b.trans h1, c.trans h0, rfl⟩
    | hb1 => simp only [hpc] at hs; cases hs; exact ⟨hd, h1, h0, rfl⟩
    | hb2 rs => simp only [hpc] at hs; cases hs; exact ⟨hd, h1, h0, rfl⟩
    | hb3 rs ms =>
      simp only [hpc] at hs; cases hs
      obtain ⟨a, b, c, _⟩ := hbHarvest_opts f.s rs ms
      exact ⟨a.trans hd, b.trans h1, c.trans h0, rfl⟩
    | hb4 rs => simp only [hpc] at hs; cases hs; exact ⟨hd, h1, h0, rfl⟩
    | hb5 rs ic =>
      simp only [hpc] at hs; cases hs
      obtain ⟨a, b, c⟩ := hbFinish_opts f.s rs ic
      refine ⟨a.trans hd, b.trans h1, c.trans h0, ?_⟩
      simp [b.trans h1, c.trans h0, PC.inSelect]
    | s1 => rw [hpc] at hp; simp [PC.inSelect] at hp
    | s2 ic' => rw [hpc] at hp; simp [PC.inSelect] at hp
    | s3 ic' rs' => rw [hpc] at hp; simp [PC.inSelect] at hp

theorem chosen_fstep (m : κ → α → Bool) (f f' : FSt α κ) (l : FLabel α κ) (hs : fstep m f l = some f')
    (h : Chosen f) : Chosen f' := by
  cases l with
  | m rd => exact chosen_mstep f f' rd hs h
  | foreign l =>
    cases hl : l.isLoop with
    | true => cases l <;> simp_all [Label.isLoop, fstep]
    | false =>
      have e : fstep m f (.foreign l) = (step m f.s l).map (fun s' => { f with s := s' }) := by
        cases l <;> simp_all [Label.isLoop, fstep]
      rw [e] at hs
      cases hst : step m f.s l with
      | none => rw [hst] at hs; cases hs
      | some s' =>
        rw [hst] at hs; cases hs
        obtain ⟨_, a, b, c, _⟩ := foreign_frame m f.s s' l hl hst
        exact ⟨a.trans h.1, b.trans h.2.1, c.trans h.2.2.1, h.2.2.2⟩

/-- the step that chooses the interactive session leaves M outside the select check with both options off -/
theorem chosen_of_decision (m : κ → α → Bool) (f f' : FSt α κ) (l : FLabel α κ) (hs : fstep m f l = some f')
    (hne : f.s.decision ≠ some .interactive) (hd : f'.s.decision = some .interactive) : Chosen f' := by
  cases l with
  | foreign l =>
    exfalso
    cases hl : l.isLoop with
    | true => cases l <;> simp_all [Label.isLoop, fstep]
    | false =>
      have e : fstep m f (.foreign l) = (step m f.s l).map (fun s' => { f with s := s' }) := by
        cases l <;> simp_all [Label.isLoop, fstep]
      rw [e] at hs
      cases hst : step m f.s l with
      | none => rw [hst] at hs; cases hs
      | some s' =>
        rw [hst] at hs; cases hs
        have := (foreign_frame m f.s s' l hl hst).2.1
        exact hne (this ▸ hd)
  | m rd =>
    rcases fg_mstep_decision f f' rd hs with h | ⟨ic', rs', hpc, _, _, _, he⟩
    · exact absurd (h ▸ hd) hne
    · have hpc' : f'.pc = .idle := by
        have hs' : mstep f rd = some f' := hs
        unfold mstep at hs'
        split at hs'
        · cases hs'
        · simp only [hpc] at hs'; cases hs'; rfl
      rw [he] at hd
      refine ⟨by rw [he]; exact hd, ?_, ?_, by rw [hpc']; rfl⟩
      · rw [he]; unfold decide1 at hd ⊢; simp only [] at hd ⊢
        split at hd
        · cases hd
        · split at hd
          · cases hd
          · rename_i c1 c2; simp [c1, c2]
      · rw [he]; unfold decide1 at hd ⊢; simp only [] at hd ⊢
        split at hd
        · cases hd
        · split at hd
          · cases hd
          · rename_i c1 c2; simp [c1, c2]

/-- C14, last clause, at read granularity: once the interactive session has been chosen, no step of any thread — M's
    micro-steps included — changes the decision again, in any continuation. -/
theorem fg_never_later (m : κ → α → Bool) (f : FSt α κ) (h : Chosen f) (ls : List (FLabel α κ)) :
    (frun m f ls).s.decision = some .interactive := by
  have : Chosen (frun m f ls) := by
    induction ls generalizing f with
    | nil => exact h
    | cons l ls ih =>
      unfold frun; simp only [List.foldl_cons]
      apply ih
      cases hs : fstep m f l with
      | none => exact h
      | some f' => exact chosen_fstep m f f' l hs h
  exact this.1

/-- identities at read granularity: wherever `Inv` holds (every program point outside the harvest-to-restart window) and no
    clear is pending, every listed entry `(i, x)` is the item at input position `i` and satisfies the current query -/
theorem fg_item_index (m : κ → α → Bool) (o : Opts) (q : κ) (src : List α) (ls : List (FLabel α κ)) :
    let f := frun m (finit o q src) ls
    f.pc.stable = true → f.s.clear = .dont → ∀ e ∈ f.s.list, f.s.pool.pool[e.1]? = some e.2 ∧ m f.s.q e.2 = true := by
  intro f hp hcl
  exact item_index_of_inv m f.s (inv_of_stable m f (fg_invariant m o q src ls) hp) hcl

/-! ### The premises are met: a concrete history with steps of the reader, the timer and the matcher thread between
M's micro-steps (kernel-evaluated) -/

private def exM : Nat → Nat → Bool := fun _ x => x == 10
private def exHist : List (FLabel Nat Nat) :=
  [.m true, .foreign .rPush, .m true, .m true, .m true, .foreign .rPush, .m true, .m true, .foreign .rEnd,
   .m true, .m true, .m true, .foreign .timer, .foreign .tTake, .m true, .m true, .foreign .tPublish,
   .foreign .tStop, .m true, .m true, .m true, .m true, .foreign .timer, .m true, .m true]

set_option maxRecDepth 100000 in
/-- two items, one matching, --select-1: the reader pushes between M's reads of the first heart beat, the matcher
    thread takes / publishes / stops around the reads of the second; the 26th step is M acting on its two positive
    reads, and it accepts -/
example :
    let f := frun exM (finit { select1 := true } 0 [10, 11]) exHist
    f.pc = .s3 true true ∧ f.s.decision = none ∧
      (fstep exM f (.m true)).map (fun f' => f'.s.decision) = some (some .accept) := by decide

end SkimModel.Session
