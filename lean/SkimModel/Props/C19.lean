/-
C19 — key bindings: user bindings override defaults and run their actions in order.

Objects: `Model/Keymap.lean` (hand compilation of the two regexes of `parse_key_action`, `parse_event`
over the generated action table, `Input::{bind, parse_keymaps, parse_expect_keys, translate_event}`, the
conditional arms of `Model::start`, the input-thread send loop) and `Spec/Keymap.lean` (what a binding
specification is, how it is written, when it is well formed, what it means).
All theorems are for ALL specifications / key maps / strings; `decide` is used only on the complete
generated tables.
-/
import SkimModel.Lemmas.Keymap
namespace SkimModel.Keymap
open SkimModel.Generated.Keymap

/-! ## 1. The grammar: parsing the rendering of a well-formed specification gives it back -/

/-- every well-formed `--bind` specification, written in the grammar
    `key:action[(arg)|[arg]|"arg"|'arg'|:arg][+action…][,…]`, is parsed by (the model of)
    `parse_key_action` into exactly the listed keys, each with exactly the listed actions in order,
    each with exactly its argument (`ArgForm.value` = the text between the delimiters, verbatim). -/
theorem c19_roundtrip (spec : BindSpec) (hwf : WF spec = true) :
    parseKeyAction (render spec) = spec.parsed :=
  parseKeyAction_render spec hwf

/-- a well-formed specification with all five argument forms and separators inside arguments -/
def exampleSpec : BindSpec :=
  [⟨"ctrl-x".toList, [⟨"execute".toList, .paren "echo {}, {q}: a+b".toList⟩, ⟨"abort".toList, .none⟩]⟩,
   ⟨"f1".toList, [⟨"if-query-empty".toList, .brack "up(2)".toList⟩]⟩,
   ⟨",".toList, [⟨"execute-silent".toList, .dq "it's (x)".toList⟩, ⟨"down".toList, .colon "3".toList⟩]⟩,
   ⟨"alt-a".toList, [⟨"accept".toList, .sq "a,b:c".toList⟩, ⟨"execute".toList, .colon "ls -l (x) | wc".toList⟩]⟩]

example : WF exampleSpec = true := by decide
example : SWF exampleSpec = true := by decide

/-- two well-formed specifications with the same text list the same keys, actions and arguments -/
theorem c19_render_unambiguous (s1 s2 : BindSpec) (h1 : WF s1 = true) (h2 : WF s2 = true)
    (h : render s1 = render s2) : s1.parsed = s2.parsed := by
  rw [← c19_roundtrip s1 h1, ← c19_roundtrip s2 h2, h]

/-- arguments are passed verbatim: an action whose table row requires a string receives exactly the
    argument value of the specification (no trimming, unescaping or splitting) -/
theorem c19_args_verbatim (a : ActionSpec) (r : ActionRow) (v : Str)
    (hrow : findRow a.name = some r) (hkind : r.kind = .reqStr) (hv : a.arg.value = some v) :
    parseEvent a.name a.arg.value = .ok (some (.str r.ctor v)) := by
  simp [parseEvent, hrow, hkind, hv]

example : findRow "execute".toList = some ⟨"execute".toList, "EvActExecute".toList, .reqStr,
    "execute event should have argument".toList⟩ := by decide

/-- … and `accept` receives it as `Some(arg)` / `None` -/
theorem c19_args_verbatim_opt (a : ActionSpec) (r : ActionRow)
    (hrow : findRow a.name = some r) (hkind : r.kind = .optStr) :
    parseEvent a.name a.arg.value = .ok (some (.optStr r.ctor a.arg.value)) := by
  simp [parseEvent, hrow, hkind]

example : findRow "accept".toList = some ⟨"accept".toList, "EvActAccept".toList, .optStr, []⟩ := by decide

/-- the chain of events of a binding whose actions are all in the table and have their required
    arguments is the list of their events, in the listed order, nothing dropped, no panic -/
theorem c19_chain_events (chain : List ActionSpec)
    (h : chain.all (fun a => (actionEvent a).isSome) = true) :
    chainEvents (chain.map (fun a => (a.name, a.arg.value))) = .ok (chain.filterMap actionEvent)
      ∧ (chain.filterMap actionEvent).length = chain.length := by
  refine ⟨chainEvents_of_spec chain h, ?_⟩
  induction chain with
  | nil => rfl
  | cons a r ih =>
    simp only [List.all_cons, Bool.and_eq_true] at h
    obtain ⟨e, he⟩ := Option.isSome_iff_exists.mp h.1
    simp [he, ih h.2]

example : (exampleSpec.flatMap (·.chain)).all (fun a => (actionEvent a).isSome) = true := by decide

/-- a required argument that is missing is the `.expect` panic of `parse_event` (made visible, not
    totalised away): this is why `SWF` asks for it -/
theorem c19_missing_required_arg_panics (name : Str) (r : ActionRow)
    (hrow : findRow name = some r) (hkind : r.kind = .reqStr) :
    parseEvent name none = .error r.msg := by
  simp [parseEvent, hrow, hkind]

/-! ## 2. The key map: a binding replaces exactly its key -/

/-- `Input::bind`: the bound key gets the chain, every other key keeps its binding; an unknown key
    name or an empty chain changes nothing -/
theorem c19_bind (km : Keymap) (key : Str) (chain : Chain) (k' : Key) :
    kmLookup (bind km key chain) k' =
      if keyOf key = some k' ∧ chain ≠ [] then some chain else kmLookup km k' := by
  simp only [bind]
  cases hk : keyOf key with
  | none => simp
  | some k =>
    cases chain with
    | nil => simp
    | cons e es =>
      simp only [List.isEmpty_cons, Bool.false_eq_true, if_false, kmLookup_insert, Option.some.injEq, ne_eq,
        reduceCtorEq, not_false_eq_true, and_true]

/-- end to end, for every list of semantically well-formed `--bind` specifications and every
    `--expect` list: building the input exactly as `Skim::run_with` does never panics, and EVERY key is
    bound to the chain of the LAST listed binding of that key (`--bind` strings in order, then the
    expect keys), or, if no listed binding names it, to what the default key map says. -/
theorem c19_override (specs : List BindSpec) (expect : Option Str) (hs : specs.all SWF = true) :
    ∃ km, buildInput (specs.map render) expect = .ok km ∧
      ∀ k, kmLookup km k = specLookup specs expect k := by
  have h1 := parseKeymaps_render specs defaultKeymap hs
  refine ⟨parseExpectKeys (applyBinds defaultKeymap (effSpec specs.flatten)) expect, by simp only [buildInput, h1], ?_⟩
  intro k
  cases expect with
  | none =>
    simp only [parseExpectKeys, specLookup, effective, List.append_nil, kmLookup_applyBinds]
    rfl
  | some ks =>
    simp only [parseExpectKeys, foldl_bind_expect, specLookup, effective]
    rw [← applyBinds_append, kmLookup_applyBinds]
    rfl

example : [exampleSpec].all SWF = true := by decide

/-- … and therefore `translate_event` of ANY key returns the key and the chain of its last listed
    binding, else its default chain, else add-char for a printable character, else input-key -/
theorem c19_translate_end_to_end (specs : List BindSpec) (expect : Option Str) (hs : specs.all SWF = true) :
    ∃ km, buildInput (specs.map render) expect = .ok km ∧
      ∀ k, translateEvent km (.key k) = (k, specTranslate specs expect k) := by
  obtain ⟨km, h1, h2⟩ := c19_override specs expect hs
  refine ⟨km, h1, fun k => ?_⟩
  simp only [translateEvent, specTranslate, h2 k]
  rfl

/-- keys that no listed binding and no expect key names keep their default binding (or stay unbound) -/
theorem c19_others_unchanged (specs : List BindSpec) (expect : Option Str) (k : Key)
    (hk : ∀ e ∈ effective specs expect, e.1 ≠ k) :
    specLookup specs expect k = kmLookup defaultKeymap k := by
  have : ∀ l : List (Key × Chain), (∀ e ∈ l, e.1 ≠ k) → lastBinding l k = none := by
    intro l
    induction l with
    | nil => intro _; rfl
    | cons e r ih =>
      intro h
      obtain ⟨k', v⟩ := e
      have h1 : k' ≠ k := h (k', v) (by simp)
      simp [lastBinding, ih (fun e he => h e (by simp [he])), h1]
  simp [specLookup, this _ hk]

example : ∀ e ∈ effective [exampleSpec] (some "enter".toList), e.1 ≠ Key.f 5 := by decide

/-- a key named by a listed binding gets a chain that IS one of the listed chains for that key -/
theorem c19_bound_is_listed (l : List (Key × Chain)) (k : Key) (v : Chain)
    (h : lastBinding l k = some v) : (k, v) ∈ l := by
  induction l with
  | nil => simp [lastBinding] at h
  | cons e r ih =>
    obtain ⟨k', w⟩ := e
    simp only [lastBinding] at h
    cases hl : lastBinding r k with
    | some x =>
      simp only [hl, Option.some.injEq] at h
      subst h
      exact List.mem_cons_of_mem _ (ih hl)
    | none =>
      simp only [hl] at h
      split at h
      · rename_i hk; cases h; subst hk; simp
      · cases h

/-! ## 3. --expect -/

/-- the names an `--expect` list lists are its comma-separated pieces, nothing lost, nothing split further -/
theorem c19_expect_split (ks : Str) :
    joinComma (splitComma ks) = ks ∧ ∀ p ∈ splitComma ks, ∀ c ∈ p, c ≠ ',' := by
  induction ks with
  | nil => simp [splitComma, joinComma]
  | cons c r ih =>
    simp only [splitComma]
    split
    · rename_i hc
      subst hc
      cases hs : splitComma r with
      | nil => exact absurd hs (splitComma_ne_nil r)
      | cons p ps =>
        rw [hs] at ih
        refine ⟨by simp [joinComma, ih.1], ?_⟩
        intro q hq
        rcases List.mem_cons.mp hq with h | h
        · subst h; simp
        · exact ih.2 q h
    · rename_i hc
      cases hs : splitComma r with
      | nil => exact absurd hs (splitComma_ne_nil r)
      | cons p ps =>
        rw [hs] at ih
        refine ⟨?_, ?_⟩
        · cases ps with
          | nil => simpa [joinComma] using ih.1
          | cons q qs => simpa [joinComma] using ih.1
        · intro q hq
          rcases List.mem_cons.mp hq with h | h
          · subst h
            intro d hd
            rcases List.mem_cons.mp hd with h' | h'
            · subst h'; exact hc
            · exact ih.2 p (by simp) d h'
          · exact ih.2 q (by simp [h])

/-- after `parse_expect_keys(ks)` every key that some listed name denotes is bound to exactly
    `[accept(Some(name))]` for a LISTED name of that very key (the last one), whatever was bound before -/
theorem c19_expect (km : Keymap) (ks : Str) (n : Str) (k : Key)
    (hn : n ∈ splitComma ks) (hk : keyOf n = some k) :
    ∃ n', n' ∈ splitComma ks ∧ keyOf n' = some k ∧
      kmLookup (parseExpectKeys km (some ks)) k = some [.optStr evAccept (some n')] := by
  simp only [parseExpectKeys, foldl_bind_expect, kmLookup_applyBinds]
  have hex : ∃ v, lastBinding (effExpect (splitComma ks)) k = some v := by
    generalize splitComma ks = names at hn
    induction names with
    | nil => simp at hn
    | cons m r ih =>
      simp only [effExpect, List.filterMap_cons]
      rcases List.mem_cons.mp hn with h | h
      · subst h
        simp only [hk, Option.map_some, lastBinding]
        cases lastBinding (List.filterMap _ r) k with
        | some w => exact ⟨w, rfl⟩
        | none => exact ⟨[.optStr evAccept (some n)], by simp⟩
      · obtain ⟨v, hv⟩ := ih h
        cases hm : keyOf m with
        | none => simpa [effExpect] using ⟨v, hv⟩
        | some km' =>
          simp only [Option.map_some, lastBinding]
          simp only [effExpect] at hv
          exact ⟨v, by simp [hv]⟩
  obtain ⟨v, hv⟩ := hex
  have hmem := c19_bound_is_listed _ k v hv
  simp only [effExpect, List.mem_filterMap] at hmem
  obtain ⟨n', hn', hkn⟩ := hmem
  cases hk' : keyOf n' with
  | none => simp [hk'] at hkn
  | some k2 =>
    simp only [hk', Option.map_some, Option.some.injEq, Prod.mk.injEq] at hkn
    obtain ⟨h1, h2⟩ := hkn
    subst h1
    exact ⟨n', hn', hk', by simp [hv, h2]⟩

example : "return".toList ∈ splitComma "enter,return,f2".toList ∧ keyOf "return".toList = some (.named "Enter".toList) := by
  decide

/-! ## 4. translate_event and the order of a chain -/

/-- a bound key is translated to its chain; an unbound printable character to inserting that
    character; any other unbound key to `EvInputKey(key)`; the key is passed through -/
theorem c19_translate (km : Keymap) (k : Key) :
    translateEvent km (.key k) =
      (k, match kmLookup km k with
          | some chain => chain
          | none => match k with
            | .char c => [.addChar c]
            | _ => [.inputKey k]) := rfl

theorem c19_translate_unbound_char (km : Keymap) (c : Char) (h : kmLookup km (.char c) = none) :
    translateEvent km (.key (.char c)) = (.char c, [.addChar c]) := by
  simp [translateEvent, h]

example : kmLookup defaultKeymap (.char 'x') = none := by decide

/-- the input thread sends the events of a chain one by one on a FIFO channel: the model receives
    them in chain order, all tagged with the key, after whatever was queued before -/
theorem c19_chain_order (chan : List (Key × Event)) (k : Key) (chain : Chain) :
    sendChain chan (k, chain) = chan ++ chain.map (fun e => (k, e)) := by
  simp only [sendChain]
  induction chain generalizing chan with
  | nil => simp
  | cons e r ih => simp [List.foldl_cons, ih]

/-! ## 5. conditional actions -/

/-- `parse_action_arg` of a rendered well-formed chain is the event of its FIRST action -/
theorem c19_action_arg (a : ActionSpec) (as : List ActionSpec) (h : (a :: as).all WFAction = true) :
    parseActionArg (renderChain (a :: as)) = parseEvent a.name a.arg.value := by
  have hk : (!"fake_key".toList.isEmpty && "fake_key".toList.all (· ≠ ':')) = true := by decide
  unfold parseActionArg fakeKey
  generalize "fake_key".toList = fk at hk ⊢
  have hwf : WF [⟨fk, a :: as⟩] = true := by
    simp only [WF, WFBinding, List.all_cons, List.all_nil, Bool.and_true, h, hk]
    rfl
  have := parseKeyAction_render _ hwf
  have hr : render [⟨fk, a :: as⟩] = fk ++ [':'] ++ renderChain (a :: as) := by
    simp [render, renderBinding]
  rw [hr] at this
  rw [this]
  simp [BindSpec.parsed]

/-- the three conditional arms of `Model::start` (table generated from the source): the argument
    action is parsed and becomes the next event exactly when the condition holds; otherwise the arm
    does nothing -/
theorem c19_conditionals (a : Str) (env : Env) :
    condStep (.str "EvActIfQueryEmpty".toList a) env = (if env.query = [] then parseActionArg a else .ok none)
    ∧ condStep (.str "EvActIfQueryNotEmpty".toList a) env = (if env.query ≠ [] then parseActionArg a else .ok none)
    ∧ condStep (.str "EvActIfNonMatched".toList a) env = (if env.matched = 0 then parseActionArg a else .ok none) := by
  have h1 : condTable.find? (fun r => r.1 == "EvActIfQueryEmpty".toList) = some ("EvActIfQueryEmpty".toList, .queryEmpty) := by decide
  have h2 : condTable.find? (fun r => r.1 == "EvActIfQueryNotEmpty".toList) = some ("EvActIfQueryNotEmpty".toList, .queryNotEmpty) := by decide
  have h3 : condTable.find? (fun r => r.1 == "EvActIfNonMatched".toList) = some ("EvActIfNonMatched".toList, .nonMatched) := by decide
  refine ⟨?_, ?_, ?_⟩
  · simp only [condStep, h1, condHolds]
    by_cases h : env.query = [] <;> simp [h]
  · simp only [condStep, h2, condHolds]
    by_cases h : env.query = [] <;> simp [h]
  · simp only [condStep, h3, condHolds]
    by_cases h : env.matched = 0 <;> simp [h]

/-- with a well-formed argument action `a` (in any argument form) the conditional action yields exactly
    the event of `a` when its condition holds and nothing otherwise -/
theorem c19_conditional_fires (a : ActionSpec) (e : Event) (env : Env)
    (hwf : WFAction a = true) (he : actionEvent a = some e) :
    condStep (.str "EvActIfQueryEmpty".toList (renderAction a)) env = .ok (if env.query = [] then some e else none)
    ∧ condStep (.str "EvActIfQueryNotEmpty".toList (renderAction a)) env = .ok (if env.query ≠ [] then some e else none)
    ∧ condStep (.str "EvActIfNonMatched".toList (renderAction a)) env = .ok (if env.matched = 0 then some e else none) := by
  have hp : parseActionArg (renderAction a) = .ok (some e) := by
    have := c19_action_arg a [] (by simp [hwf])
    simp only [renderChain] at this
    rw [this, parseEvent_of_actionEvent a e he]
  obtain ⟨h1, h2, h3⟩ := c19_conditionals (renderAction a) env
  rw [h1, h2, h3, hp]
  refine ⟨?_, ?_, ?_⟩ <;> split <;> rfl

example : WFAction ⟨"execute".toList, .paren "ls {}".toList⟩ = true
    ∧ actionEvent ⟨"execute".toList, .paren "ls {}".toList⟩ = some (.str "EvActExecute".toList "ls {}".toList) := by
  decide

/-- events that are not one of the three conditional actions are not touched by these arms -/
theorem c19_conditionals_only (ev : Event) (env : Env)
    (h : ∀ a, ev ≠ .str "EvActIfQueryEmpty".toList a ∧ ev ≠ .str "EvActIfQueryNotEmpty".toList a
          ∧ ev ≠ .str "EvActIfNonMatched".toList a) :
    condStep ev env = .ok none := by
  cases ev with
  | str ctor a =>
    have hall : ∀ r ∈ condTable, r.1 = "EvActIfQueryEmpty".toList ∨ r.1 = "EvActIfQueryNotEmpty".toList
        ∨ r.1 = "EvActIfNonMatched".toList := by decide
    have hc : condTable.find? (fun r => r.1 == ctor) = none := by
      have h0 := h a
      cases hfind : condTable.find? (fun r => r.1 == ctor) with
      | none => rfl
      | some r =>
        exfalso
        have hm := List.mem_of_find?_eq_some hfind
        have hp := List.find?_some hfind
        have hcr : r.1 = ctor := by simpa using hp
        rcases hall r hm with e | e | e
        · exact h0.1 (by rw [← hcr, e])
        · exact h0.2.1 (by rw [← hcr, e])
        · exact h0.2.2 (by rw [← hcr, e])
    simp [condStep, hc]
  | _ => rfl

example : ∀ a, Event.plain "EvActAbort".toList ≠ .str "EvActIfQueryEmpty".toList a
    ∧ Event.plain "EvActAbort".toList ≠ .str "EvActIfQueryNotEmpty".toList a
    ∧ Event.plain "EvActAbort".toList ≠ .str "EvActIfNonMatched".toList a := by
  intro a; simp

/-! ## 6. the generated tables -/

def camel : Str → Bool → Str
  | [], _ => []
  | c :: r, up => if c = '-' then camel r true else (if up then c.toUpper else c) :: camel r false

/-- `parse_event`: action names are pairwise distinct, every name maps to the constructor of the same
    name (`EvAct` + CamelCase), and that constructor of `enum Event` has the payload type the arm uses -/
theorem c19_action_table :
    (actionTable.map (·.name)).Nodup
    ∧ actionTable.all (fun r => r.ctor == "EvAct".toList ++ camel r.name true) = true
    ∧ actionTable.all (fun r => eventEnum.contains (r.ctor,
        match r.kind with
        | .none => [] | .optStr => "Option<String>".toList | .int1 => "i32".toList | .reqStr => "String".toList)) = true := by
  refine ⟨by decide, by decide, by decide⟩

/-- `get_default_key_map`: no key is inserted twice, so every row is what a lookup finds -/
theorem c19_default_keymap :
    (defaultKeyRows.map (·.1)).Nodup
    ∧ defaultKeyRows.all (fun r => kmLookup defaultKeymap r.1 == some r.2) = true := by
  refine ⟨by decide, by decide⟩

set_option maxRecDepth 100000 in
/-- `from_keyname`: every arm name is already lower case (the looked-up name is lower-cased first, so an
    arm with an upper-case letter could never match).  That no name occurs in two arms is checked by the
    extractor (it fails closed); a kernel proof over the 230² pairs takes half a minute and is left out. -/
theorem c19_keyname_table :
    keyNameTable.all (fun r => r.1.map Char.toLower == r.1) = true := by
  decide

end SkimModel.Keymap
