import SkimModel.Props.C10
import SkimModel.Props.SelOpsTables
/-!
C10 stated about the TRANSLATED selection code itself: `Generated/SelOps.lean` is what src/selection.rs says on this run,
`interp` / `interpAccept` / `interpAppend` give the tables their meaning, `Props/SelOpsTables.lean` carries the model's theorems over.
-/
namespace SkimModel.SelSet
open SkimModel.Generated

/-- the event `EvActToggle`, as wired and written in the source: with the cursor on a listed item in multi mode it succeeds, leaves the
    list alone, and the new key set is the symmetric difference of the old one with `{(run, index of the cursor item)}` -/
theorem translated_toggle_is_symmetric_difference {s : Sel} {run c : Nat} {cur : MItem} (hm : s.multi = true) (hwf : WF s)
    (hc : s.listed[c]? = some cur) :
    ∃ s', interp (SelOps.handleArm .toggle) s run c = some s' ∧ s'.listed = s.listed ∧
      ∀ k, k ∈ keys s' ↔ (k ∈ keys s ∧ k ≠ (run, cur.idx)) ∨ (k = (run, cur.idx) ∧ (run, cur.idx) ∉ keys s) := by
  rw [(handle_arms_are_model s run c).1]
  exact c10_toggle hm hwf hc

/-- `EvActSelectAll`: union with the keys of the listed items -/
theorem translated_select_all_is_union {s : Sel} (run c : Nat) (hm : s.multi = true) (k : Key) :
    ∃ s', interp (SelOps.handleArm .selectAll) s run c = some s' ∧ (k ∈ keys s' ↔ k ∈ keys s ∨ k ∈ listedKeys s run) := by
  rw [(handle_arms_are_model s run c).2.2.1]
  exact ⟨_, rfl, c10_select_all run hm k⟩

/-- `EvActToggleAll`: symmetric difference with the keys of the listed items (each index listed once) -/
theorem translated_toggle_all_is_symmetric_difference {s : Sel} (run c : Nat) (hm : s.multi = true) (hwf : WF s)
    (hnd : (listedKeys s run).Nodup) (k : Key) :
    ∃ s', interp (SelOps.handleArm .toggleAll) s run c = some s' ∧
      (k ∈ keys s' ↔ (k ∈ keys s ∧ k ∉ listedKeys s run) ∨ (k ∈ listedKeys s run ∧ k ∉ keys s)) := by
  rw [(handle_arms_are_model s run c).2.1]
  exact ⟨_, rfl, c10_toggle_all run hm hwf hnd k⟩

/-- `EvActDeselectAll`: the empty set, in every mode -/
theorem translated_deselect_all_clears (s : Sel) (run c : Nat) :
    ∃ s', interp (SelOps.handleArm .deselectAll) s run c = some s' ∧ keys s' = [] ∧ numSelected s' = 0 := by
  rw [(handle_arms_are_model s run c).2.2.2]
  exact ⟨_, rfl, c10_deselect_all s⟩

/-- single-selection mode: toggle, toggle-all and select-all as written in the source change nothing -/
theorem translated_single_mode_ignores {s : Sel} (run c : Nat) (hm : s.multi = false) :
    interp (SelOps.handleArm .toggle) s run c = some s ∧ interp (SelOps.handleArm .toggleAll) s run c = some s ∧
    interp (SelOps.handleArm .selectAll) s run c = some s := by
  have h := c10_single_ignored run hm
  have ha := handle_arms_are_model s run c
  rw [ha.1, ha.2.1, ha.2.2.1, h.1 c, h.2.1, h.2.2.1]
  exact ⟨rfl, rfl, rfl⟩

/-- the translated `append_sorted_items` (up to the cursor fix-up) keeps the map well-formed: sorted by (run, index), one value per key -/
theorem translated_append_keeps_wf {s : Sel} (run : Nat) (b : List MItem) (h : WF s) : WF (interpAppend s run b) := by
  rw [append_is_model]
  have : step ⟨{ cur := run }, s⟩ (.append b) = some ⟨{ cur := run }, append s run b⟩ := rfl
  exact c10_wf_step (st := ⟨{ cur := run }, s⟩) h this

end SkimModel.SelSet
