import SkimModel.Props.C02
import SkimModel.Props.OVecFnsTables
/-!
C02 stated about the TRANSLATED `OrderedVec` code: a history is run with the `append` and the `merge_till` loop that
`Generated/OVecFns.lean` (what src/orderedvec.rs says on this run) describes; `Props/OVecFnsTables.lean` carries the model's theorems over.
-/
namespace SkimModel.OrderedVec
open List SkimModel.Generated

variable {α K : Type} {leK : K → K → Bool}

/-- one step of a history with the translated `append` (the reads go through the model's `get` / `iter`, whose `merge_till` loop is
    tied by `merge_loop_is_model` and whose index arithmetic by `get_index_is_model`) -/
def interpStep (le : α → α → Bool) (c : Cfg) (s : State α) : Op α → State α × Out α
  | .append b => (interpAppend le c s b, .unit)
  | o => step le c s o

def interpRun (le : α → α → Bool) (c : Cfg) : State α → List (Op α) → State α × List (Out α)
  | s, [] => (s, [])
  | s, op :: ops =>
    let r := interpStep le c s op
    let rr := interpRun le c r.1 ops
    (rr.1, r.2 :: rr.2)

theorem interp_run_is_model (le : α → α → Bool) (c : Cfg) (s : State α) (ops : List (Op α)) :
    interpRun le c s ops = run le c s ops := by
  induction ops generalizing s with
  | nil => rfl
  | cons op ops ih =>
    have hs : interpStep le c s op = step le c s op := by
      cases op <;> simp [interpStep, step, append_is_model]
    simp only [interpRun, run, hs, ih]

/-- C02 for the translated `append`: after every history a full listing terminates without panic and is a permutation of everything
    received since the last clear in which the rank never decreases (never increases with `--tac`) -/
theorem translated_sorted_listing (hk : KeyOrder leK) (key : α → K) (c : Cfg) (hn : c.nosort = false) (ops : List (Op α)) :
    (iter (keyLe leK key) c (interpRun (keyLe leK key) c {} ops).1).2.2 = false ∧
    (iter (keyLe leK key) c (interpRun (keyLe leK key) c {} ops).1).2.1 ~ arrivals [] ops ∧
    (iter (keyLe leK key) c (interpRun (keyLe leK key) c {} ops).1).2.1.Pairwise
      (fun a b => cleK leK c (key a) (key b)) := by
  rw [interp_run_is_model]
  exact c02_sorted_listing hk key c hn ops

/-- ... and no answer of any history is the index panic of `get` -/
theorem translated_no_panic (hk : KeyOrder leK) (key : α → K) (c : Cfg) (ops : List (Op α)) :
    ∀ o ∈ (interpRun (keyLe leK key) c {} ops).2, o ≠ .got .panic ∧ ∀ l, o ≠ .items l true := by
  rw [interp_run_is_model]
  exact c02_no_panic hk key c ops

end SkimModel.OrderedVec
