/-
C17 — match highlight laid over coloured text changes only the matched characters.

  "When highlight ranges are laid over an already coloured line, every character inside a highlight range
   shows the highlight attribute, every other character keeps exactly the attribute it had, and the resulting
   ranges stay ordered and non-overlapping.  This holds for every arrangement of coloured ranges and highlight
   ranges (nested, overlapping, adjacent, disjoint, empty)."

Property theorems only (helper lemmas live in `Lemmas/Merge.lean`; the model is `Model/Merge.lean`, the
declarative vocabulary — `Ordered`, `lookup`, `specAttr` — is `Spec/Merge.lean`).
All theorems hold for every attribute type `α`, every default attribute, every text length and every pair of
ordered fragment lists; empty ranges (`start = stop`) are allowed everywhere.
-/
import SkimModel.Lemmas.Merge
namespace SkimModel.Merge

variable {α : Type}

/-! ### what the iterator shows -/

/-- `AnsiStringIterator` walks the fragment vector with a cursor that only moves forward.  On an ordered list
    this stateful walk shows, at every character, the attribute of the fragment containing that character
    (the default attribute when there is none). -/
theorem c17_iter_lookup (dflt : α) (fs : List (Frag α)) (ho : Ordered fs) (n : Nat) :
    iterAttrs dflt (some fs) n = (List.range n).map (lookup dflt fs) := by
  simp only [iterAttrs, List.range_eq_range']
  exact iterGo_eq dflt n 0 (ordFrom_of_ordered ho)

example : Ordered [(⟨1, 0, 2⟩ : Frag Nat), ⟨2, 2, 2⟩, ⟨3, 2, 5⟩, ⟨4, 7, 9⟩] := by
  rw [← orderedB_iff]; decide

/-- without fragments every character shows the default attribute -/
theorem c17_iter_none (dflt : α) (n : Nat) :
    iterAttrs dflt (none : Option (List (Frag α))) n = List.replicate n dflt := rfl

/-- on an ordered list "the fragment containing `k`" is unambiguous: any fragment of the list that contains
    `k` determines the attribute shown -/
theorem c17_lookup_mem (dflt : α) (fs : List (Frag α)) (ho : Ordered fs) (f : Frag α) (hf : f ∈ fs) (k : Nat)
    (h1 : f.start ≤ k) (h2 : k < f.stop) : lookup dflt fs k = f.attr := by
  simp only [lookup, findCover_of_mem (ordFrom_of_ordered ho) hf h1 h2]

/-- … and a character contained in no fragment shows the default attribute -/
theorem c17_lookup_not_mem (dflt : α) (fs : List (Frag α)) (k : Nat)
    (h : ∀ f ∈ fs, ¬(f.start ≤ k ∧ k < f.stop)) : lookup dflt fs k = dflt := by
  simp only [lookup, findCover_none_of_forall h]

/-! ### the merge -/

/-- ORDEREDNESS: merging two ordered lists gives an ordered (hence non-overlapping) list. -/
theorem c17_ordered (old new : List (Frag α)) (ho : Ordered old) (hn : Ordered new) :
    Ordered (mergeFragments old new) := by
  have ho' := ordFrom_of_ordered ho
  have hn' := ordFrom_of_ordered hn
  exact ordered_of_ordFrom
    (mergeGo_ordFrom 0 old new 0 0 ho' hn' (inv_of_le new ho' (Nat.le_refl 0)) 0 (Nat.le_refl 0) (Nat.zero_le _))

/-- "non-overlapping" spelled out: in an ordered list no character lies in the ranges of two different entries -/
theorem c17_non_overlapping (fs : List (Frag α)) (ho : Ordered fs) (i j : Nat) (hij : i < j) (hj : j < fs.length)
    (k : Nat) : ¬((fs[i]'(Nat.lt_trans hij hj)).start ≤ k ∧ k < (fs[i]'(Nat.lt_trans hij hj)).stop ∧
                  fs[j].start ≤ k ∧ k < fs[j].stop) := by
  have h := (List.pairwise_iff_getElem.mp ho.1) i j (Nat.lt_trans hij hj) hj hij
  omega

/-- … so the merged list is non-overlapping in that sense -/
theorem c17_merge_non_overlapping (old new : List (Frag α)) (ho : Ordered old) (hn : Ordered new) (i j : Nat)
    (hij : i < j) (hj : j < (mergeFragments old new).length) (k : Nat) :
    ¬(((mergeFragments old new)[i]'(Nat.lt_trans hij hj)).start ≤ k ∧
      k < ((mergeFragments old new)[i]'(Nat.lt_trans hij hj)).stop ∧
      (mergeFragments old new)[j].start ≤ k ∧ k < (mergeFragments old new)[j].stop) :=
  c17_non_overlapping _ (c17_ordered old new ho hn) i j hij hj k

example : (0 : Nat) < 1 ∧ 1 < [(⟨1, 1, 3⟩ : Frag Nat), ⟨1, 5, 7⟩].length := by decide

/-- POINTWISE LAW (declarative form): at every character index `k` the merged list assigns the attribute of the
    highlight range containing `k` if there is one, and what the old list assigned otherwise. -/
theorem c17_pointwise (dflt : α) (old new : List (Frag α)) (ho : Ordered old) (hn : Ordered new) (k : Nat) :
    lookup dflt (mergeFragments old new) k = specAttr dflt old new k := by
  have ho' := ordFrom_of_ordered ho
  have hn' := ordFrom_of_ordered hn
  rw [mergeFragments, mergeGo_lookup dflt 0 old new 0 0 ho' hn' (inv_of_le new ho' (Nat.le_refl 0)) k]
  simp only [specFrom, specAttr, hlOr, Nat.zero_le, if_true]
  rfl

example : Ordered [(⟨1, 1, 3⟩ : Frag Nat), ⟨1, 5, 7⟩, ⟨1, 9, 11⟩] ∧ Ordered [(⟨2, 2, 6⟩ : Frag Nat), ⟨2, 6, 6⟩] := by
  constructor <;> (rw [← orderedB_iff]; decide)

/-- the hardest arrangement of the unit test (a highlight starting inside one coloured range and ending inside
    the next), evaluated by the kernel on the literal loop -/
example : mergeLoop 8 0 [(⟨1, 1, 3⟩ : Frag Nat), ⟨1, 5, 7⟩, ⟨1, 9, 11⟩] [⟨2, 2, 6⟩] =
    [⟨1, 1, 2⟩, ⟨2, 2, 6⟩, ⟨1, 6, 7⟩, ⟨1, 9, 11⟩] := by decide

/-- every character inside a (necessarily non-empty) highlight range shows that range's attribute … -/
theorem c17_inside (dflt : α) (old new : List (Frag α)) (ho : Ordered old) (hn : Ordered new)
    (f : Frag α) (hf : f ∈ new) (k : Nat) (h1 : f.start ≤ k) (h2 : k < f.stop) :
    lookup dflt (mergeFragments old new) k = f.attr := by
  rw [c17_pointwise dflt old new ho hn k]
  simp only [specAttr, findCover_of_mem (ordFrom_of_ordered hn) hf h1 h2]

example : (⟨2, 2, 6⟩ : Frag Nat) ∈ [(⟨2, 2, 6⟩ : Frag Nat), ⟨2, 6, 6⟩] ∧ (2 : Nat) ≤ 5 ∧ 5 < 6 := by decide

/-- … and every other character keeps exactly the attribute it had. -/
theorem c17_outside (dflt : α) (old new : List (Frag α)) (ho : Ordered old) (hn : Ordered new) (k : Nat)
    (h : ∀ f ∈ new, ¬(f.start ≤ k ∧ k < f.stop)) :
    lookup dflt (mergeFragments old new) k = lookup dflt old k := by
  rw [c17_pointwise dflt old new ho hn k]
  simp only [specAttr, findCover_none_of_forall h]

example : ∀ f ∈ [(⟨2, 2, 6⟩ : Frag Nat), ⟨2, 6, 6⟩], ¬(f.start ≤ 6 ∧ 6 < f.stop) := by decide

/-- POINTWISE LAW at the observable: what `AnsiString::iter` yields after the merge, for a text of any length. -/
theorem c17_iter_merge (dflt : α) (old new : List (Frag α)) (ho : Ordered old) (hn : Ordered new) (n : Nat) :
    iterAttrs dflt (some (mergeFragments old new)) n = specAttrs dflt old new n := by
  rw [c17_iter_lookup dflt _ (c17_ordered old new ho hn) n, specAttrs]
  exact List.map_congr_left (fun k _ => c17_pointwise dflt old new ho hn k)

/-- the model's recursion (which inlines the iteration following the one branch that advances neither index) is
    the literal `while` loop of `merge_fragments`, one branch per iteration — for ALL inputs, ordered or not -/
theorem c17_loop_eq (old new : List (Frag α)) :
    mergeLoop (2 * (old.length + new.length)) 0 old new = mergeFragments old new :=
  mergeLoop_eq _ 0 old new (Nat.le_refl _)

/-! ### `override_attrs` -/

/-- `override_attrs` including its two special cases (no highlight ranges: nothing changes; no fragments yet:
    the highlight ranges become the fragments): the characters shown follow the pointwise law with "no
    fragments" read as "no colours". -/
theorem c17_override (dflt : α) (cur : Option (List (Frag α))) (new : List (Frag α))
    (hc : ∀ c, cur = some c → Ordered c) (hn : Ordered new) (n : Nat) :
    iterAttrs dflt (overrideAttrs cur new) n = specAttrs dflt (cur.getD []) new n := by
  cases new with
  | nil =>
    cases cur with
    | none =>
      simp only [overrideAttrs, iterAttrs, specAttrs, Option.getD]
      exact (map_const_range dflt n).symm
    | some c =>
      simp only [overrideAttrs, Option.getD]
      rw [c17_iter_lookup dflt c (hc c rfl) n]; rfl
  | cons f fs =>
    cases cur with
    | none =>
      simp only [overrideAttrs, Option.getD]
      rw [c17_iter_lookup dflt _ hn n]; rfl
    | some c =>
      simp only [overrideAttrs, Option.getD]
      exact c17_iter_merge dflt c (f :: fs) (hc c rfl) hn n

/-- the fragments stored by `override_attrs` stay ordered -/
theorem c17_override_ordered (cur : Option (List (Frag α))) (new : List (Frag α))
    (hc : ∀ c, cur = some c → Ordered c) (hn : Ordered new) :
    ∀ r, overrideAttrs cur new = some r → Ordered r := by
  intro r hr
  cases new with
  | nil =>
    cases cur with
    | none => simp [overrideAttrs] at hr
    | some c => simp only [overrideAttrs, Option.some.injEq] at hr; exact hr ▸ hc c rfl
  | cons f fs =>
    cases cur with
    | none => simp only [overrideAttrs, Option.some.injEq] at hr; exact hr ▸ hn
    | some c =>
      simp only [overrideAttrs, Option.some.injEq] at hr
      exact hr ▸ c17_ordered c (f :: fs) (hc c rfl) hn

example : (∀ c, (some [(⟨1, 0, 4⟩ : Frag Nat)]) = some c → Ordered c) := by
  intro c hc; cases hc; rw [← orderedB_iff]; decide

/-- the `None` normalisation of `AnsiString::new_str/new_string` (empty vector, or one fragment with the default
    attribute) does not change what is shown -/
theorem c17_mkAnsi [DecidableEq α] (dflt : α) (fs : List (Frag α)) (ho : Ordered fs) (n : Nat) :
    iterAttrs dflt (mkAnsi dflt fs) n = (List.range n).map (lookup dflt fs) := by
  match fs, ho with
  | [], _ =>
    simp only [mkAnsi, iterAttrs]
    exact (map_const_range dflt n).symm
  | [f], ho =>
    simp only [mkAnsi]
    split
    · next h =>
      simp only [iterAttrs]
      rw [← map_const_range dflt n]
      apply List.map_congr_left
      intro k _
      rw [lookup_cons, lookup_nil, h, ite_self]
    · exact c17_iter_lookup dflt [f] ho n
  | f :: g :: rest, ho =>
    simp only [mkAnsi]
    exact c17_iter_lookup dflt _ ho n

/-! ### how `display` builds the highlight ranges

`Matches.WellFormed` (Spec/Merge.lean): indices strictly increasing, ranges not reversed, all below `u32::MAX`.
`idealFragments` is the construction without the `u32` casts. -/

/-- for well-formed match descriptions the casts `idx as u32`, `idx as u32 + 1`, `start as u32` … of `display`
    change nothing and cannot overflow: the code builds exactly the intended ranges -/
theorem c17_display_in_range (hl : α) (text : List Char) (m : Matches) (hm : m.WellFormed) :
    newFragments hl text m = idealFragments hl text m :=
  newFragments_eq_ideal hl text m hm

/-- `Matches::CharIndices`: strictly increasing indices give ordered unit ranges … -/
theorem c17_display_indices (hl : α) (is : List Nat) (hs : StrictInc is) : Ordered (charIndices hl is) :=
  ordered_of_ordFrom (charIndices_ordFrom hl is hs 0 (fun _ _ => Nat.zero_le _))

example : StrictInc [0, 2, 3, 9] := by rw [← strictInc_iff]; decide

/-- … whose highlight set is exactly the index set: over colours `old`, the matched characters show the
    highlight attribute and all others what they showed before. -/
theorem c17_indices_spec (dflt hl : α) (old : List (Frag α)) (is : List Nat) (k : Nat) :
    specAttr dflt old (charIndices hl is) k = if k ∈ is then hl else lookup dflt old k := by
  simp only [specAttr, findCover_charIndices]
  by_cases h : k ∈ is <;> simp [h]

/-- every arm of `display`'s `match context.matches` yields an ordered highlight list (whenever it does not
    panic on the byte slicing) -/
theorem c17_display_ordered (hl : α) (text : List Char) (m : Matches) (hm : m.WellFormed)
    (new : List (Frag α)) (h : newFragments hl text m = some new) : Ordered new := by
  rw [newFragments_eq_ideal hl text m hm] at h
  cases m with
  | none => simp only [idealFragments, Option.some.injEq] at h; subst h; exact ⟨List.Pairwise.nil, fun _ hf => by cases hf⟩
  | charIndices is => simp only [idealFragments, Option.some.injEq] at h; subst h; exact c17_display_indices hl is hm.1
  | charRange s e =>
    simp only [idealFragments, Option.some.injEq] at h; subst h
    exact ordered_of_ordFrom (lo := 0) ⟨Nat.zero_le _, hm.1, trivial⟩
  | byteRange s e =>
    simp only [idealFragments] at h
    split at h
    · split at h
      · next cs ce h1 h2 =>
        simp only [Option.some.injEq] at h; subst h
        exact ordered_of_ordFrom (lo := 0) ⟨Nat.zero_le _, byteToChar_mono text hm.1 h1 h2, trivial⟩
      · cases h
    · cases h

/-- `DefaultSkimItem::display` end to end: for an item whose colour fragments are ordered and a well-formed match
    description, the characters shown follow the pointwise law for the constructed highlight ranges. -/
theorem c17_display (dflt hl : α) (text : List Char) (cur : Option (List (Frag α))) (m : Matches)
    (hc : ∀ c, cur = some c → Ordered c) (hm : m.WellFormed)
    (new : List (Frag α)) (h : idealFragments hl text m = some new) (n : Nat) :
    ∃ r, display hl text cur m = some r ∧ iterAttrs dflt r n = specAttrs dflt (cur.getD []) new n := by
  rw [← newFragments_eq_ideal hl text m hm] at h
  refine ⟨overrideAttrs cur new, by simp [display, h], ?_⟩
  exact c17_override dflt cur new hc (c17_display_ordered hl text m hm new h) n

/-- … in particular for `Matches::CharIndices` (what the fuzzy engine returns): exactly the matched characters
    show the highlight attribute, every other character what the item's colours showed. -/
theorem c17_display_char_indices (dflt hl : α) (text : List Char) (cur : Option (List (Frag α))) (is : List Nat)
    (hc : ∀ c, cur = some c → Ordered c) (hs : StrictInc is) (hr : ∀ i ∈ is, i < 4294967295) (n : Nat) :
    ∃ r, display hl text cur (.charIndices is) = some r ∧
      iterAttrs dflt r n = (List.range n).map (fun k => if k ∈ is then hl else lookup dflt (cur.getD []) k) := by
  obtain ⟨r, h1, h2⟩ := c17_display dflt hl text cur (.charIndices is) hc ⟨hs, hr⟩ (charIndices hl is) rfl n
  refine ⟨r, h1, ?_⟩
  rw [h2, specAttrs]
  exact List.map_congr_left (fun k _ => c17_indices_spec dflt hl _ is k)

example : (Matches.byteRange 1 3).WellFormed ∧
    idealFragments (7 : Nat) ['a', 'é', 'b'] (.byteRange 1 3) = some [⟨7, 1, 2⟩] := by
  constructor
  · exact ⟨by decide, by decide⟩
  · decide

/-- the default `SkimItem::display` (`From<DisplayContext> for AnsiString`, no colours underneath): the matched
    characters show the highlight attribute, all others the default attribute -/
theorem c17_from_context [DecidableEq α] (dflt hl : α) (text : List Char) (m : Matches) (hm : m.WellFormed)
    (new : List (Frag α)) (h : idealFragments hl text m = some new) (n : Nat) :
    ∃ r, fromContext dflt hl text m = some r ∧ iterAttrs dflt r n = specAttrs dflt [] new n := by
  rw [← newFragments_eq_ideal hl text m hm] at h
  refine ⟨mkAnsi dflt new, by simp [fromContext, h], ?_⟩
  rw [c17_mkAnsi dflt new (c17_display_ordered hl text m hm new h) n, specAttrs]
  exact List.map_congr_left (fun k _ => rfl)

example : (Matches.charIndices [0, 2]).WellFormed ∧
    idealFragments (7 : Nat) ['a', 'é', 'b'] (.charIndices [0, 2]) = some [⟨7, 0, 1⟩, ⟨7, 2, 3⟩] := by
  refine ⟨⟨?_, ?_⟩, rfl⟩
  · rw [← strictInc_iff]; decide
  · intro i hi; simp at hi; omega

end SkimModel.Merge
