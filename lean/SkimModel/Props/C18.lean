/-
C18 — the query editor is a text buffer with cursor, kill buffer and history.
Property theorems only (helper lemmas live in `Lemmas/Editor.lean`).
-/
import SkimModel.Lemmas.Editor
namespace SkimModel.Editor

set_option linter.unusedSimpArgs false

/-- Every action of the two-stack editor of `query.rs` is the corresponding action of the plain
    `(line, cursor)` reference editor. -/
theorem c18_refines (k : Cls) (e : Ed) (a : Action) : (act k e a).abs = specAct k e.abs a := by
  cases a with
  | addChar c =>
    simp only [act, specAct]
    cases hp : e.pasted with
    | some p => simp [Ed.abs, hp]
    | none =>
      have : e.abs.pasted = none := by simp [Ed.abs, hp]
      simp only [this, addCharRaw, abs_setCur, abs_cur]
      congr 1; apply sbuf_ext <;> simp [SBuf.insert]
  | deleteChar =>
    simp only [act, specAct, abs_setCur, abs_cur]
    congr 1; apply sbuf_ext <;> simp
  | backwardChar =>
    simp only [act, specAct, abs_cur]
    cases hb : e.cur.before with
    | nil =>
      simp only []
      have h : e.cur.abs = { e.cur.abs with cur := e.cur.abs.cur - 1 } := by
        apply sbuf_ext <;> simp [hb]
      rw [← h]
      cases e with | mk fz cmd yank mode fzH cmdH pasted => cases mode <;> rfl
    | cons c bs =>
      simp only [abs_setCur]
      congr 1; apply sbuf_ext <;> simp [hb]
  | backwardDeleteChar =>
    simp only [act, specAct, abs_setCur, abs_cur]
    congr 1; apply sbuf_ext
    · simp only [abs_left, abs_right, abs_curpos, abs_line]
      cases e.cur.before <;> simp
    · simp
  | backwardKillWord =>
    simp only [act, specAct, popWhile_eq, abs_saveYank, abs_setCur, if_true, killLeft, abs_cur,
      spanLeft_abs, abs_left, abs_right, abs_curpos]
    have h3 := split3 (fun c => !k.isAlnum c) k.isAlnum e.cur.before
    generalize List.takeWhile (fun c => !k.isAlnum c) e.cur.before = t1 at *
    generalize List.takeWhile k.isAlnum (List.dropWhile (fun c => !k.isAlnum c) e.cur.before) = t2 at *
    generalize List.dropWhile k.isAlnum (List.dropWhile (fun c => !k.isAlnum c) e.cur.before) = r at *
    rw [h3]
    congr 1
    · have : t1.length + (t2.length + r.length) - (t1.length + t2.length) = r.reverse.length := by
        simp; omega
      congr 1; apply sbuf_ext
      · simp only [abs_left, abs_right, abs_line, abs_curpos, List.length_append,
          List.reverse_append, List.append_assoc]
        rw [this, List.take_left]
      · simp; omega
    · have : t1.length + (t2.length + r.length) - (t1.length + t2.length) = r.reverse.length := by
        simp; omega
      simp only [List.length_append, List.reverse_append, List.append_assoc]
      rw [this, List.drop_left]
  | unixWordRubout =>
    simp only [act, specAct, popWhile_eq, abs_saveYank, abs_setCur, if_true, killLeft, abs_cur,
      spanLeft_abs, abs_left, abs_right, abs_curpos]
    have h3 := split3 k.isWs (fun c => !k.isWs c) e.cur.before
    generalize List.takeWhile k.isWs e.cur.before = t1 at *
    generalize List.takeWhile (fun c => !k.isWs c) (List.dropWhile k.isWs e.cur.before) = t2 at *
    generalize List.dropWhile (fun c => !k.isWs c) (List.dropWhile k.isWs e.cur.before) = r at *
    rw [h3]
    congr 1
    · have : t1.length + (t2.length + r.length) - (t1.length + t2.length) = r.reverse.length := by
        simp; omega
      congr 1; apply sbuf_ext
      · simp only [abs_left, abs_right, abs_line, abs_curpos, List.length_append,
          List.reverse_append, List.append_assoc]
        rw [this, List.take_left]
      · simp; omega
    · have : t1.length + (t2.length + r.length) - (t1.length + t2.length) = r.reverse.length := by
        simp; omega
      simp only [List.length_append, List.reverse_append, List.append_assoc]
      rw [this, List.drop_left]
  | killWord =>
    simp only [act, specAct, popWhile_eq, abs_saveYank, abs_setCur, killRight, abs_cur,
      spanRight_abs, abs_left, abs_right, abs_curpos]
    have h3 := split3 (fun c => !k.isAlnum c) k.isAlnum e.cur.after
    generalize List.takeWhile (fun c => !k.isAlnum c) e.cur.after = t1 at *
    generalize List.takeWhile k.isAlnum (List.dropWhile (fun c => !k.isAlnum c) e.cur.after) = t2 at *
    generalize List.dropWhile k.isAlnum (List.dropWhile (fun c => !k.isAlnum c) e.cur.after) = r at *
    rw [h3]
    congr 1
    · congr 1; apply sbuf_ext <;> simp
    · have : t1.length + t2.length = (t1 ++ t2).length := by simp
      rw [this, ← List.append_assoc, List.take_left]; simp
  | backwardWord =>
    simp only [act, specAct, popWhile_eq, abs_setCur, abs_cur, spanLeft_abs]
    have h3 := split3 (fun c => !k.isAlnum c) k.isAlnum e.cur.before
    generalize List.takeWhile (fun c => !k.isAlnum c) e.cur.before = t1 at *
    generalize List.takeWhile k.isAlnum (List.dropWhile (fun c => !k.isAlnum c) e.cur.before) = t2 at *
    generalize List.dropWhile k.isAlnum (List.dropWhile (fun c => !k.isAlnum c) e.cur.before) = r at *
    congr 1; apply sbuf_ext
    · simp only [Buf.abs, Buf.line]; rw [h3]; simp
    · simp only [Buf.abs]; rw [h3]; simp; omega
  | forwardWord =>
    simp only [act, specAct, popWhile_eq, abs_setCur, abs_cur, spanRight_abs]
    have h3 := split3 k.isWs (fun c => !k.isWs c) e.cur.after
    generalize List.takeWhile k.isWs e.cur.after = t1 at *
    generalize List.takeWhile (fun c => !k.isWs c) (List.dropWhile k.isWs e.cur.after) = t2 at *
    generalize List.dropWhile (fun c => !k.isWs c) (List.dropWhile k.isWs e.cur.after) = r at *
    congr 1; apply sbuf_ext
    · simp only [Buf.abs, Buf.line]; rw [h3]; simp
    · simp only [Buf.abs]; simp; omega
  | beginningOfLine =>
    simp only [act, specAct, abs_setCur, abs_cur]
    congr 1
  | endOfLine =>
    simp only [act, specAct, abs_setCur, abs_cur]
    congr 1; apply sbuf_ext <;> simp; omega
  | forwardChar =>
    simp only [act, specAct, abs_cur]
    cases ha : e.cur.after with
    | nil =>
      simp only []
      have h : e.cur.abs = { e.cur.abs with cur := min (e.cur.abs.cur + 1) e.cur.abs.line.length } := by
        apply sbuf_ext <;> simp [ha]
      rw [← h]
      cases e with | mk fz cmd yank mode fzH cmdH pasted => cases mode <;> rfl
    | cons c as =>
      simp only [abs_setCur]
      congr 1; apply sbuf_ext <;> simp [ha]
  | killLine =>
    simp only [act, specAct, abs_saveYank, abs_setCur, if_true, killRight, abs_cur, abs_left, abs_right,
      abs_line, abs_curpos]
    congr 1
    · congr 1; apply sbuf_ext <;> simp
    · simp
  | unixLineDiscard =>
    simp only [act, specAct, abs_saveYank, abs_setCur, killLeft, abs_cur, abs_left, abs_right,
      abs_line, abs_curpos]
    congr 1
    · congr 1; apply sbuf_ext <;> simp
    · simp
  | yank =>
    simp only [act, specAct, foldl_addCharRaw, abs_setCur, abs_cur]
    have : e.abs.yank = e.yank := rfl
    rw [this]
    congr 1; apply sbuf_ext <;> simp [SBuf.insert]; omega
  | previousHistory =>
    simp only [act, specAct, abs_hist]
    cases e.hist.before with
    | nil => rfl
    | cons x hb =>
      simp only [abs_setCur, abs_setHist, abs_cur, abs_line]
      congr 1; apply sbuf_ext <;> simp
  | nextHistory =>
    simp only [act, specAct, abs_hist]
    cases e.hist.after with
    | nil => rfl
    | cons x ha =>
      simp only [abs_setCur, abs_setHist, abs_cur, abs_line]
      congr 1; apply sbuf_ext <;> simp
  | toggleInteractive =>
    cases e with | mk fz cmd yank mode fzH cmdH pasted => cases mode <;> rfl
  | pasteStart => rfl
  | pasteEnd =>
    simp only [act, specAct, foldl_addCharRaw, abs_setCur]
    have h1 : e.abs.pasted = e.pasted := rfl
    have h2 : ({ e with pasted := none } : Ed).abs = { e.abs with pasted := none } := rfl
    rw [h1, h2]
    congr 1
    have h3 : ({ e with pasted := none } : Ed).cur = e.cur := by
      cases e with | mk fz cmd yank mode fzH cmdH pasted => cases mode <;> rfl
    have h4 : ({ e.abs with pasted := none } : SEd).cur = e.abs.cur := by
      cases e with | mk fz cmd yank mode fzH cmdH pasted => cases mode <;> rfl
    rw [h3, h4]
    apply sbuf_ext <;> simp [SBuf.insert]; omega

/-- ... hence for every action sequence (the property's quantifier). -/
theorem c18_run (k : Cls) (e : Ed) (as : List Action) : (run k e as).abs = specRun k e.abs as := by
  induction as generalizing e with
  | nil => rfl
  | cons a as ih => simp only [run, specRun, List.foldl_cons] at *; rw [ih, c18_refines]

/-- text and cursor of both buffers, as observed by the correspondence check -/
theorem c18_observables (k : Cls) (e : Ed) (as : List Action) :
    (run k e as).fz.line = (specRun k e.abs as).fz.line ∧
    (run k e as).fz.before.length = (specRun k e.abs as).fz.cur ∧
    (run k e as).cmd.line = (specRun k e.abs as).cmd.line ∧
    (run k e as).cmd.before.length = (specRun k e.abs as).cmd.cur := by
  rw [← c18_run]; exact ⟨rfl, rfl, rfl, rfl⟩

/-- the abstraction of any model state has its cursors inside the lines -/
theorem c18_abs_wf (e : Ed) : e.abs.WF := by
  constructor <;> simp [Ed.abs, Buf.abs, SBuf.WF, Buf.line]

/-! ### laws of the reference editor (they transfer to the code through `c18_run`) -/

def leftKills (k : Cls) (s : SEd) : Action → Option Nat
  | .unixWordRubout => some (spanLeft k.isWs (fun c => !k.isWs c) s.cur)
  | .backwardKillWord => some (spanLeft (fun c => !k.isAlnum c) k.isAlnum s.cur)
  | .unixLineDiscard => some s.cur.cur
  | _ => none

def rightKills (k : Cls) (s : SEd) : Action → Option Nat
  | .killWord => some (spanRight (fun c => !k.isAlnum c) k.isAlnum s.cur)
  | .killLine => some (s.cur.line.length - s.cur.cur)
  | _ => none

/-- kill to the left (word-rubout, backward-kill-word, line-discard) followed by yank restores line
    and cursor, whenever something was killed -/
theorem c18_kill_yank_left (k : Cls) (s : SEd) (hwf : s.WF) (a : Action) (n : Nat)
    (ha : leftKills k s a = some n) (h0 : 0 < n) :
    (specAct k (specAct k s a) .yank).cur = s.cur := by
  have hw : s.cur.WF := by cases s with | mk fz cmd yank mode fzH cmdH pasted => cases mode <;> simp_all [SEd.WF, SEd.cur]
  have key : ∀ m, m ≤ s.cur.cur → 0 < m →
      (specAct k (killLeft s m) .yank).cur = s.cur := by
    intro m hm h0; simp only [specAct, s_setCur_cur]; exact killLeft_yank s m hm h0 hw
  cases a <;> simp only [leftKills, Option.some.injEq] at ha <;> try contradiction
  all_goals subst ha; simp only [specAct]
  all_goals first | exact key _ (Nat.le_refl _) h0 | exact key _ (spanLeft_le _ _ _) h0

/-- kill to the right (kill-word, kill-line) followed by yank restores the line; the cursor ends
    after the re-inserted text -/
theorem c18_kill_yank_right (k : Cls) (s : SEd) (hwf : s.WF) (a : Action) (n : Nat)
    (ha : rightKills k s a = some n) (h0 : s.cur.right.take n ≠ []) :
    (specAct k (specAct k s a) .yank).cur.line = s.cur.line := by
  have hw : s.cur.WF := by cases s with | mk fz cmd yank mode fzH cmdH pasted => cases mode <;> simp_all [SEd.WF, SEd.cur]
  have key : (specAct k (killRight s n) .yank).cur.line = s.cur.line := by
    simp only [specAct, s_setCur_cur]; exact killRight_yank_line s n h0 hw
  cases a <;> simp only [rightKills, Option.some.injEq] at ha <;> try contradiction
  all_goals subst ha; simp only [specAct]; exact key

/-- yank inserts the kill buffer unchanged and leaves it unchanged (so it can be repeated) -/
theorem c18_yank_inserts (k : Cls) (s : SEd) :
    (specAct k s .yank).cur = s.cur.insert s.yank ∧ (specAct k s .yank).yank = s.yank := by
  simp [specAct]

/-- the two buffers are independent: no action changes the buffer of the other mode -/
theorem c18_buffers_independent (k : Cls) (s : SEd) (a : Action) (h : a ≠ .toggleInteractive) :
    (specAct k s a).other = s.other ∧ (specAct k s a).mode = s.mode := by
  have hp : ∀ p, ({ s with pasted := p } : SEd).other = s.other ∧ ({ s with pasted := p } : SEd).mode = s.mode := by
    intro p; cases s with | mk fz cmd yank mode fzH cmdH pasted => cases mode <;> simp [SEd.other]
  cases a with
  | toggleInteractive => contradiction
  | pasteStart => exact hp (some [])
  | addChar c =>
    simp only [specAct]; split
    · exact hp _
    · constructor <;> simp
  | previousHistory => simp only [specAct]; split <;> constructor <;> simp
  | nextHistory => simp only [specAct]; split <;> constructor <;> simp
  | pasteEnd => constructor <;> simp [specAct, hp]
  | _ => constructor <;> simp [specAct, killLeft, killRight]

/-- toggle-interactive switches buffers and changes neither -/
theorem c18_toggle (k : Cls) (s : SEd) :
    (specAct k s .toggleInteractive).cur = s.other ∧ (specAct k s .toggleInteractive).other = s.cur := by
  cases s with | mk fz cmd yank mode fzH cmdH pasted => cases mode <;> simp [specAct, SEd.cur, SEd.other]

/-- a bracketed paste inserts its text verbatim at the cursor -/
theorem c18_paste (k : Cls) (s : SEd) (cs : List Char) :
    (specRun k s ([.pasteStart] ++ cs.map .addChar ++ [.pasteEnd])).cur = s.cur.insert cs ∧
    (specRun k s ([.pasteStart] ++ cs.map .addChar ++ [.pasteEnd])).other = s.other := by
  have h : ∀ (cs : List Char) (s : SEd) (p : List Char), s.pasted = some p →
      specRun k s (cs.map .addChar) = { s with pasted := some (p ++ cs) } := by
    intro cs
    induction cs with
    | nil => intro s p hp; cases s; simp_all [specRun]
    | cons c cs ih =>
      intro s p hp
      simp only [specRun, List.map_cons, List.foldl_cons] at *
      have : specAct k s (.addChar c) = { s with pasted := some (p ++ [c]) } := by
        simp [specAct, hp]
      rw [this, ih _ (p ++ [c]) rfl]; simp
  simp only [specRun, List.foldl_append, List.foldl_cons, List.foldl_nil] at *
  have h1 : specAct k s .pasteStart = { s with pasted := some [] } := rfl
  rw [h1, h _ _ [] rfl]
  cases s with | mk fz cmd yank mode fzH cmdH pasted => cases mode <;> simp [specAct, SEd.cur, SEd.other, SEd.setCur]

/-- previous-history replaces the whole line with the most recent history entry -/
theorem c18_history_replaces (k : Cls) (s : SEd) (x : List Char) (hb : List (List Char))
    (h : s.hist.before = x :: hb) :
    (specAct k s .previousHistory).cur = { line := x, cur := x.length } := by
  simp [specAct, h]

/-- next-history undoes previous-history: the line comes back (cursor at its end) and the history
    stacks are as before -/
theorem c18_history_inverse (k : Cls) (s : SEd) (x : List Char) (hb : List (List Char))
    (h : s.hist.before = x :: hb) :
    (specAct k (specAct k s .previousHistory) .nextHistory).cur =
        { line := s.cur.line, cur := s.cur.line.length } ∧
    (specAct k (specAct k s .previousHistory) .nextHistory).hist = s.hist := by
  have e1 : specAct k s .previousHistory =
      (s.setHist { before := hb, after := s.cur.line :: s.hist.after }).setCur { line := x, cur := x.length } := by
    simp [specAct, h]
  rw [e1]
  simp only [specAct, s_setCur_hist, s_setHist_hist, s_setCur_cur, s_setCur_setCur]
  constructor
  · simp
  · cases s with | mk fz cmd yank mode fzH cmdH pasted =>
      cases mode <;> simp_all [SEd.hist, SEd.setHist, SEd.setCur] <;> (rw [← h])

def isMotion : Action → Bool
  | .backwardChar | .forwardChar | .backwardWord | .forwardWord | .beginningOfLine | .endOfLine => true
  | _ => false

/-- cursor movement alone never changes the text (of either buffer) nor the kill buffer -/
theorem c18_motion_pure (k : Cls) (s : SEd) (a : Action) (h : isMotion a = true) :
    (specAct k s a).cur.line = s.cur.line ∧ (specAct k s a).other = s.other ∧
    (specAct k s a).yank = s.yank := by
  cases a <;> simp [isMotion] at h <;> simp [specAct]

/-- every action keeps the cursor inside the line -/
theorem c18_cursor_in_line (k : Cls) (s : SEd) (a : Action) (hwf : s.WF) : (specAct k s a).WF := by
  have hc : s.cur.WF := by cases s with | mk fz cmd yank mode fzH cmdH pasted => cases mode <;> simp_all [SEd.WF, SEd.cur]
  have ho : s.other.WF := by cases s with | mk fz cmd yank mode fzH cmdH pasted => cases mode <;> simp_all [SEd.WF, SEd.other]
  have lift : ∀ t : SEd, t.cur.WF → t.other.WF → t.WF := by
    intro t; cases t with | mk fz cmd yank mode fzH cmdH pasted => cases mode <;> simp_all [SEd.WF, SEd.cur, SEd.other]
  have hl := left_length _ hc
  have hr : s.cur.right.length = s.cur.line.length - s.cur.cur := by simp [SBuf.right]
  have hpc : ∀ p, ({ s with pasted := p } : SEd).cur = s.cur := by
    intro p; cases s with | mk fz cmd yank mode fzH cmdH pasted => cases mode <;> rfl
  unfold SBuf.WF at hc
  have sr1 := spanRight_le k.isWs (fun c => !k.isWs c) s.cur
  have sr2 := spanRight_le (fun c => !k.isAlnum c) k.isAlnum s.cur
  by_cases ht : a = .toggleInteractive
  · subst ht
    cases s with | mk fz cmd yank mode fzH cmdH pasted => cases mode <;> simp_all [SEd.WF, specAct]
  · have hoth := (c18_buffers_independent k s a ht).1
    apply lift
    · cases a <;> simp only [specAct, killLeft, killRight, s_kill_cur, s_setCur_cur, SBuf.WF, SBuf.insert]
      case addChar c =>
        split
        · rw [hpc]; exact hc
        · simp only [s_setCur_cur, List.length_append, hl, hr, List.length_cons, List.length_nil]; omega
      case previousHistory => split <;> simp_all [SBuf.WF]
      case nextHistory => split <;> simp_all [SBuf.WF]
      case toggleInteractive => contradiction
      case pasteStart => rw [hpc]; exact hc
      case pasteEnd =>
        simp only [s_setCur_cur, hpc, SBuf.WF, List.length_append, hl, hr]; omega
      all_goals ((try simp only [List.length_append, List.length_take, List.length_drop, hl, hr]); omega)
    · rw [hoth]; exact ho

/-! ### non-vacuity: the hypotheses above are met by concrete non-trivial states -/
section Examples
def asciiCls : Cls := { isAlnum := Char.isAlphanum, isWs := Char.isWhitespace }
def ex1 : SEd := { fz := { line := "foo bar".toList, cur := 7 }, fzH := { before := ["old".toList] } }
example : ex1.WF ∧ leftKills asciiCls ex1 .unixWordRubout = some 3 := by
  refine ⟨⟨by unfold SBuf.WF; decide, by unfold SBuf.WF; decide⟩, by decide⟩
example : (specAct asciiCls (specAct asciiCls ex1 .unixWordRubout) .yank).cur = ex1.cur := by decide
example : rightKills asciiCls { ex1 with fz := { line := "foo bar".toList, cur := 2 } } .killLine = some 5 := by decide
example : ex1.hist.before = "old".toList :: [] := rfl
example : (specAct asciiCls ex1 .previousHistory).cur.line = "old".toList := by decide
end Examples

end SkimModel.Editor
