import SkimModel.Model.Field
import SkimModel.Generated.EngineLoop
/-!
The loop of `match_item` over the matching ranges (`--nth`) in the exact, regex and fuzzy engines, as TRANSLATED from
src/engine/{exact,regexp,fuzzy}.rs on every run (`Generated/EngineLoop.lean`).  Interpreting the tables gives `Field.matchBytes`
resp. `Field.matchChars` for every matcher, text and range list — the functions the C08 / C12 theorems about positions under `--nth`
(`c08_byte_span`, `c08_char_idx`, `c12_nth_restricts`, `c12_positions`) are stated for.  Offsets shifted by `end` instead of `start`,
a missing shift, an unclamped range, the character count of another prefix each break a theorem.
-/
set_option linter.unusedSimpArgs false
namespace SkimModel.Field
open SkimModel.Generated

def vOf (start stop : Nat) : EngineLoop.V → Nat
  | .zero => 0
  | .start => start
  | .stop => stop

/-- the translated loop of ExactEngine / RegexEngine; outer `none` = a slice panics -/
def interpBytesGo (L : EngineLoop.BytesLoop) (find : Bytes → Option (Nat × Nat)) (noRegex inverse : Bool) (text : Bytes) :
    List (Nat × Nat) → Option (Option (Nat × Nat))
  | [] => some none
  | (s, e) :: rest =>
    let start := if L.clampStart then min s text.length else s
    let stop := if L.clampEnd then min e text.length else e
    if noRegex then some (some L.noRegex)
    else
      match slice text (vOf start stop L.sliceFrom) (vOf start stop L.sliceTo) with
      | none => none
      | some sl =>
        let r := (find sl).map (fun (b, e) => (b + vOf start stop L.addBegin, e + vOf start stop L.addEnd))
        -- `matched_result.xor(Some(x))`
        let r := if L.inverse && inverse then (match r with | some _ => none | none => some L.inverseXor) else r
        match r with
        | some m => some (some m)
        | none => interpBytesGo L find noRegex inverse text rest

def interpBytes (L : EngineLoop.BytesLoop) (find : Bytes → Option (Nat × Nat)) (noRegex inverse : Bool) (text : Bytes)
    (ranges : Option (List (Nat × Nat))) : Option (Option (Nat × Nat)) :=
  interpBytesGo L find noRegex inverse text (ranges.getD [(L.defaultFrom, text.length)])

theorem exact_go_is_model (find : Bytes → Option (Nat × Nat)) (noRegex inverse : Bool) (text : Bytes) (l : List (Nat × Nat)) :
    interpBytesGo EngineLoop.exact find noRegex inverse text l = matchBytes.go find noRegex inverse text l := by
  induction l with
  | nil => rfl
  | cons p rest ih =>
    obtain ⟨s, e⟩ := p
    simp only [EngineLoop.exact] at ih ⊢
    simp only [interpBytesGo, matchBytes.go, vOf, if_true, Bool.true_and, ih]
    cases noRegex <;> simp
    cases slice text (min s text.length) (min e text.length) with
    | none => rfl
    | some sl => cases inverse <;> cases h : find sl <;> simp [h]

theorem exact_loop_is_model (find : Bytes → Option (Nat × Nat)) (noRegex inverse : Bool) (text : Bytes)
    (ranges : Option (List (Nat × Nat))) :
    interpBytes EngineLoop.exact find noRegex inverse text ranges = matchBytes find noRegex inverse text ranges := by
  unfold interpBytes matchBytes
  rw [exact_go_is_model]
  rfl

/-- the regex engine never inverts -/
theorem regex_go_is_model (find : Bytes → Option (Nat × Nat)) (noRegex inverse : Bool) (text : Bytes) (l : List (Nat × Nat)) :
    interpBytesGo EngineLoop.regex find noRegex inverse text l = matchBytes.go find noRegex false text l := by
  induction l with
  | nil => rfl
  | cons p rest ih =>
    obtain ⟨s, e⟩ := p
    simp only [EngineLoop.regex] at ih ⊢
    simp only [interpBytesGo, matchBytes.go, vOf, if_true, Bool.false_and, ih]
    cases noRegex <;> simp
    cases slice text (min s text.length) (min e text.length) with
    | none => rfl
    | some sl => cases h : find sl <;> simp [h]

theorem regex_loop_is_model (find : Bytes → Option (Nat × Nat)) (noRegex inverse : Bool) (text : Bytes)
    (ranges : Option (List (Nat × Nat))) :
    interpBytes EngineLoop.regex find noRegex inverse text ranges = matchBytes find noRegex false text ranges := by
  unfold interpBytes matchBytes
  rw [regex_go_is_model]
  rfl

/-- the translated loop of FuzzyEngine -/
def interpCharsGo (L : EngineLoop.CharsLoop) (fz : Bytes → Option (List Nat)) (text : Bytes) :
    List (Nat × Nat) → Option (Option (List Nat))
  | [] => some none
  | (s, e) :: rest =>
    let start := if L.clampStart then min s text.length else s
    let stop := if L.clampEnd then min e text.length else e
    match slice text (vOf start stop L.sliceFrom) (vOf start stop L.sliceTo) with
    | none => none
    | some sl =>
      match fz sl with
      | some v =>
        if start != 0 then
          match slice text 0 (vOf start stop L.prefixTo) with
          | none => none
          | some pre => some (some (v.map (· + charCount pre)))
        else some (some v)
      | none => interpCharsGo L fz text rest

theorem fuzzy_go_is_model (fz : Bytes → Option (List Nat)) (text : Bytes) (l : List (Nat × Nat)) :
    interpCharsGo EngineLoop.fuzzy fz text l = matchChars.go fz text l := by
  induction l with
  | nil => rfl
  | cons p rest ih =>
    obtain ⟨s, e⟩ := p
    simp only [EngineLoop.fuzzy] at ih ⊢
    simp only [interpCharsGo, matchChars.go, vOf, if_true, ih]
    cases slice text (min s text.length) (min e text.length) with
    | none => rfl
    | some sl =>
      cases h : fz sl with
      | none => simp [h]
      | some v =>
        by_cases h0 : (min s text.length != 0) = true
        · simp only [h0, if_true]; cases slice text 0 (min s text.length) <;> rfl
        · simp only [h0, if_false]; rfl

theorem fuzzy_loop_is_model (fz : Bytes → Option (List Nat)) (text : Bytes) (ranges : Option (List (Nat × Nat))) :
    interpCharsGo EngineLoop.fuzzy fz text (ranges.getD [(EngineLoop.fuzzy.defaultFrom, text.length)]) =
      matchChars fz text ranges := by
  unfold matchChars
  rw [fuzzy_go_is_model]
  rfl

end SkimModel.Field
