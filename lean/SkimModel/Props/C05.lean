/-
C05 — accept returns the item under the cursor or the selected set; abort says so.
Property theorems only.  They are corollaries of the C09 (cursor), C10 (selection set), C18 (editor) and
C01 (identity of candidates) results about the same models; the weight of C05 is in the tie
(headless sessions of the real Model ending in accept / abort, see vlib/props/c05.py).
-/
import SkimModel.Model.Accept
import SkimModel.Props.C09
import SkimModel.Props.C10
import SkimModel.Props.C18
import SkimModel.Props.C01
namespace SkimModel.Accept
open SkimModel SkimModel.SelSet

variable {κ : Type}

/-- Single-selection mode (the selected map is empty there along every history, `c10_single_run`): the result
    is exactly the one item at the cursor position of the list — nothing if the list is empty. -/
theorem c05_single (sel : Sel) (cur : SelCursor.Cur) (ed : Editor.Ed) (key : κ) (ev : FinalEv)
    (hm : sel.multi = false) (he : sel.selected = []) :
    (finish sel cur ed key ev).map (·.items) =
      if sel.listed.isEmpty then some [] else (sel.listed[cur.cursor]?).map (fun m => [m.item]) := by
  unfold finish
  rw [c10_accept_cursor cur.cursor (Or.inl hm)]
  cases hl : sel.listed.isEmpty with
  | true => simp [he]
  | false =>
    simp only [Bool.false_eq_true, if_false]
    cases sel.listed[cur.cursor]? <;> simp [he]

/-- Multi-selection mode with a non-empty selection: exactly the selected items, in ascending
    (command run, input position) order, whatever the cursor. -/
theorem c05_multi_selected (sel : Sel) (cur : SelCursor.Cur) (ed : Editor.Ed) (key : κ) (ev : FinalEv)
    (hm : sel.multi = true) (hne : sel.selected ≠ []) (hwf : WF sel) :
    (finish sel cur ed key ev).map (·.items) = some (sel.selected.map (·.2)) ∧
    (keys sel).Pairwise (fun a b => keyLt a b = true) := by
  unfold finish
  rw [c10_accept_selected cur.cursor hm hne]
  exact ⟨rfl, c10_accept_order hwf⟩

/-- Multi-selection mode with nothing selected: the cursor item. -/
theorem c05_multi_none (sel : Sel) (cur : SelCursor.Cur) (ed : Editor.Ed) (key : κ) (ev : FinalEv)
    (he : sel.selected = []) :
    (finish sel cur ed key ev).map (·.items) =
      if sel.listed.isEmpty then some [] else (sel.listed[cur.cursor]?).map (fun m => [m.item]) := by
  unfold finish
  rw [c10_accept_cursor cur.cursor (Or.inr he)]
  cases hl : sel.listed.isEmpty with
  | true => simp [he]
  | false =>
    simp only [Bool.false_eq_true, if_false]
    cases sel.listed[cur.cursor]? <;> simp [he]

/-- The cursor position used by accept is the row the pointer is painted on: after ANY history of cursor
    events the position is inside a non-empty list (so accept cannot panic), and drawing shows the pointer on
    exactly the row whose item is that position. -/
theorem c05_cursor_is_drawn (rev : Bool) (evs : List SelCursor.Ev) (sh : Nat) :
    let cur := SelCursor.run (SelCursor.Cur.init rev) evs
    0 < cur.n → cur.lc < sh →
      cur.cursor < cur.n ∧
      SelCursor.pointerRow cur sh = some (SelCursor.screenRow cur sh cur.lc) ∧
      SelCursor.itemAtRow cur sh (SelCursor.screenRow cur sh cur.lc) = some cur.cursor := by
  intro cur hn hw
  have hv : SelCursor.Valid cur := SelCursor.c09_valid rev evs
  have hp := SelCursor.c09_pointer cur sh hn hv hw
  exact ⟨hv hn, hp.1, hp.2.2.1⟩

/-- accept never panics when the cursor designates an existing row (which C09 guarantees) -/
theorem c05_no_panic (sel : Sel) (cur : SelCursor.Cur) (ed : Editor.Ed) (key : κ) (ev : FinalEv)
    (h : sel.listed = [] ∨ cur.cursor < sel.listed.length) : (finish sel cur ed key ev).isSome = true := by
  have ha : (accept sel cur.cursor).isSome = true := by
    unfold accept
    simp only []
    split
    · rcases h with h | h
      · rename_i hc; simp [h] at hc
      · rw [List.getElem?_eq_getElem h]; rfl
    · rfl
  unfold finish
  cases hacc : accept sel cur.cursor with
  | none => rw [hacc] at ha; cases ha
  | some r => rfl

/-- The result carries the query and the command query exactly as edited (whatever the editing history,
    by C18's refinement the two lines are those of the reference editor), the key and the event that ended
    the session, and an accept is never flagged as an abort. -/
theorem c05_meta (sel : Sel) (cur : SelCursor.Cur) (k : Editor.Cls) (ed0 : Editor.Ed) (as : List Editor.Action)
    (key : κ) (arg : Option String) (o : Output κ)
    (h : finish sel cur (Editor.run k ed0 as) key (.accept arg) = some o) :
    o.query = (Editor.specRun k ed0.abs as).fz.line ∧ o.cmd = (Editor.specRun k ed0.abs as).cmd.line ∧
    o.finalKey = key ∧ o.finalEvent = .accept arg ∧ o.isAbort = false := by
  unfold finish at h
  split at h
  · cases h
  · cases h
    have := Editor.c18_observables k ed0 as
    exact ⟨this.1, this.2.2.1, rfl, rfl, rfl⟩

/-- An abort is flagged as such and is never reported as an accept. -/
theorem c05_abort (sel : Sel) (cur : SelCursor.Cur) (ed : Editor.Ed) (key : κ) (o : Output κ)
    (h : finish sel cur ed key .abort = some o) :
    o.isAbort = true ∧ o.finalEvent = .abort ∧ o.finalKey = key := by
  unfold finish at h
  split at h
  · cases h
  · cases h; exact ⟨rfl, rfl, rfl⟩

/-- is_abort is set exactly for the abort event -/
theorem c05_abort_iff (sel : Sel) (cur : SelCursor.Cur) (ed : Editor.Ed) (key : κ) (ev : FinalEv) (o : Output κ)
    (h : finish sel cur ed key ev = some o) : (o.isAbort = true ↔ ev = .abort) := by
  unfold finish at h
  split at h
  · cases h
  · cases h; cases ev <;> simp

/-- Each returned item is the object stored under its key, and (session level) a candidate entry is the
    item at that input position of the current command run: with `c10_identity_step` (entries keep
    `item = T key`) and `session_item_index` this is "the very object supplied on input". -/
theorem c05_items_are_stored (sel : Sel) (hwf : WF sel) :
    ∀ e ∈ sel.selected, lookup e.1 sel.selected = some e.2 := c10_accept_items hwf

/-- What the binary prints and its exit code: nothing and 130 on abort; otherwise [query] [cmd] [expect key]
    and then the items' output texts in order, exit code 1 iff no item was returned. -/
theorem c05_exit_code (o : Output κ) (b : BinOpts) (out : Item → String) :
    (o.isAbort = true → binOutput o b out = ([], 130)) ∧
    (o.isAbort = false →
      (binOutput o b out).2 = (if o.items = [] then 1 else 0) ∧
      ∃ pre, (binOutput o b out).1 = pre ++ o.items.map out ∧ pre.length ≤ 3) := by
  constructor
  · intro h; simp [binOutput, h]
  · intro h
    simp only [binOutput, h, Bool.false_eq_true, if_false]
    refine ⟨by cases o.items <;> simp, ?_⟩
    refine ⟨(if b.printQuery then [String.ofList o.query] else []) ++
        (if b.printCmd then [String.ofList o.cmd] else []) ++
        (if b.expect then
          (match o.finalEvent with
           | .accept (some k) => [k]
           | .accept none => [""]
           | .abort => ([] : List String)) else []), rfl, ?_⟩
    simp only [List.length_append]
    have h1 : (if b.printQuery then [String.ofList o.query] else []).length ≤ 1 := by split <;> simp
    have h2 : (if b.printCmd then [String.ofList o.cmd] else []).length ≤ 1 := by split <;> simp
    have h3 : (if b.expect then
        (match o.finalEvent with
         | .accept (some k) => [k]
         | .accept none => [""]
         | .abort => ([] : List String)) else []).length ≤ 1 := by
      split
      · split <;> simp
      · simp
    omega

/-! non-vacuity -/
example :
    let sel : Sel := { multi := true, selected := [((1, 2), 102), ((1, 5), 105)],
                       listed := [{ idx := 5, item := 105, rank := 0 }, { idx := 2, item := 102, rank := 1 }] }
    (finish sel { n := 2 } ({} : Editor.Ed) () (.accept none)).map (·.items) = some [102, 105] := by decide
example :
    let sel : Sel := { multi := false, listed := [{ idx := 5, item := 105, rank := 0 }, { idx := 2, item := 102, rank := 1 }] }
    (finish sel { n := 2, lc := 1 } ({} : Editor.Ed) () (.accept none)).map (·.items) = some [102] := by decide

end SkimModel.Accept
