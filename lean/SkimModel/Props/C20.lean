import SkimModel.Lemmas.Preview
/-
C20 — the preview ends up showing the latest request, never an older one.

All theorems are about `Preview.step` (Model/Preview.lean), the transition system of
src/previewer.rs, and quantify over EVERY reachable state, i.e. over all request histories and all
interleavings of client, worker, child processes and waiter threads (including stale reads of the
`stopped` flag, early ends of the `try_recv` drain and children dying by foreign signals).
Request ids are the sequence numbers of the sends, so "older / newer" is `<` on ids.
-/
namespace SkimModel.Props.C20
open SkimModel.Preview

/-- Every state reached by the executable `run` (what the driver replays real traces with) is
    `Reachable`. -/
theorem c20_run_reachable {s s' : St} (ls : List Label) (hr : Reachable s) (h : run s ls = some s') :
    Reachable s' := by
  induction ls generalizing s with
  | nil => simp [run] at h; subst h; exact hr
  | cons l ls ih =>
    simp only [run] at h
    split at h
    · rename_i s1 hs1
      exact ih (Reachable.step l hr hs1) h
    · simp at h

/-- MONOTONE: the ids written to the pane, newest first, are strictly decreasing — an older request
    never replaces a later one (and no request is written twice); the pane holds the newest write. -/
theorem c20_monotone {s : St} (hr : Reachable s) :
    s.writes.Pairwise (· > ·) ∧ s.content = s.writes.headD 0 :=
  ⟨(inv_reachable hr).writes_sorted, (inv_reachable hr).writes_head⟩

/-- the same, step by step: no step of any thread lowers the id shown in the pane, and whatever is
    still queued, held by the worker or running as a child is newer than what the pane shows. -/
theorem c20_never_older {s s' : St} (l : Label) (hr : Reachable s) (h : step s l = some s') :
    s.content ≤ s'.content ∧ (∀ e ∈ s'.chan, s'.content < e.id) ∧
      (∀ e, s'.phase.held = some e → s'.content < e.id) ∧ (∀ c, s'.child = some c → s'.content ≤ c.id) := by
  have hi := inv_reachable hr
  have hi' := inv_step l hi h
  refine ⟨?_, fun e he => (hi'.chan_id e he).1, fun e he => (hi'.held_id e he).1, fun c hc => (hi'.child_id c hc).1⟩
  have h1 := hi.writes_head
  have h2 := hi'.writes_head
  have h3 := hi'.writes_sorted
  have hw : s'.writes = s.writes ∨ ∃ i, s'.writes = i :: s.writes := by
    cases l <;> simp only [step] at h <;> (repeat' split at h) <;>
      simp_all [St.show] <;> (try (subst h; simp)) <;> (try (obtain ⟨_, h⟩ := h; subst h; simp))
  rcases hw with hw | ⟨i, hw⟩
  · rw [h1, h2, hw]; exact Nat.le_refl _
  · rw [hw] at h2 h3
    rw [h1, h2]
    cases hws : s.writes with
    | nil => simp
    | cons b t =>
      rw [hws] at h3
      simp at h3 ⊢
      omega

/-- LATEST: once preview activity has settled (nothing queued, worker blocked in `recv`, no waiter
    alive), the pane shows the most recent request that was sent:
    * a text request is shown;
    * a command request is shown unless its own child was terminated by a signal or could not be
      waited for (`wait` drops those results by design; nobody in skim signals the newest child) —
      the spawn-failure message counts as its output;
    * `Noop` (no current item) and the empty command leave the pane alone — it then still shows an
      older request, never anything newer than the last one.
    Before the first request the pane is empty. -/
theorem c20_latest {s : St} (hr : Reachable s) (hq : Settled s) :
    match s.sent.head? with
    | none => s.content = 0
    | some e =>
      s.content ≤ e.id ∧
      (e.kind = .text → s.content = e.id) ∧
      (e.kind = .cmd → s.content = e.id ∨
        ∃ c r, s.child = some c ∧ c.id = e.id ∧ c.proc = .exited r ∧ r.shown = false) := by
  have hi := inv_reachable hr
  obtain ⟨hc, hp, hw⟩ := hq
  have hn := hi.newest
  simp only [newestOf, hc, hp, Phase.held, List.getLast?_nil] at hn
  cases hs : s.sent.head? with
  | none =>
    have hnil : s.sent = [] := by cases h : s.sent <;> simp_all
    have h1 := hi.next_eq
    have h2 := hi.content_lt
    simp [hnil] at h1
    show s.content = 0
    omega
  | some e =>
    rw [hs] at hn
    refine ⟨hi.last_id e hn, fun ht => (hi.last_text e hn ht).1, fun hk => ?_⟩
    rcases hi.last_cmd e hn hk with ⟨c, hcc, hid⟩ | ⟨_, hcont⟩
    · have hd := hw c hcc
      obtain ⟨r, hpr⟩ := hi.waiter_proc c hcc (by simp [hd])
      cases hsh : r.shown with
      | true => exact Or.inl (by rw [hi.done_shown c r hcc hd hpr hsh, hid])
      | false => exact Or.inr ⟨c, r, hcc, hid, hpr, hsh⟩
    · exact Or.inl hcont

/-- KILL: when the worker has dequeued a newer request while the previous child is still running,
    its flag read cannot be `true`, so it sends SIGKILL: the child is terminated (by our signal) and
    the worker goes on to join the waiter. -/
theorem c20_kill {s s' : St} {e : Ev} {c : Child} (saw : Bool) (hr : Reachable s)
    (hp : s.phase = .killing e) (hc : s.child = some c) (hrun : c.proc = .running)
    (h : step s (.killCheck saw) = some s') :
    saw = false ∧ s'.phase = .joining e ∧
      ∃ c', s'.child = some c' ∧ c'.id = c.id ∧ c'.proc = .exited .sig ∧ c'.signalled = true := by
  have hi := inv_reachable hr
  have hwait : c.waiter = .waiting := by
    cases hw : c.waiter <;> first | rfl | (obtain ⟨r, hpr⟩ := hi.waiter_proc c hc (by simp [hw]); simp [hrun] at hpr)
  have hst : c.stopped = false := by
    cases hs : c.stopped with
    | false => rfl
    | true => rcases hi.stopped_late c hc hs with h1 | h1 <;> simp [hwait] at h1
  simp only [step, hp, hc] at h
  cases saw with
  | true => simp [hst] at h
  | false =>
    simp at h
    subst h
    simp [hrun]

/-- … and between dequeuing a request and examining it (drain / dispatch) the worker does nothing but
    kill-check and join: whenever a child exists and a request has been dequeued, the only enabled
    worker steps are `killCheck` and `join`, and `join` needs the waiter thread to have finished. -/
theorem c20_join_before_next {s s' : St} {c : Child} {e : Ev} (l : Label) (hr : Reachable s)
    (hc : s.child = some c) (hh : s.phase.held = some e) (h : step s l = some s') :
    (l = .recv ∨ l = .tryRecv ∨ (∃ ok len, l = .dispatch ok len)) → False := by
  have hi := inv_reachable hr
  intro hl
  have hnd : ∀ e', s.phase ≠ .draining e' := fun e' hd => by
    have := hi.drain_nochild e' hd; simp [hc] at this
  rcases hl with rfl | rfl | ⟨ok, len, rfl⟩ <;> simp only [step] at h <;> (try split at h) <;>
    simp_all [Phase.held]

theorem c20_join_waits {s s' : St} (h : step s .join = some s') :
    ∃ c, s.child = some c ∧ c.waiter = .done ∧ s'.child = none := by
  simp only [step] at h
  split at h <;> try simp at h
  rename_i e c hp hc
  obtain ⟨hw, h⟩ := h
  subst h
  exact ⟨c, hc, hw, rfl⟩

/-- SINGLE CHILD: a request is only ever dispatched (and hence a new child only ever spawned, and
    the worker only ever writes the pane itself) when no child / waiter exists any more. -/
theorem c20_single_child {s s' : St} (ok : Bool) (len : Nat) (hr : Reachable s)
    (h : step s (.dispatch ok len) = some s') : s.child = none := by
  have hi := inv_reachable hr
  simp only [step] at h
  split at h <;> try simp at h
  rename_i e hp
  exact hi.drain_nochild e hp

/-- DISCARD: the result of a child that was terminated by a signal (ours or anybody's) or that could
    not be waited for never reaches the pane: its waiter can neither set `stopped` nor write. -/
theorem c20_discard {s : St} {c : Child} {r : Res} (hr : Reachable s) (hc : s.child = some c)
    (hp : c.proc = .exited r) (hs : r.shown = false) :
    step s .setStopped = none ∧ ∀ len, step s (.write len) = none := by
  have hi := inv_reachable hr
  have hno : ¬ (c.waiter = .stopping ∨ ∃ r, c.waiter = .reaped r) := by
    intro hw
    obtain ⟨r', hp', hs'⟩ := hi.shown_proc c hc hw
    rw [hp] at hp'
    cases hp'
    simp [hs] at hs'
  constructor
  · simp only [step, hc]
    split <;> simp_all
  · intro len
    simp only [step, hc]
    split <;> simp_all

/-- SCROLL: in every reachable state the vertical offset is inside the content
    (1-based; `max 1 (len - 1)` is the bound `act_scroll_down` itself uses). -/
theorem c20_scroll {s : St} (hr : Reachable s) : 1 ≤ s.vscroll ∧ s.vscroll ≤ max 1 (s.len - 1) :=
  (inv_reachable hr).scroll_ok

/-- the pure form: whatever the old offset, the difference and the content length -/
theorem c20_scroll_act (v len : Nat) (d : Int) :
    1 ≤ clampScroll (scrollBy v d) len ∧ clampScroll (scrollBy v d) len ≤ max 1 (len - 1) :=
  clampScroll_range _ _

/-- … and the initial offset requested by `+SCROLL-OFFSET` / `ItemPreview::*WithPos` -/
theorem c20_scroll_initial (s : St) (id vs : Nat) (vo : Size) (len : Nat) :
    1 ≤ (s.show id vs vo len).vscroll ∧ (s.show id vs vo len).vscroll ≤ max 1 ((s.show id vs vo len).len - 1) := by
  simp only [St.show]
  exact clampScroll_range _ _

/-- DEDUPE: `on_item_change` sends nothing iff the refresh is not forced and item identity, query,
    command query and the NUMBER of selected items are all unchanged. -/
theorem c20_dedupe (c : Client) (k : Key) (force : Bool) :
    (onItemChange c k force).2 = false ↔
      (force = false ∧ c.prev.item = k.item ∧ c.prev.query = k.query ∧ c.prev.cmdQuery = k.cmdQuery
        ∧ c.prev.nsel = k.nsel) := by
  have h : ∀ {α : Type} [DecidableEq α] (a b : Option α), optChanged a b = false ↔ a = b := by
    intro α _ a b
    cases a <;> cases b <;> simp [optChanged]
  unfold onItemChange
  cases force <;> simp
  split <;> simp_all

/-- a request that was sent becomes the reference for the next comparison; a suppressed one changes nothing -/
theorem c20_dedupe_prev (c : Client) (k : Key) (force : Bool) :
    ((onItemChange c k force).2 = true → (onItemChange c k force).1.prev = k) ∧
    ((onItemChange c k force).2 = false → (onItemChange c k force).1 = c) := by
  simp only [onItemChange]
  split <;> simp

/-! ### non-vacuity: concrete histories -/

/-- request 1 (command) finishes just before request 2's kill: the waiter is between reap and
    `stopped` when the worker (stale read) sends SIGKILL to the dead child; the OLD output is written,
    the worker joins, then shows request 2 (text).  Settled, pane = 2, writes = [2, 1]. -/
def raceTrace : List Label :=
  [.send .cmd 0 .default, .recv, .dispatch true 0, .exit .ok, .reap,
   .send .text 0 .default, .recv, .killCheck false, .setStopped, .write 3, .join, .dispatch true 1]

example : (run init raceTrace).map (fun s => (s.content, s.writes, decide (Settled s))) = some (2, [2, 1], true) := by
  decide

/-- a running child is killed by the next request (hypotheses of `c20_kill` are satisfiable) -/
example : ∃ s e c, run init [.send .cmd 0 .default, .recv, .dispatch true 0, .send .noop 0 .default, .recv] = some s ∧
    s.phase = .killing e ∧ s.child = some c ∧ c.proc = .running :=
  ⟨_, _, _, rfl, rfl, rfl, rfl⟩

/-- a killed child's result is discarded (hypotheses of `c20_discard`), and the pane keeps request 0 -/
example : (run init [.send .cmd 0 .default, .recv, .dispatch true 0, .send .noop 0 .default, .recv,
    .killCheck false, .reap, .join, .dispatch true 0]).map (fun s => (s.content, decide (Settled s))) = some (0, true) := by
  decide

/-- scroll: offset 100 requested for 5 lines lands on 4; scrolling 70 down in 61 lines stops at 60 -/
example : (run init [.send .text 100 (.fixed 2), .recv, .dispatch true 5]).map (·.vscroll) = some 4 := by decide
example : (run init [.send .text 0 .default, .recv, .dispatch true 61, .scroll 70]).map (·.vscroll) = some 60 := by decide

/-- dedupe: same item/query/count → nothing sent; forced → sent; same COUNT but other members → nothing sent -/
example : (onItemChange { prev := ⟨some 1, some 0, none, 2⟩ } ⟨some 1, some 0, none, 2⟩ false).2 = false := by decide
example : (onItemChange { prev := ⟨some 1, some 0, none, 2⟩ } ⟨some 1, some 0, none, 2⟩ true).2 = true := by decide
example : (onItemChange { prev := ⟨some 1, some 0, none, 2⟩ } ⟨some 2, some 0, none, 2⟩ false).2 = true := by decide

end SkimModel.Props.C20
