import SkimModel.Model.Positions
import SkimModel.Generated.DisplayFns
/-!
The highlight fragments built from a reported match at the two places skim builds them — `From<DisplayContext> for AnsiString`
(src/lib.rs, with the char-index constructor of src/ansi.rs) and `DefaultSkimItem::display` (src/helper/item.rs) — as TRANSLATED from
the source on every run (`Generated/DisplayFns.lean`).  Both are the C08 model's `Positions.fragments`, for every text and match range:
`c08_highlight` (exactly the matched characters carry the highlight) is therefore about the fragments the source builds now.
-/
set_option linter.unusedSimpArgs false
namespace SkimModel.Positions
open SkimModel.Field SkimModel.Generated

def bndF (text : SkimModel.Field.Bytes) (s e : Nat) (left : Bool) : DisplayFns.Bound → Nat
  | .open => if left then 0 else text.length
  | .start => s
  | .stop => e

/-- the translated fragment list; `none` = a slice of the text panics -/
def interpFragments (f : DisplayFns.Site) (text : SkimModel.Field.Bytes) : MatchRange → Option (List (Nat × Nat))
  | .chars v => some (v.map (fun i => (i + f.idxLo, i + f.idxHi)))
  | .bytes s e =>
    match slice text (bndF text s e true f.startSlice.1) (bndF text s e false f.startSlice.2),
          slice text (bndF text s e true f.endSlice.1) (bndF text s e false f.endSlice.2) with
    | some pre, some mid => some [(charCount pre, (if f.endAddsStart then charCount pre else 0) + charCount mid)]
    | _, _ => none

theorem from_context_is_model (text : SkimModel.Field.Bytes) (r : MatchRange) :
    interpFragments DisplayFns.fromContext text r = fragments text r := by
  cases r with
  | chars v => simp [interpFragments, fragments, DisplayFns.fromContext]
  | bytes s e =>
    simp only [interpFragments, fragments, byteToCharRange, DisplayFns.fromContext, bndF, if_true]
    cases slice text 0 s <;> cases slice text s e <;> rfl

theorem display_item_is_model (text : SkimModel.Field.Bytes) (r : MatchRange) :
    interpFragments DisplayFns.displayItem text r = fragments text r := by
  cases r with
  | chars v => simp [interpFragments, fragments, DisplayFns.displayItem]
  | bytes s e =>
    simp only [interpFragments, fragments, byteToCharRange, DisplayFns.displayItem, bndF, if_true]
    cases slice text 0 s <;> cases slice text s e <;> rfl

/-- the two sites agree with each other -/
theorem display_sites_agree : DisplayFns.fromContext = DisplayFns.displayItem := by decide

/-! ### `AnsiStringIterator::next`: which characters carry the highlight -/

/-- the translated skipping loop -/
def interpSkip (ci : Nat) : List (Nat × Nat) → List (Nat × Nat)
  | [] => []
  | (s, e) :: fs => if DisplayFns.iterStays ci s e then (s, e) :: fs else interpSkip ci fs

/-- the translated iterator, as flags (the default fragment used past the last one carries `Attr::default()`: no highlight) -/
def interpFlags : List (Nat × Nat) → Nat → Nat → List Bool
  | _, _, 0 => []
  | frags, ci, n + 1 =>
    let fr := interpSkip ci frags
    let hit := match fr with
      | [] => false
      | (s, e) :: _ => DisplayFns.iterHit ci s e
    hit :: interpFlags fr (ci + 1) n

theorem skip_is_model (ci : Nat) (fs : List (Nat × Nat)) : interpSkip ci fs = skipFrags ci fs := by
  induction fs with
  | nil => rfl
  | cons p fs ih =>
    obtain ⟨s, e⟩ := p
    simp only [interpSkip, skipFrags, DisplayFns.iterStays, decide_eq_true_eq, ih] <;>
      (by_cases h : ci < e <;> simp [h] <;> (try omega))

theorem iterator_is_model (frags : List (Nat × Nat)) (ci n : Nat) : interpFlags frags ci n = iterFlags frags ci n := by
  induction n generalizing frags ci with
  | zero => rfl
  | succ n ih =>
    simp only [interpFlags, iterFlags, skip_is_model, ih]
    cases hfr : skipFrags ci frags with
    | nil => rfl
    | cons p t =>
      obtain ⟨s, e⟩ := p
      simp only [DisplayFns.iterHit, List.cons.injEq, and_true] <;>
      by_cases h1 : s ≤ ci <;> by_cases h2 : ci < e <;> simp [h1, h2] <;> (try omega)

end SkimModel.Positions
