import SkimModel.Lemmas.Ansi
/-!
C16 — `--ansi`: escape sequences leave the text, colours land on the right characters.

Model: `Model/Ansi.lean` (src/ansi.rs + the reachable part of vte 0.11), SGR table `Generated/Sgr.lean`
(regenerated from the `match` arms of `csi_dispatch` on every run), spec `Spec/Sgr.lean`.

`csiParams body` is the model of vte's parameter accumulator (32 numbers at most, u16 saturation);
`c16_params` shows it is plain decimal parsing whenever the sequence stays inside those limits, and
`c16_parse_spec` restates the main theorem with the spec's own parameter parser under that hypothesis.
-/
namespace SkimModel.Ansi
open Spec

/-! ## the SGR table and the SGR fold -/

/-- The SGR table generated from the `match` arms of `csi_dispatch` means, for EVERY code, what the spec's
    code list says (codes 0..107 by evaluation of the complete table, codes >= 108 because every row is
    bounded below 108 and the wildcard row ignores). -/
theorem c16_table : ∀ code : Nat, (lookup Generated.sgrTable code).denote code = sgr1 code := by
  have small : ∀ code, code < 108 → (lookup Generated.sgrTable code).denote code = sgr1 code := by decide
  intro code
  by_cases h : code < 108
  · exact small code h
  · have hb : tblBound Generated.sgrTable < 108 := by decide
    have e : lookup Generated.sgrTable code = lookup Generated.sgrTable 108 :=
      lookup_big _ _ _ (by omega) (by omega)
    have w : lookup Generated.sgrTable 108 = .ignore := by decide
    rw [e, w, sgr1_big code (by omega)]
    rfl

/-- no `(num - k) as u8` in the table can underflow (`k` is at most the lower end of the arm's range) -/
theorem c16_table_no_underflow : tblSubOk Generated.sgrTable = true := by decide

/-- The parameter loop of `csi_dispatch` equals the spec interpreter for ALL running attributes and ALL
    parameter lists (any length, any values, sub-parameters, complete and truncated 38/48 forms). -/
theorem c16_sgr (a : Attr) (ps : List Param) : sgrLoop Generated.sgrTable a ps = Spec.sgr a ps :=
  sgrLoop_eq_spec _ c16_table a ps

/-- `csi_dispatch` with final byte `m` = "change the running attribute to what the spec says" -/
theorem c16_sgr_dispatch (p : Parser) (ps : List Param) :
    p.csiDispatch ps 'm' = p.attrChange (Spec.sgrSeq p.lastAttr ps) := by
  simp only [Parser.csiDispatch, ne_eq, not_true_eq_false, if_false]
  rw [dispatch_attr c16_table]

/-- any other final byte changes nothing -/
theorem c16_csi_other (p : Parser) (ps : List Param) (f : Char) (hf : f ≠ 'm') : p.csiDispatch ps f = p := by
  simp [Parser.csiDispatch, hf]

macro "sgr_eval" : tactic =>
  `(tactic| simp [Spec.sgr, Spec.sgr1, Spec.operands, SemAct.apply, Spec.setLayer, Effect.or, Spec.sgrSeq])

-- the spec interpreter on the forms the property names (non-vacuity of `c16_sgr`)
example : Spec.sgr {} [(1, []), (31, [])] = { fg := .ansi 1, effect := { bold := true } } := by sgr_eval
example : Spec.sgr {} [(2, [])] = { effect := { dim := true } } := by sgr_eval
example : Spec.sgr {} [(38, []), (5, []), (196, []), (4, [])] = { fg := .ansi 196, effect := { underline := true } } := by sgr_eval
example : Spec.sgr {} [(48, []), (2, []), (1, []), (2, []), (3, [])] = { bg := .rgb 1 2 3 } := by sgr_eval
example : Spec.sgr { fg := .ansi 3 } [(38, []), (2, []), (1, []), (2, [])] = { fg := .ansi 3 } := by sgr_eval   -- truncated RGB
example : Spec.sgr { fg := .ansi 3 } [(38, []), (5, [])] = { fg := .ansi 3 } := by sgr_eval                     -- truncated 256
example : Spec.sgr {} [(38, []), (7, []), (1, [])] = { effect := { bold := true } } := by sgr_eval               -- bad selector
example : Spec.sgr { fg := .ansi 3, effect := { bold := true } } [(0, [])] = {} := by sgr_eval
example : Spec.sgr {} [(97, []), (107, []), (39, [])] = { bg := .ansi 15 } := by sgr_eval
example : Spec.sgr {} [(3, []), (21, []), (108, []), (65535, [])] = {} := by sgr_eval                              -- unknown codes

/-! ## parsing a line -/

/-- MAIN THEOREM.  For every running attribute `a0` left by earlier lines and every well-formed segment list
    (text runs of printable characters / tabs in any script, SGR sequences with arbitrary parameter bytes,
    other CSI sequences), parsing the rendered line yields
    * exactly the text runs, in order, every CSI sequence removed, and
    * per CHARACTER (not byte) the attribute the spec computes from the SGR sequences before it. -/
theorem c16_parse (a0 : Attr) (segs : List Seg) (hwf : ∀ s ∈ segs, s.wf) :
    ((Parser.fresh a0).parseAnsi (render segs)).1.stripped = text segs ∧
    ((Parser.fresh a0).parseAnsi (render segs)).1.iter = (text segs).zip (attrsWith csiParams a0 segs) :=
  ⟨(parse_spec c16_table a0 segs hwf).1, (parse_spec c16_table a0 segs hwf).2.1⟩

/-- after the line the parser holds nothing but the running attribute the spec predicts
    (malformed / unknown / truncated sequences leave no other trace for later characters or lines) -/
theorem c16_parse_next (a0 : Attr) (segs : List Seg) (hwf : ∀ s ∈ segs, s.wf) :
    ((Parser.fresh a0).parseAnsi (render segs)).2 = Parser.fresh (finalWith csiParams a0 segs) :=
  (parse_spec c16_table a0 segs hwf).2.2

/-- `AnsiString::parse` (fresh parser): the item case of `c16_parse` -/
theorem c16_parse_fresh (segs : List Seg) (hwf : ∀ s ∈ segs, s.wf) :
    (parse (render segs)).stripped = text segs ∧
    (parse (render segs)).iter = (text segs).zip (attrsWith csiParams {} segs) :=
  c16_parse {} segs hwf

-- a concrete well-formed line: "中" ESC[1;31m "X\tY" ESC[K ESC[38;5m "z"  (the truncated 38;5 changes nothing)
example : ∀ s ∈ [Seg.text ['中'], .sgr ['1', ';', '3', '1'], .text ['X', '\t', 'Y'], .csi [] 'K', .sgr ['3', '8', ';', '5'], .text ['z']],
    s.wf := by simp [Seg.wf, isParamChar]
example :
    attrsWith csiParams {} [Seg.text ['中'], .sgr ['1', ';', '3', '1'], .text ['X', '\t', 'Y'], .csi [] 'K', .sgr ['3', '8', ';', '5'], .text ['z']]
      = [{}, { fg := .ansi 1, effect := { bold := true } }, { fg := .ansi 1, effect := { bold := true } },
         { fg := .ansi 1, effect := { bold := true } }, { fg := .ansi 1, effect := { bold := true } }] := by
  have e1 : csiParams ['1', ';', '3', '1'] = [(1, []), (31, [])] := by decide
  have e2 : csiParams ['3', '8', ';', '5'] = [(38, []), (5, [])] := by decide
  simp [attrsWith, e1, e2]
  sgr_eval

/-- If some character's attribute is not the default, the AnsiString reports `has_attrs`. -/
theorem c16_has_attrs (a0 : Attr) (segs : List Seg) (hwf : ∀ s ∈ segs, s.wf)
    (h : ∃ x ∈ (text segs).zip (attrsWith csiParams a0 segs), x.2 ≠ Attr.dflt) :
    ((Parser.fresh a0).parseAnsi (render segs)).1.hasAttrs = true := by
  obtain ⟨x, hx, hne⟩ := h
  rw [← (c16_parse a0 segs hwf).2] at hx
  generalize ((Parser.fresh a0).parseAnsi (render segs)).1 = s at *
  cases hs : s.fragments with
  | some fr => simp [AnsiString.hasAttrs, hs]
  | none =>
    simp [AnsiString.iter, hs] at hx
    obtain ⟨c, _, rfl⟩ := hx
    exact absurd rfl hne

example : ∃ x ∈ (text [Seg.sgr ['2'], .text ['X']]).zip (attrsWith csiParams {} [Seg.sgr ['2'], .text ['X']]), x.2 ≠ Attr.dflt := by
  have e1 : csiParams ['2'] = [(2, [])] := by decide
  refine ⟨('X', { effect := { dim := true } }), ?_, by decide⟩
  simp [text, Seg.text?, attrsWith, e1]
  sgr_eval

/-- A line without escape sequences or control characters (tabs allowed) is returned unchanged and carries no
    attributes at all. -/
theorem c16_plain (t : List Char) (hp : ∀ c ∈ t, c = '\t' ∨ 0x20 ≤ c.toNat) :
    parse t = { stripped := t, fragments := none } := by
  have hfold : ∀ (t : List Char) (p : Parser),
      t.foldl (fun p c => perform p (textTok c)) p = { p with partialStr := p.partialStr ++ t } := by
    intro t
    induction t with
    | nil => intro p; simp
    | cons c cs ih =>
      intro p
      have key : perform p (textTok c) = { p with partialStr := p.partialStr ++ [c] } := by
        unfold textTok
        by_cases hc : c = '\t'
        · subst hc; simp [perform, Parser.execute]
        · simp [hc, perform, Parser.print]
      simp [List.foldl_cons, key, ih]
  have hf := fold_segs [Seg.text t] (by simpa [Seg.wf] using hp) {} rfl {}
  have hr : render [Seg.text t] = t := by simp [render, Seg.render]
  rw [hr] at hf
  simp only [parse, Parser.parseAnsi, tokenize, hf, List.foldl_cons, List.foldl_nil, stepSeg, hfold]
  cases t with
  | nil => simp [Parser.saveStr, AnsiString.newString]
  | cons c cs => simp [Parser.saveStr, AnsiString.newString, Attr.dflt]

example : ∀ c ∈ ['a', '\t', 'é', '中', '😀'], c = '\t' ∨ 0x20 ≤ c.toNat := by decide

/-! ## several lines: one parser (header, preview) vs. a fresh parser per item -/

/-- With ONE parser over consecutive lines (header.rs `with_options`, previewer.rs) the running attribute is
    carried from each line to the next until reset: line k is parsed from the attribute the spec reaches after
    lines 0..k-1. -/
theorem c16_carry (a : Attr) (ls : List (List Seg)) (hwf : ∀ l ∈ ls, ∀ s ∈ l, s.wf) :
    (parseLines (Parser.fresh a) (ls.map render)).map (fun s => (s.stripped, s.iter)) = linesWith csiParams a ls := by
  induction ls generalizing a with
  | nil => rfl
  | cons l ls ih =>
    have hl := hwf l (by simp)
    have h1 := c16_parse a l hl
    have h2 := c16_parse_next a l hl
    simp only [List.map_cons, parseLines, linesWith, h1.1, h1.2, h2]
    rw [ih _ (fun l' h => hwf l' (by simp [h]))]

/-- With a fresh parser per item (helper/item.rs) every item starts from the default attribute, whatever the
    previous item left behind. -/
theorem c16_items (ls : List (List Seg)) (hwf : ∀ l ∈ ls, ∀ s ∈ l, s.wf) :
    (parseItems (ls.map render)).map (fun s => (s.stripped, s.iter)) = itemsWith csiParams ls := by
  simp only [parseItems, itemsWith, List.map_map]
  apply List.map_congr_left
  intro l hl
  have h1 := c16_parse_fresh l (hwf l hl)
  simp [h1.1, h1.2]

-- carry-over vs. fresh, on ESC[31m "a" / "b" / ESC[m "c"
example : linesWith csiParams {} [[Seg.sgr ['3', '1'], .text ['a']], [.text ['b']], [.sgr [], .text ['c']]]
    = [(['a'], [('a', { fg := .ansi 1 })]), (['b'], [('b', { fg := .ansi 1 })]), (['c'], [('c', {})])] := by
  have e1 : csiParams ['3', '1'] = [(31, [])] := by decide
  have e2 : csiParams [] = [(0, [])] := by decide
  simp [linesWith, text, Seg.text?, attrsWith, finalWith, e1, e2]
  sgr_eval
example : itemsWith csiParams [[Seg.sgr ['3', '1'], .text ['a']], [.text ['b']], [.sgr [], .text ['c']]]
    = [(['a'], [('a', { fg := .ansi 1 })]), (['b'], [('b', {})]), (['c'], [('c', {})])] := by
  have e1 : csiParams ['3', '1'] = [(31, [])] := by decide
  have e2 : csiParams [] = [(0, [])] := by decide
  simp [itemsWith, text, Seg.text?, attrsWith, e1, e2]
  sgr_eval

/-- header.rs `with_options`: a multi-line header (lines joined by `\n`; the last line ends in a
    non-blank character, so `trim_end` removes nothing) is parsed line by line with the attribute carried over. -/
theorem c16_header (ls : List (List Seg)) (last : List Seg) (init : List Char) (c : Char)
    (hwf : ∀ l ∈ ls ++ [last], ∀ s ∈ l, s.wf) (hlast : render last = init ++ [c]) (hc : isWhitespace c = false) :
    (headerLines (joinNl ((ls ++ [last]).map render))).map (fun s => (s.stripped, s.iter))
      = linesWith csiParams {} (ls ++ [last]) := by
  obtain ⟨pre, hp⟩ := joinNl_snoc (ls.map render) (render last)
  have hj : joinNl ((ls ++ [last]).map render) = pre ++ (init ++ [c]) := by
    rw [List.map_append, List.map_singleton, hp, hlast]
  have ht : trimEnd (joinNl ((ls ++ [last]).map render)) = joinNl ((ls ++ [last]).map render) := by
    rw [hj]; exact trimEnd_id pre init c hc
  have hs : strLines (joinNl ((ls ++ [last]).map render)) = (ls ++ [last]).map render := by
    rw [strLines, ht]
    apply splitNl_join
    · simp
    · intro l hl
      simp only [List.mem_map] at hl
      obtain ⟨segs, hsegs, rfl⟩ := hl
      exact render_no_nl segs (hwf segs hsegs)
  rw [headerLines, hs]
  exact c16_carry {} (ls ++ [last]) hwf

example : render [Seg.sgr ['0'], .text ['b']] = (ESC :: '[' :: '0' :: 'm' :: []) ++ ['b'] ∧ isWhitespace 'b' = false := by decide

/-! ## the parameter bytes -/

/-- Inside vte's limits (at most 32 numbers, each at most 65535) the parameter list handed to `csi_dispatch`
    is plain decimal parsing of the bytes between `ESC [` and `m`: `;` separates parameters, `:` sub-parameters,
    an empty field is 0. -/
theorem c16_params (body : List Char) (hb : ∀ c ∈ body, isParamChar c = true) (hl : inLimits body = true) :
    csiParams body = Spec.params body := by
  simp only [inLimits, Bool.and_eq_true, decide_eq_true_eq, List.all_eq_true] at hl
  exact params_go body hb {} rfl (by decide) hl.1 hl.2

example : inLimits ['3', '8', ';', '5', ';', '1', '9', '6', ';', ';', '0', '4', ':', '3'] = true := by decide
example : Spec.params ['3', '8', ';', '5', ';', '1', '9', '6', ';', ';', '0', '4', ':', '3']
    = [(38, []), (5, []), (196, []), (0, []), (4, [3])] := by decide

/-- `c16_parse` with the spec's own parameter parser: for lines whose SGR sequences stay inside vte's limits,
    the per-character attributes are those of `Spec.attrs` (decimal parameters + `Spec.sgr`). -/
theorem c16_parse_spec (a0 : Attr) (segs : List Seg) (hwf : ∀ s ∈ segs, s.wf)
    (hlim : ∀ body, Seg.sgr body ∈ segs → inLimits body = true) :
    ((Parser.fresh a0).parseAnsi (render segs)).1.stripped = text segs ∧
    ((Parser.fresh a0).parseAnsi (render segs)).1.iter = (text segs).zip (Spec.attrs a0 segs) ∧
    ((Parser.fresh a0).parseAnsi (render segs)).2 = Parser.fresh (Spec.final a0 segs) := by
  have hc := attrsWith_congr csiParams Spec.params segs
    (fun body hb => c16_params body (hwf _ hb) (hlim body hb)) a0
  refine ⟨(c16_parse a0 segs hwf).1, ?_, ?_⟩
  · rw [(c16_parse a0 segs hwf).2, hc.1]; rfl
  · rw [c16_parse_next a0 segs hwf, hc.2]; rfl

/-- `c16_carry` / `c16_items` with the spec's own parameter parser -/
theorem c16_carry_spec (a : Attr) (ls : List (List Seg)) (hwf : ∀ l ∈ ls, ∀ s ∈ l, s.wf)
    (hlim : ∀ l ∈ ls, ∀ body, Seg.sgr body ∈ l → inLimits body = true) :
    (parseLines (Parser.fresh a) (ls.map render)).map (fun s => (s.stripped, s.iter)) = linesWith Spec.params a ls := by
  rw [c16_carry a ls hwf]
  exact linesWith_congr _ _ ls (fun l hl body hb => c16_params body (hwf l hl _ hb) (hlim l hl body hb)) a

theorem c16_items_spec (ls : List (List Seg)) (hwf : ∀ l ∈ ls, ∀ s ∈ l, s.wf)
    (hlim : ∀ l ∈ ls, ∀ body, Seg.sgr body ∈ l → inLimits body = true) :
    (parseItems (ls.map render)).map (fun s => (s.stripped, s.iter)) = itemsWith Spec.params ls := by
  rw [c16_items ls hwf]
  simp only [itemsWith]
  apply List.map_congr_left
  intro l hl
  have := (attrsWith_congr csiParams Spec.params l
    (fun body hb => c16_params body (hwf l hl _ hb) (hlim l hl body hb)) {}).1
  rw [this]

end SkimModel.Ansi
