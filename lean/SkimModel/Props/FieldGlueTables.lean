import SkimModel.Model.Field
import SkimModel.Generated.FieldGlue
/-!
The glue of src/field.rs around `to_index_pair`, as TRANSLATED from the source on every run (`Generated/FieldGlue.lean`):
how `get_ranges_by_delimiter` tiles the text with the delimiter matches, and which component / index / default `get_string_by_field`
and the loops of `parse_matching_fields` / `parse_transform_fields` read for the begin and the end of a field.  Interpreting the tables
gives the C12 model's `rangesByDelimiter`, `getStringByField`, `fieldSpan` for every text, match list and field range (`to_index_pair`
itself is translated statement by statement, `Props/FieldFnsTables.lean`).
-/
set_option linter.unusedSimpArgs false
namespace SkimModel.Field
open SkimModel.Generated

def srcVal (last len : Nat) (mat : Nat × Nat) : FieldGlue.Src → Nat
  | .zero => 0
  | .last => last
  | .matStart => mat.1
  | .matEnd => mat.2
  | .textLen => len

/-- the translated loop of `get_ranges_by_delimiter` -/
def interpRangesGo (last len : Nat) : List (Nat × Nat) → List (Nat × Nat)
  | [] => [(srcVal last len (0, 0) FieldGlue.rangesFinal.1, srcVal last len (0, 0) FieldGlue.rangesFinal.2)]
  | m :: ms =>
    (srcVal last len m FieldGlue.rangesPush.1, srcVal last len m FieldGlue.rangesPush.2) ::
      interpRangesGo (srcVal last len m FieldGlue.rangesNext) len ms

theorem ranges_go_is_model (last len : Nat) (ms : List (Nat × Nat)) : interpRangesGo last len ms = rangesGo last len ms := by
  induction ms generalizing last with
  | nil => rfl
  | cons m ms ih =>
    obtain ⟨s, e⟩ := m
    simp only [interpRangesGo, rangesGo, srcVal, FieldGlue.rangesPush, FieldGlue.rangesNext, ih]

theorem ranges_by_delimiter_is_model (ms : List (Nat × Nat)) (len : Nat) :
    interpRangesGo FieldGlue.rangesInit len ms = rangesByDelimiter ms len := by
  unfold rangesByDelimiter FieldGlue.rangesInit
  exact ranges_go_is_model 0 len ms

def compOf : FieldGlue.Comp → Nat × Nat → Nat
  | .fst, p => p.1
  | .snd, p => p.2

/-- the translated begin / end of one field; outer `none` = panic (`ranges[start]` out of bounds, `stop - 1` below zero),
    inner `none` = `to_index_pair` says there is no such field -/
def interpSpan (sp : FieldGlue.Span) (ranges : List (Nat × Nat)) (len : Nat) (field : FieldRange) : Option (Option (Nat × Nat)) :=
  match toIndexPair field ranges.length with
  | some (start, stop) =>
    match ranges[start]? with
    | none => none
    | some rb =>
      if sp.endMinusOne && stop == 0 then none
      else
        let e := match ranges[if sp.endMinusOne then stop - 1 else stop]? with
          | some re => compOf sp.endComp re
          | none => srcVal 0 len (0, 0) sp.endDefault
        some (some (compOf sp.beginComp rb, e))
  | none => some none

theorem matching_span_is_model (ranges : List (Nat × Nat)) (len : Nat) (field : FieldRange) :
    interpSpan FieldGlue.parseMatchingFields ranges len field = fieldSpan ranges len field := by
  unfold interpSpan fieldSpan
  cases toIndexPair field ranges.length with
  | none => rfl
  | some p =>
    obtain ⟨start, stop⟩ := p
    cases h0 : ranges[start]? with
    | none => simp [h0]
    | some rb => cases h1 : ranges[stop]? <;> simp [h0, h1, FieldGlue.parseMatchingFields, compOf, srcVal]

theorem transform_span_is_model (ranges : List (Nat × Nat)) (len : Nat) (field : FieldRange) :
    interpSpan FieldGlue.parseTransformFields ranges len field = fieldSpan ranges len field := by
  unfold interpSpan fieldSpan
  cases toIndexPair field ranges.length with
  | none => rfl
  | some p =>
    obtain ⟨start, stop⟩ := p
    cases h0 : ranges[start]? with
    | none => simp [h0]
    | some rb => cases h1 : ranges[stop]? <;> simp [h0, h1, FieldGlue.parseTransformFields, compOf, srcVal]

/-- `get_string_by_field` = slice the text at the translated span -/
theorem get_string_by_field_is_model (x : Bytes) (ms : List (Nat × Nat)) (field : FieldRange) :
    (match interpSpan FieldGlue.getStringByField (rangesByDelimiter ms x.length) x.length field with
      | none => none
      | some none => some none
      | some (some (b, e)) => (slice x b e).map some) = getStringByField x ms field := by
  unfold interpSpan getStringByField
  dsimp only
  generalize rangesByDelimiter ms x.length = ranges
  cases toIndexPair field ranges.length with
  | none => rfl
  | some p =>
    obtain ⟨start, stop⟩ := p
    cases h0 : ranges[start]? with
    | none => simp [h0]
    | some rb =>
      by_cases hs : stop = 0
      · simp [h0, hs, FieldGlue.getStringByField]
      · cases h1 : ranges[stop - 1]? <;>
          simp [h0, h1, hs, FieldGlue.getStringByField, compOf, srcVal]

end SkimModel.Field
