import SkimModel.Props.C12
import SkimModel.Props.FieldFnsTables
/-!
C12 stated about the TRANSLATED `to_index_pair` itself: whatever arm answers, the pair is a non-empty range inside the fields.
-/
namespace SkimModel.Field
open SkimModel.Generated

/-- C12 for the translated `to_index_pair` (arm `Both`): whenever it answers `Some((a, b))` the pair is a non-empty range inside
    the `k` fields, `a < b ≤ k` — no arm can hand out an index outside the fields -/
theorem translated_index_pair_both_in_bounds (left right : Int) (k a b : Nat)
    (h : FieldFns.both left right k = some (a, b)) : a < b ∧ b ≤ k := by
  rw [to_index_pair_both_is_model] at h
  have := (c12_index_pair (.both left right) k).2 a b
  exact ⟨(this.mp h).1, (this.mp h).2.1⟩

theorem translated_index_pair_single_in_bounds (num : Int) (k a b : Nat)
    (h : FieldFns.single num k = some (a, b)) : a < b ∧ b ≤ k := by
  rw [to_index_pair_single_is_model] at h
  have := (c12_index_pair (.single num) k).2 a b
  exact ⟨(this.mp h).1, (this.mp h).2.1⟩

end SkimModel.Field
