import SkimModel.Model.Merge
import SkimModel.Generated.MergeFns
import SkimModel.Lemmas.FnTactics
/-!
One iteration of the `while` loop of `merge_fragments` as TRANSLATED from src/ansi.rs (`Generated/MergeFns.lean`, rewritten from the
source on every run) is exactly what the model's literal loop `mergeLoop` does in one step: the same index advances, `os` becomes the
same value, and the same fragment (old or new attribute, same range) is pushed.  `c17_loop_eq` (Props/C17.lean) relates `mergeLoop` to
the terminating recursion `mergeGo` that every C17 theorem is about.
-/
namespace SkimModel.Merge
open SkimModel.Generated
variable {α : Type}

/-- what one translated iteration says, as a step of the literal loop -/
def iterStep (fuel os : Nat) (o n : Frag α) (old new : List (Frag α)) : List (Frag α) :=
  let g := MergeFns.mergeIter os o.start o.stop n.start n.stop
  let pushed : List (Frag α) :=
    if g.2.2.2.1 = 0 then [] else if g.2.2.2.1 = 1 then [⟨o.attr, g.2.2.2.2.1, g.2.2.2.2.2⟩] else [⟨n.attr, g.2.2.2.2.1, g.2.2.2.2.2⟩]
  pushed ++ mergeLoop fuel g.2.2.1 (if g.1 = 0 then o :: old else old) (if g.2.1 = 0 then n :: new else new)

theorem merge_iter_is_model (fuel os : Nat) (o n : Frag α) (old new : List (Frag α)) :
    mergeLoop (fuel + 1) os (o :: old) (n :: new) = iterStep fuel os o n old new := by
  unfold iterStep MergeFns.mergeIter
  rw [mergeLoop]
  (try dsimp only)
  (repeat' split) <;> first | rfl | (exfalso; omega) | (simp_all; done) | (simp_all; omega)

theorem merge_loop_shape : MergeFns.loopShapeOk = true := by decide

end SkimModel.Merge
