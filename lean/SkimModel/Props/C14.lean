/-
C14 — `--select-1` / `--exit-0` decide only on the complete result set.
Property theorems only; model and invariant as for C01.
-/
import SkimModel.Props.C01
namespace SkimModel.Session
open SkimModel.Pool
variable {α κ : Type}

/-- the outcome `handle_select1_or_exit0` must produce for `n` matching items -/
def expectedDecision (select1 exit0 : Bool) (n : Nat) : Decision :=
  if n = 1 ∧ select1 = true then .accept
  else if n = 0 ∧ exit0 = true then .abort
  else .interactive

/-- Whenever a step changes the decision, it is taken in a state where the whole source has been read
    (`SourceEnded`), every item has been matched and every result harvested (`CaughtUp`, nothing pending),
    the list is exactly the matching items, and the outcome is the one prescribed for that count:
    accept iff select-1 and exactly one match, abort iff exit-0 and none, interactive otherwise.
    Quantified over every history, i.e. every interleaving of reader completion, matcher completion,
    harvesting and the decision point. -/
theorem c14_decision_complete (m : κ → α → Bool) (o : Opts) (q : κ) (src : List α)
    (ls : List (Label α κ)) (l : Label α κ) (s' : St α κ) (hn : o.noClearIfEmpty = false) :
    let s := runL m (initWith o q src) ls
    step m s l = some s' → s'.decision ≠ s.decision →
      SourceEnded s' ∧ CaughtUp s' ∧ s'.clear = .dont ∧
      s'.list.Perm (hitsFrom m s'.q 0 s'.pool.pool) ∧ s'.pool.reserved ++ s'.pool.pool = s'.source ∧
      s'.decision = some (expectedDecision s.select1 s.exit0 (hitsFrom m s'.q 0 s'.pool.pool).length) := by
  intro s hs hne
  have hinv : Inv m s := c01_invariant m o q src ls
  have hnce : s.noClearIfEmpty = false := by
    show (runL m (initWith o q src) ls).noClearIfEmpty = false
    rw [nce_runL]; exact hn
  rcases decision_step m s s' l hinv hs with ⟨h1, _⟩ | ⟨s3, had, _, hs1, he0, hnc, rfl⟩
  · exact absurd h1 hne
  · have hnce3 : s3.noClearIfEmpty = false := by rw [hnc]; exact hnce
    have hrd := had.rdone
    simp only [readerDone, Bool.and_eq_true, Bool.not_eq_true', List.isEmpty_iff] at hrd
    have hun : s3.unread = [] := had.inv.core.dead hrd.1
    have htk : s3.pool.taken = s3.pool.pool.length := by
      have := had.consumed; simpa [itemsConsumed] using this
    have hclear : s3.clear = .dont := by
      cases hc : s3.clear with
      | dont => rfl
      | clear => exact absurd had.harvested (had.inv.pend hnce3 (by simp [hc]))
      | ifNotNull => exact absurd had.harvested (had.inv.pend hnce3 (by simp [hc]))
    have hperm : s3.list.Perm (hitsFrom m s3.q 0 s3.pool.pool) := by
      have hacc := had.inv.acc
      unfold Acc at hacc; rw [had.harvested] at hacc
      rw [eff_dont s3 hclear, htk, List.take_length] at hacc
      exact hacc
    have hsrc : s3.pool.reserved ++ s3.pool.pool = s3.source := by
      have := had.inv.core.src
      rw [hrd.2, hun] at this; simpa using this
    have hlen : s3.list.length = (hitsFrom m s3.q 0 s3.pool.pool).length := hperm.length_eq
    -- `decide1` only touches decision, queue and the two options
    have hd : (decide1 s3).decision = some (expectedDecision s3.select1 s3.exit0 s3.list.length) ∧
        (decide1 s3).unread = s3.unread ∧ (decide1 s3).buf = s3.buf ∧ (decide1 s3).live = s3.live ∧
        (decide1 s3).mc = s3.mc ∧ (decide1 s3).pool = s3.pool ∧ (decide1 s3).clear = s3.clear ∧
        (decide1 s3).list = s3.list ∧ (decide1 s3).q = s3.q ∧ (decide1 s3).source = s3.source := by
      unfold decide1 expectedDecision
      simp only []
      by_cases c1 : (s3.list.length == 1 && s3.select1) = true
      · have c1' : s3.list.length = 1 ∧ s3.select1 = true := by simpa using c1
        rw [if_pos c1, if_pos c1']; exact ⟨rfl, rfl, rfl, rfl, rfl, rfl, rfl, rfl, rfl, rfl⟩
      · have c1' : ¬ (s3.list.length = 1 ∧ s3.select1 = true) := by simpa using c1
        rw [if_neg c1, if_neg c1']
        by_cases c2 : (s3.list.length == 0 && s3.exit0) = true
        · have c2' : s3.list.length = 0 ∧ s3.exit0 = true := by simpa using c2
          rw [if_pos c2, if_pos c2']; exact ⟨rfl, rfl, rfl, rfl, rfl, rfl, rfl, rfl, rfl, rfl⟩
        · have c2' : ¬ (s3.list.length = 0 ∧ s3.exit0 = true) := by simpa using c2
          rw [if_neg c2, if_neg c2']; exact ⟨rfl, rfl, rfl, rfl, rfl, rfl, rfl, rfl, rfl, rfl⟩
    obtain ⟨d0, d1, d2, d3, d4, d5, d6, d7, d8, d9⟩ := hd
    refine ⟨⟨by rw [d1]; exact hun, by rw [d2]; exact hrd.2, by rw [d3]; exact hrd.1⟩,
      ⟨by rw [d4]; exact had.harvested, by rw [d5]; exact htk⟩, by rw [d6]; exact hclear, ?_, ?_, ?_⟩
    · rw [d7, d8, d5]; exact hperm
    · rw [d5, d9]; exact hsrc
    · rw [d0, d8, d5, ← hlen, hs1, he0]

/-- the three forbidden windows, stated directly: while the source is still producing, or a matcher
    run is unfinished, or finished but not yet harvested, NO step takes a decision -/
theorem c14_no_partial (m : κ → α → Bool) (o : Opts) (q : κ) (src : List α)
    (ls : List (Label α κ)) (l : Label α κ) (s' : St α κ) (hn : o.noClearIfEmpty = false) :
    let s := runL m (initWith o q src) ls
    step m s l = some s' → (¬ SourceEnded s' ∨ s'.mc ≠ none ∨ s'.pool.taken ≠ s'.pool.pool.length) →
      s'.decision = s.decision := by
  intro s hs hpart
  by_cases hd : s'.decision = s.decision
  · exact hd
  · have := c14_decision_complete m o q src ls l s' hn hs hd
    obtain ⟨h1, h2, _⟩ := this
    rcases hpart with h | h | h
    · exact absurd h1 h
    · exact absurd h2.1 h
    · exact absurd h2.2 h

/-- once the interactive session has been chosen neither option fires later -/
theorem c14_never_later (m : κ → α → Bool) (o : Opts) (q : κ) (src : List α)
    (ls ls' : List (Label α κ)) :
    let s := runL m (initWith o q src) ls
    s.decision = some .interactive → (runL m s ls').decision = some .interactive := by
  intro s hd
  have hinv0 := inv_initWith m o q src
  -- invariant: interactive chosen → both options are off
  have hoff : s.decision = some .interactive → s.select1 = false ∧ s.exit0 = false := by
    refine runL_induct m (fun t => t.decision = some .interactive → t.select1 = false ∧ t.exit0 = false)
      ?_ ls _ hinv0 (by intro h; simp [initWith] at h)
    intro t t' l hi ih hs hd'
    rcases decision_step m t t' l hi hs with ⟨h1, h2, h3, _⟩ | ⟨s3, _, _, _, _, _, rfl⟩
    · rw [h1] at hd'; rw [h2, h3]; exact ih hd'
    · unfold decide1 at hd' ⊢
      simp only [] at hd' ⊢
      split at hd'
      · cases hd'
      · split at hd'
        · cases hd'
        · rename_i c1 c2; simp [c1, c2]
  obtain ⟨f1, f2⟩ := hoff hd
  have hkeep := runL_induct m
    (fun t => t.decision = some .interactive ∧ t.select1 = false ∧ t.exit0 = false) ?_ ls' s
    (c01_invariant m o q src ls) ⟨hd, f1, f2⟩
  · exact hkeep.1
  · intro t t' l hi ⟨g0, g1, g2⟩ hs
    rcases decision_step m t t' l hi hs with ⟨h1, h2, h3, _⟩ | ⟨s3, had, _, e1, e2, _, _⟩
    · exact ⟨by rw [h1]; exact g0, by rw [h2]; exact g1, by rw [h3]; exact g2⟩
    · exfalso
      rcases had.armed with a | a
      · rw [e1, g1] at a; cases a
      · rw [e2, g2] at a; cases a

/-! ### the unfixed code violates the property (witness that the `fix:` was needed) -/

/-- With the handler of the unfixed code there is a history — the matcher run finishes between the
    heart beat's read of `stopped` and the decision point's read — after which `--exit-0` has ABORTED
    although the source contains a matching item (its result was published but not yet harvested). -/
theorem c14_prefix_counterexample :
    let m : Unit → Nat → Bool := fun _ _ => true
    let s := runLPre m (initWith { exit0 := true } () [7])
      [.loop {}, .rPush, .rEnd, .tTake, .tPublish, .tStop, .loop {}, .tTake, .tPublish, .tStop,
       .loop { ms := false }]
    s.decision = some .abort ∧ hitsFrom m s.q 0 s.pool.pool = [(0, 7)] ∧ s.list = [] := by
  decide

/-- the same history on the fixed handler takes no decision there, and the right one afterwards -/
example :
    let m : Unit → Nat → Bool := fun _ _ => true
    let s := runL m (initWith { exit0 := true } () [7])
      [.loop {}, .rPush, .rEnd, .tTake, .tPublish, .tStop, .loop {}, .tTake, .tPublish, .tStop,
       .loop { ms := false }]
    s.decision = none := by decide
example :
    let m : Unit → Nat → Bool := fun _ _ => true
    let s := runL m (initWith { exit0 := true } () [7])
      [.loop {}, .rPush, .rEnd, .tTake, .tPublish, .tStop, .loop {}, .tTake, .tPublish, .tStop,
       .loop { ms := false }, .timer, .loop {}]
    s.decision = some .interactive ∧ s.list = [(0, 7)] := by decide
/-- non-vacuity of `c14_decision_complete`: select-1 with exactly one match accepts -/
example :
    let m : Unit → Nat → Bool := fun _ x => x == 7
    let s := runL m (initWith { select1 := true } () [3, 7])
      [.loop {}, .rPush, .rPush, .rEnd, .tTake, .tPublish, .tStop, .loop {}, .tTake, .tPublish, .tStop, .loop {}]
    s.decision = some .accept ∧ s.list = [(1, 7)] := by decide

end SkimModel.Session
