/-
C15 — reader→matcher hand-off is exactly-once; header lines are never candidates; the lock.
Property theorems only.  (The Session-level part — the matcher thread's two-step
`num_taken(); take()` and item identities in the candidate list — is in Props/C01.lean:
`session_item_index`.)
-/
import SkimModel.Lemmas.Pool
namespace SkimModel.Pool
variable {α : Type}

/-! ### C15, part 1: exactly-once hand-off -/

/-- For every interleaving of append / take / reset / clear / length queries (= every operation
    sequence, the operations being atomic under the lock): the slices handed out by the takes since
    the last reset or clear, concatenated in order, are exactly the first `taken` items of the pool —
    none skipped, none twice, in source order. -/
theorem c15_takes_partition (n : Nat) (ops : List (Op α)) :
    ((grun n ops).takes.map (·.2)).flatten = (grun n ops).p.pool.take (grun n ops).p.taken ∧
    (grun n ops).p.taken ≤ (grun n ops).p.pool.length :=
  ⟨(grun_inv n ops).flat, (grun_inv n ops).inv.taken_le⟩

/-- ... each take starts at the index where the previous one ended (the first at 0): an item is
    identified by its position in the pool. -/
theorem c15_takes_chain (n : Nat) (ops : List (Op α)) :
    Chain 0 (grun n ops).takes (grun n ops).p.taken := (grun_inv n ops).chain

/-- what a take returns is the pool from its start index on: `slice[i] = pool[start + i]` -/
theorem c15_take_indices (p : Pool α) (i : Nat) :
    (p.take).2.2[i]? = p.pool[(p.take).2.1 + i]? := by
  simp [Pool.take]

/-- a new evaluation (reset) starts again from the first item: the next take returns the whole pool
    from index 0 -/
theorem c15_reset_restarts (p : Pool α) : (p.reset.take).2 = (0, p.pool) := by
  simp [Pool.reset, Pool.take]

/-- appends never disturb what was already handed out: the pool only grows at the end -/
theorem c15_append_stable (p : Pool α) (xs : List α) (i : Nat) (h : i < p.pool.length) :
    (p.append xs).1.pool[i]? = p.pool[i]? := by
  obtain ⟨ys, hys⟩ := append_pool_prefix p xs
  rw [hys, List.getElem?_append_left h]

/-- `num_not_taken` never underflows -/
theorem c15_num_not_taken_total (n : Nat) (ops : List (Op α)) :
    (runState ({ nres := n } : Pool α) ops).numNotTaken =
      some ((runState ({ nres := n } : Pool α) ops).pool.length - (runState ({ nres := n } : Pool α) ops).taken) := by
  have h := runState_inv ({ nres := n } : Pool α) ops (inv_init n)
  unfold Pool.numNotTaken
  rw [h.length_eq, if_pos h.taken_le]

/-! ### C15, part 2: header lines -/

/-- However the input is chunked into appends: header ++ pool is everything that arrived since the
    last clear, in order, and the header holds exactly the first `min N total` items.  Takes only ever
    return pool items (`c15_takes_partition`), so a header line is never matched, listed or returned. -/
theorem c15_header (n : Nat) (ops : List (Op α)) :
    (grun n ops).p.reserved ++ (grun n ops).p.pool = (grun n ops).arr ∧
    (grun n ops).p.reserved.length = min n (grun n ops).arr.length := by
  have h := grun_inv n ops
  refine ⟨h.all, ?_⟩
  have hn : (grun n ops).p.nres = n := by
    rw [grun_p]
    have : ∀ (p : Pool α) (ops : List (Op α)), (runState p ops).nres = p.nres := by
      intro p ops
      induction ops generalizing p with
      | nil => rfl
      | cons o os ih =>
        simp only [runState, List.foldl_cons]; rw [← runState, ih]
        cases o <;> simp [step, append_nres, Pool.reset, Pool.clear, Pool.take]
    exact this _ _
  rw [h.reslen, hn]

/-- the header is a prefix of the arrivals and the pool the rest: chunk boundaries are irrelevant -/
theorem c15_header_chunking (n : Nat) (chunks : List (List α)) :
    (grun n (chunks.map Op.append)).p.reserved = chunks.flatten.take n ∧
    (grun n (chunks.map Op.append)).p.pool = chunks.flatten.drop n := by
  have h := c15_header n (chunks.map Op.append)
  have harr : ∀ (cs : List (List α)) (g0 : G α),
      ((cs.map Op.append).foldl gstep g0).arr = g0.arr ++ cs.flatten := by
    intro cs
    induction cs with
    | nil => intro g0; simp
    | cons c cs ih => intro g0; simp only [List.map_cons, List.foldl_cons, List.flatten_cons]; rw [ih]; simp [gstep]
  have ha : (grun n (chunks.map Op.append)).arr = chunks.flatten := by
    unfold grun; rw [harr]; rfl
  generalize grun n (chunks.map Op.append) = g at *
  have h1 : g.p.reserved ++ g.p.pool = chunks.flatten := by rw [← ha]; exact h.1
  have h2 : g.p.reserved.length = min n chunks.flatten.length := by rw [← ha]; exact h.2
  have hlen : (g.p.reserved ++ g.p.pool).length = chunks.flatten.length := by rw [h1]
  simp only [List.length_append] at hlen
  by_cases hc : n ≤ chunks.flatten.length
  · have hr : g.p.reserved.length = n := by omega
    rw [← h1, ← hr]
    exact ⟨List.take_left.symm, List.drop_left.symm⟩
  · have hp : g.p.pool = [] := List.eq_nil_of_length_eq_zero (by omega)
    rw [← h1, hp, List.append_nil]
    exact ⟨(List.take_of_length_le (by omega)).symm, (List.drop_of_length_le (by omega)).symm⟩

/-! non-vacuity: a concrete interleaved history -/
example : ((grun 2 [Op.append [1, 2, 3], .take, .append [4, 5], .take, .numNotTaken] : G Nat).takes) =
    [(0, [3]), (1, [4, 5])] := by decide
example : (grun 2 [Op.append [1], .append [2, 3]] : G Nat).p.reserved = [1, 2] := by decide

end SkimModel.Pool

/-! ### C15, part 3: the lock -/
namespace SkimModel.SpinLock

/-- Mutual exclusion, for any number of contending threads and every schedule: two threads are never
    inside the critical section together, and the lock word is set exactly while one is. -/
theorem c15_lock_mutex (n : Nat) (sched : List Nat) (i j : Nat) (a b : PC)
    (ha : (run (init n) sched).pcs[i]? = some a) (hb : (run (init n) sched).pcs[j]? = some b)
    (hia : a.inCS = true) (hjb : b.inCS = true) : i = j :=
  (run_linv n sched).excl i j a b ha hb hia hjb

theorem c15_lock_word (n : Nat) (sched : List Nat) :
    (run (init n) sched).locked = true ↔
      ∃ (i : Nat) (a : PC), (run (init n) sched).pcs[i]? = some a ∧ a.inCS = true :=
  (run_linv n sched).held

/-- A holder sees the previous holders' writes: what a thread reads inside the critical section is
    the number of completed critical sections, so no increment is ever lost — whenever the lock is
    free the counter equals the number of completed critical sections. -/
theorem c15_lock_no_lost_update (n : Nat) (sched : List Nat) :
    ((run (init n) sched).locked = false → (run (init n) sched).data = (run (init n) sched).done) ∧
    (∀ (i t : Nat), (run (init n) sched).pcs[i]? = some (PC.csWrite t) → t = (run (init n) sched).done) :=
  ⟨(run_linv n sched).free, fun i t h => ((run_linv n sched).wr i t h).1⟩

/-! non-vacuity -/
example : (run (init 3) [0, 1, 0, 2, 0, 0, 1, 1, 1, 1]).data = 2 := by decide
example : (run (init 3) [0, 1, 0, 2, 0, 0, 1, 1, 1, 1]).done = 2 := by decide
example : (run (init 2) [0, 1, 0]).pcs[0]? = some (.csWrite 0) := by decide

end SkimModel.SpinLock
