/-
Property C11 — what is drawn is what the state says: rows, pointer, markers, highlight.

All theorems are about the executable model `Model/Draw.lean` + `Model/LinePrinter.lean` (a branch-by-branch
transcription of `Draw::draw` / `draw_item` of src/selection.rs and of `LinePrinter`, `print_item`,
`reshape_string` of src/util.rs, tied to the real code by the cell-by-cell correspondence check) and hold for
ALL views (cursor, items, selected set, options), all canvas sizes and every width function `cw`
satisfying the stated assumptions — no bounds.  `draw v w h = some ps`: the draw does not panic and makes the
`put_cell` calls `ps`, in program order, on a blank `w × h` canvas.
-/
import SkimModel.Lemmas.Draw
namespace SkimModel.Draw
open SkimModel.Ansi SkimModel.SelCursor

/-! ### rows -/

/-- ROWS.  Screen row `r` receives, after the blanks of `clear_canvas`, the writes of exactly one iteration of
    the row loop: the one for result number `item_cursor + r` (reverse layouts, top-down) resp.
    `item_cursor + (h-1-r)` (default layout, bottom-up) — `SelCursor.itemAtRow`, the same function C09 uses
    for clicks — and nothing but the blanks when no result belongs there. -/
theorem c11_rows (v : View) (w h : Nat) (ps : List Put) (hd : draw v w h = some ps)
    (hn : v.cur.n = v.items.length) (r : Nat) (hr : r < h) :
    match itemAtRow v.cur h r with
    | none => ps.filter (fun q => q.row == r) = (clearCanvas w h).filter (fun q => q.row == r)
    | some i => ∃ rp, rowPuts v w h (i - v.cur.ic) = some rp ∧ v.cur.ic ≤ i ∧ i < v.items.length ∧
        ps.filter (fun q => q.row == r) = (clearCanvas w h).filter (fun q => q.row == r) ++ rp := by
  obtain ⟨e1, e2⟩ := draw_row v w h ps hd r hr
  have hnr : v.nrows h = rowsDrawn v.cur h := by unfold View.nrows rowsDrawn; rw [hn]
  simp only [itemAtRow]
  by_cases hi : (if v.cur.rev then r else h - 1 - r) < v.nrows h
  · rw [if_pos ⟨hr, by rw [← hnr]; exact hi⟩]
    simp only []
    obtain ⟨rp, hrp⟩ := Option.isSome_iff_exists.mp (e2 hi)
    refine ⟨rp, by rw [Nat.add_sub_cancel_left]; exact hrp, by omega, ?_, ?_⟩
    · unfold View.nrows at hi; omega
    · rw [e1, if_pos hi, hrp]; rfl
  · rw [if_neg (by rw [← hnr]; exact fun h => hi h.2)]
    simp only []
    rw [e1, if_neg hi]; simp

/-- ROW WRITES.  The writes of one loop iteration on a canvas at least 3 wide, for an item with valid match
    positions: the pointer label in column 0 (`>` iff the row is the cursor row) with the theme's cursor
    attribute, the selection marker in column 1, then — on consecutive columns from column 2 — what the window
    `geoOf` shows of the tab-expanded text in which exactly the matched characters are highlighted
    (`rawsOf`; current-line attributes on the cursor row). -/
theorem c11_row_writes (v : View) (w h j : Nat) (rp : List Put) (hrp : rowPuts v w h j = some rp) (hw : 3 ≤ w)
    (hsp : v.cw ' ' = 1) :
    ∃ it, v.items[v.cur.ic + j]? = some it ∧
      (TextOk v.cw it.text → it.mr.Valid it.text →
        ∃ g, v.geoOf w it = some g ∧
          rp = ⟨v.lineNo h j, 0, if j = v.cur.lc then '>' else ' ', v.theme.cursor⟩ ::
               v.mark (v.lineNo h j) it (j = v.cur.lc) ::
               layout v.cw (v.lineNo h j) 2 (shownFrom g v.cw 0 (v.rawsOf it (j = v.cur.lc)))) := by
  unfold rowPuts at hrp
  simp only [] at hrp
  split at hrp
  · cases hrp
  · rename_i it hit
    refine ⟨it, hit, ?_⟩
    intro ht hv
    cases hdi : drawItem v w (if v.cur.rev then j else h - 1 - j) it (decide (j = v.cur.lc)) with
    | none => simp [hdi] at hrp
    | some ps =>
      simp only [hdi, Option.map_some, Option.some.injEq] at hrp
      obtain ⟨g, hg, e⟩ := drawItem_eq v w _ it _ ps hdi hw hsp (fun c hc => (ht c hc).1) hv
      exact ⟨g, hg, by rw [← hrp, e]; rfl⟩

/-! ### pointer and marker -/

/-- POINTER.  A `>` is written into column 0 of screen row `r` iff `r` is the row of the cursor
    (`SelCursor.pointerRow`, about which `c09_pointer` says that it shows the designated item). -/
theorem c11_pointer (v : View) (w h : Nat) (ps : List Put) (hd : draw v w h = some ps)
    (hn : v.cur.n = v.items.length) (r : Nat) (hr : r < h) :
    (∃ q ∈ ps, q.row = r ∧ q.col = 0 ∧ q.ch = '>') ↔ pointerRow v.cur h = some r := by
  obtain ⟨e1, e2⟩ := draw_row v w h ps hd r hr
  have hnr : v.nrows h = rowsDrawn v.cur h := by unfold View.nrows rowsDrawn; rw [hn]
  rw [pointerRow_iff v.cur h r hr, ← hnr]
  have hmem : ∀ q, (q ∈ ps ∧ q.row = r) ↔ q ∈ ps.filter (fun q => q.row == r) := by
    intro q; simp [List.mem_filter]
  generalize (if v.cur.rev then r else h - 1 - r) = i at *
  by_cases hi : i < v.nrows h
  · rw [if_pos hi] at e1
    obtain ⟨rp, hrp⟩ := Option.isSome_iff_exists.mp (e2 hi)
    rw [hrp] at e1
    simp only [Option.getD_some] at e1
    -- the shape of the row's writes
    have hrp' := hrp
    unfold rowPuts at hrp'
    simp only [] at hrp'
    split at hrp'
    · cases hrp'
    · rename_i it _
      cases hdi : drawItem v w (if v.cur.rev then i else h - 1 - i) it (decide (i = v.cur.lc)) with
      | none => simp [hdi] at hrp'
      | some di =>
        simp only [hdi, Option.map_some, Option.some.injEq] at hrp'
        have hcol := drawItem_rows v w _ it _ di hdi
        constructor
        · rintro ⟨q, hq, h1, h2, h3⟩
          have := (hmem q).mp ⟨hq, h1⟩
          rw [e1, List.mem_append] at this
          rcases this with hc | hc
          · have := (clearCanvas_mem w h q (List.mem_filter.mp hc).1).2.2
            rw [h3] at this; cases this
          · rw [← hrp'] at hc
            rcases List.mem_cons.mp hc with hc | hc
            · subst hc
              simp only [] at h3
              by_cases hh : i = v.cur.lc
              · exact ⟨hi, hh⟩
              · rw [if_neg hh] at h3; cases h3
            · have := (hcol q hc).2; omega
        · rintro ⟨_, hlc⟩
          have : (⟨if v.cur.rev then i else h - 1 - i, 0, '>', v.theme.cursor⟩ : Put) ∈
              ps.filter (fun q => q.row == r) := by
            rw [e1, List.mem_append]; right
            rw [← hrp', if_pos hlc]; simp
          have hq := (hmem _).mpr this
          exact ⟨_, hq.1, hq.2, rfl, rfl⟩
  · rw [if_neg hi] at e1
    simp only [List.append_nil] at e1
    constructor
    · rintro ⟨q, hq, h1, h2, h3⟩
      have := (hmem q).mp ⟨hq, h1⟩
      rw [e1] at this
      have := (clearCanvas_mem w h q (List.mem_filter.mp this).1).2.2
      rw [h3] at this; cases this
    · rintro ⟨h1, _⟩; exact absurd h1 hi

/-- MARKER.  On a canvas at least 3 wide a `>` is written into column 1 of screen row `r` iff the row shows a
    result whose key `(run, item_idx)` is in the selected map. -/
theorem c11_marker (v : View) (w h : Nat) (ps : List Put) (hd : draw v w h = some ps) (hw : 3 ≤ w)
    (hn : v.cur.n = v.items.length) (r : Nat) (hr : r < h) :
    (∃ q ∈ ps, q.row = r ∧ q.col = 1 ∧ q.ch = '>') ↔
      ∃ i it, itemAtRow v.cur h r = some i ∧ v.items[i]? = some it ∧
        SelSet.containsKey (v.run, it.idx) v.selected = true := by
  have hnr : v.nrows h = rowsDrawn v.cur h := by unfold View.nrows rowsDrawn; rw [hn]
  have hmem : ∀ q, (q ∈ ps ∧ q.row = r) ↔ q ∈ ps.filter (fun q => q.row == r) := by
    intro q; simp [List.mem_filter]
  simp only [itemAtRow]
  by_cases hi : (if v.cur.rev then r else h - 1 - r) < v.nrows h
  · obtain ⟨it, di, hit, hdi, hf⟩ := draw_row_shape v w h ps hd r hr hi
    obtain ⟨rest, hdi2, hrest⟩ := drawItem_struct v w r it _ di hdi hw
    rw [if_pos ⟨hr, by rw [← hnr]; exact hi⟩]
    constructor
    · rintro ⟨q, hq, h1, h2, h3⟩
      have := (hmem q).mp ⟨hq, h1⟩
      rw [hf, List.mem_append] at this
      rcases this with hc | hc
      · have := (clearCanvas_mem w h q (List.mem_filter.mp hc).1).2.2
        rw [h3] at this; cases this
      · rcases List.mem_cons.mp hc with hc | hc
        · subst hc; simp at h2
        · rw [hdi2] at hc
          rcases List.mem_cons.mp hc with hc | hc
          · refine ⟨_, it, rfl, hit, ?_⟩
            subst hc
            unfold View.mark at h3
            by_cases hk : SelSet.containsKey (v.run, it.idx) v.selected = true
            · exact hk
            · rw [if_neg hk] at h3; cases h3
          · have := hrest q hc; omega
    · rintro ⟨i, it', h1, h2, h3⟩
      have hi' := Option.some.inj h1
      rw [← hi', hit] at h2
      have := Option.some.inj h2
      subst this
      have : v.mark r it (decide ((if v.cur.rev then r else h - 1 - r) = v.cur.lc)) ∈
          ps.filter (fun q => q.row == r) := by
        rw [hf, List.mem_append]; right
        rw [hdi2]; simp
      have hq := (hmem _).mpr this
      refine ⟨_, hq.1, hq.2, ?_, ?_⟩ <;> (unfold View.mark; rw [if_pos h3])
  · obtain ⟨e1, _⟩ := draw_row v w h ps hd r hr
    rw [if_neg hi] at e1
    simp only [List.append_nil] at e1
    rw [if_neg (by rw [← hnr]; exact fun h => hi h.2)]
    constructor
    · rintro ⟨q, hq, h1, h2, h3⟩
      have := (hmem q).mp ⟨hq, h1⟩
      rw [e1] at this
      have := (clearCanvas_mem w h q (List.mem_filter.mp this).1).2.2
      rw [h3] at this; cases this
    · rintro ⟨i, it, h1, _⟩; cases h1

/-! ### highlight -/

/-- HIGHLIGHT.  For valid match positions (`MatchRange.Valid`: strictly increasing char indices inside the text /
    a byte range `start ≤ end` on char boundaries — what C08 guarantees) the `(char, attr)` sequence that
    `print_item` iterates over (`AnsiString::from(DisplayContext)`, `AnsiStringIterator`), after
    `default_attr.extend(attr)`, is the text in which EXACTLY the matched characters carry `base.extend(hl)` and
    every other character carries `base`. -/
theorem c11_highlight (text : List Char) (mr : MatchRange) (base hl : Attr) (content : AnsiString)
    (hd : displayContent text mr hl = some content) (hv : mr.Valid text) :
    content.iter.map (fun x => (x.1, extend base x.2)) = styled text mr base hl :=
  content_styled text mr base hl content hd hv

/-! ### the text fits -/

/-- FITS.  When the text is not wider than the container (`width - 2`), the list is not scrolled to the right
    (`hscroll_offset ≤ 0`) and there is no `skip_to_pattern`, the row shows the marker and then, on consecutive
    columns from column 2, the whole tab-expanded text with exactly the matched characters highlighted
    (`rawsOf`; the current-line variants `current` / `current_match` iff `isCur`) — no dots, nothing dropped. -/
theorem c11_fits (v : View) (w row : Nat) (it : Item) (isCur : Bool) (ps : List Put)
    (h : drawItem v w row it isCur = some ps) (hw : 3 ≤ w) (hcw : CwOk v.cw)
    (ht : TextOk v.cw it.text) (hv : it.mr.Valid it.text)
    (hfit : textWidth v.cw v.tabstop it.text ≤ w - 2) (hhs : v.hscroll ≤ 0) (hsk : v.skip = none) :
    ps = v.mark row it isCur :: layout v.cw row 2 (v.rawsOf it isCur) := by
  obtain ⟨g, hg, e⟩ := drawItem_eq v w row it isCur ps h hw hcw.space (fun c hc => (ht c hc).1) hv
  obtain ⟨g1, g2, g3⟩ := geoOf_facts v w it g hg
  obtain ⟨r1, r2⟩ := rawsOf_facts v it isCur hcw.space ht
  have hs := g3 hfit hhs hsk
  rw [e, shownFrom_fits g v.cw 0 _ hs (by omega) (by omega) (fun x hx => (r2 x hx).1)]

/-! ### the text does not fit (or is scrolled) -/

/-- CLIPPED (all character widths).  Whatever the window (shift chosen by `reshape_string` / `keep_right` /
    `skip_to_pattern`, plus the horizontal scroll offset), what is shown from column 2 on is
      * a CONTIGUOUS run `core` of the cells of the tab-expanded, highlighted text, in order and unchanged,
      * preceded by at most 3 and followed by at most 2 cells that are all dots,
      * dots on a side only if cells of the text were cut on that side (`ClippedForm`),
      * and if the window does not start at the beginning of the text, whatever is shown starts with a dot. -/
theorem c11_clipped (v : View) (w row : Nat) (it : Item) (isCur : Bool) (ps : List Put)
    (h : drawItem v w row it isCur = some ps) (hw : 3 ≤ w) (hcw : CwOk v.cw)
    (ht : TextOk v.cw it.text) (hv : it.mr.Valid it.text) :
    ∃ g, v.geoOf w it = some g ∧ g.stop = g.start + (w - 2) ∧
      ps = v.mark row it isCur :: layout v.cw row 2 (shownFrom g v.cw 0 (v.rawsOf it isCur)) ∧
      ClippedForm (v.rawsOf it isCur) (shownFrom g v.cw 0 (v.rawsOf it isCur)) ∧
      (0 < g.start → shownFrom g v.cw 0 (v.rawsOf it isCur) = [] ∨
        ∃ a rest, shownFrom g v.cw 0 (v.rawsOf it isCur) = ('.', a) :: rest) := by
  obtain ⟨g, hg, e⟩ := drawItem_eq v w row it isCur ps h hw hcw.space (fun c hc => (ht c hc).1) hv
  obtain ⟨g1, _, _⟩ := geoOf_facts v w it g hg
  obtain ⟨_, r2⟩ := rawsOf_facts v it isCur hcw.space ht
  refine ⟨g, hg, g1, e, ?_, ?_⟩
  · obtain ⟨pre, core, post, L, R, e1, e2, e3, e4, e5, e6, e7, e8⟩ := shownFrom_form g v.cw 0 (v.rawsOf it isCur)
    refine ⟨pre, core, post, L, R, e1, e2, e3, e4, ?_, e6, e7, e8⟩
    unfold leftBudget at e5; simp at e5; exact e5
  · intro h0
    exact shownFrom_left_marked g v.cw 0 _ h0 (by omega) r2

/-
FULL STATEMENT of the clipped case (kept visible):
  for every text (ASCII, wide, tabs) that does not fit:  shown = L ++ core ++ R  with core a contiguous run of the
  expanded text, L = '..' iff the left is cut, R = '..' iff the right is cut, and exactly 1..3 dots on a side when a
  double-width character sits at that cut.
PROVED for all widths (`c11_clipped`): the form, `|L| ≤ 3`, `|R| ≤ 2`, dots only on cut sides, the left cut is always
  marked.  PROVED for width-1 characters and tabs (`c11_clipped_exact_partial`): exactly `..` on both sides.
MISSING: "the right cut is always marked" and the exact dot counts when double-width characters sit at a cut
  (with a container narrower than 4 columns the left rule can consume the cells of the right rule, so the
  right-hand statement needs `container_width ≥ 4`; not proved for wide characters).
-/

/-- CLIPPED, EXACT, width-1 characters and tabs (partial: double-width characters are left out).  If the window
    cuts both sides (`0 < start`, `stop < text width`) and the container is at least 4 columns wide, the row
    shows exactly: two dots (carrying the attributes of the two cells they replace), the cells between, two dots. -/
theorem c11_clipped_exact_partial (v : View) (w row : Nat) (it : Item) (isCur : Bool) (ps : List Put)
    (h : drawItem v w row it isCur = some ps) (hw : 3 ≤ w) (hcw : CwOk v.cw)
    (hb : ∀ c ∈ it.text, c ≠ '\x08') (hnarrow : ∀ c ∈ it.text, c ≠ '\t' → v.cw c = 1) (hv : it.mr.Valid it.text) :
    ∃ g, v.geoOf w it = some g ∧ g.stop = g.start + (w - 2) ∧
      ∀ A B C D E, v.rawsOf it isCur = A ++ B ++ C ++ D ++ E → A.length = g.start → 0 < g.start →
        B.length = 2 → D.length = 2 → A.length + B.length + C.length + D.length = g.stop → g.tw > g.stop →
        ps = v.mark row it isCur :: layout v.cw row 2 (B.map dotOf ++ C ++ D.map dotOf) := by
  obtain ⟨g, hg, e⟩ := drawItem_eq v w row it isCur ps h hw hcw.space hb hv
  obtain ⟨g1, _, _⟩ := geoOf_facts v w it g hg
  refine ⟨g, hg, g1, ?_⟩
  intro A B C D E hr hA h0 hB hD hstop htw
  have hn : ∀ x ∈ v.rawsOf it isCur, v.cw x.1 = 1 := by
    unfold View.rawsOf styled
    apply mem_expandFrom v.cw (fun c => v.cw c = 1) hcw.space
    intro y hy hyt
    have : y.1 ∈ (styledFrom (it.mr.covers it.text) (v.base isCur) (v.hl isCur) 0 it.text).map (·.1) :=
      List.mem_map_of_mem hy
    rw [styledFrom_fst] at this
    exact hnarrow y.1 this hyt
  rw [e, hr, shownFrom_narrow_both g v.cw A B C D E (by rw [← hr]; exact hn) hA h0 hB hD hstop htw]

/-! ### nothing is written outside the list area -/

/-- IN AREA.  On a canvas at least 3 wide every `put_cell` of `Draw::draw` lies inside the `w × h` area with
    its full width (holds for the FIXED `print_char_raw`, see fix-1). -/
theorem c11_in_area (v : View) (w h : Nat) (ps : List Put) (hd : draw v w h = some ps) (hw : 3 ≤ w)
    (hcw : CwOk v.cw) (hitems : ∀ it ∈ v.items, TextOk v.cw it.text ∧ it.mr.Valid it.text) :
    ∀ q ∈ ps, q.inside v.cw w h := by
  unfold draw at hd
  cases ha : allSome ((List.range (v.nrows h)).map (rowPuts v w h)) with
  | none => simp [ha] at hd
  | some rows =>
    simp only [ha, Option.map_some, Option.some.injEq] at hd
    subst hd
    intro q hq
    rcases List.mem_append.mp hq with hq | hq
    · obtain ⟨h1, h2, h3⟩ := clearCanvas_mem w h q hq
      unfold Put.inside; rw [h3, hcw.space]; exact ⟨h1, by omega⟩
    · obtain ⟨j, hj, rp, hrp, hqr⟩ := allSome_mem (rowPuts v w h) _ rows ha q hq
      have hj := List.mem_range.mp hj
      have hnr : v.nrows h ≤ h := by unfold View.nrows; omega
      have hline : v.lineNo h j < h := by unfold View.lineNo; split <;> omega
      obtain ⟨it, hit, hshape⟩ := c11_row_writes v w h j rp hrp hw hcw.space
      have hmem : it ∈ v.items := List.mem_of_getElem? hit
      obtain ⟨g, hg, e⟩ := hshape (hitems it hmem).1 (hitems it hmem).2
      obtain ⟨g1, g2, _⟩ := geoOf_facts v w it g hg
      obtain ⟨r1, r2⟩ := rawsOf_facts v it (decide (j = v.cur.lc)) hcw.space (hitems it hmem).1
      rw [e] at hqr
      unfold Put.inside
      rcases List.mem_cons.mp hqr with hc | hc
      · subst hc
        refine ⟨hline, ?_⟩
        simp only []
        split <;> simp [hcw.gt, hcw.space] <;> omega
      · rcases List.mem_cons.mp hc with hc | hc
        · subst hc
          unfold View.mark
          split <;> simp [hcw.gt, hcw.space] <;> exact ⟨hline, by omega⟩
        · have hl := layout_mem v.cw _ 2 _ q hc
          have hin := layout_inside v.cw (v.lineNo h j) 2 _ (by
            intro x hx
            rcases mem_shownFrom g v.cw 0 _ x hx with hd | hd
            · rw [hd, hcw.dot]; exact Nat.le_refl 1
            · exact (r2 x hd).1) q hc
          have hcols := cols_shownFrom_le g v.cw hcw.dot 0 (v.rawsOf it (decide (j = v.cur.lc)))
            (by omega) (by omega) (fun x hx => (r2 x hx).2)
          exact ⟨by rw [hl.1]; exact hline, by omega⟩

/-! ### reshape_string is total for valid match positions -/

/-- RESHAPE TOTAL.  For a match start inside the text (`≤ length`) that is not more than one past the match end,
    `reshape_string` never indexes outside `acc_width` and never subtracts below zero (the model returns `none`
    exactly where the Rust would panic). -/
theorem c11_reshape_total (cw : Char → Nat) (text : List Char) (cwidth ms me tab : Nat)
    (h1 : ms ≤ text.length) (h2 : ms ≤ me + 1) :
    (reshapeString cw text cwidth ms me tab).isSome = true :=
  reshape_total cw text cwidth ms me tab h1 h2

/-- ... and its second component is the display width of the text, its first component 0 when the text fits. -/
theorem c11_reshape_width (cw : Char → Nat) (text : List Char) (cwidth ms me tab : Nat) (r : Nat × Nat)
    (h : reshapeString cw text cwidth ms me tab = some r) :
    r.2 = textWidth cw tab text ∧ (textWidth cw tab text ≤ cwidth → r.1 = 0) := by
  refine ⟨reshape_snd cw text cwidth ms me tab r h, ?_⟩
  intro hf
  rw [reshape_fits cw text cwidth ms me tab hf] at h
  cases h; rfl

/-! ### no panic -/

/-- NO PANIC.  With valid match positions on every item `Draw::draw` does not panic (`draw … = some _`, the
    hypothesis of the theorems above), whatever the cursor, the selected set, the options and the canvas size:
    no slice off a char boundary, no index outside `acc_width`, no subtraction below zero, every
    `items.get(item_idx)` of the row loop succeeds.  (Invalid positions DO panic in the code — e.g. a char index
    beyond a clipped text, a byte offset inside a character; the model predicts those panics and the
    correspondence check confirms them.) -/
theorem c11_no_panic (v : View) (w h : Nat) (hitems : ∀ it ∈ v.items, it.mr.Valid it.text) :
    (draw v w h).isSome = true :=
  draw_valid v w h hitems

/-- ... in particular `reshape_string` is called with positions for which `c11_reshape_total` applies. -/
theorem c11_match_positions_in_range (text : List Char) (mr : MatchRange) (hv : mr.Valid text) :
    ∃ m, matchStartEnd text mr = some m ∧ m.1 ≤ text.length ∧ m.1 ≤ m.2 + 1 :=
  matchStartEnd_valid text mr hv

/-- The invariant `n = items.len()` that ties the cursor model of C09 to the item list holds along every
    history of appends, clears, cursor events and draws. -/
theorem c11_len_invariant (v : View) (hn : v.cur.n = v.items.length) :
    (∀ b, (v.append b).cur.n = (v.append b).items.length) ∧ v.clear.cur.n = v.clear.items.length ∧
    (∀ e : Ev, (match e with | .append _ | .clear => True | e => (step v.cur e).n = v.items.length)) := by
  refine ⟨?_, rfl, ?_⟩
  · intro b; simp [View.append, appendItems, hn]
  · intro e
    cases e <;> simp only [step, moveLine, selectRow, SelCursor.draw] <;> (try trivial) <;> (try exact hn)
    split <;> exact hn

/-! ### non-vacuity: a concrete view meets the hypotheses (and the conclusions can be computed) -/

/-- width function of the examples: `中` is double-width -/
def exCw (c : Char) : Nat := if c = '中' then 2 else 1

/-- three results, the cursor on the second one, the third selected, a horizontal scroll offset of 1 -/
def exView : View :=
  { cur := { ic := 0, lc := 1, h := 3, n := 3, rev := false }
    items := [⟨0, "ab\tc".toList, .chars [1, 3]⟩, ⟨1, "x中yz-0123456789".toList, .bytes 1 5⟩,
              ⟨2, "hello world, hello".toList, .none⟩]
    selected := [((0, 2), 0)], tabstop := 4, hscroll := 1,
    theme := { matched := { fg := .ansi 108 }, current := { bg := .ansi 236 }, currentMatch := { fg := .ansi 151 },
               cursor := { fg := .ansi 161 }, selected := { fg := .ansi 168 } }
    cw := exCw, cwj := exCw }

example : CwOk exCw := ⟨by decide, by decide, by decide⟩
example : exView.cur.n = exView.items.length := by decide
example : ∀ it ∈ exView.items, TextOk exCw it.text ∧ it.mr.Valid it.text := by
  decide
-- the draw does not panic; rows: bottom-up, result 0 on the last row; pointer on row 1; marker on row 0
example : (draw exView 12 3).isSome = true := by decide
example : itemAtRow exView.cur 3 2 = some 0 ∧ itemAtRow exView.cur 3 0 = some 2 := by decide
example : pointerRow exView.cur 3 = some 1 := by decide
example : SelSet.containsKey (exView.run, 2) exView.selected = true := by decide
-- c11_fits: without the scroll offset the first item fits a 12 column canvas (width 7 ≤ 10)
example : textWidth exCw 4 "ab\tc".toList ≤ 12 - 2 ∧ ({ exView with hscroll := 0 }).hscroll ≤ 0 ∧
    ({ exView with hscroll := 0 }).skip = none := by decide
-- c11_clipped / c11_clipped_exact_partial: the third item (18 narrow cells) on a 12 column canvas, scrolled by 1:
-- window [1, 11), both sides cut, `..` + 6 cells + `..`
example : exView.geoOf 12 ⟨2, "hello world, hello".toList, .none⟩ = some ⟨1, 11, 18⟩ := by decide
example : exView.rawsOf ⟨2, "hello world, hello".toList, .none⟩ false =
    [('h', Attr.dflt)] ++ [('e', Attr.dflt), ('l', Attr.dflt)] ++ "lo wor".toList.map (·, Attr.dflt) ++
      [('l', Attr.dflt), ('d', Attr.dflt)] ++ ", hello".toList.map (·, Attr.dflt) := by decide
-- c11_reshape_total: the match `[1, 3]` of the first item, `ms = 1 ≤ 4`, `ms ≤ me + 1 = 5`
example : matchStartEnd "ab\tc".toList (.chars [1, 3]) = some (1, 4) := by decide
-- c11_highlight: the content of the first item exists
example : (displayContent "ab\tc".toList (.chars [1, 3]) Attr.dflt).isSome = true := by decide

end SkimModel.Draw
