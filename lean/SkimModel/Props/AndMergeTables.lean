import SkimModel.Model.Positions
import SkimModel.Generated.AndMerge
/-!
`AndEngine::merge_matched_items` (src/engine/andor.rs) and `MatchResult::range_char_indices` (src/lib.rs), as TRANSLATED from the
source on every run (`Generated/AndMerge.lean`): the result whose rank a conjunction reports, what a byte-range / a char-index result
contributes, the passes over the collected vector (`sort`, `dedup`) and the two slices whose characters are counted.  Interpreting
these tables gives exactly the C08 model's `mergeMatched` / `byteToCharRange`, for every text and every list of results — so the
theorems of Props/C08.lean about the union of a conjunction's positions (`c08_and_union`, `c08_and_report`) are about what the
source says now.  Dropping the sort or the dedup, counting `text[..end]` twice, or taking the rank of another term breaks a theorem here.
-/
namespace SkimModel.Positions
open SkimModel.Field SkimModel.Generated

/-- a slice bound: absent on the left = 0, absent on the right = the length -/
def bnd (text : Bytes) (s e : Nat) (left : Bool) : AndMerge.Bound → Nat
  | .open => if left then 0 else text.length
  | .start => s
  | .stop => e

/-- the translated `ByteRange` arm of `range_char_indices`; `none` = a slice panics -/
def interpRange (text : Bytes) (s e : Nat) : Option (Nat × Nat) :=
  match slice text (bnd text s e true AndMerge.firstSlice.1) (bnd text s e false AndMerge.firstSlice.2),
        slice text (bnd text s e true AndMerge.lastSlice.1) (bnd text s e false AndMerge.lastSlice.2) with
  | some pre, some mid => some (charCount pre, (if AndMerge.lastAddsFirst then charCount pre else 0) + charCount mid)
  | _, _ => none

theorem range_char_indices_is_model (text : Bytes) (s e : Nat) :
    interpRange text s e = byteToCharRange text s e := by
  unfold interpRange byteToCharRange
  simp only [AndMerge.firstSlice, AndMerge.lastSlice, AndMerge.lastAddsFirst, bnd, if_true]
  rfl

def applyPass : AndMerge.Pass → List Nat → List Nat
  | .sort => sortNat
  | .dedup => dedupAdj
  | .reverse => List.reverse

/-- what one result contributes to `ranges` -/
def interpContribution (text : Bytes) : MatchRange → Option (List Nat)
  | .bytes s e => match AndMerge.byteArm with
    | .charIndices => (interpRange text s e).map (fun p => List.range' p.1 (p.2 - p.1))
  | .chars v => match AndMerge.charsArm with
    | .verbatim => some v

def interpCollect (text : Bytes) : List MatchRange → Option (List Nat)
  | [] => some []
  | r :: rs =>
    match interpContribution text r with
    | none => none
    | some v => (interpCollect text rs).map (v ++ ·)

/-- the translated `merge_matched_items` (the range) -/
def interpMerge (text : Bytes) (items : List MatchRange) : Option MatchRange :=
  (interpCollect text items).map (fun v => .chars (AndMerge.passes.foldl (fun acc p => applyPass p acc) v))

theorem contribution_is_model (text : Bytes) (r : MatchRange) :
    interpContribution text r = rangeCharIndices text r := by
  cases r with
  | bytes s e => simp only [interpContribution, rangeCharIndices, range_char_indices_is_model]
  | chars v => simp only [interpContribution, rangeCharIndices]

theorem collect_is_model (text : Bytes) (items : List MatchRange) :
    interpCollect text items = collectIndices text items := by
  induction items with
  | nil => rfl
  | cons r rs ih =>
    simp only [interpCollect, collectIndices, contribution_is_model, ih]
    cases rangeCharIndices text r <;> rfl

theorem merge_matched_is_model (text : Bytes) (items : List MatchRange) :
    interpMerge text items = mergeMatched text items := by
  unfold interpMerge mergeMatched
  rw [collect_is_model]
  simp only [AndMerge.passes, List.foldl, applyPass]

/-- the rank a conjunction reports is the one of its FIRST term (`Report.first` in `andMatch`) -/
theorem rank_from_first_term : AndMerge.rankFrom = 0 := by decide

/-! ### the control flow of `AndEngine::match_item` / `OrEngine::match_item` (property C04: all terms of one alternative) -/

/-- does the translated conjunction report a match, given which of its terms match? -/
def interpAndVerdict (bs : List Bool) : Bool :=
  if AndMerge.andStopsOnMiss then bs.all id && !(AndMerge.andEmptyIsNone && bs.isEmpty)
  else !(AndMerge.andEmptyIsNone && (bs.filter id).isEmpty)

/-- does the translated disjunction report a match, given which of its alternatives match?  (with `is_none` for `is_some` the loop
    returns the first `None`, and `None` after the loop) -/
def interpOrVerdict (bs : List Bool) : Bool :=
  if AndMerge.orReturnsFirstHit then bs.any id else false

/-- a conjunction matches iff it has a term and every term matches (the shape of `andMatch`: `some (some [])` is no match) -/
theorem and_verdict_is_model (bs : List Bool) : interpAndVerdict bs = (!bs.isEmpty && bs.all id) := by
  unfold interpAndVerdict
  simp only [AndMerge.andStopsOnMiss, AndMerge.andEmptyIsNone, if_true, Bool.true_and]
  cases bs.isEmpty <;> cases bs.all id <;> rfl

/-- a disjunction matches iff some alternative matches (the shape of `orMatch`) -/
theorem or_verdict_is_model (bs : List Bool) : interpOrVerdict bs = bs.any id := by
  unfold interpOrVerdict
  simp only [AndMerge.orReturnsFirstHit, if_true]

end SkimModel.Positions
