import SkimModel.Generated.Select1
import SkimModel.Model.SessionFG
/-!
# The conditions of handle_select1_or_exit0, as written in src/model.rs, are the conditions of the Session model

`Generated/Select1.lean` is re-translated on every run (tools/extractors/select1.py; fails closed).  See `Props/HeartBeatTables.lean`
for act_heart_beat.  (`--sync` is outside the model: it is evaluated as off.)
-/
namespace SkimModel.Session
open SkimModel.Generated.Select1
variable {α κ : Type}

/-- handle_select1_or_exit0: skipped iff neither option is set (`--sync` off) -/
theorem s1_skip_is_model (select1 exit0 : Bool) :
    s1Skip.eval (fun a => match a with | .select1 => select1 | .exit0 => exit0 | _ => false) = (!select1 && !exit0) := by
  cases select1 <;> cases exit0 <;> rfl

/-- "matcher finished" there means: the control has been harvested -/
theorem s1_matcher_stopped_is_model (mcNone : Bool) :
    s1MatcherStopped.eval (fun a => match a with | .mcNone => mcNone | _ => false) = mcNone := rfl

/-- `processed` of handle_select1_or_exit0 = the model's `rs' && ic' && mc.isNone` -/
theorem s1_processed_is_model (rs ic mcNone : Bool) :
    s1Processed.eval (fun a => match a with
      | .rs => rs | .ic => ic
      | .ms => s1MatcherStopped.eval (fun b => match b with | .mcNone => mcNone | _ => false)
      | _ => false) = (rs && ic && mcNone) := by
  cases rs <;> cases ic <;> cases mcNone <;> rfl

/-- accept iff exactly one match and select-1, abort iff none and exit-0: the two tests of `decide1`, in that order -/
theorem s1_decisions_are_model (s : St α κ) :
    decide1 s =
      (let v : Atom → Bool := fun a => match a with
          | .one => s.list.length == 1 | .zero => s.list.length == 0 | .select1 => s.select1 | .exit0 => s.exit0 | _ => false
       if s1Accept.eval v then { s with decision := some .accept, queue := s.queue ++ [.user .accept] }
       else if s1Abort.eval v then { s with decision := some .abort, queue := s.queue ++ [.user .abort] }
       else { s with decision := some .interactive, select1 := false, exit0 := false }) := by
  -- by cases on the four values, so that the conjuncts may be written in either order in the source
  unfold decide1
  simp only [s1Accept, s1Abort, BExp.eval]
  all_goals (cases (s.list.length == 1) <;> cases (s.list.length == 0) <;> cases s.select1 <;> cases s.exit0 <;> rfl)

end SkimModel.Session
