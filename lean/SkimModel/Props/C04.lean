/-
C04 — query composition: space = AND, ` | ` = OR of alternatives, `\ ` = literal space.
Property theorems only (helper lemmas live in `Lemmas/Engine.lean` and `Lemmas/Query.lean`).

Model : `Model/Engine.lean`  (mask / splitOr / parseAnd / parseAlts / parseQuery / andVerdict / orVerdict)
Spec  : `Spec/Query.lean`    (astSpec on an AST; esc / renderAlt / renderAlts / renderQuery = how an AST is typed)
-/
import SkimModel.Spec.Query
import SkimModel.Lemmas.Query
import SkimModel.Props.C03
namespace SkimModel.Engine

/-! ### verdict -/

/-- AndEngine: at least one term and every term matches -/
theorem c04_and_verdict (cfg : Cfg) (terms : List (List Char)) (x : List Char) :
    andVerdict cfg terms x = true ↔ terms ≠ [] ∧ ∀ t ∈ terms, matchTerm cfg t x = true := by
  cases terms <;> simp [andVerdict]

/-- OrEngine of AndEngines: some alternative has all its terms matching -/
theorem c04_verdict (cfg : Cfg) (as : List (List (List Char))) (x : List Char) :
    orVerdict cfg as x = true ↔ ∃ alt ∈ as, alt ≠ [] ∧ ∀ t ∈ alt, matchTerm cfg t x = true := by
  simp [orVerdict, c04_and_verdict]

/-- a query with a non-blank character is parsed into alternatives (never handed over verbatim) -/
theorem c04_parse_nonblank (q : List Char) (hq : q.all isWhitespace = false) :
    parseQuery q = .alts (parseAlts q) := by
  simp [parseQuery, hq]

example : "a | b".toList.all isWhitespace = false := by decide

/-- C04, verdict: an item matches the query iff for at least one alternative it matches (by C03's
    rule) every term of that alternative. -/
theorem c04_query_spec (cfg : Cfg) (q x : List Char) (hq : q.all isWhitespace = false)
    (h : cfg.algo ≠ .skimV1) :
    matchQuery cfg q x = true ↔ astSpec cfg (parseAlts q) x := by
  unfold matchQuery
  rw [c04_parse_nonblank q hq]
  simp only [queryVerdict, c04_verdict, astSpec]
  constructor
  · rintro ⟨alt, ha, hne, hall⟩
    exact ⟨alt, ha, hne, fun t ht => (c03_term cfg t x h).1 (hall t ht)⟩
  · rintro ⟨alt, ha, hne, hall⟩
    exact ⟨alt, ha, hne, fun t ht => (c03_term cfg t x h).2 (hall t ht)⟩

/-- the executable spec used by the driver is the declarative one -/
theorem c04_astSpecB_iff (cfg : Cfg) (ast : Ast) (x : List Char) :
    astSpecB cfg ast x = true ↔ astSpec cfg ast x := by
  simp only [astSpecB, astSpec, List.any_eq_true, Bool.and_eq_true, List.all_eq_true, c03_termSpecB_iff]
  constructor
  · rintro ⟨alt, ha, hne, hall⟩
    exact ⟨alt, ha, by cases alt <;> simp_all, hall⟩
  · rintro ⟨alt, ha, hne, hall⟩
    exact ⟨alt, ha, by cases alt <;> simp_all, hall⟩

/-- an alternative without terms (a stray bar) matches nothing, so it never changes a verdict -/
theorem c04_empty_alt_never_matches (cfg : Cfg) (as bs : List (List (List Char))) (x : List Char) :
    orVerdict cfg (as ++ [] :: bs) x = orVerdict cfg (as ++ bs) x := by
  simp [orVerdict, andVerdict]

/-! ### the parser: round trip through the concrete syntax -/

/-- For every well-formed AST (non-empty alternatives of writable terms, terms may contain blanks)
    and every padding (any number of leading / trailing blanks, of blanks between terms and on both
    sides of each bar): parsing the rendered query gives back exactly the AST.
    In particular each `\ ` stays inside its term as a literal blank. -/
theorem c04_parse_render (lead trail : Nat) (q : PQuery) (h : WFQuery q) :
    parseAlts (renderQuery lead trail q) = q.ast :=
  parseAlts_render lead trail q h

example : WFQuery [([("a b".toList, 2), ("'c".toList, 0)], 1, 3), ([("!d|e".toList, 0)], 0, 0)] := by
  refine ⟨by simp, ?_⟩
  intro a ha
  simp only [List.mem_cons, List.not_mem_nil, or_false] at ha
  rcases ha with rfl | rfl <;> refine ⟨by simp, ?_⟩ <;> intro t ht <;>
    simp only [List.mem_cons, List.not_mem_nil, or_false] at ht
  · rcases ht with rfl | rfl <;> (unfold WFTerm; decide)
  · subst ht; unfold WFTerm; decide

example : renderQuery 1 2 [([("a b".toList, 2), ("'c".toList, 0)], 1, 3), ([("!d|e".toList, 0)], 0, 0)]
    = " a\\ b   'c  |    !d|e  ".toList := by decide

/-- the same, end to end: the verdict of a rendered query is the spec on its AST -/
theorem c04_render_verdict (cfg : Cfg) (lead trail : Nat) (q : PQuery) (x : List Char) (h : WFQuery q)
    (hq : (renderQuery lead trail q).all isWhitespace = false) (ha : cfg.algo ≠ .skimV1) :
    matchQuery cfg (renderQuery lead trail q) x = true ↔ astSpec cfg q.ast x := by
  rw [c04_query_spec cfg _ x hq ha, c04_parse_render lead trail q h]

/-- a single term with escaped blanks is ONE term containing literal blanks -/
theorem c04_escaped_space (t : List Char) (h : WFTerm t) : parseAlts (esc t) = [[t]] := by
  have := c04_parse_render 0 0 [([(t, 0)], 0, 0)] ⟨by simp, by
    intro a ha
    simp only [List.mem_cons, List.not_mem_nil, or_false] at ha
    subst ha
    exact ⟨by simp, by intro u hu; simp only [List.mem_cons, List.not_mem_nil, or_false] at hu; subst hu; exact h⟩⟩
  simpa [renderQuery, renderAlts, PQuery.mapTerms, joinAlts, joinAlt, sp, PQuery.ast] using this

example : WFTerm "a b".toList := by unfold WFTerm; decide

/-! ### why `RE_AND`'s first alternative is not in the model -/

/-- No piece produced by the `RE_OR` split — and no substring of a piece, such as the trimmed piece
    `parse_and` works on — contains a match of `RE_OR = " +\| +"` at any position.  The first
    alternative of `RE_AND` (`[^ |]+( +\| +[^ |]*)+`) needs such a match, so inside `parse_and` only the
    second alternative (a run of blanks) can ever match; the nested `parse_or` call is dead code. -/
theorem c04_piece_has_no_or_sep (s : List Char) :
    ∀ p ∈ splitOr s, ∀ m, m <:+: p → ∀ v u, m = v ++ u → orSepAt u = none := by
  intro p hp m hm v u hvu
  obtain ⟨a, b, hab⟩ := hm
  have h := splitOrGo_pieces_no_sep [] s (by
    intro v' u' h' hu'
    simp only [List.reverse_nil] at h'
    exact absurd (List.append_eq_nil_iff.1 h'.symm).2 hu') p hp (a ++ v) (u ++ b) (by rw [← hab, hvu]; simp)
  exact orSepAt_mono u b h

/-- the scanner does recognise the separator (the theorem above is not vacuous) -/
example : orSepAt "  |   b".toList = some "b".toList := by decide
example : orSepAt " |b".toList = none := by decide

/-- Reading decision (DESIGN §C04): a query made only of bars and blanks (with at least one bar) has no
    terms, so no alternative has "all its terms matching": it matches nothing. -/
theorem c04_only_bars_match_nothing (cfg : Cfg) (q x : List Char) (h : ∀ c ∈ q, c = ' ' ∨ c = '|') (hb : '|' ∈ q) :
    matchQuery cfg q x = false := by
  have hnb : q.all isWhitespace = false := by
    rw [List.all_eq_false]
    exact ⟨'|', hb, by decide⟩
  have hm : mask q = q := mask_no_backslash q (fun c hc => by
    rcases h c hc with rfl | rfl <;> decide)
  unfold matchQuery
  simp only [parseQuery, hnb, Bool.false_eq_true, if_false, queryVerdict, orVerdict, parseAlts, hm, splitOr]
  rw [List.any_eq_false]
  intro a ha
  simp only [List.mem_map] at ha
  obtain ⟨p, hp, rfl⟩ := ha
  have : parseAnd p = [] := by
    apply parseAnd_all_spbar
    intro c hc
    rcases splitOrGo_mem [] q p hp c hc with h' | h'
    · simp at h'
    · rcases h c h' with rfl | rfl <;> decide
  simp [this, andVerdict]


example : (∀ c ∈ " | ||  ".toList, c = ' ' ∨ c = '|') ∧ '|' ∈ " | ||  ".toList := by decide

/-! ### order independence -/

/-- the verdict does not depend on the order of the terms inside an alternative -/
theorem c04_perm_terms (cfg : Cfg) (a a' : List (List Char)) (x : List Char) (h : a.Perm a') :
    andVerdict cfg a x = andVerdict cfg a' x := by
  unfold andVerdict
  rw [h.all_eq]
  congr 2
  cases a <;> cases a' <;> simp_all

theorem c04_perm_inner (cfg : Cfg) (as bs : List (List (List Char))) (x : List Char)
    (hinner : InnerPerm as bs) : orVerdict cfg as x = orVerdict cfg bs x := by
  unfold orVerdict
  induction hinner with
  | nil => rfl
  | cons hab _ ih => simp only [List.any_cons, ih, c04_perm_terms cfg _ _ x hab]

/-- …nor on the order of the alternatives, nor on both at once: `as'` is any rearrangement of `as`
    in which each alternative is a rearrangement of the corresponding one. -/
theorem c04_perm (cfg : Cfg) (as bs as' : List (List (List Char))) (x : List Char)
    (hinner : InnerPerm as bs) (houter : bs.Perm as') :
    orVerdict cfg as x = orVerdict cfg as' x := by
  rw [c04_perm_inner cfg as bs x hinner]
  exact houter.any_eq

example : InnerPerm [["a".toList, "b".toList], ["c".toList]] [["b".toList, "a".toList], ["c".toList]] ∧
    List.Perm [["b".toList, "a".toList], ["c".toList]] [["c".toList], ["b".toList, "a".toList]] :=
  ⟨.cons (List.Perm.swap _ _ _) (.cons (List.Perm.refl _) .nil), List.Perm.swap _ _ _⟩

end SkimModel.Engine
