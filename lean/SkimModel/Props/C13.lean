/-
C13 — the sort key follows the `--tiebreak` criteria in order.
Property theorems only (helper lemmas live in `Lemmas/Rank.lean`).

Objects:
  `parseCriteria`, `modelCriterion`, `rankBuilderNew`, `builderOf`, `buildRank`, `cmpRank`
      — the code-shaped model (`Model/Rank.lean`), its tables generated from the Rust sources;
  `Spec.name`, `Spec.largerFirst`, `Spec.field`, `Spec.effective`, `Spec.lexCompare`, `Spec.InRange`
      — the hand-written meaning of the option (`Spec/Rank.lean`).
-/
import SkimModel.Lemmas.Rank
namespace SkimModel.Rank
open SkimModel.Generated.Rank

/-! ## 1. the tables the code contains are the tables the property describes -/

/-- Names and signs.  Every string arm of `parse_criteria` is the name of the criterion it yields and
    every criterion is reachable through its name; every arm of the `match` in `build_rank` negates
    exactly when the larger value is to come first and reads the right quantity; both defaults are
    `score, begin, end`; the implicit criterion is `score`, suppressed by `score`/`-score`; the separator
    is a comma; the limit and the array length are four. -/
theorem c13_tables :
    (∀ row ∈ parseCriteriaTable, row.1 = Spec.name row.2) ∧
    (∀ c ∈ Criterion.all, lookup (Spec.name c).toList parseCriteriaTable = some c) ∧
    (∀ c ∈ Criterion.all, rankArm c = (Spec.largerFirst c, Spec.field c)) ∧
    modelDefault = [.Score, .Begin, .End] ∧ builderDefault = [.Score, .Begin, .End] ∧
    implicitCriterion = .Score ∧ implicitUnless = [.Score, .NegScore] ∧ splitChar = ',' ∧
    takeN = Spec.maxCriteria ∧ rankLen = Spec.maxCriteria ∧ rankTypeLen = Spec.maxCriteria := by
  decide

/-! ## 2. words -> criteria -/

/-- A word denotes criterion `c` exactly when its lower-cased spelling is the name of `c`
    (any letter case; nothing else is accepted). -/
theorem c13_parse (w : List Char) (c : Criterion) :
    parseCriteria w = some c ↔ w.map Char.toLower = (Spec.name c).toList := by
  obtain ⟨hrow, hall, _⟩ := c13_tables
  unfold parseCriteria lower
  constructor
  · intro h
    obtain ⟨n, hm, hk⟩ := lookup_some_mem h
    have := hrow (n, c) hm
    simp only at this
    rw [hk, this]
  · intro h
    rw [h]
    exact hall c (mem_all c)

/-- Unknown words are ignored: a word whose lower-cased spelling is none of the eight names yields nothing. -/
theorem c13_parse_unknown (w : List Char) :
    parseCriteria w = none ↔ ∀ c, w.map Char.toLower ≠ (Spec.name c).toList := by
  constructor
  · intro h c hc
    rw [(c13_parse w c).mpr hc] at h
    cases h
  · intro h
    cases hp : parseCriteria w with
    | none => rfl
    | some c => exact absurd ((c13_parse w c).mp hp) (h c)

/-- The model's table lookup is the declarative lookup of the spec. -/
theorem c13_parse_eq_lookup (w : List Char) : parseCriteria w = Spec.lookupLower w := by
  cases hl : Spec.lookupLower w with
  | some c =>
    unfold Spec.lookupLower at hl
    exact (c13_parse w c).mpr (find_name_some hl).symm
  | none =>
    rw [c13_parse_unknown]
    intro c hc
    unfold Spec.lookupLower at hl
    rw [List.find?_eq_none] at hl
    have := hl c (mem_all c)
    simp [hc] at this

/-- Letter case never matters. -/
theorem c13_parse_case_insensitive (w w' : List Char) (h : w.map Char.toLower = w'.map Char.toLower) :
    parseCriteria w = parseCriteria w' := by
  unfold parseCriteria lower
  rw [h]

example : parseCriteria "-LeNgTh".toList = parseCriteria "-length".toList :=
  c13_parse_case_insensitive _ _ (by decide)
example : parseCriteria "-LeNgTh".toList = some .NegLength := by decide
example : parseCriteria "scores".toList = none := by decide

/-! ## 3. the configured criteria -/

/-- `RankBuilder::new` = put `score` in front unless `score`/`-score` is listed, then collapse adjacent
    repeats. -/
theorem c13_builder_new (cs : List Criterion) :
    rankBuilderNew cs = Spec.destutter (Spec.implicitScore cs) := by
  unfold rankBuilderNew Spec.implicitScore
  rw [dedup_eq]
  have : implicitUnless = [.Score, .NegScore] := by decide
  rw [this]
  by_cases h1 : Criterion.Score ∈ cs <;> by_cases h2 : Criterion.NegScore ∈ cs <;>
    simp [h1, h2, implicitCriterion]

/-- The criteria `build_rank` iterates over (the builder made by `Model::new` from `options.tiebreak`,
    cut by `take(4)`) are: the known words between the commas, `score` in front unless listed, adjacent
    repeats collapsed, THEN the first four; without the option: `score, begin, end`. -/
theorem c13_effective (tb : Option (List Char)) : (builderOf tb).take takeN = Spec.effective tb := by
  cases tb with
  | none => decide
  | some s =>
    unfold builderOf modelCriterion Spec.effective Spec.words
    rw [c13_builder_new]
    have e1 : splitChar = ',' := by decide
    have e2 : takeN = Spec.maxCriteria := by decide
    have e3 : (parseCriteria : List Char → Option Criterion) = Spec.lookupLower :=
      funext c13_parse_eq_lookup
    rw [e1, e2, e3]

/-- No option: `score, begin, end` — for `Model::new` and for engines built with `RankBuilder::default()`
    alike (nothing is cut, nothing is added). -/
theorem c13_default :
    builderOf none = [.Score, .Begin, .End] ∧ builderDefault = [.Score, .Begin, .End] ∧
    Spec.effective none = [.Score, .Begin, .End] := by decide

example : Spec.effective (some "length,-Begin,,bogus,-begin,END".toList) = [.Score, .Length, .NegBegin, .End] := by
  decide
-- adjacent repeats collapse BEFORE the limit of four applies
example : Spec.effective (some "score,score,score,score,begin,begin,end,length,-end".toList)
    = [.Score, .Begin, .End, .Length] := by decide
example : Spec.effective (some "begin,-score,begin".toList) = [.Begin, .NegScore, .Begin] := by decide

/-! ## 4. the rank array is the sequence of keys -/

/-- what one arm of the `match` yields, without overflow -/
theorem c13_value (c : Criterion) (t : Tuple) (h : Spec.InRange t) : value c t = some (Spec.key c t) := by
  obtain ⟨h1, h2, h3, h4, h5⟩ := h
  have hb := asI32_small h3
  have he := asI32_small h4
  have hl := asI32_small h5
  simp only [i32Min, i32Max] at h1 h2 h3 h4 h5
  have hs : t.score ≠ -2147483648 := by omega
  cases c <;>
    simp [value, rankArm, local32, negI32, i32Min, Spec.key, Spec.largerFirst, Spec.field, Spec.qty, hb, he, hl, hs]

/-- For in-range tuples `build_rank` never panics and returns, slot by slot, the keys of the first four
    criteria of the builder (score negated so that higher comes first, `-` variants with the opposite
    sign), unused slots 0. -/
theorem c13_key (cs : List Criterion) (t : Tuple) (h : Spec.InRange t) :
    buildRank cs t = some (Spec.specRank (cs.take takeN) t) := by
  unfold buildRank Spec.specRank
  have hlen : (cs.take takeN).length ≤ rankLen := by
    have : takeN = rankLen := by decide
    rw [List.length_take, this]; omega
  have := fill_ok t (Spec.key · t) (cs.take takeN) [] rankLen (fun c _ => c13_value c t h) hlen
  simp only [List.length_nil, List.nil_append] at this
  rw [this]
  have : rankLen = Spec.maxCriteria := by decide
  rw [this]

example : Spec.InRange ⟨17, 3, 9, 40⟩ := by decide
example : buildRank [.Score, .NegBegin, .Length] ⟨17, 3, 9, 40⟩ = some [-17, -3, 40, 0] := by decide

/-- Exactly when `build_rank` panics (overflow checks on): one of the first four criteria negates a
    value that is `i32::MIN` — score `-2³¹` under `score`, or an offset/length whose low 32 bits are
    `0x8000_0000` under `-begin`/`-end`/`-length`.  Nothing else can go wrong (no index panic). -/
theorem c13_panic_iff (cs : List Criterion) (t : Tuple) :
    buildRank cs t = none ↔
      ∃ c ∈ cs.take takeN, (rankArm c).1 = true ∧ local32 t (rankArm c).2 = i32Min := by
  unfold buildRank
  have hlen : 0 + (cs.take takeN).length ≤ (List.replicate rankLen (0 : Int)).length := by
    have : takeN = rankLen := by decide
    rw [List.length_take, List.length_replicate, this]; omega
  rw [fill_none_iff t _ 0 _ hlen]
  constructor
  · rintro ⟨c, hc, hv⟩
    refine ⟨c, hc, ?_⟩
    unfold value at hv
    rcases hr : rankArm c with ⟨b, f⟩
    rw [hr] at hv
    cases b with
    | false => simp at hv
    | true =>
      simp only [negI32] at hv
      split at hv
      · simp_all
      · simp at hv
  · rintro ⟨c, hc, hn, hv⟩
    refine ⟨c, hc, ?_⟩
    unfold value
    rcases hr : rankArm c with ⟨b, f⟩
    rw [hr] at hn hv
    simp only at hn hv
    subst hn
    simp [negI32, hv]

-- the range hypotheses are needed: these tuples are outside `InRange`
example : buildRank [.Score] ⟨-2147483648, 0, 0, 0⟩ = none := by decide
example : buildRank [.Score, .NegBegin] ⟨0, 2147483648, 0, 0⟩ = none := by decide
example : buildRank [.Score, .Begin] ⟨0, 4294967297, 0, 0⟩ = some [0, 1, 0, 0] := by decide

/-! ## 5. comparison of keys = the first criterion that distinguishes decides -/

/-- MAIN THEOREM.  For all criteria lists and all in-range tuples: comparing the two rank arrays the
    way `[i32; 4]::cmp` does gives exactly "go through the (at most four) criteria in order; the first
    one on which the items differ decides; score: higher first, begin/end: earlier first, length:
    shorter first, `-…`: the reverse". -/
theorem c13_lex (cs : List Criterion) (t₁ t₂ : Tuple) (h₁ : Spec.InRange t₁) (h₂ : Spec.InRange t₂)
    (r₁ r₂ : List Int) (e₁ : buildRank cs t₁ = some r₁) (e₂ : buildRank cs t₂ = some r₂) :
    cmpRank r₁ r₂ = Spec.lexCompare (cs.take takeN) t₁ t₂ := by
  rw [c13_key cs t₁ h₁] at e₁
  rw [c13_key cs t₂ h₂] at e₂
  cases e₁; cases e₂
  unfold Spec.specRank
  rw [cmpRank_append_same _ _ _ (by simp), cmpRank_keys]

/-- The same, end to end, from the option string: a session started with `--tiebreak s` (or without
    the option) orders two in-range matches by `lexCompare` of the configured criteria. -/
theorem c13_lex_option (tb : Option (List Char)) (t₁ t₂ : Tuple) (h₁ : Spec.InRange t₁) (h₂ : Spec.InRange t₂) :
    ∃ r₁ r₂, buildRank (builderOf tb) t₁ = some r₁ ∧ buildRank (builderOf tb) t₂ = some r₂ ∧
      cmpRank r₁ r₂ = Spec.lexCompare (Spec.effective tb) t₁ t₂ := by
  refine ⟨_, _, c13_key _ t₁ h₁, c13_key _ t₂ h₂, ?_⟩
  rw [← c13_effective]
  exact c13_lex _ t₁ t₂ h₁ h₂ _ _ (c13_key _ t₁ h₁) (c13_key _ t₂ h₂)

example : Spec.InRange ⟨5, 2, 7, 30⟩ ∧ Spec.InRange ⟨5, 2, 9, 12⟩ := by decide
example : Spec.lexCompare (Spec.effective (some "begin,length".toList)) ⟨5, 2, 7, 30⟩ ⟨5, 2, 9, 12⟩ = .gt := by
  decide

/-! ## 6. what `lexCompare` means -/

/-- Direction of every criterion: `score` prefers the HIGHER score, `begin`/`end` the EARLIER offset,
    `length` the SHORTER item; two items tie on a criterion iff the quantity is equal. -/
theorem c13_direction (t₁ t₂ : Tuple) :
    (Spec.prefers .Score t₁ t₂ = .lt ↔ t₂.score < t₁.score) ∧
    (Spec.prefers .Begin t₁ t₂ = .lt ↔ t₁.begin < t₂.begin) ∧
    (Spec.prefers .End t₁ t₂ = .lt ↔ t₁.«end» < t₂.«end») ∧
    (Spec.prefers .Length t₁ t₂ = .lt ↔ t₁.length < t₂.length) ∧
    (∀ c, Spec.prefers c t₁ t₂ = .eq ↔ Spec.qty t₁ (Spec.field c) = Spec.qty t₂ (Spec.field c)) := by
  refine ⟨?_, ?_, ?_, ?_, ?_⟩
  · simp [Spec.prefers, Spec.largerFirst, Spec.field, Spec.qty, Int.compare_eq_lt]
  · simp [Spec.prefers, Spec.largerFirst, Spec.field, Spec.qty, Int.compare_eq_lt]
  · simp [Spec.prefers, Spec.largerFirst, Spec.field, Spec.qty, Int.compare_eq_lt]
  · simp [Spec.prefers, Spec.largerFirst, Spec.field, Spec.qty, Int.compare_eq_lt]
  · intro c
    unfold Spec.prefers
    cases Spec.largerFirst c
    · simp
    · simp only [if_true, Int.compare_eq_eq]; exact eq_comm

/-- A leading `-` reverses a criterion: same quantity, the two items change places. -/
theorem c13_minus_reverses (c : Criterion) (t₁ t₂ : Tuple) :
    Spec.prefers (Spec.opposite c) t₁ t₂ = Spec.prefers c t₂ t₁ ∧
    (Spec.name (Spec.opposite c) = "-" ++ Spec.name c ∨ Spec.name c = "-" ++ Spec.name (Spec.opposite c)) := by
  cases c <;> simp [Spec.prefers, Spec.opposite, Spec.largerFirst, Spec.field, Spec.name] <;> decide

/-- Append law: criteria after a prefix matter only when the prefix ties. -/
theorem c13_append (pre post : List Criterion) (t₁ t₂ : Tuple) :
    Spec.lexCompare (pre ++ post) t₁ t₂ = (Spec.lexCompare pre t₁ t₂).then (Spec.lexCompare post t₁ t₂) := by
  induction pre with
  | nil => simp [Spec.lexCompare, Ordering.then]
  | cons c pre ih =>
    simp only [List.cons_append, Spec.lexCompare]
    cases Spec.prefers c t₁ t₂ <;> simp [ih, Ordering.then]

/-- A later criterion only reorders items that tie on all earlier ones: if the items tie on every
    criterion before position `i` and differ on criterion `i`, criterion `i` alone decides — whatever
    follows it. -/
theorem c13_later_only_on_ties (cs : List Criterion) (t₁ t₂ : Tuple) (i : Nat) (hi : i < cs.length)
    (hties : ∀ j (hj : j < i), Spec.prefers (cs[j]'(Nat.lt_trans hj hi)) t₁ t₂ = .eq)
    (hdiff : Spec.prefers cs[i] t₁ t₂ ≠ .eq) :
    Spec.lexCompare cs t₁ t₂ = Spec.prefers cs[i] t₁ t₂ := by
  induction cs generalizing i with
  | nil => simp at hi
  | cons c cs ih =>
    cases i with
    | zero =>
      simp only [List.getElem_cons_zero] at hdiff ⊢
      unfold Spec.lexCompare
      split
      · rename_i h; exact absurd h hdiff
      · rfl
    | succ i =>
      have h0 := hties 0 (by omega)
      simp only [List.getElem_cons_zero] at h0
      simp only [List.getElem_cons_succ] at hdiff ⊢
      unfold Spec.lexCompare
      simp only [h0]
      apply ih i (by simpa using hi)
      · intro j hj
        have := hties (j + 1) (by omega)
        simpa using this
      · exact hdiff

example : Spec.prefers [Criterion.Score, .Begin, .Length][0] ⟨5, 2, 7, 30⟩ ⟨5, 9, 9, 12⟩ = .eq ∧
    Spec.prefers [Criterion.Score, .Begin, .Length][1] ⟨5, 2, 7, 30⟩ ⟨5, 9, 9, 12⟩ ≠ .eq := by decide

/-- Two items get equal keys iff they tie on every configured criterion. -/
theorem c13_tie_iff (cs : List Criterion) (t₁ t₂ : Tuple) :
    Spec.lexCompare cs t₁ t₂ = .eq ↔ ∀ c ∈ cs, Spec.prefers c t₁ t₂ = .eq := by
  induction cs with
  | nil => simp [Spec.lexCompare]
  | cons c cs ih =>
    unfold Spec.lexCompare
    cases h : Spec.prefers c t₁ t₂ <;> simp [h, ih]

/-- The order is a genuine total preorder on items (so "sorted by key" is well defined):
    exchanging the items mirrors the answer, and "not after" is transitive. -/
theorem c13_total_preorder (cs : List Criterion) (a b c : Tuple) :
    Spec.lexCompare cs b a = (Spec.lexCompare cs a b).swap ∧
    (Spec.lexCompare cs a b ≠ .gt → Spec.lexCompare cs b c ≠ .gt → Spec.lexCompare cs a c ≠ .gt) := by
  constructor
  · rw [← cmpRank_keys, ← cmpRank_keys]
    generalize cs.map (Spec.key · a) = ka
    generalize hb : cs.map (Spec.key · b) = kb
    exact cmpRank_swap kb ka
  · rw [← cmpRank_keys, ← cmpRank_keys, ← cmpRank_keys]
    exact cmpRank_trans _ _ _

/-! ## 7. comma-separated lists -/

/-- A criteria list written as words joined by commas is read back as exactly those words
    (any number of words, including empty ones; a word cannot contain a comma). -/
theorem c13_words_join (w : List Char) (ws : List (List Char)) (h : ∀ x ∈ w :: ws, ',' ∉ x) :
    Spec.words (Spec.joinComma (w :: ws)) = w :: ws := by
  exact words_join w ws h

/-- Hence, for every list of words: the configured criteria of `--tiebreak w₁,w₂,…` are the known
    words among them in order, with the implicit `score`, adjacent repeats collapsed, cut to four. -/
theorem c13_effective_of_words (w : List Char) (ws : List (List Char)) (h : ∀ x ∈ w :: ws, ',' ∉ x) :
    (builderOf (some (Spec.joinComma (w :: ws)))).take takeN =
      (Spec.destutter (Spec.implicitScore ((w :: ws).filterMap Spec.lookupLower))).take 4 := by
  rw [c13_effective]
  simp only [Spec.effective]
  rw [c13_words_join w ws h]
  rfl

example : ∀ x ∈ ["END".toList, "x".toList, "end".toList, "-Length".toList], ',' ∉ x := by decide

/-- What "adjacent repeats collapse" means: writing the list as runs `c₁ × (n₁+1), c₂ × (n₂+1), …`
    with neighbouring runs of different criteria (every list can be written so, uniquely), the result is
    `c₁, c₂, …`. -/
theorem c13_destutter_runs (runs : List (Criterion × Nat)) (h : Spec.RunsDiffer runs) :
    Spec.destutter (Spec.expand runs) = runs.map (·.1) := by
  exact destutter_expand runs h

/-- every list is the expansion of such runs (so the previous theorem speaks about all lists) -/
theorem c13_runs_exist (l : List Criterion) :
    ∃ runs, Spec.RunsDiffer runs ∧ Spec.expand runs = l := by
  exact runs_exist l

example : Spec.RunsDiffer [(.Begin, 2), (.End, 0), (.Begin, 1)] := by decide
example : Spec.expand [(.Begin, 2), (.End, 0), (.Begin, 1)] = [.Begin, .Begin, .Begin, .End, .Begin, .Begin] := by
  decide

end SkimModel.Rank
