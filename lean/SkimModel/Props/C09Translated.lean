import SkimModel.Props.C09
import SkimModel.Props.CursorFnsTables
/-!
C09 stated about the TRANSLATED code itself (no model in the statements): `Generated/CursorFns.lean` is what src/selection.rs says on
this run; `Props/CursorFnsTables.lean` carries the model's theorems over.
-/
namespace SkimModel.SelCursor
open SkimModel.Generated

/-- C09 for the translated `act_move_line_cursor`: from a state in which the cursor designates an existing result, the new
    (item_cursor, line_cursor) designates an existing result again and the cursor row lies inside the window — for every `diff`,
    list length, window height, both layouts. -/
theorem translated_move_is_valid_and_in_window (s : Cur) (diff : Int) (hv : Valid s) :
    (0 < s.n → (CursorFns.actMoveLineCursor s.rev s.lc s.ic s.n s.H diff).1 +
               (CursorFns.actMoveLineCursor s.rev s.lc s.ic s.n s.H diff).2 < s.n) ∧
    (CursorFns.actMoveLineCursor s.rev s.lc s.ic s.n s.H diff).2 < s.H := by
  rw [move_line_cursor_is_model]
  have h1 := moveLine_valid s diff hv
  have h2 := moveLine_inWindow s diff
  have hn : (moveLine s diff).n = s.n := rfl
  have hH : (moveLine s diff).H = s.H := rfl
  refine ⟨fun h => ?_, ?_⟩
  · have := h1 (by rw [hn]; exact h); rw [hn] at this; exact this
  · have := h2; unfold InWindow at this; rw [hH] at this; exact this

/-- C09 for the translated cursor fix-up of `append_sorted_items`: after any append the cursor designates an existing result -/
theorem translated_append_fixup_is_valid (s : Cur) (k : Nat) :
    0 < s.n + k → (CursorFns.appendFixup s.lc s.ic (s.n + k) s.H).1 + (CursorFns.appendFixup s.lc s.ic (s.n + k) s.H).2 < s.n + k := by
  rw [append_fixup_is_model]
  have h := (appendItems_spec s k).2.2.2.1
  have hn : (appendItems s k).n = s.n + k := (appendItems_spec s k).1
  intro hpos
  have := h (by rw [hn]; exact hpos)
  rw [hn] at this; exact this

end SkimModel.SelCursor

