import SkimModel.Generated.HeartBeat
import SkimModel.Model.SessionFG
/-!
# The conditions of the heart-beat handler, as written in src/model.rs, are the conditions of the Session model

`Generated/HeartBeat.lean` is re-translated from `act_heart_beat` on every run (tools/extractors/heartbeat.py: its four boolean
conditions as expression trees; it also checks the order of the reads and of harvest / restart / arm, and fails closed).  The
conditions of `handle_select1_or_exit0` are in `Generated/Select1.lean` / `Props/Select1Tables.lean`.  Each theorem below evaluates one of those trees under an assignment of the atoms
taken from a model state and proves it equal to the condition `Model/Session.lean` / `Model/SessionFG.lean` use at that place.
A change of a condition in the source changes the generated tree, and the corresponding theorem stops checking.
(`--sync` is outside the model: it is evaluated as off.)
-/
namespace SkimModel.Session
open SkimModel.Generated.HeartBeat
variable {α κ : Type}

/-- the assignment of the atoms at the end of act_heart_beat: `rs`, `ic` the values read, `mc` the matcher control at that point -/
def hbVal (rs ic mcSome : Bool) : Atom → Bool
  | .rs => rs | .ic => ic | .processed => hbProcessed.eval (fun a => match a with | .rs => rs | .ic => ic | _ => false)
  | .mcNone => !mcSome | .mcSome => mcSome | _ => false

theorem hb_processed_is_model (rs ic mc : Bool) : hbProcessed.eval (hbVal rs ic mc) = (rs && ic) := by
  cases rs <;> cases ic <;> rfl

/-- `if !processed && self.matcher_control.is_none() { restart }` = the model's restart condition in `hbFinish` -/
theorem hb_restart_is_model (rs ic mc : Bool) :
    hbRestart.eval (hbVal rs ic mc) = (!(rs && ic) && !mc) := by
  cases rs <;> cases ic <;> cases mc <;> rfl

/-- `if self.matcher_control.is_some() || !processed { arm the timer }` = the model's arming condition in `hbFinish` -/
theorem hb_arm_is_model (rs ic mc : Bool) :
    hbArm.eval (hbVal rs ic mc) = (mc || !(rs && ic)) := by
  cases rs <;> cases ic <;> cases mc <;> rfl

/-- the two conditions as `hbFinish` itself computes them, on any state -/
theorem hbFinish_conditions (s : St α κ) (rs ic : Bool) :
    hbFinish s rs ic =
      (let s2 := if hbRestart.eval (hbVal rs ic s.mc.isSome) then restart s else s
       if hbArm.eval (hbVal rs ic s2.mc.isSome) then { s2 with timer := true } else s2) := by
  unfold hbFinish
  simp only [hb_restart_is_model, hb_arm_is_model]
  cases h : s.mc <;> simp

/-- the ClearIfNotNull condition of the harvest -/
theorem hb_clear_is_model (nce rs resultEmpty : Bool) :
    hbClearIfNotNull.eval (fun a => match a with | .nce => nce | .rs => rs | .resultEmpty => resultEmpty | _ => false)
      = ((!nce && rs) || !resultEmpty) := by
  cases nce <;> cases rs <;> cases resultEmpty <;> rfl

theorem harvest_clear_condition (s : St α κ) (r : MRun α κ) (rs : Bool) (h : s.clear = .ifNotNull) :
    (harvest s r rs).list =
      (if hbClearIfNotNull.eval (fun a => match a with
          | .nce => s.noClearIfEmpty | .rs => rs | .resultEmpty => r.result.isEmpty | _ => false)
       then [] else s.list) ++ r.result := by
  rw [hb_clear_is_model]
  simp [harvest, h]

/-! ### The handlers that restart the matching: the model's handler is the source's step sequence, interpreted -/

/-- one step of such a handler on the model state (`q'` / `run`, `src`: what the event carries) -/
def hstep (q' : Option κ) (cmd : Option (Nat × List α)) (s : St α κ) : HStep → St α κ
  | .killMatcher => killMatcher s
  | .killReader => { s with unread := [], buf := [], live := false }      -- the reader's unread input and buffer are dropped
  | .clearAll => { s with clear := .clear }
  | .clearIfNotNull => { s with clear := .ifNotNull }
  | .resetPool => { s with pool := s.pool.reset }
  | .clearPool => { s with pool := s.pool.clear }
  | .zeroOptions => { s with numOptions := 0 }
  | .startReader => match cmd with
      | some (run, src) => { s with unread := src, buf := [], live := true, source := src, run := run }
      | none => s
  | .restartMatcher => restart (match q' with | some q => { s with q := q } | none => s)

def hrun (q' : Option κ) (cmd : Option (Nat × List α)) (s : St α κ) (steps : List HStep) : St α κ :=
  steps.foldl (hstep q' cmd) s

/-- `on_query_change` (the new query reaches the matcher in its last step, `restart_matcher`): its steps, in the order the source
    has them, make up the model's handler of a query change -/
theorem on_query_change_is_model (s : St α κ) (q' : κ) :
    hrun (some q') none s onQueryChange = handleUser s (.setQuery q') := by
  simp only [hrun, onQueryChange, List.foldl, hstep, handleUser]

/-- rotating the mode changes the matcher the same way (the mode is part of the model's query key) -/
theorem rotate_mode_is_model (s : St α κ) (q' : κ) :
    hrun (some q') none s rotateMode = handleUser s (.setQuery q') := by
  simp only [hrun, rotateMode, List.foldl, hstep, handleUser]

/-- `on_cmd_query_change`: reader and matcher killed, pending clear, pool cleared, new reader, restart -/
theorem on_cmd_query_change_is_model (s : St α κ) (run : Nat) (src : List α) :
    hrun none (some (run, src)) s onCmdQueryChange = handleUser s (.setCmd run src) := by
  simp only [hrun, onCmdQueryChange, List.foldl, hstep, handleUser]
  unfold killMatcher restart
  cases h : s.mc with
  | none => simp [readerDone]
  | some r => cases r.phase <;> simp [readerDone]

end SkimModel.Session
