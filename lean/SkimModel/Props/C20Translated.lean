import SkimModel.Props.ScrollFnsTables
/-!
C20 ("vertical scroll stays within the content") stated about the TRANSLATED `act_scroll_down` itself.
-/
namespace SkimModel.Preview
open SkimModel.Generated

/-- whatever offset was loaded, whatever `diff`, whatever the number of content lines: the offset `act_scroll_down` stores is a
    1-based line number inside the content (line 1 when there is no content) -/
theorem translated_scroll_stays_in_content (v len : Nat) (d : Int) :
    1 ≤ ScrollFns.actScrollDown v len d ∧ ScrollFns.actScrollDown v len d ≤ max len 1 := by
  rw [scroll_down_is_model]
  unfold clampScroll
  omega

end SkimModel.Preview
