/-
C03 — each search term matches by its documented rule (fuzzy, ' ^ $ !, case, regex).
Property theorems only (helper lemmas live in `Lemmas/Engine.lean`).

Model : `Model/Engine.lean`  (decodeTerm / termVerdict / matchTerm, mirrors src/engine/*.rs)
Spec  : `Spec/Term.lean`     (strip / termSpec : Sublist, prefix, suffix, infix, equality on ASCII-folded lists)

Reading decision (DESIGN §C03): a term whose BODY is empty after the operators are stripped
(`` `!` `'` `^` `$` `^$` `!^` `!$` `!^$` `'^` …) matches everything — `strippedSpec` says so explicitly.

Known finding: with `--algo=skim_v1` the case option is ignored by fuzzy terms
(`c03_term_v1`, `c03_v1_counterexample`); every other statement below holds for all three algorithms
where it does not mention a fuzzy term, and for skim_v2 / clangd where it does.
-/
import SkimModel.Lemmas.Engine
namespace SkimModel.Engine

/-! ### the two matching primitives, for ALL patterns and texts -/

/-- The greedy in-order scan (the verdict of fuzzy-matcher) finds a match iff the pattern's characters
    occur in the text in order (`List.Sublist` of the case-folded lists): greedy is complete. -/
theorem c03_greedy_iff_sublist (cs : Bool) (p x : List Char) :
    greedy cs p x = true ↔ (fold cs p).Sublist (fold cs x) := by
  rw [fold_eq_map, fold_eq_map]; exact greedy_iff cs p x

/-- The anchored literal search (what `Regex::find` does for `[(?i)][^]escape(lit)[$]`) is
    substring / prefix / suffix / equality of the case-folded lists. -/
theorem c03_exact_iff_anchored (cs pre post : Bool) (b x : List Char) :
    litFind cs pre post b x = true ↔ anchored pre post (fold cs b) (fold cs x) := by
  rw [fold_eq_map, fold_eq_map]; exact litFind_iff cs pre post b x

/-- exact engine: empty body matches all, otherwise the anchored verdict, inverted by `!` -/
theorem c03_exact_verdict (cm : CaseMode) (b : List Char) (pre post inv : Bool) (x : List Char) (hb : b ≠ []) :
    exactVerdict cm b pre post inv x = true ↔
      (if inv then ¬ anchored pre post (fold (specCaseSensitive cm b) b) (fold (specCaseSensitive cm b) x)
       else anchored pre post (fold (specCaseSensitive cm b) b) (fold (specCaseSensitive cm b) x)) :=
  exact_core cm b pre post inv x hb

example : (['a'] : List Char) ≠ [] := by decide

/-! ### the executable spec used by the driver is the declarative spec -/

theorem c03_termSpecB_iff (cfg : Cfg) (t x : List Char) :
    termSpecB cfg t x = true ↔ termSpec cfg t x :=
  strippedSpecB_iff cfg.case _ x

/-! ### the main statement -/

/-- For every configuration with algorithm skim_v2 or clangd, every term and every text: the engine
    built by `ExactOrFuzzyEngineFactory` matches iff the documented rule says so. -/
theorem c03_term (cfg : Cfg) (t x : List Char) (h : cfg.algo ≠ .skimV1) :
    matchTerm cfg t x = true ↔ termSpec cfg t x := by
  unfold matchTerm termSpec
  rcases decode_strip cfg.exactMode t with ⟨h1, h2⟩ | h1
  · rw [h1]; simp [termVerdict, strippedSpec, h2]
  · rw [h1]; exact termVerdict_toEngine cfg _ x h

/-- With skim_v1 the same holds for every term that is not fuzzy (the exact engine honours the case option). -/
theorem c03_term_v1_exact (cfg : Cfg) (t x : List Char) (hf : (strip cfg.exactMode t).fuzzy = false) :
    matchTerm cfg t x = true ↔ termSpec cfg t x := by
  unfold matchTerm termSpec
  rcases decode_strip cfg.exactMode t with ⟨h1, h2⟩ | h1
  · rw [h1]; simp [termVerdict, strippedSpec, h2]
  · rw [h1]; exact termVerdict_toEngine_exact cfg _ x hf

/-- With skim_v1 a fuzzy term behaves as if the case option were `ignore` (finding C03-skimv1-ignores-case). -/
theorem c03_term_v1 (cfg : Cfg) (t x : List Char) (h : cfg.algo = .skimV1)
    (hf : (strip cfg.exactMode t).fuzzy = true) :
    matchTerm cfg t x = true ↔ termSpec { cfg with case := .ignore } t x := by
  unfold matchTerm termSpec
  rcases decode_strip cfg.exactMode t with ⟨h1, h2⟩ | h1
  · rw [h1]; simp [termVerdict, strippedSpec, h2]
  · rw [h1]; exact termVerdict_toEngine_v1 cfg _ x h hf

/-- …and that is a violation of the property: case = respect, term `A`, text `a`. -/
theorem c03_v1_counterexample :
    matchTerm { algo := .skimV1, case := .respect } ['A'] ['a'] = true ∧
      ¬ termSpec { algo := .skimV1, case := .respect } ['A'] ['a'] := by
  refine ⟨by decide, ?_⟩
  rw [← c03_termSpecB_iff]; decide

example : ({ algo := .clangd } : Cfg).algo ≠ .skimV1 := by decide
example : (strip false "'ab".toList).fuzzy = false := by decide
example : (strip false "ab".toList).fuzzy = true := by decide

/-! ### the documented table, operator by operator -/

/-- a body with no operator character at either end -/
def Plain (b : List Char) : Prop :=
  b ≠ [] ∧ b.head? ≠ some '\'' ∧ b.head? ≠ some '!' ∧ b.head? ≠ some '^' ∧ b.getLast? ≠ some '$'

/-- write a term: `'`? `!`? `^`? body `$`? -/
def render (q inv pre post : Bool) (b : List Char) : List Char :=
  (if q then ['\''] else []) ++ (if inv then ['!'] else []) ++ (if pre then ['^'] else []) ++ b ++
    (if post then ['$'] else [])

instance (b : List Char) : Decidable (Plain b) := by unfold Plain; infer_instance

example : Plain "a'b^$c!".toList := by decide
example : render true true true true "ab".toList = "'!^ab$".toList := by decide

/-- The operator syntax round-trips: stripping a rendered term gives back the flags and the body
    (all 16 operator combinations; `'` only outside `--exact`, where it means something else). -/
theorem c03_strip_render (em q inv pre post : Bool) (b : List Char) (hb : Plain b)
    (hq : ¬ (em = true ∧ q = true)) :
    strip em (render q inv pre post b) = ⟨!(q || inv || pre || post || em), inv, pre, post, b⟩ := by
  obtain ⟨hne, h1, h2, h3, h4⟩ := hb
  cases b with
  | nil => exact absurd rfl hne
  | cons c r =>
    simp only [List.head?_cons, ne_eq, Option.some.injEq] at h1 h2 h3
    have e1 : (c == '\'') = false := by simpa using h1
    have e2 : (c == '!') = false := by simpa using h2
    have e3 : (c == '^') = false := by simpa using h3
    have e4 : ((c :: r).getLast? == some '$') = false := by simpa using h4
    have e5 : (c :: (r ++ ['$'])).getLast? = some '$' := getLast?_snoc (c :: r) '$'
    have e6 : (c :: (r ++ ['$'])).dropLast = c :: r := dropLast_snoc (c :: r) '$'
    cases em <;> cases q <;> cases inv <;> cases pre <;> cases post <;>
      first
      | (exfalso; exact hq ⟨rfl, rfl⟩)
      | simp [strip, render, e1, e2, e3, e4, e5, e6]

/-- The documented rule in one statement: a term written `['][!][^]body[$]` is fuzzy (characters in
    order) iff it carries no operator and `--exact` is off; otherwise it is substring / prefix / suffix /
    whole-text matching of the body, inverted by `!`; case by the case rule applied to the body. -/
theorem c03_documented_rule (cfg : Cfg) (q inv pre post : Bool) (b x : List Char) (hb : Plain b)
    (hq : ¬ (cfg.exactMode = true ∧ q = true)) (h : cfg.algo ≠ .skimV1) :
    matchTerm cfg (render q inv pre post b) x = true ↔
      (if (q || inv || pre || post || cfg.exactMode) = false
        then (fold (specCaseSensitive cfg.case b) b).Sublist (fold (specCaseSensitive cfg.case b) x)
       else if inv
        then ¬ anchored pre post (fold (specCaseSensitive cfg.case b) b) (fold (specCaseSensitive cfg.case b) x)
       else anchored pre post (fold (specCaseSensitive cfg.case b) b) (fold (specCaseSensitive cfg.case b) x)) := by
  rw [c03_term cfg _ x h, termSpec, c03_strip_render _ _ _ _ _ _ hb hq]
  simp only [strippedSpec, hb.1, if_false]
  cases (q || inv || pre || post || cfg.exactMode) <;> simp

example : Plain "aB".toList ∧ ¬ (({} : Cfg).exactMode = true ∧ true = true) ∧ ({} : Cfg).algo ≠ .skimV1 := by decide

/-- plain term, no `--exact`: the characters occur in the text in order -/
theorem c03_plain_is_fuzzy (cfg : Cfg) (b x : List Char) (hb : Plain b) (he : cfg.exactMode = false)
    (h : cfg.algo ≠ .skimV1) :
    matchTerm cfg b x = true ↔
      (fold (specCaseSensitive cfg.case b) b).Sublist (fold (specCaseSensitive cfg.case b) x) := by
  have := c03_documented_rule cfg false false false false b x hb (by simp) h
  simpa [render, he] using this

/-- `'body`: substring -/
theorem c03_quote_is_substring (cfg : Cfg) (b x : List Char) (hb : Plain b) (he : cfg.exactMode = false) :
    matchTerm cfg ('\'' :: b) x = true ↔
      fold (specCaseSensitive cfg.case b) b <:+: fold (specCaseSensitive cfg.case b) x := by
  have hs := c03_strip_render false true false false false b hb (by simp)
  have := c03_term_v1_exact cfg ('\'' :: b) x (by rw [he]; simpa [render] using congrArg Stripped.fuzzy hs)
  rw [this, termSpec, he]
  simp only [render] at hs
  simp at hs
  simp [hs, strippedSpec, hb.1, anchored]

/-- `^body`: prefix (with or without `--exact`) -/
theorem c03_caret_is_prefix (cfg : Cfg) (b x : List Char) (hb : Plain b) :
    matchTerm cfg ('^' :: b) x = true ↔
      fold (specCaseSensitive cfg.case b) b <+: fold (specCaseSensitive cfg.case b) x := by
  have hs := c03_strip_render cfg.exactMode false false true false b hb (by simp)
  simp only [render] at hs
  simp at hs
  have := c03_term_v1_exact cfg ('^' :: b) x (by rw [hs])
  rw [this, termSpec]
  simp [hs, strippedSpec, hb.1, anchored]

/-- `body$`: suffix -/
theorem c03_dollar_is_suffix (cfg : Cfg) (b x : List Char) (hb : Plain b) :
    matchTerm cfg (b ++ ['$']) x = true ↔
      fold (specCaseSensitive cfg.case b) b <:+ fold (specCaseSensitive cfg.case b) x := by
  have hs := c03_strip_render cfg.exactMode false false false true b hb (by simp)
  simp only [render] at hs
  simp at hs
  have := c03_term_v1_exact cfg (b ++ ['$']) x (by rw [hs])
  rw [this, termSpec]
  simp [hs, strippedSpec, hb.1, anchored]

/-- `^body$`: the whole text -/
theorem c03_caret_dollar_is_whole (cfg : Cfg) (b x : List Char) (hb : Plain b) :
    matchTerm cfg ('^' :: b ++ ['$']) x = true ↔
      fold (specCaseSensitive cfg.case b) b = fold (specCaseSensitive cfg.case b) x := by
  have hs := c03_strip_render cfg.exactMode false false true true b hb (by simp)
  simp only [render] at hs
  simp at hs
  have := c03_term_v1_exact cfg ('^' :: b ++ ['$']) x (by simp [hs])
  rw [this, termSpec]
  simp [hs, strippedSpec, hb.1, anchored]

/-- a leading `!` inverts the verdict of the exact term that follows (`!body`, `!^body`, `!body$`, `!^body$`) -/
theorem c03_bang_inverts (cfg : Cfg) (pre post : Bool) (b x : List Char) (hb : Plain b) :
    matchTerm cfg (render false true pre post b) x = !(matchTerm { cfg with exactMode := true } (render false false pre post b) x) := by
  have hs1 := c03_strip_render cfg.exactMode false true pre post b hb (by simp)
  have hs2 := c03_strip_render true false false pre post b hb (by simp)
  have e1 := c03_term_v1_exact cfg (render false true pre post b) x (by rw [hs1]; simp)
  have e2 := c03_term_v1_exact { cfg with exactMode := true } (render false false pre post b) x (by simp [hs2])
  simp only [termSpec, hs1, hs2, strippedSpec, hb.1, if_false] at e1 e2
  simp at e1 e2
  cases h1 : matchTerm cfg (render false true pre post b) x <;>
    cases h2 : matchTerm { cfg with exactMode := true } (render false false pre post b) x <;> simp_all

/-- `--exact`, plain term: substring -/
theorem c03_exact_mode_plain_is_substring (cfg : Cfg) (b x : List Char) (hb : Plain b) (he : cfg.exactMode = true) :
    matchTerm cfg b x = true ↔
      fold (specCaseSensitive cfg.case b) b <:+: fold (specCaseSensitive cfg.case b) x := by
  have hs := c03_strip_render true false false false false b hb (by simp)
  simp only [render] at hs
  simp at hs
  have := c03_term_v1_exact cfg b x (by rw [he, hs])
  rw [this, termSpec, he]
  simp [hs, strippedSpec, hb.1, anchored]

/-- `--exact`, leading `'`: the WHOLE rest is a fuzzy term (no further operators are interpreted) -/
theorem c03_exact_mode_quote_is_fuzzy (cfg : Cfg) (r x : List Char) (he : cfg.exactMode = true)
    (h : cfg.algo ≠ .skimV1) :
    matchTerm cfg ('\'' :: r) x = true ↔
      (fold (specCaseSensitive cfg.case r) r).Sublist (fold (specCaseSensitive cfg.case r) x) := by
  rw [c03_term cfg _ x h, termSpec, he]
  have hs : strip true ('\'' :: r) = ⟨true, false, false, false, r⟩ := by simp [strip]
  rw [hs]
  by_cases hr : r = []
  · subst hr; simp [strippedSpec, fold_nil]
  · simp [strippedSpec, hr]

example : ({ exactMode := true } : Cfg).exactMode = true ∧ ({ exactMode := true } : Cfg).algo ≠ .skimV1 := by decide

/-! ### empty bodies -/

/-- A term whose body is empty after the operators are stripped matches every text (all algorithms). -/
theorem c03_empty_body_matches_all (cfg : Cfg) (t x : List Char) (hb : (strip cfg.exactMode t).body = []) :
    matchTerm cfg t x = true := by
  unfold matchTerm
  rcases decode_strip cfg.exactMode t with ⟨h1, _⟩ | h1
  · rw [h1]; rfl
  · rw [h1]; exact termVerdict_toEngine_nil cfg _ x hb

/-- …and these are such terms: the empty term, a lone `!`, a lone `'`, and every operator-only term
    (complete finite table; under `--exact` a `'` followed by operators is a fuzzy term for those
    characters, so only the lone `'` is in the second table). -/
theorem c03_empty_body_terms :
    (∀ t ∈ ["", "!", "'", "^", "$", "^$", "!^", "!$", "!^$", "'^", "'$", "'^$", "'!", "'!^", "'!$", "'!^$"],
      (strip false (String.toList t)).body = []) ∧
    (∀ t ∈ ["", "!", "'", "^", "$", "^$", "!^", "!$", "!^$"],
      (strip true (String.toList t)).body = []) := by decide

/-! ### case -/

/-- smart case = case-sensitive iff the body contains an ASCII upper-case letter -/
theorem c03_smart_case (b : List Char) :
    specCaseSensitive .smart b = true ↔ ∃ c ∈ b, 'A'.val ≤ c.val ∧ c.val ≤ 'Z'.val := by
  simp [specCaseSensitive, Char.isUpper]

theorem c03_forced_case (b : List Char) :
    specCaseSensitive .respect b = true ∧ specCaseSensitive .ignore b = false := ⟨rfl, rfl⟩

/-- When the comparison is case-insensitive the verdict depends on the text only through its ASCII
    lower-casing: texts that differ only in the case of ASCII letters get the same verdict. -/
theorem c03_case_insensitive (cfg : Cfg) (t x y : List Char) (h : cfg.algo ≠ .skimV1)
    (hcs : specCaseSensitive cfg.case (strip cfg.exactMode t).body = false)
    (hxy : x.map Char.toLower = y.map Char.toLower) :
    matchTerm cfg t x = matchTerm cfg t y := by
  have hx := c03_term cfg t x h
  have hy := c03_term cfg t y h
  have : termSpec cfg t x ↔ termSpec cfg t y := by
    simp only [termSpec, strippedSpec, hcs, fold, Bool.false_eq_true, if_false, hxy]
  cases h1 : matchTerm cfg t x <;> cases h2 : matchTerm cfg t y <;> simp_all

example : specCaseSensitive .smart (strip false "^ab".toList).body = false ∧
    "AB".toList.map Char.toLower = "ab".toList.map Char.toLower := by decide

/-- When the comparison is case-sensitive nothing is folded. -/
theorem c03_case_sensitive_no_fold (s : List Char) : fold true s = s := rfl

/-! ### regex mode -/

/-- the pattern handed to the regex crate: the query itself, `(?i)`-prefixed only when ignore-case is
    forced (smart case does NOT apply in regex mode) -/
theorem c03_regex_pattern (cm : CaseMode) (q : List Char) :
    regexPattern cm q = if cm = .ignore then "(?i)".toList ++ q else q := by
  cases cm <;> rfl

/-- regex mode: an item matches iff the expression does not compile or finds a match in the text -/
theorem c03_regex (cm : CaseMode) (q : List Char) (re : List Char → ReOracle) :
    regexVerdict (re (regexPattern cm q)) = true ↔ regexSpec cm q re := by
  rw [c03_regex_pattern]
  simp [regexVerdict, regexSpec]

/-- an invalid expression filters nothing out -/
theorem c03_regex_invalid_matches_all (o : ReOracle) (h : o.compiles = false) : regexVerdict o = true := by
  simp [regexVerdict, h]

example : (⟨false, false⟩ : ReOracle).compiles = false := rfl

theorem c03_regexSpecB_iff (cm : CaseMode) (q : List Char) (re : List Char → ReOracle) :
    regexSpecB cm q re = true ↔ regexSpec cm q re := by
  simp [regexSpecB, regexSpec]

end SkimModel.Engine
