/-
C01 — streaming filter: the candidate list is exactly the set of matching items.
Property theorems only.  Model: `Model/Session.lean` (atomic handlers, stale-false reads — see the
header of that file for why this covers every finer interleaving).  A *history* is any list of labels;
`runL` skips labels that are not enabled, so quantifying over all label lists quantifies over all
interleavings of reader, matcher, timer, event loop and user events, all chunkings of the input (where
the `rPush` labels sit) and all query / mode / command histories (`user (setQuery ..)`, `user (setCmd ..)`).
-/
import SkimModel.Lemmas.Session
import SkimModel.Lemmas.SessionLive
namespace SkimModel.Session
open SkimModel.Pool
variable {α κ : Type}

/-- the source of the current command run has ended and everything was handed to the pool -/
def SourceEnded (s : St α κ) : Prop := s.unread = [] ∧ s.buf = [] ∧ s.live = false

/-- matching has caught up: every pool item was taken and no run is outstanding / unharvested -/
def CaughtUp (s : St α κ) : Prop := s.mc = none ∧ s.pool.taken = s.pool.pool.length

/-- Safety, for every history: the accounting invariant holds in every reachable state. -/
theorem c01_invariant (m : κ → α → Bool) (o : Opts) (q : κ) (src : List α) (ls : List (Label α κ)) :
    Inv m (runL m (initWith o q src) ls) :=
  inv_runL m _ ls (inv_initWith m o q src)

/-- Whenever the source has ended and matching has caught up, the candidate list is exactly the
    multiset of the source's (non-header) items that satisfy the CURRENT query: every matching item once
    (with its input position as identity), no other entry — in particular nothing computed for an
    earlier query, mode or command. -/
theorem c01_quiescent_exact (m : κ → α → Bool) (o : Opts) (q : κ) (src : List α) (ls : List (Label α κ))
    (hn : o.noClearIfEmpty = false) :
    let s := runL m (initWith o q src) ls
    SourceEnded s → CaughtUp s →
      s.list.Perm (hitsFrom m s.q 0 s.pool.pool) ∧ s.pool.reserved ++ s.pool.pool = s.source ∧
      s.clear = .dont := by
  intro s hse hcu
  have hinv : Inv m s := c01_invariant m o q src ls
  have hnce : s.noClearIfEmpty = false := by
    show (runL m (initWith o q src) ls).noClearIfEmpty = false
    rw [nce_runL]; exact hn
  obtain ⟨hu, hb, hl⟩ := hse
  obtain ⟨hmc, htk⟩ := hcu
  have hclear : s.clear = .dont := by
    cases hc : s.clear with
    | dont => rfl
    | clear => exact absurd hmc (hinv.pend hnce (by simp [hc]))
    | ifNotNull => exact absurd hmc (hinv.pend hnce (by simp [hc]))
  refine ⟨?_, ?_, hclear⟩
  · have hacc := hinv.acc
    unfold Acc at hacc; rw [hmc] at hacc
    rw [eff_dont s hclear, htk, List.take_length] at hacc
    exact hacc
  · have := hinv.core.src
    rw [hb, hu] at this; simpa using this

/-- ... every listed entry is the item at that input position and satisfies the query, and no
    position is listed twice -/
theorem c01_entries (m : κ → α → Bool) (q : κ) (xs : List α) (l : List (Nat × α))
    (h : l.Perm (hitsFrom m q 0 xs)) :
    (∀ e ∈ l, xs[e.1]? = some e.2 ∧ m q e.2 = true) ∧ (l.map (·.1)).Nodup ∧
    (∀ i x, xs[i]? = some x → m q x = true → (i, x) ∈ l) := by
  refine ⟨?_, ?_, ?_⟩
  · intro e he
    have := hitsFrom_mem m q 0 xs e.1 e.2 (h.subset he)
    exact ⟨by simpa using this.2.1, this.2.2⟩
  · exact (h.map _).nodup_iff.mpr (hitsFrom_nodup m q 0 xs)
  · intro i x hx hm
    have := mem_hitsFrom m q 0 xs i x hx hm
    rw [Nat.zero_add] at this
    exact h.symm.subset this

/-- Liveness, part 1: while a run is outstanding or not everything is read and taken, a wake-up of the
    event loop is pending (a queued heart beat, the armed timer, or a matcher thread that will call back). -/
theorem c01_wakeup_pending (m : κ → α → Bool) (o : Opts) (q : κ) (src : List α) (ls : List (Label α κ)) :
    let s := runL m (initWith o q src) ls
    s.finished = none → Wake s := by
  intro s
  have : ∀ (ls : List (Label α κ)) (s0 : St α κ), (s0.finished = none → Wake s0) →
      ((runL m s0 ls).finished = none → Wake (runL m s0 ls)) := by
    intro ls
    induction ls with
    | nil => intro s0 h; exact h
    | cons l ls ih =>
      intro s0 h
      simp only [runL, List.foldl_cons]
      rw [← runL]
      apply ih
      cases hs : step m s0 l with
      | none => exact h
      | some s' =>
        simp only [Option.getD_some]
        intro hf
        have hf0 : s0.finished = none := finished_step m s0 s' l hs hf
        exact wake_step m s0 s' l (h hf0) hs hf
  exact this ls _ (fun _ => wake_initWith o q src)

/-- the state-level content of "no deadlock": the reader's bookkeeping (`Core`) and a pending wake-up (`Wake`) are all it takes -/
theorem no_deadlock_state (m : κ → α → Bool) (s : St α κ) (hcore : Core s) (hw : Wake s)
    (hfin : s.finished = none) (hnq : ¬ (SourceEnded s ∧ CaughtUp s)) :
    ∃ l : Label α κ, (∀ e, l ≠ .user e) ∧ (step m s l).isSome = true := by
  have hfin' : s.finished.isSome = false := by simp [hfin]
  -- the reader can move?
  by_cases hlive : s.live = true
  · cases hu : s.unread with
    | nil => exact ⟨.rEnd, (fun e h => by cases h), by simp [step, stepWith, hfin', hlive, hu]⟩
    | cons x u => exact ⟨.rPush, (fun e h => by cases h), by simp [step, stepWith, hfin', hlive, hu]⟩
  · have hlive' : s.live = false := by simpa using hlive
    have hun : s.unread = [] := hcore.dead hlive'
    -- otherwise a wake-up is pending
    have hwork : s.mc.isSome = true ∨ allDone s = false := by
      cases hmc : s.mc with
      | some r => left; rfl
      | none =>
        right
        cases hb : s.buf with
        | cons x xs => simp [allDone, readerDone, hb]
        | nil =>
          by_cases htk : s.pool.taken = s.pool.pool.length
          · exact absurd ⟨⟨hun, hb, hlive'⟩, hmc, htk⟩ hnq
          · simp [allDone, itemsConsumed, htk]
    rcases hw hwork with h1 | h1 | h1
    · -- a heart beat is queued: the loop can run
      cases hq : s.queue with
      | nil => simp [hbQueued, hq] at h1
      | cons e rest =>
        refine ⟨.loop {}, (fun e h => by cases h), ?_⟩
        cases e <;> simp [step, stepWith, hfin', hq]
    · exact ⟨.timer, (fun e h => by cases h), by simp [step, stepWith, h1]⟩
    · unfold tActive at h1
      cases hmc : s.mc with
      | none => simp [hmc] at h1
      | some r =>
        simp only [hmc, Bool.or_eq_true, beq_iff_eq] at h1
        rcases h1 with h2 | h2
        · exact ⟨.tTake, (fun e h => by cases h), by simp [step, stepWith, hmc, h2]⟩
        · exact ⟨.tPublish, (fun e h => by cases h), by simp [step, stepWith, hmc, h2]⟩

/-- Liveness, part 2 (no deadlock): in every reachable, unfinished state that is not quiescent some
    INTERNAL label (no user event) is enabled.  Together with part 1 this gives: once the source ends,
    the system keeps moving without a keystroke until it is quiescent.  (That it actually gets there
    needs weak fairness of the four threads, which is not formalised — C01's liveness is partial.) -/
theorem c01_no_deadlock (m : κ → α → Bool) (o : Opts) (q : κ) (src : List α) (ls : List (Label α κ)) :
    let s := runL m (initWith o q src) ls
    s.finished = none → ¬ (SourceEnded s ∧ CaughtUp s) →
      ∃ l : Label α κ, (∀ e, l ≠ .user e) ∧ (step m s l).isSome = true := by
  intro s hfin hnq
  exact no_deadlock_state m s (c01_invariant m o q src ls).core (c01_wakeup_pending m o q src ls hfin) hfin hnq


/-- Liveness, part 3: quiescence is REACHABLE without a keystroke.  From every reachable unfinished state
    in which no user event is pending (every keystroke so far has been handled; select-1/exit-0 sessions end
    by themselves and are C14's subject) there is a finite continuation made only of internal labels —
    reader, matcher, timer, and event-loop iterations whose reads are accurate — that ends in a state where
    the source has ended and matching has caught up (where, by `c01_quiescent_exact`, the list is exactly the
    matching items).  The proof is constructive: a canonical schedule along which a lexicographic measure
    (reader work, work class, matcher phase, heart-beat pending) strictly decreases.  Together with parts 1
    and 2 this is everything short of the fairness assumption itself. -/
theorem c01_quiescence_reachable (m : κ → α → Bool) (o : Opts) (q : κ) (src : List α) (ls : List (Label α κ)) :
    let s := runL m (initWith o q src) ls
    s.finished = none → s.queue.all Ev.isHB = true → s.select1 = false → s.exit0 = false →
      ∃ ls' : List (Label α κ), (∀ l ∈ ls', ∀ e, l ≠ .user e) ∧
        SourceEnded (runL m s ls') ∧ CaughtUp (runL m s ls') := by
  intro s hf hq h1 h0
  have hr : Ready m s :=
    ⟨c01_invariant m o q src ls, c01_wakeup_pending m o q src ls hf, hf, hq, h1, h0⟩
  obtain ⟨ls', hall, hquiet, _⟩ := reach_quiet m (mu s) s (Nat.le_refl _) hr
  refine ⟨ls', ?_, hquiet.1, hquiet.2⟩
  intro l hl e he
  have := hall l hl
  rw [he] at this; simp [Label.canon] at this

/-- the state-level content: where the invariant holds and no clear is pending, every listed entry `(i, x)` is the item at
    position `i` of the pool and satisfies the current query -/
theorem item_index_of_inv (m : κ → α → Bool) (s : St α κ) (hinv : Inv m s) (hcl : s.clear = .dont) :
    ∀ e ∈ s.list, s.pool.pool[e.1]? = some e.2 ∧ m s.q e.2 = true := by
  intro e he
  have hacc := hinv.acc
  rw [← eff_dont s hcl] at he
  -- in every phase the effective list is a permutation of hits over a prefix of the pool
  have key : ∃ k, (eff s).Perm (hitsFrom m s.q 0 (s.pool.pool.take k)) := by
    unfold Acc at hacc
    cases hmc : s.mc with
    | none => rw [hmc] at hacc; exact ⟨_, hacc⟩
    | some r =>
      rw [hmc] at hacc
      cases hp : r.phase with
      | spawned => simp only [hp] at hacc; exact ⟨_, hacc.2⟩
      | matching => simp only [hp] at hacc; exact ⟨_, hacc.2.2.2.2⟩
      | published => simp only [hp] at hacc; exact ⟨_, hacc.2.2.2.2.1⟩
      | stopped => simp only [hp] at hacc; exact ⟨_, hacc.2.2.2.2.1⟩
  obtain ⟨k, hk⟩ := key
  have := hitsFrom_mem m s.q 0 _ e.1 e.2 (hk.subset he)
  refine ⟨?_, this.2.2⟩
  have h2 := this.2.1
  simp only [Nat.sub_zero] at h2
  rw [List.getElem?_take] at h2
  split at h2
  · exact h2
  · cases h2


/-- Session-level identity of candidates (used by C10 / C15 / C05): in every reachable state with no
    clear pending, every listed entry `(i, x)` is the item at position `i` of the current pool — the
    matcher's `num_taken + index` is the input position, whichever run and batch reported it. -/
theorem session_item_index (m : κ → α → Bool) (o : Opts) (q : κ) (src : List α) (ls : List (Label α κ)) :
    let s := runL m (initWith o q src) ls
    s.clear = .dont → ∀ e ∈ s.list, s.pool.pool[e.1]? = some e.2 ∧ m s.q e.2 = true := by
  intro s hcl
  exact item_index_of_inv m s (c01_invariant m o q src ls) hcl


/-! ### the premise of the atomic-handler reduction, proved on the model

The model runs every handler of the event loop atomically and lets each read of a foreign flag return
the current value or a stale `false`.  That this covers every finer interleaving rests on the three flags
being MONOTONE under every step of the other threads: once true they stay true until M itself acts.
(So a read made earlier inside a handler returned either the final value or `false`.) -/

/-- labels of the other threads (reader, matcher, timer, input thread) -/
def Label.foreign : Label α κ → Bool
  | .loop _ => false
  | _ => true

/-- `stopped`, `is_done` and `taken = length` are monotone under every step that is not M's own -/
theorem c01_flags_monotone (m : κ → α → Bool) (s s' : St α κ) (l : Label α κ) (hl : l.foreign = true)
    (hs : step m s l = some s') :
    (matcherStopped s = true → matcherStopped s' = true) ∧
    (readerDone s = true → readerDone s' = true) ∧
    (s.mc.isNone = true → itemsConsumed s = true → itemsConsumed s' = true) := by
  cases l with
  | loop rd => simp [Label.foreign] at hl
  | rPush =>
    simp only [step, stepWith] at hs
    split at hs
    · cases hs
    · split at hs
      · rename_i x u hlive hu
        cases hs
        refine ⟨fun h => h, ?_, fun _ h => h⟩
        intro h; simp [readerDone, hlive] at h
      · cases hs
  | rEnd =>
    simp only [step, stepWith] at hs
    split at hs
    · cases hs
    · split at hs
      · rename_i hlive hu
        cases hs
        refine ⟨fun h => h, ?_, fun _ h => h⟩
        intro h; simp [readerDone, hlive] at h
      · cases hs
  | tTake =>
    simp only [step, stepWith] at hs
    split at hs
    · rename_i r hmc
      split at hs
      · rename_i hp
        cases hs
        refine ⟨?_, fun h => h, ?_⟩
        · intro h; simp [matcherStopped, hmc] at h
          have hp' : r.phase = .spawned := by simpa using hp
          rw [hp'] at h; cases h
        · intro h; simp [hmc] at h
      · cases hs
    · cases hs
  | tPublish =>
    simp only [step, stepWith] at hs
    split at hs
    · rename_i r hmc
      split at hs
      · rename_i hp
        cases hs
        refine ⟨?_, fun h => h, fun _ h => h⟩
        intro h; simp [matcherStopped, hmc] at h
        have hp' : r.phase = .matching := by simpa using hp
        rw [hp'] at h; cases h
      · cases hs
    · cases hs
  | tStop =>
    simp only [step, stepWith] at hs
    split at hs
    · split at hs
      · cases hs
        exact ⟨fun _ => by simp [matcherStopped], fun h => h, fun _ h => h⟩
      · cases hs
    · cases hs
  | timer =>
    simp only [step, stepWith] at hs
    split at hs
    · cases hs; exact ⟨fun h => h, fun h => h, fun _ h => h⟩
    · cases hs
  | user e =>
    simp only [step, stepWith] at hs
    split at hs
    · cases hs
    · cases hs; exact ⟨fun h => h, fun h => h, fun _ h => h⟩

/-- ... and while a matcher run is outstanding, `taken = length` can only be made true (by its take),
    never false again, because nobody but M appends or resets -/
theorem c01_consumed_monotone (m : κ → α → Bool) (s s' : St α κ) (l : Label α κ) (hl : l.foreign = true)
    (hs : step m s l = some s') (hinv : Inv m s) :
    itemsConsumed s = true → itemsConsumed s' = true := by
  intro h
  cases l with
  | loop rd => simp [Label.foreign] at hl
  | tTake =>
    simp only [step, stepWith] at hs
    split at hs
    · split at hs
      · cases hs; simp [itemsConsumed, Pool.take]
      · cases hs
    · cases hs
  | rPush => simp only [step, stepWith] at hs; split at hs <;> try cases hs
             split at hs <;> cases hs; exact h
  | rEnd => simp only [step, stepWith] at hs; split at hs <;> try cases hs
            split at hs <;> cases hs; exact h
  | tPublish => simp only [step, stepWith] at hs; split at hs <;> try cases hs
                split at hs <;> cases hs; exact h
  | tStop => simp only [step, stepWith] at hs; split at hs <;> try cases hs
             split at hs <;> cases hs; exact h
  | timer => simp only [step, stepWith] at hs; split at hs <;> cases hs; exact h
  | user e => simp only [step, stepWith] at hs; split at hs <;> cases hs; exact h

/-! ### the unfixed code violates the property (witness that the `fix:` was needed) -/

/-- With the handler of the unfixed code (is_done read twice) there is a history — reader finishing
    between the two reads, after a command change whose new command prints nothing — that ends in a
    state where the source has ended, matching has caught up, nothing can wake the loop, and the list
    still shows the OLD command's item. -/
theorem c01_prefix_counterexample :
    let m : Unit → Nat → Bool := fun _ _ => true
    let s := runLPre m (initWith {} () [1])
      [.loop {}, .rPush, .rEnd, .tTake, .tPublish, .tStop, .loop {}, .tTake, .tPublish, .tStop, .loop {},
       .user (.user (.setCmd 1 [])), .loop {}, .tTake, .tPublish, .tStop, .rEnd, .loop { rs := false }, .timer, .loop {}]
    s.unread = [] ∧ s.buf = [] ∧ s.live = false ∧ s.mc.isNone = true ∧ s.pool.taken = s.pool.pool.length ∧
    s.queue.isEmpty = true ∧ s.timer = false ∧ s.source = [] ∧ s.list = [(0, 1)] := by
  decide

/-- the same history on the fixed handler ends with the list cleared once it settles -/
example :
    let m : Unit → Nat → Bool := fun _ _ => true
    let s := runL m (initWith {} () [1])
      [.loop {}, .rPush, .rEnd, .tTake, .tPublish, .tStop, .loop {}, .tTake, .tPublish, .tStop, .loop {},
       .user (.user (.setCmd 1 [])), .loop {}, .tTake, .tPublish, .tStop, .rEnd, .loop { rs := false },
       .tTake, .tPublish, .tStop, .loop {}]
    s.list = [] ∧ s.mc.isNone = true := by decide

/-! non-vacuity: a quiescent reachable state with a non-trivial list -/
example :
    let m : Unit → Nat → Bool := fun _ x => x % 2 == 1
    let s := runL m (initWith {} () [1, 2, 3])
      [.loop {}, .rPush, .rPush, .rPush, .rEnd, .tTake, .tPublish, .tStop, .loop {}, .tTake, .tPublish, .tStop, .loop {}]
    s.unread = [] ∧ s.buf = [] ∧ s.live = false ∧ s.mc.isNone = true ∧ s.pool.taken = s.pool.pool.length ∧
    s.list = [(0, 1), (2, 3)] := by decide

end SkimModel.Session
