/-
C07 — placeholder expansion is shell-safe: each value becomes exactly one literal word.
Property theorems only (helper lemmas: Lemmas/Inject.lean; model of src/util.rs: Model/Inject.lean with the
constants of Generated/Inject.lean extracted from the source; POSIX sh lexer: Spec/Sh.lean; the
"values are opaque literals" reading of a template: Spec/Inject.lean).

Reading guide (statement of the property → theorem):
  "quoted so that a POSIX shell reads each value back as exactly one word identical to the value
   (NUL rendered as \0), whatever characters …"            c07_escape_table, c07_quote, c07_quote_closed, c07_one_word,
                                                            c07_template, c07_inject_lexes, c07_demo_pipeline
  no value can change the command's structure               c07_structure_independent
  "{+…} … every selected item joined by spaces (the current item if none is selected)"
                                                            c07_plus, c07_words_at_end, c07_designate_plus, _plus_n,
                                                            _plus_field, _plus_length
  "{} current item, {n} index, {q}/{cq} queries, {R} fields" c07_designate_cur/_n/_q/_cq/_field
  "a placeholder preceded by a backslash is left untouched"  c07_escaped
  "Text outside placeholders is never altered"               c07_literal_untouched, c07_no_placeholder_identity
  which pieces of a template ARE placeholders                c07_matchBrace_iff (= the language of RE_FIELDS), c07_class,
                                                            c07_scan_placeholder, c07_scan_literal (+ c07_escaped)
Side condition of the shell-level theorems: the placeholder stands at an UNQUOTED position of the template
(`phUnquoted`: lexer in unquoted mode, not directly after `$`; never inside the template's own quotes, a comment,
a back-quoted substitution, a here-document or `$((…))`, where the lexer model stops claiming).
NOT covered by inject_command at all: the interactive command (`Query::get_cmd`, raw `str::replace` of `{}` by the
command query) — known finding C07-interactive-cmd-raw-substitution; `interactiveCmd` models it for the tie only.
-/
import SkimModel.Lemmas.Inject
namespace SkimModel.Inject
open SkimModel.Sh SkimModel.Generated.Inject

/-! ### what `escape_single_quote` emits (read off the table extracted from the source) -/

/-- `'` ↦ `'\''`, NUL ↦ the two characters `\0`, everything else unchanged. -/
theorem c07_escape_table (c : Char) :
    escapeOne c = if c = '\'' then ['\'', '\\', '\'', '\''] else if c = '\x00' then ['\\', '0'] else [c] := by
  by_cases h1 : c = '\''
  · subst h1; exact escapeOne_quote
  · by_cases h2 : c = '\x00'
    · subst h2; exact escapeOne_nul
    · simp [h1, h2, escapeOne_other c h1 h2]

/-! ### the core lemma -/

/-- For EVERY string `v` and every lexer state in unquoted mode (not directly after an unquoted `$`: `$'…'`
    is a different quoting construct), lexing `'…escaped v…'` appends exactly
    `v` (NUL as `\0`) to the current word, marks the word as started (so an empty value is still a word),
    touches nothing else — no token is finished, no operator seen, no expansion flagged — and ends in
    unquoted mode. -/
theorem c07_quote (v : List Char) (s : Lex) (hu : s.mode = .unq) (hd : s.prev ≠ .dollar) :
    run s (quote v) = { s with word := s.word ++ nul0 v, inWord := true, prev := .none } :=
  quote_run v s hu hd

example : (run {} "echo ".toList).mode = .unq ∧ (run {} "echo ".toList).prev ≠ .dollar := by decide
example : (run {} "echo 'a b' x=".toList).mode = .unq ∧ (run {} "echo 'a b' x=".toList).prev ≠ .dollar := by decide
example : (run {} "echo $".toList).prev = .dollar := by decide      -- `echo ${}`: not claimed

/-- … in particular the state after the value is again unquoted, whatever the value contains. -/
theorem c07_quote_closed (v : List Char) (s : Lex) (hu : s.mode = .unq) (hd : s.prev ≠ .dollar) :
    (run s (quote v)).mode = .unq ∧ (run s (quote v)).toks = s.toks ∧ (run s (quote v)).exp = s.exp := by
  rw [c07_quote v s hu hd]; exact ⟨hu, rfl, rfl⟩

/-! ### whole templates: expansion commutes with lexing -/

/-- For every segment list whose placeholders are met in unquoted mode, the shell reads the rendered
    command exactly as `specRun` does: the template's own characters are lexed, every designated value is an
    opaque piece of the current word, the values of one placeholder are separated by one blank. -/
theorem c07_template (ctx : Ctx) (segs : List Seg) (s : Lex) (hu : phUnquoted ctx s segs = true) :
    run s (segs.flatMap (renderSeg ctx)) = specRun ctx s segs :=
  template_run ctx segs s hu

example : phUnquoted {} {} [.chr 'e', .chr ' ', .ph "{}".toList [], .chr ';', .ph "{q}".toList ['q']] = true := by decide
example : phUnquoted {} {} [.chr '"', .ph "{}".toList []] = false := by decide        -- `"{}`: not claimed
example : phUnquoted {} {} ("echo $((".toList.map Seg.chr ++ [.ph "{}".toList []]) = false := by decide  -- `$(({}`: not claimed

/-- The same for `inject_command` on a template string, from the start of the command to its tokens. -/
theorem c07_inject_lexes (ctx : Ctx) (t : List Char) (hu : phUnquoted ctx {} (scan t) = true) :
    lex (inject ctx t) = finish (specRun ctx {} (scan t)) := by
  simp only [lex, inject]; rw [c07_template ctx _ _ hu]

example : phUnquoted {} {} (scan "cat {} | grep {q}".toList) = true := by decide +kernel

/-! ### one word per value -/

/-- A placeholder between blanks at an unquoted position with one value `v`: the token stream is that of
    the text before, then exactly one word identical to `v` (NUL as `\0`), then that of the text after —
    for all `v`, `pre`, `post`. -/
theorem c07_one_word (pre post v : List Char) (hpre : (run {} pre).mode = .unq) :
    lex (pre ++ ' ' :: (quote v ++ ' ' :: post)) =
      (lex pre).bind fun a => (lex post).map fun b => a ++ (Tok.word (nul0 v) :: b) := by
  have := lex_values_framed pre post [v] (by simp) hpre
  simpa [joinVals, wordsOf] using this

/-- `{+…}` with `k ≥ 1` values yields exactly `k` words, the i-th identical to the i-th value. -/
theorem c07_plus (pre post : List Char) (vs : List (List Char)) (hne : vs ≠ []) (hpre : (run {} pre).mode = .unq) :
    lex (pre ++ ' ' :: (joinVals (vs.map quote) ++ ' ' :: post)) =
      (lex pre).bind fun a => (lex post).map fun b => a ++ (vs.map (fun v => Tok.word (nul0 v)) ++ b) :=
  lex_values_framed pre post vs hne hpre

example : lex ("echo".toList ++ ' ' :: (quote "a'b $(x);".toList ++ ' ' :: "| cat".toList)) =
    some [.word "echo".toList, .word "a'b $(x);".toList, .op '|', .word "cat".toList] := by decide

/-- at the very end of the command (no trailing blank needed) and with nothing glued in front -/
theorem c07_words_at_end (s : Lex) (vs : List (List Char)) (hne : vs ≠ [])
    (hu : s.mode = .unq) (hb : s.inWord = false) (hw : s.word = []) (hp : s.prev = .none) :
    finish (run s (joinVals (vs.map quote))) = some (s.toks ++ vs.map fun v => Tok.word (nul0 v)) := by
  rw [joinVals_run vs s hu (by rw [hp]; decide)]
  have hm := pushVals_mode vs s hu
  simp only [finish, hm]
  rw [pushVals_flush vs hne s ⟨hu, hb, hw, hp⟩]; rfl

example : let s := run {} "echo ".toList; s.mode = .unq ∧ s.inWord = false ∧ s.word = [] ∧ s.prev = .none := by decide

/-! ### the theorems composed on one concrete template, for ALL items and queries -/

theorem c07_demo_scan : scan "cat {} | grep {q}".toList =
    ("cat ".toList.map Seg.chr) ++ [.ph "{}".toList []] ++ (" | grep ".toList.map Seg.chr) ++ [.ph "{q}".toList ['q']] := by
  decide +kernel

/-- `cat {} | grep {q}`: whatever the current item and the query contain, the shell reads exactly
    `cat`, the item, `|`, `grep`, the query. -/
theorem c07_demo_pipeline (ctx : Ctx) :
    lex (inject ctx "cat {} | grep {q}".toList) =
      some [.word "cat".toList, .word (nul0 ctx.cur), .op '|', .word "grep".toList, .word (nul0 ctx.query)] := by
  have hu : phUnquoted ctx {} (scan "cat {} | grep {q}".toList) = true := by
    rw [c07_demo_scan]
    simp [phUnquoted, specSeg, step, unqAct, flush, pushVals, pushVal, designate, isOp]
  rw [c07_inject_lexes ctx _ hu, c07_demo_scan]
  simp [specRun, specSeg, step, unqAct, flush, pushVals, pushVal, designate, isOp, finish, isExpChar]

/-! ### no injection -/

/-- What the shell sees of an expanded command EXCEPT the text of the words — the sequence "word / operator c"
    of tokens, whether a quote is open, whether an (unmodelled) expansion applies anywhere — is the same for
    any two contexts with the same number of selected items: no item text, query or command query can add,
    remove or split a word, introduce an operator (`;`, `|`, `&`, newline, redirection), open a quote, start a
    comment or trigger an expansion. -/
theorem c07_structure_independent (ctx ctx' : Ctx) (t : List Char)
    (h1 : ctx.sels.length = ctx'.sels.length) (h2 : ctx.idxs.length = ctx'.idxs.length)
    (hu : phUnquoted ctx {} (scan t) = true) :
    shape (run {} (inject ctx t)) = shape (run {} (inject ctx' t)) := by
  obtain ⟨hs, hp⟩ := specRun_shape ctx ctx' (designate_length ctx ctx' h1 h2) (scan t) (a := {}) (b := {}) rfl
  have hu' : phUnquoted ctx' {} (scan t) = true := by rw [← hp]; exact hu
  simp only [inject]
  rw [c07_template ctx _ _ hu, c07_template ctx' _ _ hu']
  exact hs

/-! ### which values -/

theorem c07_designate_cur (ctx : Ctx) : designate ctx [] = [ctx.cur] := rfl
theorem c07_designate_n (ctx : Ctx) : designate ctx ['n'] = [natStr ctx.curIdx] := rfl
theorem c07_designate_q (ctx : Ctx) : designate ctx ['q'] = [ctx.query] := rfl
theorem c07_designate_cq (ctx : Ctx) : designate ctx ['c', 'q'] = [ctx.cmdQuery] := rfl

/-- any other text that does not begin with `+` is looked up as a field range of the current item;
    a failed lookup (junk, out of range) is ONE empty value -/
theorem c07_designate_field (ctx : Ctx) (rg : List Char) (h0 : rg ≠ []) (hn : rg ≠ ['n']) (hq : rg ≠ ['q'])
    (hcq : rg ≠ ['c', 'q']) (hp : rg.head? ≠ some '+') :
    designate ctx rg = [(ctx.fld ctx.cur rg).getD []] := by
  unfold designate
  split <;> simp_all

example : ("1..2".toList ≠ []) ∧ "1..2".toList ≠ ['n'] ∧ "1..2".toList ≠ ['q'] ∧ "1..2".toList ≠ ['c', 'q'] ∧
    "1..2".toList.head? ≠ some '+' := by decide

theorem c07_designate_plus (ctx : Ctx) (hl : ctx.idxs.length = ctx.sels.length) :
    designate ctx ['+'] = plusItems ctx := by
  have h := plus_len ctx hl
  show ((plusItems ctx).zip (plusIdxs ctx)).map (fun x => x.1) = plusItems ctx
  exact List.map_fst_zip (Nat.le_of_eq h)

theorem c07_designate_plus_n (ctx : Ctx) (hl : ctx.idxs.length = ctx.sels.length) :
    designate ctx ['+', 'n'] = (plusIdxs ctx).map natStr := by
  have h := plus_len ctx hl
  show ((plusItems ctx).zip (plusIdxs ctx)).map (fun x => natStr x.2) = (plusIdxs ctx).map natStr
  have hz := List.map_snd_zip (Nat.le_of_eq h.symm) (l₁ := plusItems ctx) (l₂ := plusIdxs ctx)
  calc ((plusItems ctx).zip (plusIdxs ctx)).map (fun x => natStr x.2)
      = (((plusItems ctx).zip (plusIdxs ctx)).map Prod.snd).map natStr := by simp [List.map_map]
    _ = _ := by rw [hz]

theorem c07_designate_plus_field (ctx : Ctx) (rest : List Char) (h0 : rest ≠ []) (hn : rest ≠ ['n'])
    (hl : ctx.idxs.length = ctx.sels.length) :
    designate ctx ('+' :: rest) = (plusItems ctx).map fun s => (ctx.fld s rest).getD [] := by
  have h := plus_len ctx hl
  have : designate ctx ('+' :: rest) =
      ((plusItems ctx).zip (plusIdxs ctx)).map (fun x => (ctx.fld x.1 rest).getD []) := by
    simp only [designate]
    apply List.map_congr_left
    intro x _
    rfl
  have hz := List.map_fst_zip (Nat.le_of_eq h) (l₁ := plusItems ctx) (l₂ := plusIdxs ctx)
  rw [this]
  calc ((plusItems ctx).zip (plusIdxs ctx)).map (fun x => (ctx.fld x.1 rest).getD [])
      = (((plusItems ctx).zip (plusIdxs ctx)).map Prod.fst).map (fun s => (ctx.fld s rest).getD []) := by
        simp [List.map_map]
    _ = _ := by rw [hz]

theorem c07_designate_plus_length (ctx : Ctx) (rest : List Char) (hl : ctx.idxs.length = ctx.sels.length) :
    (designate ctx ('+' :: rest)).length = max 1 ctx.sels.length := by
  have h := plus_len ctx hl
  simp only [designate, List.length_map, List.length_zip]
  show min (plusItems ctx).length (plusIdxs ctx).length = _
  rw [← h, Nat.min_self]
  unfold plusItems
  cases ctx.sels <;> simp

/-! ### what counts as a placeholder: the character class extracted from RE_FIELDS -/

/-- every character the named placeholders and field ranges are written with is in the class
    (`{n}`, `{q}`, `{cq}`, `{+…}`, digits, `..`), and the characters that delimit a match are not
    (blank, `-`, `{`, `}`, backslash) — the second half is what makes the pattern deterministic. -/
theorem c07_class :
    (∀ c ∈ "0123456789.cq+n".toList, inClass c = true) ∧
    (∀ c ∈ " -{}\\".toList, inClass c = false) := by decide

/-- At a given start the hand scanner accepts exactly the language of the regex
    `\{ *-?[class]*? *}` (`IsBrace`: `{` blanks [`-`] class* blanks `}`), splits the input at the end of that
    match and hands on the trimmed inner text: every text of this shape IS a placeholder, nothing else is. -/
theorem c07_matchBrace_iff (s rg m rest : List Char) :
    matchBrace s = some (rg, m, rest) ↔ (s = m ++ rest ∧ IsBrace m rg) := by
  constructor
  · exact matchBrace_sound
  · rintro ⟨rfl, b1, dash, cls, b2, rfl, rfl, h1, h2, h3, h4⟩
    have := matchBrace_complete b1 dash cls b2 rest h1 h2 h3 h4
    simpa using this

example : IsBrace "{ -1.. }".toList "-1..".toList :=
  ⟨[' '], ['-'], "1..".toList, [' '], by decide, by decide, by decide, by decide, by decide, by decide⟩

/-! ### text outside placeholders, escaped placeholders, and what counts as a placeholder -/

/-- The segments partition the template (nothing is lost, duplicated or reordered), every segment that is
    not a placeholder is rendered as its own text, and the output is the concatenation of the renderings:
    the output differs from the template only where an unescaped placeholder stood. -/
theorem c07_literal_untouched (ctx : Ctx) (t : List Char) :
    (scan t).flatMap Seg.raw = t ∧
    (∀ seg ∈ scan t, seg.isPh = false → renderSeg ctx seg = seg.raw) ∧
    inject ctx t = (scan t).flatMap (renderSeg ctx) := by
  refine ⟨scan_raw t, ?_, rfl⟩
  intro seg _ h
  cases seg <;> simp_all [Seg.isPh, renderSeg, Seg.raw]

/-- a template without (unescaped) placeholders is returned unchanged -/
theorem c07_no_placeholder_identity (ctx : Ctx) (t : List Char) (h : ∀ seg ∈ scan t, seg.isPh = false) :
    inject ctx t = t := by
  have ⟨h1, h2, h3⟩ := c07_literal_untouched ctx t
  rw [h3]
  conv => rhs; rw [← h1]
  exact flatMap_congr_mem _ (fun seg hs => h2 seg hs (h seg hs))

/-- `\{…}`: the match that begins with a backslash is one segment copied verbatim, backslash included, and
    scanning resumes after it. -/
theorem c07_escaped (ctx : Ctx) {r rg m rest : List Char} (h : matchBrace r = some (rg, m, rest)) :
    scan ('\\' :: r) = .esc ('\\' :: m) :: scan rest ∧
    inject ctx ('\\' :: r) = '\\' :: m ++ inject ctx rest ∧ '\\' :: r = '\\' :: m ++ rest := by
  refine ⟨scan_escaped h, ?_, ?_⟩
  · simp [inject, scan_escaped h, renderSeg]
  · simp [matchBrace_split h]

/-- an unescaped match is replaced by the quoted designated values joined by the separator, and scanning
    resumes after it (leftmost, non-overlapping) -/
theorem c07_scan_placeholder (ctx : Ctx) {s rg m rest : List Char} (h : matchBrace s = some (rg, m, rest)) :
    scan s = .ph m rg :: scan rest ∧
    inject ctx s = joinVals ((designate ctx rg).map quote) ++ inject ctx rest := by
  have hs : scan s = .ph m rg :: scan rest := by
    cases s with
    | nil => simp [matchBrace] at h
    | cons c r =>
      have hc := matchBrace_head h
      subst hc
      rw [scan]; simp only [show ('{' = '\\') = False by decide, if_false]; split
      · rename_i h2; rw [h] at h2; simp only [Option.some.injEq, Prod.mk.injEq] at h2
        obtain ⟨rfl, rfl, rfl⟩ := h2; rfl
      · rename_i h2; rw [h] at h2; simp at h2
  exact ⟨hs, by simp [inject, hs, renderSeg]⟩

/-- where no match starts, one character is copied and scanning moves on by one -/
theorem c07_scan_literal (c : Char) (r : List Char)
    (h : if c = '\\' then matchBrace r = none else matchBrace (c :: r) = none) :
    scan (c :: r) = .chr c :: scan r := by
  rw [scan]
  by_cases hc : c = '\\'
  · simp only [hc, if_true] at h ⊢
    split
    · rename_i h2; rw [h] at h2; simp at h2
    · rfl
  · simp only [hc, if_false] at h ⊢
    split
    · rename_i h2; rw [h] at h2; simp at h2
    · rfl

end SkimModel.Inject
