/-
C10, session level — the selection survives re-filtering and identities are input positions.
(The set algebra of the selection actions themselves is in Props/C10.lean on the SelSet model.)
Model: `Model/Session.lean`; `selected` holds the keys (command run, item index).
-/
import SkimModel.Props.C01
import SkimModel.Props.C15
namespace SkimModel.Session
open SkimModel.Pool
variable {α κ : Type}

/-- Only a selection action changes the selected set: every other step — reader and matcher steps, timer,
    heart beats with their harvests and clears, query edits, mode rotations, even command re-runs —
    leaves it exactly as it was.  So an item stays selected across any later re-filtering, also when it
    no longer matches. -/
theorem c10s_survives_refilter (m : κ → α → Bool) (s s' : St α κ) (l : Label α κ)
    (hs : step m s l = some s') :
    s'.selected = s.selected ∨
    ∃ rd e rest, l = .loop rd ∧ s.queue = .user e :: rest ∧ e.selOnly = true := by
  cases l with
  | rPush => left; simp only [step, stepWith] at hs; split at hs <;> try cases hs
             split at hs <;> cases hs; rfl
  | rEnd => left; simp only [step, stepWith] at hs; split at hs <;> try cases hs
            split at hs <;> cases hs; rfl
  | tTake => left; simp only [step, stepWith] at hs; split at hs <;> try cases hs
             split at hs <;> cases hs; rfl
  | tPublish => left; simp only [step, stepWith] at hs; split at hs <;> try cases hs
                split at hs <;> cases hs; rfl
  | tStop => left; simp only [step, stepWith] at hs; split at hs <;> try cases hs
             split at hs <;> cases hs; rfl
  | timer => left; simp only [step, stepWith] at hs; split at hs <;> cases hs; rfl
  | user e => left; simp only [step, stepWith] at hs; split at hs <;> cases hs; rfl
  | loop rd =>
    simp only [step, stepWith] at hs
    split at hs
    · cases hs
    · split at hs
      · cases hs
      · rename_i rest hq
        left; cases hs
        unfold handleHB hbSelect
        have := (hbMain_opts ({ s with queue := rest.dropWhile Ev.isHB } : St α κ) rd).2.2.2.2.2.1
        split
        · exact this
        · simp only []; split
          · unfold decide1; simp only []; split
            · exact this
            · split <;> exact this
          · exact this
      · rename_i e rest hq
        cases hs
        by_cases hso : e.selOnly = true
        · right; exact ⟨rd, e, rest, rfl, hq, hso⟩
        · left
          have ksel : (killMatcher ({ s with queue := rest } : St α κ)).selected = s.selected :=
            (killMatcher_fields _).2.2.2.2.2.2.2.2.2.2.2.2
          cases e with
          | setQuery q' => simp only [handleUser]; rw [(restart_opts _).2.2.2.2.2.1]; exact ksel
          | setCmd rn src => simp only [handleUser]; rw [(restart_opts _).2.2.2.2.2.1]; exact ksel
          | accept => rfl
          | abort => rfl
          | toggle _ => simp [UserEv.selOnly] at hso
          | selectAll => simp [UserEv.selOnly] at hso
          | toggleAll => simp [UserEv.selOnly] at hso
          | deselectAll => simp [UserEv.selOnly] at hso
          | other => simp [UserEv.selOnly] at hso

/-- Identity: in every reachable state without a pending clear, the key a toggle would use for a listed
    entry `(i, x)` is `(current run, i)` where `i` is the position of `x` in the pool of the current command
    run — the same position whichever matcher run or batch reported it (`session_item_index`), so toggling it
    again after re-filtering addresses the same key. -/
theorem c10s_same_identity (m : κ → α → Bool) (o : Opts) (q : κ) (src : List α) (ls : List (Label α κ)) :
    let s := runL m (initWith o q src) ls
    s.clear = .dont → ∀ e ∈ s.list, s.pool.pool[e.1]? = some e.2 :=
  fun hcl e he => (session_item_index m o q src ls hcl e he).1

/-- ... and pool positions are stable: no step except the handler of a command change (which starts a new
    command run) moves or replaces an item that is already in the pool. -/
theorem c10s_positions_stable (m : κ → α → Bool) (s s' : St α κ) (l : Label α κ)
    (hinv : Inv m s) (hs : step m s l = some s')
    (hnc : ∀ rd rn src rest, ¬ (l = .loop rd ∧ s.queue = .user (.setCmd rn src) :: rest)) :
    ∀ i, i < s.pool.pool.length → s'.pool.pool[i]? = s.pool.pool[i]? := by
  have hrestart : ∀ (t : St α κ) (i : Nat), i < t.pool.pool.length →
      (restart t).pool.pool[i]? = t.pool.pool[i]? := by
    intro t i hi
    unfold restart; simp only []
    split
    · rfl
    · exact c15_append_stable t.pool t.buf i hi
  cases l with
  | rPush => intro i _; simp only [step, stepWith] at hs; split at hs <;> try cases hs
             split at hs <;> cases hs; rfl
  | rEnd => intro i _; simp only [step, stepWith] at hs; split at hs <;> try cases hs
            split at hs <;> cases hs; rfl
  | tTake => intro i _; simp only [step, stepWith] at hs; split at hs <;> try cases hs
             split at hs <;> cases hs; rfl
  | tPublish => intro i _; simp only [step, stepWith] at hs; split at hs <;> try cases hs
                split at hs <;> cases hs; rfl
  | tStop => intro i _; simp only [step, stepWith] at hs; split at hs <;> try cases hs
             split at hs <;> cases hs; rfl
  | timer => intro i _; simp only [step, stepWith] at hs; split at hs <;> cases hs; rfl
  | user e => intro i _; simp only [step, stepWith] at hs; split at hs <;> cases hs; rfl
  | loop rd =>
    simp only [step, stepWith] at hs
    split at hs
    · cases hs
    · split at hs
      · cases hs
      · rename_i rest hq
        cases hs
        intro i hi
        -- heart beat: harvest does not touch the pool, restart only appends, select only decides
        have hsel : ∀ t : St α κ, (hbSelect t rd).pool = t.pool := by
          intro t; unfold hbSelect; split
          · rfl
          · simp only []; split
            · exact (decide1_fields t).2.2.1
            · rfl
        unfold handleHB; rw [hsel]
        unfold hbMain; simp only []
        have hh : ∀ (rs ms : Bool),
            (hbHarvest ({ s with queue := rest.dropWhile Ev.isHB } : St α κ) rs ms).pool = s.pool := by
          intro rs ms; unfold hbHarvest; split <;> rfl
        generalize hg : hbHarvest ({ s with queue := rest.dropWhile Ev.isHB } : St α κ) _ _ = s1
        have hp1 : s1.pool = s.pool := by rw [← hg]; exact hh _ _
        have hi1 : i < s1.pool.pool.length := by rw [hp1]; exact hi
        split <;> split <;> first
          | (show (restart s1).pool.pool[i]? = _; rw [hrestart s1 i hi1, hp1])
          | (show s1.pool.pool[i]? = _; rw [hp1])
      · rename_i e rest hq
        cases hs
        intro i hi
        by_cases hso : e.selOnly = true
        · obtain ⟨sel, he⟩ := handleUser_selOnly ({ s with queue := rest } : St α κ) e hso
          rw [he]
        · have kp : (killMatcher ({ s with queue := rest } : St α κ)).pool = s.pool :=
            (killMatcher_fields _).2.1
          cases e with
          | setQuery q' =>
            simp only [handleUser]
            rw [hrestart _ i (by show i < (killMatcher _).pool.reset.pool.length; rw [kp]; exact hi)]
            show (killMatcher _).pool.reset.pool[i]? = _
            rw [kp]; rfl
          | setCmd rn src => exact absurd ⟨rfl, hq⟩ (hnc rd rn src rest)
          | accept => rfl
          | abort => rfl
          | toggle _ => simp [UserEv.selOnly] at hso
          | selectAll => simp [UserEv.selOnly] at hso
          | toggleAll => simp [UserEv.selOnly] at hso
          | deselectAll => simp [UserEv.selOnly] at hso
          | other => simp [UserEv.selOnly] at hso

/-- toggling the same key twice restores membership of every key -/
theorem c10s_toggle_twice (sel : List (Nat × Nat)) (k x : Nat × Nat) :
    x ∈ toggleKey (toggleKey sel k) k ↔ x ∈ sel := by
  unfold toggleKey
  by_cases h : sel.contains k = true
  · have hk : k ∈ sel := by simpa using h
    have h2 : (sel.filter (· != k)).contains k = false := by
      simp [List.contains_iff_mem, List.mem_filter]
    simp only [h, if_true, h2, Bool.false_eq_true, if_false, List.mem_append, List.mem_filter,
      List.mem_singleton]
    constructor
    · rintro (⟨hx, _⟩ | rfl)
      · exact hx
      · exact hk
    · intro hx
      by_cases hxk : x = k
      · right; exact hxk
      · left; exact ⟨hx, by simpa using hxk⟩
  · have h' : sel.contains k = false := by simpa using h
    have hk : k ∉ sel := by simpa using h'
    have h2 : (sel ++ [k]).contains k = true := by simp
    simp only [h', Bool.false_eq_true, if_false, h2, if_true, List.mem_filter, List.mem_append,
      List.mem_singleton]
    constructor
    · rintro ⟨hx | hx, hne⟩
      · exact hx
      · simp [hx] at hne
    · intro hx
      refine ⟨Or.inl hx, ?_⟩
      have : x ≠ k := fun e => hk (e ▸ hx)
      simpa using this

end SkimModel.Session
