/-
C09 — the cursor always designates an existing row inside the viewport.
Property theorems only (vocabulary in `Spec/SelCursor.lean`, helper lemmas in `Lemmas/SelCursor.lean`).
The model (`Model/SelCursor.lean`) is the FIXED `src/selection.rs`; every statement is for all states /
all event histories, both layouts, no bound on list size, height or step.
-/
import SkimModel.Lemmas.SelCursor
namespace SkimModel.SelCursor

/-! ### 1. the cursor designates an existing result — all histories -/

/-- every single event keeps "non-empty list ⇒ item_cursor + line_cursor < len" -/
theorem c09_step_valid (s : Cur) (e : Ev) (hv : Valid s) : Valid (step s e) := by
  cases e with
  | append k => exact (appendItems_spec s k).2.2.2.1
  | clear => intro h; exact absurd h (Nat.lt_irrefl 0)
  | draw sh =>
    obtain ⟨h1, h2, h3, _, _⟩ := draw_spec s sh
    intro hn
    show (draw s sh).ic + (draw s sh).lc < (draw s sh).n
    rw [h1, h2, h3]; rw [show (step s (.draw sh)).n = (draw s sh).n from rfl, h3] at hn
    exact hv hn
  | _ => exact moveLine_valid _ _ hv

/-- validity is an invariant of every history from every valid state -/
theorem c09_run_valid (evs : List Ev) : ∀ s : Cur, Valid s → Valid (run s evs) := by
  induction evs with
  | nil => intro s hv; exact hv
  | cons e evs ih => intro s hv; exact ih (step s e) (c09_step_valid s e hv)

/-- **Main invariant.** After ANY event history from a fresh `Selection` (either layout), a non-empty list
    has `item_cursor + line_cursor < len`: the cursor designates an existing result. -/
theorem c09_valid (rev : Bool) (evs : List Ev) :
    0 < (run (Cur.init rev) evs).n →
      (run (Cur.init rev) evs).ic + (run (Cur.init rev) evs).lc < (run (Cur.init rev) evs).n :=
  c09_run_valid evs (Cur.init rev) (fun h => absurd h (Nat.lt_irrefl 0))

/-- After any history `get_current_item()` is `Some(the designated index)` on a non-empty list, and the
    lookups of `act_toggle` / `get_selected_indices_and_items` never reach their
    `panic!("failed to get item")` — including before the first draw and with an empty list. -/
theorem c09_never_panics (rev : Bool) (evs : List Ev) :
    (run (Cur.init rev) evs).getOk = true ∧
    (0 < (run (Cur.init rev) evs).n →
      (run (Cur.init rev) evs).currentItem = some (run (Cur.init rev) evs).cursor) := by
  have hv := c09_valid rev evs
  generalize run (Cur.init rev) evs = s at hv
  unfold Cur.getOk Cur.currentItem Cur.cursor
  constructor
  · by_cases h0 : s.n = 0
    · simp [h0]
    · have : s.ic + s.lc < s.n := hv (by omega)
      simp [this]
  · intro hn
    simp [hv hn]

/-! ### 2. inside the window unless the window has shrunk since the last move -/

theorem c09_stepW_inv (st : Cur × Bool) (e : Ev) (h : st.2 = false → InWindow st.1) :
    (stepW st e).2 = false → InWindow (stepW st e).1 := by
  cases e with
  | append k => intro _; exact (appendItems_spec st.1 k).2.2.2.2.1
  | clear =>
    intro hf
    have : st.2 = false := by simpa [stepW, Ev.isMove, step, clear] using hf
    exact h this
  | draw sh =>
    intro hf
    obtain ⟨_, h2, _, _, h5⟩ := draw_spec st.1 sh
    simp only [stepW, Ev.isMove, step, Bool.false_eq_true, if_false] at hf
    have hge : ¬ (draw st.1 sh).h < st.1.h := by
      intro hlt; simp [hlt] at hf
    have hw : InWindow st.1 := by
      apply h; simpa [hge] using hf
    show (draw st.1 sh).lc < (draw st.1 sh).H
    unfold InWindow Cur.H at *
    omega
  | _ => intro _; exact moveLine_inWindow _ _

theorem c09_runW (evs : List Ev) : ∀ st : Cur × Bool, (st.2 = false → InWindow st.1) →
    (evs.foldl stepW st).1 = run st.1 evs ∧
    ((evs.foldl stepW st).2 = false → InWindow (evs.foldl stepW st).1) := by
  induction evs with
  | nil => intro st h; exact ⟨rfl, h⟩
  | cons e evs ih =>
    intro st h
    have := ih (stepW st e) (c09_stepW_inv st e h)
    simpa [List.foldl_cons, run, stepW] using this

/-- **In-window.** Run any history and track the flag "some draw has stored a smaller height since the
    last move event" (`runW`).  Whenever the flag is down the cursor row is inside the window:
    `line_cursor < height` (an unknown height counting as 1). -/
theorem c09_in_window (rev : Bool) (evs : List Ev) :
    (runW (Cur.init rev) evs).1 = run (Cur.init rev) evs ∧
    ((runW (Cur.init rev) evs).2 = false → InWindow (run (Cur.init rev) evs)) := by
  have h := c09_runW evs (Cur.init rev, false) (fun _ => by unfold InWindow Cur.H Cur.init; simp)
  exact ⟨h.1, fun hf => h.1 ▸ h.2 hf⟩

/-- A move puts the cursor row into the window from ANY state (even a shrunk one), and it stays
    there as long as no draw happens (appends, clears, further moves). -/
theorem c09_in_window_after_move (s : Cur) (e : Ev) (he : e.isMove = true) (tail : List Ev)
    (hnd : ∀ sh, Ev.draw sh ∉ tail) : InWindow (run (step s e) tail) := by
  have h0 : InWindow (step s e) := by
    cases e <;> first | exact moveLine_inWindow _ _ | simp [Ev.isMove] at he
  generalize step s e = t at h0
  induction tail generalizing t with
  | nil => exact h0
  | cons a tl ih =>
    apply ih (fun sh hm => hnd sh (List.mem_cons_of_mem _ hm))
    cases a with
    | append k => exact (appendItems_spec t k).2.2.2.2.1
    | clear => exact h0
    | draw sh => exact absurd List.mem_cons_self (hnd sh)
    | _ => exact moveLine_inWindow _ _

/-- A purely syntactic sufficient condition: if the heights of the draws of a history never decrease, the
    cursor row is inside the window at the end (for the fresh state: `c09_in_window_growing_init`). -/
theorem c09_in_window_growing (evs : List Ev) : ∀ (s : Cur) (m : Nat), InWindow s → s.h ≤ m →
    drawsGrow m evs → InWindow (run s evs) := by
  induction evs with
  | nil => intro s m hw _ _; exact hw
  | cons e evs ih =>
    intro s m hw hm hg
    cases e with
    | draw sh =>
      obtain ⟨hle, hg'⟩ := hg
      obtain ⟨_, h2, _, _, h5⟩ := draw_spec s sh
      apply ih (step s (.draw sh)) sh _ _ hg'
      · show (draw s sh).lc < (draw s sh).H
        unfold InWindow Cur.H at *
        omega
      · show (draw s sh).h ≤ sh
        omega
    | append k =>
      exact ih _ m (appendItems_spec s k).2.2.2.2.1 (by rw [show (step s (.append k)).h = s.h from (appendItems_spec s k).2.1]; exact hm) hg
    | clear => exact ih _ m hw hm hg
    | _ => exact ih _ m (moveLine_inWindow _ _) hm hg

theorem c09_in_window_growing_init (rev : Bool) (evs : List Ev) (hg : drawsGrow 0 evs) :
    InWindow (run (Cur.init rev) evs) :=
  c09_in_window_growing evs (Cur.init rev) 0 (by unfold InWindow Cur.H Cur.init; simp) (Nat.le_refl 0) hg

/-! ### 3. moving by k rows changes the index by exactly k, clamped — both layouts -/

/-- **Exact movement.** `act_move_line_cursor(d)` on a non-empty list with a valid cursor moves the
    designated index by exactly `d` (towards larger indices in the bottom-up layout, smaller ones in the
    reverse layout), clamped to the first and last result; the list is untouched.  No assumption on the
    height: it also holds before the first draw and after the window shrank. -/
theorem c09_exact_k (s : Cur) (d : Int) (hn : 0 < s.n) (hv : Valid s) :
    ((moveLine s d).cursor : Int) = clamp 0 ((s.n : Int) - 1) ((s.cursor : Int) + s.dir d) ∧
    (moveLine s d).n = s.n :=
  ⟨moveLine_cursor s d hn (hv hn), rfl⟩

theorem c09_up (s : Cur) (k : Int) (hn : 0 < s.n) (hv : Valid s) :
    ((step s (.up k)).cursor : Int) = clamp 0 ((s.n : Int) - 1) ((s.cursor : Int) + s.dir k) :=
  (c09_exact_k s k hn hv).1

theorem c09_down (s : Cur) (k : Int) (hn : 0 < s.n) (hv : Valid s) :
    ((step s (.down k)).cursor : Int) = clamp 0 ((s.n : Int) - 1) ((s.cursor : Int) - s.dir k) := by
  have := (c09_exact_k s (-k) hn hv).1
  rw [dir_neg] at this
  exact this

/-- **Page.** Once the list has been drawn (`0 < height`), page-up / page-down `k` move by exactly
    `(height - 1) * k` rows, clamped. -/
theorem c09_page (s : Cur) (k : Int) (hn : 0 < s.n) (hv : Valid s) (hd : 0 < s.h) :
    ((step s (.pageUp k)).cursor : Int)
      = clamp 0 ((s.n : Int) - 1) ((s.cursor : Int) + s.dir (((s.h : Int) - 1) * k)) ∧
    ((step s (.pageDown k)).cursor : Int)
      = clamp 0 ((s.n : Int) - 1) ((s.cursor : Int) - s.dir (((s.h : Int) - 1) * k)) := by
  have hH := H_of_drawn s hd
  constructor
  · rw [← hH]
    exact (c09_exact_k s (((s.H : Int) - 1) * k) hn hv).1
  · have := (c09_exact_k s ((1 - (s.H : Int)) * k) hn hv).1
    have e : s.dir ((1 - (s.H : Int)) * k) = -(s.dir (((s.H : Int) - 1) * k)) := by
      rw [← dir_neg, ← Int.neg_mul, Int.neg_sub]
    rw [e, ← Int.sub_eq_add_neg] at this
    rw [← hH]
    exact this

/-- **Half page.** Once drawn, half-page-up / half-page-down `k` move by exactly `((height - 1) * k) / 2` rows with the
    division truncating toward zero (`Int.tdiv`, Rust's `/` on `i32`), clamped. -/
theorem c09_half_page (s : Cur) (k : Int) (hn : 0 < s.n) (hv : Valid s) (hd : 0 < s.h) :
    ((step s (.halfUp k)).cursor : Int)
      = clamp 0 ((s.n : Int) - 1) ((s.cursor : Int) + s.dir (Int.tdiv (((s.h : Int) - 1) * k) 2)) ∧
    ((step s (.halfDown k)).cursor : Int)
      = clamp 0 ((s.n : Int) - 1) ((s.cursor : Int) - s.dir (Int.tdiv (((s.h : Int) - 1) * k) 2)) := by
  have hH := H_of_drawn s hd
  constructor
  · rw [← hH]
    exact (c09_exact_k s (Int.tdiv (((s.H : Int) - 1) * k) 2) hn hv).1
  · have := (c09_exact_k s (Int.tdiv ((1 - (s.H : Int)) * k) 2) hn hv).1
    have e : s.dir (Int.tdiv ((1 - (s.H : Int)) * k) 2) = -(s.dir (Int.tdiv (((s.H : Int) - 1) * k) 2)) := by
      rw [← dir_neg, ← Int.neg_tdiv, ← Int.neg_mul, Int.neg_sub]
    rw [e, ← Int.sub_eq_add_neg] at this
    rw [← hH]
    exact this

/-- **All move events at once**, in the form the driver's verdict evaluates on the implementation's answers:
    if event `e` asks for `k` rows (`askedRows`, with the height counted as `H`), the designated index
    becomes `clamp 0 (n-1) (index ± k)`. -/
theorem c09_asked_rows (s : Cur) (e : Ev) (k : Int) (hn : 0 < s.n) (hv : Valid s)
    (hk : askedRows s.H e = some k) :
    ((step s e).cursor : Int) = clamp 0 ((s.n : Int) - 1) ((s.cursor : Int) + s.dir k) := by
  have neg1 : ∀ x : Int, (1 - (s.H : Int)) * x = -(((s.H : Int) - 1) * x) := by
    intro x; rw [← Int.neg_mul, Int.neg_sub]
  cases e with
  | up a => cases hk; exact (c09_exact_k s _ hn hv).1
  | down a => cases hk; exact (c09_exact_k s _ hn hv).1
  | pageUp a => cases hk; exact (c09_exact_k s _ hn hv).1
  | pageDown a =>
    cases hk
    have := (c09_exact_k s ((1 - (s.H : Int)) * a) hn hv).1
    have e : s.dir ((1 - (s.H : Int)) * a) = s.dir (-(((s.H : Int) - 1) * a)) := by rw [neg1]
    rw [e] at this; exact this
  | halfUp a => cases hk; exact (c09_exact_k s _ hn hv).1
  | halfDown a =>
    cases hk
    have := (c09_exact_k s (Int.tdiv ((1 - (s.H : Int)) * a) 2) hn hv).1
    have e : s.dir (Int.tdiv ((1 - (s.H : Int)) * a) 2) = s.dir (-(Int.tdiv (((s.H : Int) - 1) * a) 2)) := by
      rw [neg1, Int.neg_tdiv]
    rw [e] at this; exact this
  | _ => cases hk

/-- Moves never change the list, the stored height or the layout. -/
theorem c09_move_frame (s : Cur) (e : Ev) (he : e.isMove = true) :
    (step s e).n = s.n ∧ (step s e).h = s.h ∧ (step s e).rev = s.rev := by
  cases e <;> first | exact ⟨rfl, rfl, rfl⟩ | simp [Ev.isMove] at he

/-! ### 4. row clicks and the drawn pointer -/

/-- **Click.** A click on screen row `r` of the window keeps the scroll offset and puts the cursor on the
    window row painted there (`r` in the reverse layout, `H - 1 - r` bottom-up), or on the last result
    if that row is blank. -/
theorem c09_row (s : Cur) (r : Nat) (hn : 0 < s.n) (hv : Valid s) (hr : r < s.H) :
    (step s (.row r)).ic = s.ic ∧
    (step s (.row r)).lc = min (if s.rev then r else s.H - 1 - r) (s.n - 1 - s.ic) := by
  have hv := hv hn
  show (moveRaw s (rowDiff s r)).1.toNat = s.ic ∧ (moveRaw s (rowDiff s r)).2.toNat = _
  unfold moveRaw rowDiff
  cases s.rev <;> simp only [Bool.false_eq_true, if_true, if_false] <;> split <;> (try split) <;>
    simp only [] <;> omega

/-- A click on a row that shows an item selects exactly that item. -/
theorem c09_row_selects_painted_item (s : Cur) (r x : Nat) (hn : 0 < s.n) (hv : Valid s)
    (hp : itemAtRow s s.H r = some x) : (step s (.row r)).cursor = x := by
  dsimp only [itemAtRow] at hp
  by_cases hc : r < s.H ∧ (if s.rev then r else s.H - 1 - r) < rowsDrawn s s.H
  · rw [if_pos hc] at hp
    obtain ⟨h1, h2⟩ := c09_row s r hn hv hc.1
    unfold Cur.cursor
    rw [h1, h2]
    have hx : s.ic + (if s.rev then r else s.H - 1 - r) = x := Option.some.inj hp
    have := hc.2
    unfold rowsDrawn at this
    omega
  · rw [if_neg hc] at hp; cases hp

/-- **Pointer.** Drawing a valid state on a canvas at least as high as the cursor row paints the pointer
    `>` on exactly one row, that row is on the canvas, and the item painted there is the designated one. -/
theorem c09_pointer (s : Cur) (sh : Nat) (hn : 0 < s.n) (hv : Valid s) (hw : s.lc < sh) :
    pointerRow s sh = some (screenRow s sh s.lc) ∧ screenRow s sh s.lc < sh ∧
    itemAtRow s sh (screenRow s sh s.lc) = some s.cursor ∧
    (∀ r, itemAtRow s sh r = some s.cursor → r = screenRow s sh s.lc) := by
  have hv := hv hn
  have hrd : s.lc < rowsDrawn s sh := by unfold rowsDrawn; omega
  unfold pointerRow itemAtRow screenRow Cur.cursor
  simp only [hrd, if_true]
  cases s.rev <;> simp only [Bool.false_eq_true, if_true, if_false]
  · refine ⟨trivial, by omega, ?_, ?_⟩
    · have : sh - 1 - (sh - 1 - s.lc) = s.lc := by omega
      rw [this]; simp [hrd]; omega
    · intro r; split
      · intro h; have : s.ic + (sh - 1 - r) = s.ic + s.lc := by simpa using h
        omega
      · simp
  · refine ⟨trivial, hw, ?_, ?_⟩
    · simp [hrd, hw]
    · intro r; split
      · intro h; have : s.ic + r = s.ic + s.lc := by simpa using h
        omega
      · simp

/-- Drawing changes nothing but the stored height, and stores only a height ≥ 1 with an item on row 0. -/
theorem c09_draw_frame (s : Cur) (sh : Nat) :
    (step s (.draw sh)).ic = s.ic ∧ (step s (.draw sh)).lc = s.lc ∧ (step s (.draw sh)).n = s.n ∧
    ((step s (.draw sh)).h = s.h ∨ ((step s (.draw sh)).h = sh ∧ 1 ≤ sh ∧ s.ic < s.n)) := by
  obtain ⟨a, b, c, _, d⟩ := draw_spec s sh
  exact ⟨a, b, c, d⟩

/-- New results leave a valid cursor inside the window exactly where it was (the fix-up of
    `append_sorted_items` acts only when needed); in every case the result is valid and in the window. -/
theorem c09_append (s : Cur) (k : Nat) :
    (step s (.append k)).n = s.n + k ∧ Valid (step s (.append k)) ∧ InWindow (step s (.append k)) ∧
    (s.ic + s.lc < s.n → InWindow s → (step s (.append k)).ic = s.ic ∧ (step s (.append k)).lc = s.lc) := by
  obtain ⟨a, _, _, b, c, d⟩ := appendItems_spec s k
  exact ⟨a, b, c, d⟩

/-! ### 5. no event is partial -/

/-- The two `as usize` casts at the end of `act_move_line_cursor` never see a negative value (the model's
    `Int.toNat` loses nothing), for every state and every `diff`. -/
theorem c09_casts_exact (s : Cur) (d : Int) :
    0 ≤ (moveRaw s d).1 ∧ 0 ≤ (moveRaw s d).2 ∧
    ((moveLine s d).ic : Int) = (moveRaw s d).1 ∧ ((moveLine s d).lc : Int) = (moveRaw s d).2 := by
  obtain ⟨h1, h2, _, _⟩ := moveRaw_spec s d
  refine ⟨h1, h2, ?_, ?_⟩
  · show ((moveRaw s d).1.toNat : Int) = _; omega
  · show ((moveRaw s d).2.toNat : Int) = _; omega

/-- The `usize` subtractions of `append_sorted_items` (`max(min(len, h), 1) - 1`, `max(len, h) - h`) and of
    `draw` (`screen_height - 1 - line_cursor`, and the `items.get(item_idx)` of every painted row) are guarded:
    none can underflow / fail, whatever the state. -/
theorem c09_no_underflow (s : Cur) (len sh i : Nat) :
    1 ≤ max (min len s.H) 1 ∧ s.H ≤ max len s.H ∧
    (i < rowsDrawn s sh → i + 1 ≤ sh ∧ s.ic + i < s.n) := by
  unfold rowsDrawn
  omega

/-- **i32 range.** If list size, cursors and height are below 2^29 and `|diff| ≤ 2^29`, every value that
    `act_move_line_cursor(diff)` computes fits in an `i32`: no overflow (a panic in a debug build, a silent
    wrap-around in a release build).  For the page arms `diff` is the product `(height - 1) * k` (resp. its
    half), so the side condition is `|(height - 1) * k| ≤ 2^29`. -/
theorem c09_i32_range (s : Cur) (d : Int) (B : Int) (hB : B = 536870912)
    (h1 : (s.ic : Int) < B) (h2 : (s.lc : Int) < B) (h3 : (s.n : Int) < B) (h4 : (s.H : Int) < B)
    (h5 : -B ≤ d ∧ d ≤ B) : ∀ v ∈ moveI32Values s d, I32 v := by
  have hH := H_pos s
  subst hB
  intro v hv
  unfold I32
  unfold moveI32Values at hv
  have hd : -536870912 ≤ (if s.rev then -d else d) ∧ (if s.rev then -d else d) ≤ 536870912 := by
    cases s.rev <;> simp <;> omega
  generalize (if s.rev then -d else d) = d' at hv hd
  simp only [List.mem_append, List.mem_cons, List.not_mem_nil, or_false] at hv
  rcases hv with hv | hv
  · omega
  · by_cases c1 : (s.lc : Int) + d' ≥ s.H
    · rw [if_pos c1] at hv
      simp only [List.mem_cons, List.not_mem_nil, or_false] at hv
      omega
    · rw [if_neg c1] at hv
      by_cases c2 : (s.lc : Int) + d' < 0
      · rw [if_pos c2] at hv
        simp only [List.mem_cons, List.not_mem_nil, or_false] at hv
        omega
      · rw [if_neg c2] at hv
        simp only [List.mem_cons, List.not_mem_nil, or_false] at hv
        omega

/-- the transcription `moveI32Values` ends in the values the model returns -/
theorem c09_i32_values_cover (s : Cur) (d : Int) :
    (moveRaw s d).1 ∈ moveI32Values s d ∧ (moveRaw s d).2 ∈ moveI32Values s d := by
  unfold moveRaw moveI32Values
  generalize (if s.rev then -d else d) = d'
  simp only [List.mem_append]
  by_cases c1 : (s.lc : Int) + d' ≥ s.H
  · simp only [if_pos c1]; simp
  · by_cases c2 : (s.lc : Int) + d' < 0
    · simp only [if_neg c1, if_pos c2]; simp
    · simp only [if_neg c1, if_neg c2]; simp

/-! ### 6. the model's event table is the one in the source -/

open SkimModel.Generated.SelArms in
/-- **Source tie for the event arms.** `Generated/SelArms.lean` is re-extracted from `src/selection.rs` on
    every run: each of the six cursor-moving arms of `EventHandler::handle` found there hands exactly the
    model's `diff` to `act_move_line_cursor`; all six events are present; the cursor arithmetic reads the
    height only through `known_height()` whose floor is 1 (the model's `Cur.H`). -/
theorem c09_arms_match_source :
    (∀ a ∈ arms, ∀ (s : Cur) (k : Int), ∃ e, armEvent a.event k = some e ∧
        evDiff s e = some (armDiff a s.H k) ∧ step s e = moveLine s (armDiff a s.H k)) ∧
    arms.map (·.event) =
      ["EvActUp", "EvActDown", "EvActHalfPageDown", "EvActHalfPageUp", "EvActPageDown", "EvActPageUp"] ∧
    heightFloor = 1 ∧ rawHeightReads = 0 ∧ (∀ s : Cur, s.H = max s.h heightFloor) := by
  refine ⟨?_, by decide, by decide, by decide, fun _ => rfl⟩
  intro a ha
  simp only [arms, List.mem_cons, List.not_mem_nil, or_false] at ha
  rcases ha with rfl | rfl | rfl | rfl | rfl | rfl <;> intro s k <;> exact ⟨_, rfl, rfl, rfl⟩

/-! ### 7. non-vacuity: concrete non-trivial states and histories meeting the hypotheses above -/

/-- 20 results, window of 10 rows scrolled by 5, cursor on the top row of the window (index 14) -/
def exMid (rev : Bool) : Cur := { ic := 5, lc := 9, h := 10, n := 20, rev := rev }
/-- the same cursor after the window shrank to 5 rows: valid, but the cursor row is outside the window -/
def exShrunk : Cur := { ic := 5, lc := 9, h := 5, n := 20 }
/-- the history of the second defect: shrink, clear, fewer results -/
def exHist : List Ev := [.draw 10, .append 20, .draw 10, .up 14, .draw 5, .clear, .append 12]

-- c09_step_valid / c09_run_valid / c09_exact_k / c09_up / c09_down: hypotheses hold, conclusion is not trivial
example : 0 < (exMid false).n ∧ Valid (exMid false) ∧ (step (exMid false) (.up 3)).cursor = 17 := by decide
example : Valid (exMid true) ∧ (step (exMid true) (.up 3)).cursor = 11 ∧ (step (exMid true) (.down 100)).cursor = 19 := by
  decide
example : Valid exShrunk ∧ ¬ InWindow exShrunk ∧ (step exShrunk (.down 1)).cursor = 13 ∧ InWindow (step exShrunk (.down 1)) := by
  decide
-- c09_valid / c09_never_panics on the history that used to panic; before the first draw
example : (run (Cur.init false) exHist).n = 12 ∧ (run (Cur.init false) exHist).cursor = 9 := by decide
example : (run (Cur.init false) [.append 1, .up 1]).cursor = 0 ∧ (run (Cur.init false) [.append 3, .up 1]).cursor = 1 := by
  decide
-- c09_in_window: the flag is down after a non-trivial history, and it is up exactly in the shrunk situation,
-- where the conclusion really fails (so the hypothesis is needed)
example : (runW (Cur.init false) [.append 20, .draw 10, .up 14, .draw 12, .clear, .append 3]).2 = false := by decide
example : (runW (Cur.init false) [.append 20, .draw 10, .up 14, .draw 5]).2 = true ∧
    ¬ InWindow (run (Cur.init false) [.append 20, .draw 10, .up 14, .draw 5]) := by decide
-- c09_in_window_growing_init
example : drawsGrow 0 [.append 20, .draw 5, .up 14, .draw 5, .clear, .draw 7, .append 3, .draw 9] := by
  simp [drawsGrow]
-- c09_asked_rows
example : askedRows (exMid false).H (.halfDown 3) = some (-13) := by decide
-- c09_in_window_after_move
example : (Ev.pageUp 1).isMove = true ∧ ∀ sh, Ev.draw sh ∉ [Ev.clear, Ev.append 3, Ev.down 1] := by
  refine ⟨rfl, ?_⟩; intro sh h; simp at h
-- c09_page / c09_half_page: drawn state; a page is 9 rows, half a page 4 (9/2 truncated), -4 for k = -1
example : 0 < (exMid false).h ∧ (step { exMid false with ic := 0, lc := 0 } (.pageUp 1)).cursor = 9 ∧
    (step { exMid false with ic := 0, lc := 0 } (.halfUp 1)).cursor = 4 ∧
    (step (exMid false) (.halfUp (-1))).cursor = 10 ∧ (step (exMid false) (.halfDown 1)).cursor = 10 := by decide
-- c09_row / c09_row_selects_painted_item / c09_pointer
example : 3 < (exMid false).H ∧ itemAtRow (exMid false) (exMid false).H 3 = some 11 ∧
    (step (exMid false) (.row 3)).cursor = 11 := by decide
example : (exMid true).lc < 10 ∧ pointerRow (exMid true) 10 = some 9 ∧ pointerRow (exMid false) 10 = some 0 := by decide
-- c09_append: the cursor is kept when valid and inside the window
example : (exMid false).ic + (exMid false).lc < (exMid false).n ∧ InWindow (exMid false) := by decide
-- c09_i32_range
example : ((exMid false).ic : Int) < 536870912 ∧ ((exMid false).H : Int) < 536870912 := by decide

end SkimModel.SelCursor
