import SkimModel.Model.Preview
import SkimModel.Generated.DedupeFns
/-!
The condition under which `Previewer::on_item_change` does NOT send a request, as TRANSLATED from src/previewer.rs
(`Generated/DedupeFns.lean`, rewritten from the source on every run), is the one the C20 model's `onItemChange` uses: a request is
skipped iff it is not forced and neither the item, the query, the command query nor the selection COUNT differs from the
remembered request.
-/
namespace SkimModel.Preview
open SkimModel.Generated

theorem dedupe_condition_is_model (c : Client) (k : Key) (force : Bool) :
    DedupeFns.skip force (optChanged c.prev.item k.item) (optChanged c.prev.query k.query)
        (optChanged c.prev.cmdQuery k.cmdQuery) (c.prev.nsel != k.nsel) ↔
      (onItemChange c k force).2 = false := by
  unfold DedupeFns.skip onItemChange
  cases force <;> cases optChanged c.prev.item k.item <;> cases optChanged c.prev.query k.query <;>
    cases optChanged c.prev.cmdQuery k.cmdQuery <;> cases (c.prev.nsel != k.nsel) <;> simp

theorem dedupe_shape : DedupeFns.flagsAndUpdateShapeOk = true := by decide

end SkimModel.Preview
