import SkimModel.Model.Pool
import SkimModel.Generated.PoolFns
/-!
The operations of `ItemPool` as TRANSLATED statement by statement from src/item.rs (`Generated/PoolFns.lean`, rewritten from the
source on every run) are, for all inputs, the operations of the C15 model (`Model/Pool.lean`) — the sequential object all of C15's
hand-off theorems (and, through the Session model, C01 / C14) are about.  `pool_lock_first`: every writing operation takes the pool
lock before it touches a counter (the premise of treating the operations as atomic).
Slices `&v[..n]` / `&v[n..]` are translated with a sentinel for the out-of-range case (a Rust panic), so the equalities below also say
that no slice of `append` / `take` can go out of range (for `take` under the pool invariant `taken ≤ len`).
-/
namespace SkimModel.Pool
open SkimModel.Generated
variable {α : Type}

theorem pool_append_is_model (p : Pool α) (items : List α) :
    PoolFns.append p.nres p.reserved p.pool p.taken p.length items =
      ((p.append items).1.reserved, (p.append items).1.pool, (p.append items).1.taken, (p.append items).1.length, (p.append items).2) := by
  unfold PoolFns.append Pool.append PoolFns.lappend PoolFns.ltake PoolFns.ldrop
  (try dsimp only)
  (repeat' split) <;> first | rfl | (exfalso; omega) | (simp_all; done) | (simp_all; omega)

theorem pool_take_is_model (p : Pool α) (h : p.taken ≤ p.pool.length) :
    PoolFns.take p.nres p.reserved p.pool p.taken p.length = (p.take.1.taken, p.take.2.1) ∧
    PoolFns.guardSlice p.pool (PoolFns.take p.nres p.reserved p.pool p.taken p.length).2 = p.take.2.2 ∧
    p.take.1.pool = p.pool ∧ p.take.1.reserved = p.reserved ∧ p.take.1.length = p.length := by
  unfold PoolFns.take PoolFns.guardSlice PoolFns.ldrop Pool.take
  refine ⟨?_, ?_, rfl, rfl, rfl⟩
  · first | rfl | (simp only [Prod.mk.injEq]; omega)
  · (try dsimp only)
    (repeat' split) <;> first | rfl | (exfalso; omega) | (simp_all; done)

theorem pool_reset_is_model (p : Pool α) :
    PoolFns.reset p.nres p.reserved p.pool p.taken p.length = (p.reset.reserved, p.reset.pool, p.reset.taken, p.reset.length) := by
  unfold PoolFns.reset Pool.reset
  first | rfl | (repeat' split) <;> simp_all

theorem pool_clear_is_model (p : Pool α) :
    PoolFns.clear p.nres p.reserved p.pool p.taken p.length = (p.clear.reserved, p.clear.pool, p.clear.taken, p.clear.length) := by
  unfold PoolFns.clear Pool.clear PoolFns.lnil
  first | rfl | (repeat' split) <;> simp_all

theorem pool_readers_are_model (p : Pool α) :
    PoolFns.len p.taken p.length = p.len ∧ PoolFns.numTaken p.taken p.length = p.numTaken ∧
    (p.taken ≤ p.length → p.numNotTaken = some (PoolFns.numNotTaken p.taken p.length)) := by
  unfold PoolFns.len PoolFns.numTaken PoolFns.numNotTaken Pool.len Pool.numTaken Pool.numNotTaken
  refine ⟨rfl, rfl, ?_⟩
  intro h; simp [h]

theorem pool_lock_first : ∀ e ∈ PoolFns.poolLockFirst, e.2 = true := by decide

end SkimModel.Pool
