/-
C06 — lines in, lines out: ingestion and output are lossless and order-preserving.
Property theorems only (helper lemmas: `Lemmas/Reader.lean`; model: `Model/Reader.lean`;
spec: `Spec/Reader.lean`).

Reading guide.  `readLoop t reads` is the reader loop of item_reader.rs (read_until + terminator
stripping, after the C06 fix) on a source that hands out the stream in the slices `reads`
(an empty slice = end of input).  `specLines t bs` is the declarative split of the flat stream.
All theorems hold for EVERY terminator byte `t` (newline mode: `t = 10`, `--read0`: `t = 0`),
every byte stream and every cut into reads; none needs the property's exclusion
"CR or NUL directly before a terminator of the other kind" (the fixed code is determinate there:
the byte stays in the line).  `Fns` (from_utf8_lossy, ANSI stripping, field transformation) and the
match predicate are universally quantified parameters.
-/
import SkimModel.Lemmas.Reader
namespace SkimModel.Reader

/-! ### 1. the reader loop does not depend on how the stream arrives -/

/-- Chunking lemma: whatever slices `fill_buf` hands out (1 byte at a time, terminators split
    across reads, lines longer than any buffer), the loop yields the lines of the concatenation
    of the slices that precede the first empty one (= end of input). -/
theorem c06_chunking (t : UInt8) (reads : Src) :
    readLoop t reads = lines t (live reads).flatten :=
  readLoop_eq t reads

/-- ... in particular, for a source that delivers the whole stream: the lines of the stream. -/
theorem c06_chunking_complete (t : UInt8) (reads : Src) (h : ∀ a ∈ reads, a ≠ []) :
    readLoop t reads = lines t reads.flatten := by
  rw [readLoop_eq, live_eq_self reads h]

example : ∀ a ∈ ([[97, 13], [10, 98], [0]] : Src), a ≠ [] := by decide

/-- two different cuts of the same stream give the same items -/
theorem c06_cut_independent (t : UInt8) (r₁ r₂ : Src) (h₁ : ∀ a ∈ r₁, a ≠ []) (h₂ : ∀ a ∈ r₂, a ≠ [])
    (h : r₁.flatten = r₂.flatten) : readLoop t r₁ = readLoop t r₂ := by
  rw [c06_chunking_complete t r₁ h₁, c06_chunking_complete t r₂ h₂, h]

example : ([[97], [10, 98]] : Src).flatten = ([[97, 10], [98]] : Src).flatten := by decide

/-! ### 2. the loop computes the split spec -/

/-- read_until + stripping = the declarative split: every piece that was followed by a terminator
    is a line (minus the CR of a CRLF in newline mode), the unterminated tail is a line iff it is
    not empty.  No exclusion needed. -/
theorem c06_split (t : UInt8) (bs : Bytes) : lines t bs = specLines t bs :=
  lines_eq_spec t bs

/-- the loop on any complete cut of the stream yields exactly the spec lines, in order -/
theorem c06_reader_meets_spec (t : UInt8) (reads : Src) (h : ∀ a ∈ reads, a ≠ []) :
    readLoop t reads = specLines t reads.flatten := by
  rw [c06_chunking_complete t reads h, c06_split]

/-! ### 3. nothing is lost: lines + terminators rejoin to the stream -/

/-- Lossless: there is exactly one terminator (possibly the empty one for the tail) per line, and
    interleaving lines and terminators gives back the stream byte for byte. -/
theorem c06_lossless (t : UInt8) (bs : Bytes) :
    (specLines t bs).length = (specSeps t bs).length ∧
    (List.zipWith (· ++ ·) (specLines t bs) (specSeps t bs)).flatten = bs := by
  refine ⟨length_spec_seps t _, ?_⟩
  rw [specLines, specSeps, zip_spec_seps, unpieces_flatten]

/-- ... every terminator is a legal one for the mode (`t`, or CR LF in newline mode); only the
    last line may be unterminated -/
theorem c06_terminators (t : UInt8) (bs : Bytes) :
    (∀ s ∈ (specSeps t bs).dropLast, IsTerm t s) ∧ (∀ s ∈ specSeps t bs, IsTerm t s ∨ s = []) :=
  ⟨sepsOf_dropLast_terms t _, sepsOf_terms t _⟩

/-- ... and no line contains the terminator byte (so the decomposition of `c06_lossless` is the
    only one: lines are maximal) -/
theorem c06_no_terminator_inside (t : UInt8) (bs : Bytes) : ∀ l ∈ specLines t bs, t ∉ l :=
  specOf_not_mem t _ (not_mem_pieces t bs)

/-- the raw buffers returned by read_until concatenate to the stream -/
theorem c06_chunks_flatten (t : UInt8) (bs : Bytes) : (chunks t bs).flatten = bs := by
  rw [chunks_eq_unpieces, unpieces_flatten]

/-- what stripping removes from a buffer is a legal terminator or nothing -/
theorem c06_strip_removes_terminator_only (t : UInt8) (buf : Bytes) :
    ∃ sep, buf = strip t buf ++ sep ∧ (IsTerm t sep ∨ sep = []) := by
  rcases List.eq_nil_or_concat buf with h | ⟨p, x, h⟩
  · exact ⟨[], by simp [h, strip], Or.inr rfl⟩
  · by_cases hx : x = t
    · subst hx
      refine ⟨sepOf x p, ?_, Or.inl (sepOf_isTerm x p)⟩
      have h' : buf = p ++ [x] := by simpa using h
      rw [h', strip_append_term, lineOf_sepOf]
    · refine ⟨[], ?_, Or.inr rfl⟩
      have h' : buf = p ++ [x] := by simpa using h
      have hx' : (x == t) = false := by simpa using hx
      simp [h', strip, hx']

/-! ### 4. one item per line, in source order -/

/-- The items received from `of_bufread` are, in order, one per spec line, built from the lossy
    decoding of exactly that line (list equality: same number, same order, nothing dropped —
    whatever `lossy` does with invalid UTF-8 it is applied to the whole line and reading goes on). -/
theorem c06_one_item_per_line (o : Opt) (f : Fns) (reads : Src) (h : ∀ a ∈ reads, a ≠ []) :
    readItems o f reads = (specLines o.term reads.flatten).map (fun l => mkItem o f (f.lossy l)) := by
  simp only [readItems, c06_reader_meets_spec o.term reads h]

theorem c06_item_count (o : Opt) (f : Fns) (reads : Src) (h : ∀ a ∈ reads, a ≠ []) :
    (readItems o f reads).length = (specLines o.term reads.flatten).length := by
  simp [c06_one_item_per_line o f reads h]

/-- the text of an item is the line (ANSI-stripped under --ansi) unless --with-nth transforms it -/
theorem c06_item_text (o : Opt) (f : Fns) (l : Bytes) (h : o.withNth = false) :
    (mkItem o f l).text = if o.ansi then f.stripAnsi l else l := by
  cases o with
  | mk term ansi withNth nth =>
    cases ansi <;> cases withNth <;> cases nth <;> simp_all [mkItem, newDefault, Opt.isSimple, Item.text]

example : ({ ansi := true, nth := true } : Opt).withNth = false := rfl

/-! ### 5. what is printed is the original line, whatever --with-nth / --nth say -/

/-- `output()` = the original line, ANSI-stripped under --ansi; it does not mention `nth`,
    `withNth` or `transform`.  (Outside: --ansi together with --with-nth, the property's second
    exclusion, see `c06_output_ansi_withnth`.) -/
theorem c06_output_orig (o : Opt) (f : Fns) (l : Bytes) (h : ¬ (o.ansi = true ∧ o.withNth = true)) :
    (mkItem o f l).output f = if o.ansi then f.stripAnsi l else l := by
  cases o with
  | mk term ansi withNth nth =>
    cases ansi <;> cases withNth <;> cases nth <;> simp_all [mkItem, newDefault, Opt.isSimple, Item.output]

example : ¬ (({ withNth := true, nth := true } : Opt).ansi = true ∧
             ({ withNth := true, nth := true } : Opt).withNth = true) := by decide

/-- two configurations that differ only in --with-nth / --nth print the same for every line -/
theorem c06_output_independent_of_fields (o o' : Opt) (f : Fns) (l : Bytes) (ha : o.ansi = o'.ansi)
    (h : ¬ (o.ansi = true ∧ o.withNth = true)) (h' : ¬ (o'.ansi = true ∧ o'.withNth = true)) :
    (mkItem o f l).output f = (mkItem o' f l).output f := by
  rw [c06_output_orig o f l h, c06_output_orig o' f l h', ha]

example : ({ withNth := true } : Opt).ansi = ({ nth := true } : Opt).ansi := rfl

/-- --ansi with --with-nth (excluded by the property as unspecified): the code prints the raw line
    when the SHOWN text carries no colour attributes, else the stripped line — never anything else -/
theorem c06_output_ansi_withnth (o : Opt) (f : Fns) (l : Bytes) (h : o.ansi = true ∧ o.withNth = true) :
    (mkItem o f l).output f = (if f.hasAttrs (f.transform l) then f.stripAnsi l else l) := by
  simp [mkItem, newDefault, Opt.isSimple, h.1, h.2, Item.output]

example : ({ ansi := true, withNth := true } : Opt).ansi = true ∧
          ({ ansi := true, withNth := true } : Opt).withNth = true := ⟨rfl, rfl⟩

/-! ### 6. filter mode -/

/-- the printed record of a line -/
def record (o : Opt) (f : Fns) (ending : Bytes) (l : Bytes) : Bytes :=
  (mkItem o f (f.lossy l)).output f ++ ending

/-- Filter mode prints, in input order, exactly the records of the spec lines whose item matches,
    and exits with 1 iff nothing matched.  `sel` is any match predicate (the engine is C03/C04). -/
theorem c06_filter (o : Opt) (f : Fns) (sel : Item → Bool) (ending : Bytes) (reads : Src)
    (h : ∀ a ∈ reads, a ≠ []) :
    (filterMode o f sel ending reads).1 =
      (((specLines o.term reads.flatten).filter (fun l => sel (mkItem o f (f.lossy l)))).map
        (record o f ending)).flatten ∧
    ((filterMode o f sel ending reads).2 = 1 ↔
      ∀ l ∈ specLines o.term reads.flatten, sel (mkItem o f (f.lossy l)) = false) := by
  simp only [filterMode, c06_one_item_per_line o f reads h, List.filter_map, List.map_map]
  refine ⟨by rfl, ?_⟩
  simp [List.filter_eq_nil_iff]

/-- an always-true matcher (the empty query) prints every line, in order -/
theorem c06_filter_all (o : Opt) (f : Fns) (ending : Bytes) (reads : Src) (h : ∀ a ∈ reads, a ≠ []) :
    (filterMode o f (fun _ => true) ending reads).1 =
      ((specLines o.term reads.flatten).map (record o f ending)).flatten := by
  rw [(c06_filter o f (fun _ => true) ending reads h).1]
  congr 2
  exact List.filter_eq_self.mpr (fun _ _ => rfl)

/-- plain configuration (no --ansi; any --with-nth, --nth): stdout is the concatenation of
    `lossy line ++ ending` over the matching lines -/
theorem c06_filter_plain (o : Opt) (f : Fns) (sel : Item → Bool) (ending : Bytes) (reads : Src)
    (h : ∀ a ∈ reads, a ≠ []) (ha : o.ansi = false) :
    (filterMode o f sel ending reads).1 =
      (((specLines o.term reads.flatten).filter (fun l => sel (mkItem o f (f.lossy l)))).map
        (fun l => f.lossy l ++ ending)).flatten := by
  rw [(c06_filter o f sel ending reads h).1]
  congr 2
  funext l
  simp [record, c06_output_orig o f (f.lossy l) (by simp [ha]), ha]

example : ({ term := 0, withNth := true } : Opt).ansi = false := rfl

/-- with valid input (`lossy` leaves the lines alone), the empty query and no --ansi, filter mode
    with matching terminators is the identity on terminated streams' lines: stdout rejoins the
    lines with `ending` -/
theorem c06_filter_identity (o : Opt) (f : Fns) (ending : Bytes) (reads : Src)
    (h : ∀ a ∈ reads, a ≠ []) (ha : o.ansi = false) (hl : ∀ l ∈ specLines o.term reads.flatten, f.lossy l = l) :
    (filterMode o f (fun _ => true) ending reads).1 =
      ((specLines o.term reads.flatten).map (· ++ ending)).flatten := by
  rw [c06_filter_plain o f _ ending reads h ha]
  rw [List.filter_eq_self.mpr (fun _ _ => rfl)]
  congr 1
  apply List.map_congr_left
  intro l hm
  rw [hl l hm]

/-- a consumer that goes away after `k` records has seen a prefix of the full output -/
theorem c06_consumer_closes_early (o : Opt) (f : Fns) (sel : Item → Bool) (ending : Bytes) (reads : Src) (k : Nat) :
    ((((readItems o f reads).filter sel).take k).map (fun it => it.output f ++ ending)).flatten <+:
      (filterMode o f sel ending reads).1 := by
  simp only [filterMode]
  generalize (readItems o f reads).filter sel = hits
  conv => rhs; rw [← List.take_append_drop k hits]
  rw [List.map_append, List.flatten_append]
  exact List.prefix_append _ _

/-! ### 7. a source that ends early -/

/-- If the source ends after `xs` although the full stream would have been `xs ++ ys`: the buffers
    read are `done ++ [tail]` where `done` are exactly the first buffers of the full stream (the
    lines completed so far — same items, same order) and `tail`, if not empty, is the truncated
    beginning of the next one.  Nothing else is produced and nothing read is dropped. -/
theorem c06_source_ends_early (t : UInt8) (xs ys : Bytes) :
    ∃ done tail rest,
      chunks t xs = done ++ (if tail.isEmpty then [] else [tail]) ∧ t ∉ tail ∧
      chunks t (xs ++ ys) = done ++ rest ∧
      (tail ≠ [] → ∃ c cs, rest = c :: cs ∧ tail <+: c) := by
  obtain ⟨front, tail, hx, ht, hf⟩ := split_last_term t xs
  have htail : chunks t tail = if tail.isEmpty then [] else [tail] := by
    by_cases hn : tail = []
    · simp [hn, chunks]
    · have := chunks_open t tail [] ht hn
      simp only [List.append_nil, cut, chunks] at this
      simp [this, hn]
  rcases hf with hf | ⟨pre, hf⟩
  · refine ⟨[], tail, chunks t (tail ++ ys), ?_, ht, ?_, ?_⟩
    · simp [hx, hf, htail]
    · simp [hx, hf]
    · intro hn
      exact ⟨_, _, chunks_open t tail ys ht hn, List.prefix_append _ _⟩
  · refine ⟨chunks t front, tail, chunks t (tail ++ ys), ?_, ht, ?_, ?_⟩
    · rw [hx, hf, chunks_append_closed, htail]
    · rw [hx, hf, List.append_assoc (pre ++ [t]), chunks_append_closed]
    · intro hn
      exact ⟨_, _, chunks_open t tail ys ht hn, List.prefix_append _ _⟩

/-- the reader on a source that signals end of input early (an empty slice) yields the lines of what
    was delivered before — it neither aborts nor invents nor drops anything -/
theorem c06_early_eof (t : UInt8) (pre post : Src) (h : ∀ a ∈ pre, a ≠ []) :
    readLoop t (pre ++ [] :: post) = specLines t pre.flatten := by
  rw [c06_chunking, c06_split]
  rw [live_append_eof pre post h]

example : ∀ a ∈ ([[97, 10], [98]] : Src), a ≠ [] := by decide

/-! ### 8. the defect that was fixed, as a regression theorem -/

/-- an unterminated last line keeps a trailing byte that merely looks like the OTHER mode's
    terminator: nothing is stripped unless the buffer ends with the configured terminator -/
theorem c06_unterminated_kept (t : UInt8) (buf : Bytes) (h : buf.getLast? ≠ some t) : strip t buf = buf := by
  simp only [strip]
  cases hr : buf.reverse with
  | nil => rfl
  | cons x r =>
    have hb : buf = r.reverse ++ [x] := by
      have := congrArg List.reverse hr
      simpa using this
    have : (x == t) = false := by
      rw [hb] at h
      simpa using h
    simp [this]

example : ([98, 10] : Bytes).getLast? ≠ some (0 : UInt8) := by decide
example : strip 0 [98, 13, 10] = [98, 13, 10] ∧ strip 10 [98, 0] = [98, 0] ∧ strip 10 [98, 13, 10] = [98] := by decide


/-! ### 9. invalid UTF-8 is replaced, never dropped (about `lossyImpl`, the executable stand-in for
    `String::from_utf8_lossy` that the correspondence check compares with std on every case) -/

/-- every input byte is accounted for: a valid scalar is copied, a maximal invalid prefix of 1-3
    bytes becomes the 3 bytes of U+FFFD — the decoded line is never shorter than the raw line -/
theorem c06_lossy_never_drops (bs : Bytes) : bs.length ≤ (lossyImpl bs).length := by
  induction h : bs.length using Nat.strongRecOn generalizing bs with
  | _ n ih =>
    cases bs with
    | nil => simp at h; omega
    | cons b rest =>
      rw [lossyImpl]
      have hd := decode1_len b rest
      have := ih (rest.drop (decode1 b rest).2).length (by simp at h ⊢; omega) _ rfl
      simp at this h ⊢
      omega

/-- ASCII lines pass unchanged -/
theorem c06_lossy_ascii (bs : Bytes) (h : ∀ b ∈ bs, b < 0x80) : lossyImpl bs = bs := by
  induction bs with
  | nil => simp [lossyImpl]
  | cons b rest ih =>
    rw [lossyImpl]
    have hb : b < 0x80 := h b (by simp)
    have : decode1 b rest = ([b], 0) := by simp [decode1, hb]
    rw [this]
    simp [ih (fun x hx => h x (List.mem_cons_of_mem _ hx))]

example : ∀ b ∈ ([97, 0, 13, 10, 127] : Bytes), b < 0x80 := by decide

end SkimModel.Reader
