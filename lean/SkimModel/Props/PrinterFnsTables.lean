import SkimModel.Model.LinePrinter
import SkimModel.Generated.PrinterFns
import SkimModel.Lemmas.FnTactics
/-!
`LinePrinter::reset`, the branch structure of `print_char_raw` and the tab rule of `print_char` as TRANSLATED from src/util.rs
(`Generated/PrinterFns.lean`, rewritten from the source on every run) are, for all inputs, what the C11 model does.
`current_pos : i32` is the model's natural number `cur` (it starts at 0 and only grows, see Model/LinePrinter.lean).
-/
namespace SkimModel.Draw
open SkimModel.Generated SkimModel.Ansi

theorem printer_reset_is_model (p : LP) (c : Int) (sc st sp : Nat) :
    PrinterFns.reset p.col p.shift p.cwidth p.hscroll c sc st sp =
      (((LP.reset p).cur : Int), (LP.reset p).scol, (LP.reset p).start, (LP.reset p).stop) := by
  unfold PrinterFns.reset LP.reset
  try simp only [Int.ofNat_eq_natCast, Int.ofNat_zero]
  all_goals fn_eq

/-- which branch `print_char_raw` takes for a character of width `w`, how many dots it prints, the new `current_pos`
    (0 = hidden, 1 = dots, 2 = the character itself) — the model's side, written out by hand -/
def modelBranch (p : LP) (w : Nat) : Nat × Nat × Int :=
  if p.cur < p.start ∨ p.cur ≥ p.stop then (0, 0, ((p.cur + w : Nat) : Int))
  else if p.cur < p.start + 2 ∧ p.start > 0 then
    (1, min (min w (p.cur - p.start + 1)) (p.stop - p.cur), ((p.cur + w : Nat) : Int))
  else if p.stop - p.cur ≤ 2 ∧ p.textWidth > p.stop then (1, min w (p.stop - p.cur), ((p.cur + w : Nat) : Int))
  else (2, 0, ((p.cur + w : Nat) : Int))

/-- the model's `printCharRaw` is `modelBranch` acted out -/
theorem print_char_raw_branches (cw : Char → Nat) (p : LP) (ch : Char) (attr : Attr) :
    LP.printCharRaw cw p ch attr =
      (match (modelBranch p (cw ch)).1 with
       | 0 => ({ p with cur := p.cur + cw ch }, [])
       | 1 => let r := p.dots cw attr (modelBranch p (cw ch)).2.1
              ({ r.1 with cur := r.1.cur + cw ch }, r.2)
       | _ => let r := p.putCh cw ch attr
              ({ r.1 with cur := r.1.cur + cw ch }, r.2)) := by
  unfold modelBranch LP.printCharRaw
  by_cases h1 : p.cur < p.start ∨ p.cur ≥ p.stop
  · simp only [h1, if_true]
  · simp only [h1, if_false]
    by_cases h2 : p.cur < p.start + 2 ∧ p.start > 0
    · simp only [h2, and_self, if_true]
    · simp only [h2, if_false]
      by_cases h3 : p.stop - p.cur ≤ 2 ∧ p.textWidth > p.stop
      · simp only [h3, and_self, if_true]
      · simp only [h3, if_false]

/-- the TRANSLATED `print_char_raw` takes the model's branch, prints the model's number of dots and advances `current_pos` as the
    model does — for every printer state and character width -/
theorem print_char_raw_is_model (p : LP) (w : Nat) :
    PrinterFns.printCharRaw p.start p.stop p.textWidth (p.cur : Int) w = modelBranch p w := by
  unfold PrinterFns.printCharRaw modelBranch
  try simp only [Int.ofNat_eq_natCast, Int.toNat_natCast]
  all_goals fn_eq

theorem tab_rest_is_model (p : LP) :
    PrinterFns.tabRest p.tabstop (p.cur : Int) = p.tabstop - p.cur % p.tabstop := by
  unfold PrinterFns.tabRest
  try simp only [Int.toNat_natCast]
  all_goals fn_eq

end SkimModel.Draw
