import SkimModel.Props.C15
import SkimModel.Generated.SpinLock
/-!
The one theorem of C15 that is about a table re-generated from the source (the memory orderings written in src/spinlock.rs and
src/item.rs).  It lives in its own file so that properties that only use the POOL theorems of `Props/C15.lean` (the session
part of C10) do not depend on the spin-lock extractor.
-/
namespace SkimModel.SpinLock

/-- The memory orderings WRITTEN IN THE SOURCE (regenerated from src/spinlock.rs and src/item.rs on every
    run) are strong enough for the sequentially consistent model above to apply: acquiring the lock is at
    least an acquire, releasing it at least a release (so a holder's writes are visible to the next
    holder), and every pool counter access is SeqCst. -/
theorem c15_lock_orderings_ok :
    (Generated.SpinLock.lockSuccess ∈ [.acquire, .acqRel, .seqCst]) ∧
    (Generated.SpinLock.unlockSuccess ∈ [.release, .acqRel, .seqCst]) ∧
    (∀ a ∈ Generated.SpinLock.poolAtomics, a.2.2 = .seqCst) := by decide

end SkimModel.SpinLock
