import SkimModel.Model.SelSet
import SkimModel.Generated.SelOps
import SkimModel.Lemmas.FnTactics
/-!
The four selection actions of src/selection.rs, as TRANSLATED from the source on every run into (guard, scope, operation) triples
(`Generated/SelOps.lean`), ARE the actions of the C10 model: interpreting the triple of `act_toggle` gives `SelSet.toggle` for every
state, run number and cursor, and likewise for `act_toggle_all`, `act_select_all`, `act_deselect_all`.  A source change that drops
the single-selection guard, turns a toggle into an insert, acts on the cursor instead of every listed item, or keys by something
other than `(current_run_num(), item_idx)` either is not understood by the translator (NOTE, no alarm) or breaks a theorem here.
-/
set_option linter.unusedSimpArgs false
namespace SkimModel.SelSet
open SkimModel.Generated

/-- what one triple does to the selected map for one listed item -/
def applyKind (k : SelOps.Kind) (key : Key) (it : Item) (m : SelMap) : SelMap :=
  match k with
  | .toggle => toggleKey key it m
  | .insert => insert key it m
  | .clear => []

/-- the meaning of a translated action; `none` = the `panic!` on a cursor outside the list -/
def interp (a : SelOps.Act) (s : Sel) (run cursor : Nat) : Option Sel :=
  if a.guarded && (!s.multi || s.listed.isEmpty) then some s
  else match a.kind with
    | .clear => some { s with selected := [] }
    | k => match a.scope with
      | .cursor => match s.listed[cursor]? with
        | none => none
        | some cur => some { s with selected := applyKind k (run, cur.idx) cur.item s.selected }
      | .all => some { s with selected := s.listed.foldl (fun m x => applyKind k (run, x.idx) x.item m) s.selected }

theorem act_toggle_is_model (s : Sel) (run cursor : Nat) :
    interp SelOps.act_toggle s run cursor = toggle s run cursor := by
  unfold interp toggle SelOps.act_toggle
  cases s.multi <;> cases s.listed.isEmpty <;> simp [applyKind] <;> rfl

theorem act_toggle_all_is_model (s : Sel) (run cursor : Nat) :
    interp SelOps.act_toggle_all s run cursor = some (toggleAll s run) := by
  unfold interp toggleAll SelOps.act_toggle_all
  cases s.multi <;> cases s.listed.isEmpty <;> simp [applyKind]

theorem act_select_all_is_model (s : Sel) (run cursor : Nat) :
    interp SelOps.act_select_all s run cursor = some (selectAll s run) := by
  unfold interp selectAll SelOps.act_select_all
  cases s.multi <;> cases s.listed.isEmpty <;> simp [applyKind]

theorem act_deselect_all_is_model (s : Sel) (run cursor : Nat) :
    interp SelOps.act_deselect_all s run cursor = some (deselectAll s) := by
  unfold interp deselectAll SelOps.act_deselect_all
  simp

/-- the wiring of `EventHandler::handle`: each selection event does what the model's action of that name does -/
theorem handle_arms_are_model (s : Sel) (run cursor : Nat) :
    interp (SelOps.handleArm .toggle) s run cursor = toggle s run cursor ∧
    interp (SelOps.handleArm .toggleAll) s run cursor = some (toggleAll s run) ∧
    interp (SelOps.handleArm .selectAll) s run cursor = some (selectAll s run) ∧
    interp (SelOps.handleArm .deselectAll) s run cursor = some (deselectAll s) := by
  simp only [SelOps.handleArm]
  exact ⟨act_toggle_is_model s run cursor, act_toggle_all_is_model s run cursor, act_select_all_is_model s run cursor,
    act_deselect_all_is_model s run cursor⟩

/-! ### `append_sorted_items` (watermark bookkeeping), `pre_select`, `act_select_raw_item`, `should_select` -/

/-- the translated `should_select` on the model's selector (no `regex`: the harness and `sk` never set one) -/
def interpShould (sel : Selector) (idx : Nat) (it : Item) : Bool :=
  SelOps.shouldSelect sel.firstN idx (!sel.preset.isEmpty) (sel.preset.contains it) false false

theorem should_select_is_model (sel : Selector) (idx : Nat) (it : Item) :
    interpShould sel idx it = sel.shouldSelect idx it := by
  unfold interpShould SelOps.shouldSelect Selector.shouldSelect
  cases hp : sel.preset with
  | nil => by_cases h : sel.firstN > idx <;> simp [h]
  | cons a t => by_cases h : sel.firstN > idx <;> cases hc : (a :: t).contains it <;> simp [h, hc]

/-- the translated `act_select_raw_item` -/
def interpSelectRaw (s : Sel) (run idx : Nat) (it : Item) : Sel :=
  if SelOps.selectRawSkips s.multi then s else { s with selected := insert (run, idx) it s.selected }

theorem select_raw_is_model (s : Sel) (run idx : Nat) (it : Item) :
    interpSelectRaw s run idx it = selectRaw s run idx it := by
  unfold interpSelectRaw selectRaw SelOps.selectRawSkips
  cases s.multi <;> simp

/-- in single-selection mode the loop of `pre_select` changes nothing, whatever the selector says -/
theorem foldl_selectRaw_single (p : MItem → Bool) (run : Nat) (batch : List MItem) (s : Sel) (h : s.multi = false) :
    batch.foldl (fun acc m => if p m then selectRaw acc run m.idx m.item else acc) s = s := by
  induction batch with
  | nil => rfl
  | cons m t ih =>
    have : selectRaw s run m.idx m.item = s := by simp [selectRaw, h]
    simp only [List.foldl, this, ite_self, ih]

/-- the translated `pre_select`: `self.selector.as_ref().map(|s| s.should_select(..)).unwrap_or(false)` is `false` without a selector -/
def interpPreSelect (s : Sel) (run : Nat) (batch : List MItem) : Sel :=
  if SelOps.preSelectSkips s.selector.isNone s.multi then s
  else batch.foldl (fun acc m =>
    if (s.selector.map (fun sel => interpShould sel m.idx m.item)).getD false then interpSelectRaw acc run m.idx m.item else acc) s

theorem pre_select_is_model (s : Sel) (run : Nat) (batch : List MItem) :
    interpPreSelect s run batch = preSelect s run batch := by
  unfold interpPreSelect preSelect SelOps.preSelectSkips
  cases hsel : s.selector with
  | none => simp
  | some sel =>
    cases hm : s.multi with
    | false =>
      have hf := foldl_selectRaw_single (fun m => sel.shouldSelect m.idx m.item) run batch s hm
      have : ∀ a b c d, interpSelectRaw a b c d = selectRaw a b c d := select_raw_is_model
      simp [this, should_select_is_model, hf]
    | true =>
      simp only [Option.isNone_some, Option.map_some, Option.getD_some, should_select_is_model]
      have : ∀ a b c d, interpSelectRaw a b c d = selectRaw a b c d := select_raw_is_model
      simp [this]

/-- the translated `append_sorted_items` up to (not including) the cursor fix-up (that part is `CursorFns.appendFixup`, C09) -/
def interpAppend (s : Sel) (run : Nat) (batch : List MItem) : Sel :=
  let hd := SelOps.appendHead run s.latestRun s.watermark s.listed.length batch.isEmpty
  let s1 := { s with latestRun := hd.1, watermark := hd.2 }
  let s2 := if SelOps.appendPreselects s1.watermark s1.listed.length then interpPreSelect s1 run batch else s1
  let s3 := { s2 with listed := appendItems s2 batch }
  { s3 with watermark := SelOps.appendTail s3.watermark s3.listed.length }

theorem append_head_is_model (run latest wm n : Nat) (batchEmpty : Bool) :
    SelOps.appendHead run latest wm n batchEmpty = (if !batchEmpty && decide (run > latest) then (run, 0) else (latest, wm)) := by
  unfold SelOps.appendHead
  cases batchEmpty <;> simp <;> fn_eq

theorem append_preselects_is_model (wm n : Nat) : SelOps.appendPreselects wm n = decide (n ≥ wm) := by
  unfold SelOps.appendPreselects
  simp only [decide_eq_decide] <;> omega

theorem append_tail_is_model (wm n : Nat) : SelOps.appendTail wm n = max wm n := by
  unfold SelOps.appendTail
  fn_eq

theorem append_is_model (s : Sel) (run : Nat) (batch : List MItem) :
    interpAppend s run batch = append s run batch := by
  unfold interpAppend append
  simp only [pre_select_is_model, append_head_is_model, append_preselects_is_model, append_tail_is_model]
  cases hb : batch.isEmpty <;> by_cases hr : run > s.latestRun <;> simp [hb, hr]

/-! ### `get_selected_indices_and_items` -/

/-- the translated accept; `none` = the `panic!("model:act_output: ..")` -/
def interpAccept (s : Sel) (cursor : Nat) : Option (List Nat × List Item) :=
  let sc := SelOps.acceptSelectCursor s.multi s.selected.isEmpty
  let items := s.selected.map (·.2)
  let idxs := s.selected.map (·.1.2)
  if SelOps.acceptPushes sc s.listed.isEmpty then
    match s.listed[cursor]? with
    | none => none
    | some cur => some (idxs ++ [match SelOps.acceptPushedIndex with | .itemIdx => cur.idx | .cursor => cursor], items ++ [cur.item])
  else some (idxs, items)

theorem accept_is_model (s : Sel) (cursor : Nat) : interpAccept s cursor = accept s cursor := by
  unfold interpAccept accept SelOps.acceptSelectCursor SelOps.acceptPushes
  cases s.multi <;> cases s.selected.isEmpty <;> cases s.listed.isEmpty <;> cases s.listed[cursor]? <;> simp [SelOps.acceptPushedIndex]

/-! ### src/global.rs: the run-number table -/

/-- the translated initial state of `NUM_MAP`, `SEQ`, `RUN_NUM` -/
def interpRunsInit : Runs := { map := SelOps.runInitMap, seq := SelOps.runInitSeq, cur := SelOps.runInitCur }

/-- the translated `mark_new_run` -/
def interpMarkNewRun (g : Runs) (cmd : String) : Runs :=
  match Runs.find cmd g.map with
  | some n => { g with cur := if SelOps.runStores then n else g.cur }
  | none => { map := (cmd, g.seq) :: g.map, seq := g.seq + SelOps.runSeqStep, cur := if SelOps.runStores then g.seq else g.cur }

theorem runs_init_is_model : interpRunsInit = ({} : Runs) := by
  simp only [interpRunsInit, SelOps.runInitMap, SelOps.runInitSeq, SelOps.runInitCur]

theorem mark_new_run_is_model (g : Runs) (cmd : String) : interpMarkNewRun g cmd = markNewRun g cmd := by
  unfold interpMarkNewRun markNewRun
  cases Runs.find cmd g.map <;> simp [SelOps.runStores, SelOps.runSeqStep]

end SkimModel.SelSet
