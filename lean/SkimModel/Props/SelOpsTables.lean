import SkimModel.Model.SelSet
import SkimModel.Generated.SelOps
/-!
The four selection actions of src/selection.rs, as TRANSLATED from the source on every run into (guard, scope, operation) triples
(`Generated/SelOps.lean`), ARE the actions of the C10 model: interpreting the triple of `act_toggle` gives `SelSet.toggle` for every
state, run number and cursor, and likewise for `act_toggle_all`, `act_select_all`, `act_deselect_all`.  A source change that drops
the single-selection guard, turns a toggle into an insert, acts on the cursor instead of every listed item, or keys by something
other than `(current_run_num(), item_idx)` either is not understood by the translator (NOTE, no alarm) or breaks a theorem here.
-/
namespace SkimModel.SelSet
open SkimModel.Generated

/-- what one triple does to the selected map for one listed item -/
def applyKind (k : SelOps.Kind) (key : Key) (it : Item) (m : SelMap) : SelMap :=
  match k with
  | .toggle => toggleKey key it m
  | .insert => insert key it m
  | .clear => []

/-- the meaning of a translated action; `none` = the `panic!` on a cursor outside the list -/
def interp (a : SelOps.Act) (s : Sel) (run cursor : Nat) : Option Sel :=
  if a.guarded && (!s.multi || s.listed.isEmpty) then some s
  else match a.kind with
    | .clear => some { s with selected := [] }
    | k => match a.scope with
      | .cursor => match s.listed[cursor]? with
        | none => none
        | some cur => some { s with selected := applyKind k (run, cur.idx) cur.item s.selected }
      | .all => some { s with selected := s.listed.foldl (fun m x => applyKind k (run, x.idx) x.item m) s.selected }

theorem act_toggle_is_model (s : Sel) (run cursor : Nat) :
    interp SelOps.act_toggle s run cursor = toggle s run cursor := by
  unfold interp toggle SelOps.act_toggle
  cases s.multi <;> cases s.listed.isEmpty <;> simp [applyKind] <;> rfl

theorem act_toggle_all_is_model (s : Sel) (run cursor : Nat) :
    interp SelOps.act_toggle_all s run cursor = some (toggleAll s run) := by
  unfold interp toggleAll SelOps.act_toggle_all
  cases s.multi <;> cases s.listed.isEmpty <;> simp [applyKind]

theorem act_select_all_is_model (s : Sel) (run cursor : Nat) :
    interp SelOps.act_select_all s run cursor = some (selectAll s run) := by
  unfold interp selectAll SelOps.act_select_all
  cases s.multi <;> cases s.listed.isEmpty <;> simp [applyKind]

theorem act_deselect_all_is_model (s : Sel) (run cursor : Nat) :
    interp SelOps.act_deselect_all s run cursor = some (deselectAll s) := by
  unfold interp deselectAll SelOps.act_deselect_all
  simp

/-! ### src/global.rs: the run-number table -/

/-- the translated initial state of `NUM_MAP`, `SEQ`, `RUN_NUM` -/
def interpRunsInit : Runs := { map := SelOps.runInitMap, seq := SelOps.runInitSeq, cur := SelOps.runInitCur }

/-- the translated `mark_new_run` -/
def interpMarkNewRun (g : Runs) (cmd : String) : Runs :=
  match Runs.find cmd g.map with
  | some n => { g with cur := if SelOps.runStores then n else g.cur }
  | none => { map := (cmd, g.seq) :: g.map, seq := g.seq + SelOps.runSeqStep, cur := if SelOps.runStores then g.seq else g.cur }

theorem runs_init_is_model : interpRunsInit = ({} : Runs) := by
  simp only [interpRunsInit, SelOps.runInitMap, SelOps.runInitSeq, SelOps.runInitCur]

theorem mark_new_run_is_model (g : Runs) (cmd : String) : interpMarkNewRun g cmd = markNewRun g cmd := by
  unfold interpMarkNewRun markNewRun
  cases Runs.find cmd g.map <;> simp [SelOps.runStores, SelOps.runSeqStep]

end SkimModel.SelSet
