/-
C01 — liveness under weak fairness.  Property theorems only (helpers: `Lemmas/Fair.lean`, `Lemmas/SessionFair.lean`).

"That state is always reached without any further keystroke once the source ends": for EVERY infinite execution
of the Session system that starts in a reachable state with no keystroke pending, contains no keystroke, reads
accurately, and in which each of the four threads (reader collector, matcher thread, timer, event loop) is weakly
fair — a thread that could move from some point on for ever does move — there is a position from which on the
source has ended, matching has caught up, and the candidate list is exactly the matching items of the source for
the current query.  No bound on the length of the source, on how many times the matcher is restarted while the
collector is slow, or on how the threads' steps are interleaved.

What the hypothesis "reads are accurate" stands for: a stale `false` reading (Model/Session.lean) is a read made
before a foreign step of the same handler; the foreign flags are monotone and there are finitely many foreign
steps in a keystroke-free execution, so only finitely many iterations can read stale values; the theorem is applied
to the suffix after the last of them (the start state is ANY reachable state).  What fairness stands for: the OS
schedules every runnable thread eventually, the `timer` crate fires an armed timer, the channel delivers — these
are assumptions about the runtime, not theorems.
-/
import SkimModel.Props.C01
import SkimModel.Lemmas.SessionFair
namespace SkimModel.Session
open SkimModel.Pool SkimModel.Fair
variable {α κ : Type}

/-- C01, liveness: every weakly fair keystroke-free execution from a reachable state reaches quiescence, stays
    there, and the list is then exactly the matching items of the current source for the current query. -/
theorem c01_fair_quiescence (m : κ → α → Bool) (o : Opts) (q : κ) (src : List α) (ls : List (Label α κ))
    (hn : o.noClearIfEmpty = false) (e : Exec (step (α := α) m))
    (hstart : e.st 0 = runL m (initWith o q src) ls)
    (hf : (e.st 0).finished = none) (hq : (e.st 0).queue.all Ev.isHB = true)
    (h1 : (e.st 0).select1 = false) (h0 : (e.st 0).exit0 = false)
    (hcanon : ∀ n, (e.lab n).canon = true) (hfair : FairExec m e) :
    ∃ n, ∀ d, SourceEnded (e.st (n + d)) ∧ CaughtUp (e.st (n + d)) ∧
      (e.st (n + d)).list.Perm (hitsFrom m (e.st (n + d)).q 0 (e.st (n + d)).pool.pool) ∧
      (e.st (n + d)).pool.reserved ++ (e.st (n + d)).pool.pool = (e.st (n + d)).source ∧
      (e.st (n + d)).q = (e.st n).q ∧ (e.st (n + d)).list = (e.st n).list := by
  have hr0 : Ready m (e.st 0) := by
    rw [hstart] at hf hq h1 h0 ⊢
    exact ⟨c01_invariant m o q src ls, c01_wakeup_pending m o q src ls hf, hf, hq, h1, h0⟩
  have hready : ∀ n, Ready m (e.st n) := by
    intro n
    induction n with
    | zero => exact hr0
    | succ n ih =>
      rw [e.next n]
      cases hs : step m (e.st n) (e.lab n) with
      | none => exact ih
      | some s' => exact ready_internal m _ s' _ ih (hcanon n) hs
  obtain ⟨n, hqn, _⟩ := fair_quiet m e hr0 hcanon hfair
  refine ⟨n, fun d => ?_⟩
  obtain ⟨hqd, hl, hqq, _, _⟩ := fair_quiet_forever m e hready hcanon n hqn d
  -- every state of the execution is reachable from the initial state by a finite history
  have hreach : ∀ k, ∃ ls', e.st k = runL m (initWith o q src) ls' := by
    intro k
    induction k with
    | zero => exact ⟨ls, hstart⟩
    | succ k ih =>
      obtain ⟨ls', hk⟩ := ih
      refine ⟨ls' ++ [e.lab k], ?_⟩
      rw [e.next k, runL_append, ← hk]; rfl
  obtain ⟨ls', hk⟩ := hreach (n + d)
  have hx := c01_quiescent_exact m o q src ls' hn
  simp only [] at hx
  rw [← hk] at hx
  obtain ⟨p1, p2, _⟩ := hx hqd.1 hqd.2
  exact ⟨hqd.1, hqd.2, p1, p2, hqq, hl⟩

/-! Non-vacuity: fair executions exist from every state — the round-robin schedule
    `rPush rEnd tTake tPublish tStop timer loop` is weakly fair for every thread. -/

/-- the hypotheses of `c01_fair_quiescence` are satisfiable from every reachable state without pending keystroke:
    the round-robin schedule is a keystroke-free, accurately reading, weakly fair execution -/
theorem c01_fair_executions_exist (m : κ → α → Bool) (s : St α κ) :
    ∃ e : Exec (step (α := α) m), e.st 0 = s ∧ (∀ n, (e.lab n).canon = true) ∧ FairExec m e :=
  ⟨roundRobin m s, rfl, rr_canon, rr_fair m s⟩

/-- a concrete instance: three items, a collector that has delivered nothing yet -/
example : ∃ e : Exec (step (α := Nat) (κ := Nat) (fun q x => x % 2 == q)),
    e.st 0 = runL (fun q x => x % 2 == q) (initWith {} 0 [1, 2, 4]) [] ∧
    (e.st 0).finished = none ∧ (e.st 0).queue.all Ev.isHB = true ∧
    (∀ n, (e.lab n).canon = true) ∧ FairExec _ e :=
  ⟨roundRobin _ _, rfl, rfl, rfl, rr_canon, rr_fair _ _⟩

end SkimModel.Session
