/-
C02 — results are listed in rank order (input order with --no-sort), reversed by --tac.
Property theorems only (helper lemmas live in `Lemmas/OrderedVec.lean`).

Setting.  `α` is the item type, `key : α → K` its rank, `leK` a linear order on ranks (`KeyOrder`), and the
model of `src/orderedvec.rs` (`Model/OrderedVec.lean`) is instantiated with `T::cmp` = comparison of keys
(`keyLe leK key`).  `c : Cfg` is arbitrary: both flags and EVERY value of `MAX_MOVEMENT` (the driver uses the
value that `tools/extractors/orderedvec.py` reads from the source).  Histories are arbitrary lists of
`append batch | get i | len | iter | clear`, run from the empty `OrderedVec::new()`; `arrivals [] ops` is
everything received since the last clear.
-/
import SkimModel.Lemmas.OrderedVec
import SkimModel.Driver.C02
namespace SkimModel.OrderedVec
open List

variable {α K : Type} {leK : K → K → Bool}

/-- Representation invariant, after every history (sorting mode): `sorted` is in listing order, every
    sub-vector is in listing order and non-empty, and no waiting item ranks before a materialised one. -/
theorem c02_invariant (hk : KeyOrder leK) (key : α → K) (c : Cfg) (hn : c.nosort = false) (ops : List (Op α)) :
    Inv (keyLe leK key) c (run (keyLe leK key) c {} ops).1 := by
  have := (run_sim hk key c (sim_empty _ c) ops).1
  unfold Sim at this
  simp only [hn, Bool.false_eq_true, if_false] at this
  exact this.1

/-- Nothing is lost, duplicated or invented: after every history the items held (materialised prefix plus
    sub-vectors) are a permutation of everything received since the last clear (all four configurations). -/
theorem c02_bag (hk : KeyOrder leK) (key : α → K) (c : Cfg) (ops : List (Op α)) :
    contents (run (keyLe leK key) c {} ops).1 ~ arrivals [] ops := by
  have := (run_sim hk key c (sim_empty _ c) ops).1
  unfold Sim at this
  split at this
  · unfold contents; rw [this.1, this.2]; simp
  · exact this.2

/-- Refinement, every history and every read pattern: each answer of the model meets the property's
    requirement `OutOk` against the spec "stable sort of the arrivals" — `len` equal; `get i` nothing exactly
    when the spec has nothing, otherwise an item that did arrive with the key of the i-th sorted arrival; a
    full listing with the sorted keys position by position and a permutation of the arrivals; with --no-sort
    the very same items in arrival order (reversed with --tac).  No answer is a panic. -/
theorem c02_refines (hk : KeyOrder leK) (key : α → K) (c : Cfg) (ops : List (Op α)) :
    OutsOk (keyLe leK key) key c [] ops (run (keyLe leK key) c {} ops).2 :=
  (run_sim hk key c (sim_empty _ c) ops).2

/-- The executable acceptance test that the driver runs on the implementation's answers accepts the model's
    answers on every history (`tot`: any linear order on items, used for the permutation test). -/
theorem c02_checker_accepts_model [DecidableEq α] [DecidableEq K] (hk : KeyOrder leK) (key : α → K)
    (tot : α → α → Bool) (ht : KeyOrder tot) (c : Cfg) (ops : List (Op α)) :
    acceptsAll (keyLe leK key) key tot c [] ops (run (keyLe leK key) c {} ops).2 = true :=
  acceptsAll_complete key tot c _ ht [] ops _ (c02_refines hk key c ops)

/-- … and whatever answers it accepts (the implementation's) meet `OutOk` (for every comparison `tot`). -/
theorem c02_checker_sound [DecidableEq α] [DecidableEq K] (key : α → K) (tot : α → α → Bool) (c : Cfg)
    (ops : List (Op α)) (answers : List (Out α))
    (h : acceptsAll (keyLe leK key) key tot c [] ops answers = true) :
    OutsOk (keyLe leK key) key c [] ops answers :=
  acceptsAll_sound key tot c _ [] ops answers h

/-- What an accepted full listing means in the property's own words (sorting mode): it is a permutation of
    the arrivals in which the rank never decreases (never increases with --tac). -/
theorem c02_accepted_listing (hk : KeyOrder leK) (key : α → K) (c : Cfg) (hn : c.nosort = false)
    (arr l' : List α)
    (h : OutOk key c arr (.items (view (keyLe leK key) c arr) false) (.items l' false)) :
    l' ~ arr ∧ l'.Pairwise (fun a b => cleK leK c (key a) (key b)) := by
  simp only [OutOk, hn, Bool.false_eq_true, if_false] at h
  refine ⟨h.2, ?_⟩
  have hv := (view_sort_spec hk key c hn arr).2
  have : (map key (view (keyLe leK key) c arr)).Pairwise (fun a b => cleK leK c a b) := by
    rw [pairwise_map]; exact hv.imp (fun {a b} hab => by rw [← cle_keyLe]; exact hab)
  rw [h.1, pairwise_map] at this
  exact this

/-- Rank order leaves no freedom on keys: two listings of the same arrivals in which the rank never
    decreases show the same keys position by position (equal ranks may differ in identity only). -/
theorem c02_sorted_unique (hk : KeyOrder leK) (key : α → K) (c : Cfg) {l₁ l₂ : List α} (hp : l₁ ~ l₂)
    (h₁ : l₁.Pairwise (fun a b => cleK leK c (key a) (key b)))
    (h₂ : l₂.Pairwise (fun a b => cleK leK c (key a) (key b))) : l₁.map key = l₂.map key :=
  keys_unique (cleK_keyOrder hk c) key hp h₁ h₂

/-- Sorting mode, after every history: iterating (= reading positions 0, 1, 2, … until nothing comes) ends
    without panic and yields a permutation of everything received since the last clear in which the rank
    never decreases (never increases with --tac). -/
theorem c02_sorted_listing (hk : KeyOrder leK) (key : α → K) (c : Cfg) (hn : c.nosort = false)
    (ops : List (Op α)) :
    (iter (keyLe leK key) c (run (keyLe leK key) c {} ops).1).2.2 = false ∧
    (iter (keyLe leK key) c (run (keyLe leK key) c {} ops).1).2.1 ~ arrivals [] ops ∧
    (iter (keyLe leK key) c (run (keyLe leK key) c {} ops).1).2.1.Pairwise
      (fun a b => cleK leK c (key a) (key b)) := by
  have hi := c02_invariant hk key c hn ops
  have hc := c02_bag hk key c ops
  obtain ⟨_, _, i3, i4, i5, _⟩ := iter_sort hk key c hn hi hc
  exact ⟨i3, i4, i5.imp (fun {a b} hab => by rw [← cle_keyLe]; exact hab)⟩

/-- Sorting mode, after every history, every position `i`: `get i` yields nothing exactly at or beyond the
    number of arrivals; below it, an item that did arrive and whose key is the key at position `i` of the
    sorted arrivals. -/
theorem c02_get (hk : KeyOrder leK) (key : α → K) (c : Cfg) (hn : c.nosort = false) (ops : List (Op α))
    (i : Nat) :
    ((arrivals [] ops).length ≤ i → (get (keyLe leK key) c (run (keyLe leK key) c {} ops).1 i).2 = .none) ∧
    (i < (arrivals [] ops).length → ∃ b, (get (keyLe leK key) c (run (keyLe leK key) c {} ops).1 i).2 = .some b ∧
      b ∈ arrivals [] ops ∧
      (((arrivals [] ops).mergeSort (cle (keyLe leK key) c)).map key)[i]? = some (key b)) := by
  have hi := c02_invariant hk key c hn ops
  have hc := c02_bag hk key c ops
  obtain ⟨_, _, g3⟩ := get_sort hk key c hn hi hc i
  have hv : view (keyLe leK key) c (arrivals [] ops) = (arrivals [] ops).mergeSort (cle (keyLe leK key) c) := by
    unfold view; simp [hn]
  rw [hv] at g3
  have hlen : ((arrivals [] ops).mergeSort (cle (keyLe leK key) c)).length = (arrivals [] ops).length :=
    length_mergeSort _
  constructor
  · intro hle
    have : ((arrivals [] ops).mergeSort (cle (keyLe leK key) c))[i]? = none := by simp; omega
    rw [this] at g3; exact g3
  · intro hlt
    have hlt' : i < ((arrivals [] ops).mergeSort (cle (keyLe leK key) c)).length := by omega
    rw [getElem?_eq_getElem hlt'] at g3
    simp only [] at g3
    obtain ⟨b, e, hkab, hb⟩ := g3
    refine ⟨b, e, hb, ?_⟩
    rw [getElem?_map, getElem?_eq_getElem hlt']
    simp [hkab]

/-- With --no-sort, after every history: the listing is exactly arrival order, exactly reverse arrival
    order with --tac, and `get i` is its i-th entry (nothing at or beyond the length); no panic. -/
theorem c02_nosort (hk : KeyOrder leK) (key : α → K) (c : Cfg) (hn : c.nosort = true) (ops : List (Op α)) :
    (iter (keyLe leK key) c (run (keyLe leK key) c {} ops).1).2 =
      ((if c.tac then (arrivals [] ops).reverse else arrivals [] ops), false) ∧
    ∀ i, (get (keyLe leK key) c (run (keyLe leK key) c {} ops).1 i).2 =
      ofOpt ((if c.tac then (arrivals [] ops).reverse else arrivals [] ops)[i]?) := by
  have := (run_sim hk key c (sim_empty _ c) ops).1
  unfold Sim at this
  simp only [hn, if_true] at this
  obtain ⟨h1, h2⟩ := this
  have hl : listing c (run (keyLe leK key) c {} ops).1 = if c.tac then (arrivals [] ops).reverse else arrivals [] ops := by
    unfold listing; simp only [hn, Bool.and_true, h2]
  constructor
  · have hm := mergeTill_of_nil (le := keyLe leK key) c h1 (len (run (keyLe leK key) c {} ops).1)
    rw [iter_of_nil c (by rw [hm]; exact h1), hm, hl]
  · intro i
    rw [get_of_nil c h1, hl]

/-- The reported length always equals the number of results received since the last clear. -/
theorem c02_len (hk : KeyOrder leK) (key : α → K) (c : Cfg) (ops : List (Op α)) :
    len (run (keyLe leK key) c {} ops).1 = (arrivals [] ops).length := by
  rw [len_eq]; exact (c02_bag hk key c ops).length_eq

/-- No history reaches the index panic of `get` (`&list[index]`), and iteration always terminates
    within `len + 1` calls of `next`. -/
theorem c02_no_panic (hk : KeyOrder leK) (key : α → K) (c : Cfg) (ops : List (Op α)) :
    ∀ o ∈ (run (keyLe leK key) c {} ops).2, o ≠ .got .panic ∧ ∀ l, o ≠ .items l true := by
  have h := c02_refines hk key c ops
  generalize (run (keyLe leK key) c {} ops).2 = os at h
  generalize ([] : List α) = arr at h
  induction ops generalizing arr os with
  | nil => cases os <;> simp_all [OutsOk]
  | cons op ops ih =>
    cases os with
    | nil => simp [OutsOk] at h
    | cons o os =>
      simp only [OutsOk] at h
      intro o' ho'
      simp at ho'
      rcases ho' with e | ho'
      · subst e
        constructor
        · intro e; rw [e] at h; cases op <;> simp [specStep, OutOk] at h
        · intro l e; rw [e] at h; cases op <;> simp [specStep, OutOk] at h
      · exact ih _ _ h.2 o' ho'

/-! ### the instance the correspondence driver runs -/

open SkimModel.Driver.C02 in
/-- `Driver/C02.lean` compares items `(key : Int, id : Nat)` by key only and tests permutations with the
    lexicographic order: both meet the hypotheses above, so its verdict is the `OutOk` of these theorems
    and it accepts the model on every history and every configuration. -/
theorem c02_driver_instance :
    KeyOrder (fun a b : Int => decide (a ≤ b)) ∧ KeyOrder totI ∧
    leI = keyLe (fun a b : Int => decide (a ≤ b)) keyI ∧
    ∀ (c : Cfg) (ops : List (Op Item)), acceptsAll leI keyI totI c [] ops (run leI c {} ops).2 = true := by
  have h1 : KeyOrder (fun a b : Int => decide (a ≤ b)) := by
    constructor
    · intro a b; simp; omega
    · intro a b c; simp; omega
    · intro a b; simp; omega
  have h2 : KeyOrder totI := by
    constructor
    · intro a b; simp [totI]; omega
    · intro a b c; simp [totI]; omega
    · intro a b; simp [totI]
      intro h h'
      apply Prod.ext <;> omega
  refine ⟨h1, h2, rfl, ?_⟩
  intro c ops
  exact c02_checker_accepts_model h1 keyI totI h2 c ops

/-- `Rank = [i32; 4]` (src/lib.rs) compared as Rust compares arrays — lexicographically; this is
    `impl Ord for MatchedItem` (src/item.rs), which looks at the rank only -/
def leRank (a b : Int × Int × Int × Int) : Bool :=
  decide (a.1 < b.1) || (decide (a.1 = b.1) &&
    (decide (a.2.1 < b.2.1) || (decide (a.2.1 = b.2.1) &&
      (decide (a.2.2.1 < b.2.2.1) || (decide (a.2.2.1 = b.2.2.1) && decide (a.2.2.2 ≤ b.2.2.2))))))

/-- The order of skim's real item type meets the hypothesis of all theorems above (key = rank array). -/
theorem c02_rank_order : KeyOrder leRank := by
  constructor
  · intro a b; simp [leRank]; omega
  · intro a b c; simp [leRank]; omega
  · intro a b; simp [leRank]
    intro h h'
    obtain ⟨a1, a2, a3, a4⟩ := a
    obtain ⟨b1, b2, b3, b4⟩ := b
    simp at h h' ⊢
    omega

/-! ### non-vacuity -/

/-- the hypotheses `KeyOrder` are met by the integers -/
example : KeyOrder (fun a b : Int => decide (a ≤ b)) := c02_driver_instance.1

/-- a non-trivial state that meets the invariant: a materialised prefix, two waiting runs, ties -/
example : Inv SkimModel.Driver.C02.leI { tac := false, nosort := false, maxMove := 100 }
    { sorted := [(1, 0), (2, 1), (2, 5)], subs := [[(3, 2), (5, 3)], [(2, 4), (7, 6)]] } := by
  refine ⟨by decide, by decide, by decide⟩

/-- … and with --tac -/
example : Inv SkimModel.Driver.C02.leI { tac := true, nosort := false, maxMove := 100 }
    { sorted := [(9, 0), (7, 1)], subs := [[(7, 2), (5, 3)], [(6, 4)]] } := by
  refine ⟨by decide, by decide, by decide⟩

/-- the two flag hypotheses are met by the obvious configurations -/
example : ({ tac := true, nosort := false, maxMove := 100 } : Cfg).nosort = false := rfl
example : ({ tac := true, nosort := true, maxMove := 100 } : Cfg).nosort = true := rfl

open SkimModel.Driver.C02 in
/-- hypothesis of `c02_accepted_listing`: a listing that differs from the stable sort in the order of two
    equal ranks is accepted (and one that is out of rank order is not) -/
example :
    OutOk keyI { tac := false, nosort := false, maxMove := 100 } [(1, 0), (2, 1), (2, 2)]
      (.items (view leI { tac := false, nosort := false, maxMove := 100 } [(1, 0), (2, 1), (2, 2)]) false)
      (.items [(1, 0), (2, 2), (2, 1)] false) ∧
    ¬ OutOk keyI { tac := false, nosort := false, maxMove := 100 } [(1, 0), (2, 1), (2, 2)]
      (.items (view leI { tac := false, nosort := false, maxMove := 100 } [(1, 0), (2, 1), (2, 2)]) false)
      (.items [(2, 2), (1, 0), (2, 1)] false) := by
  have e : ([(1, 0), (2, 1), (2, 2)] : List Item).mergeSort
      (cle leI { tac := false, nosort := false, maxMove := 100 }) = [(1, 0), (2, 1), (2, 2)] :=
    mergeSort_of_pairwise (by decide)
  constructor
  · simp only [OutOk, view, Bool.false_eq_true, if_false, e]
    exact ⟨by decide, (Perm.swap _ _ _).cons _⟩
  · simp [OutOk, view, e, keyI]

open SkimModel.Driver.C02 in
/-- hypotheses of `c02_sorted_unique`: two different listings of the same arrivals, both in rank order -/
example :
    ([(1, 0), (2, 1), (2, 2)] : List Item) ~ [(1, 0), (2, 2), (2, 1)] ∧
    ([(1, 0), (2, 1), (2, 2)] : List Item).Pairwise
      (fun a b => cleK (fun a b : Int => decide (a ≤ b)) { tac := false, nosort := false, maxMove := 100 } (keyI a) (keyI b)) ∧
    ([(1, 0), (2, 2), (2, 1)] : List Item).Pairwise
      (fun a b => cleK (fun a b : Int => decide (a ≤ b)) { tac := false, nosort := false, maxMove := 100 } (keyI a) (keyI b)) :=
  ⟨(Perm.swap _ _ _).cons _, by decide, by decide⟩

open SkimModel.Driver.C02 in
/-- both outcomes of the movement loop of `append` are reachable: with the limit at 2 and three items below
    the prefix the prefix is demoted (`sorted` becomes empty); with the limit at 5 all three are moved -/
example :
    (append leI { tac := false, nosort := false, maxMove := 2 }
      { sorted := [(10, 0)], subs := [[(20, 1)]] } [(1, 2), (2, 3), (3, 4)]).sorted = [] ∧
    (append leI { tac := false, nosort := false, maxMove := 5 }
      { sorted := [(10, 0)], subs := [[(20, 1)]] } [(1, 2), (2, 3), (3, 4)]).sorted.length = 4 := by
  have e : ([(1, 2), (2, 3), (3, 4)] : List Item).mergeSort leI = [(1, 2), (2, 3), (3, 4)] :=
    mergeSort_of_pairwise (by decide)
  constructor <;> simp [append, sortVec, e, moveLoop, lt, leI]

end SkimModel.OrderedVec
