/-
Declarative side of C19: what a `--bind` specification IS (a list of bindings, each a key and a
chain of actions with an argument in one of the five concrete forms), how it is written down
(`render`), when it is well formed (`WF`, derived from reading the two regexes of
`parse_key_action`), and what it MEANS for the key map (`specLookup`), independently of the
regex matchers of `Model/Keymap.lean`.
-/
import SkimModel.Model.Keymap
namespace SkimModel.Keymap

/-- the concrete argument forms of the grammar -/
inductive ArgForm
  | none
  | paren (s : Str)     -- name(arg)
  | brack (s : Str)     -- name[arg]
  | dq (s : Str)        -- name"arg"
  | sq (s : Str)        -- name'arg'
  | colon (s : Str)     -- name:arg
  deriving DecidableEq, Repr, Inhabited

structure ActionSpec where
  name : Str
  arg  : ArgForm
  deriving DecidableEq, Repr, Inhabited

structure BindingSpec where
  key   : Str
  chain : List ActionSpec
  deriving DecidableEq, Repr, Inhabited

abbrev BindSpec := List BindingSpec

/-- the argument value the action receives -/
def ArgForm.value : ArgForm → Option Str
  | .none => Option.none
  | .paren s => some s
  | .brack s => some s
  | .dq s => some s
  | .sq s => some s
  | .colon s => some s

def ArgForm.render : ArgForm → Str
  | .none => []
  | .paren s => '(' :: (s ++ [')'])
  | .brack s => '[' :: (s ++ [']'])
  | .dq s => '"' :: (s ++ ['"'])
  | .sq s => '\'' :: (s ++ ['\''])
  | .colon s => ':' :: s

def renderAction (a : ActionSpec) : Str := a.name ++ a.arg.render

/-- actions joined by '+' -/
def renderChain : List ActionSpec → Str
  | [] => []
  | [a] => renderAction a
  | a :: b :: r => renderAction a ++ '+' :: renderChain (b :: r)

def renderBinding (b : BindingSpec) : Str := b.key ++ ':' :: renderChain b.chain

/-- bindings joined by ',' -/
def render : BindSpec → Str
  | [] => []
  | [b] => renderBinding b
  | b :: c :: r => renderBinding b ++ ',' :: render (c :: r)

/-! ## well-formedness (decidable side conditions of the grammar) -/

def isOpener (c : Char) : Bool := c = '"' || c = '\'' || c = '(' || c = '[' || c = ':'

/-- no argument opener directly after a name character (inside a `:arg` such a pair would let the
    lazy `:[^:]*?` of RE re-synchronise on a delimiter further right) -/
def noOpenerAfterName : Str → Bool
  | [] => true
  | [_] => true
  | c :: d :: r => !(isNameCh c && isOpener d) && noOpenerAfterName (d :: r)

def WFArg : ArgForm → Bool
  | .none => true
  | .paren s => !s.isEmpty && s.all (· ≠ ')')
  | .brack s => !s.isEmpty && s.all (· ≠ ']')
  | .dq s => !s.isEmpty && s.all (· ≠ '"')
  | .sq s => !s.isEmpty && s.all (· ≠ '\'')
  | .colon s => !s.isEmpty && s.all (fun c => c ≠ ':' && c ≠ '+' && c ≠ ',') && noOpenerAfterName s

def WFAction (a : ActionSpec) : Bool := !a.name.isEmpty && a.name.all isNameCh && WFArg a.arg

def WFBinding (b : BindingSpec) : Bool :=
  !b.key.isEmpty && b.key.all (· ≠ ':') && !b.chain.isEmpty && b.chain.all WFAction

def WF (spec : BindSpec) : Bool := spec.all WFBinding

/-- what `parse_key_action` should return for a specification -/
def BindSpec.parsed (spec : BindSpec) : List (Str × List (Str × Option Str)) :=
  spec.map (fun b => (b.key, b.chain.map (fun a => (a.name, a.arg.value))))

/-! ## meaning -/

/-- the event an action stands for (table lookup; `none` when the name is unknown or a required
    argument is missing — such an action is not part of a semantically well-formed specification) -/
def actionEvent (a : ActionSpec) : Option Event :=
  match findRow a.name with
  | none => none
  | some r =>
    match r.kind with
    | .none => some (.plain r.ctor)
    | .optStr => some (.optStr r.ctor a.arg.value)
    | .int1 => some (.int r.ctor ((a.arg.value.bind parseI32).getD 1))
    | .reqStr => a.arg.value.map (fun v => .str r.ctor v)

/-- semantically well formed: every action is in the table and has its required argument -/
def SWF (spec : BindSpec) : Bool :=
  WF spec && spec.all (fun b => b.chain.all (fun a => (actionEvent a).isSome))

def chainOf (b : BindingSpec) : Chain := b.chain.filterMap actionEvent

/-- pieces joined by ',' -/
def joinComma : List Str → Str
  | [] => []
  | [p] => p
  | p :: q :: r => p ++ ',' :: joinComma (q :: r)

/-- the bindings that take effect, oldest first: `--bind` strings in order, then `--expect` keys -/
def effective (specs : List BindSpec) (expect : Option Str) : List (Key × Chain) :=
  (specs.flatten.filterMap (fun b => (keyOf b.key).map (fun k => (k, chainOf b))))
    ++ (match expect with
        | none => []
        | some ks => (splitComma ks).filterMap (fun n => (keyOf n).map (fun k => (k, [Event.optStr evAccept (some n)]))))

/-- the LAST binding of `k` in a list of bindings (oldest first) -/
def lastBinding : List (Key × Chain) → Key → Option Chain
  | [], _ => none
  | (k', v) :: r, k =>
    match lastBinding r k with
    | some w => some w
    | none => if k' = k then some v else none

/-- the chain a key must have after `Input::new(); parse_keymaps(binds); parse_expect_keys(expect)` -/
def specLookup (specs : List BindSpec) (expect : Option Str) (k : Key) : Option Chain :=
  match lastBinding (effective specs expect) k with
  | some v => some v
  | none => kmLookup defaultKeymap k

/-- what `translate_event` must return for a key -/
def specTranslate (specs : List BindSpec) (expect : Option Str) (k : Key) : Chain :=
  match specLookup specs expect k with
  | some ch => ch
  | none => match k with
    | .char c => [.addChar c]
    | _ => [.inputKey k]

end SkimModel.Keymap
