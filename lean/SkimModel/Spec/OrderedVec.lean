/-
C02 — declarative spec of the result list: the state is just the list of everything that arrived
since the last clear; every read is answered from a (stable) sort of it.  Also the executable
acceptance test (`accepts`) that the driver runs on the IMPLEMENTATION's answers.
NO imports outside the package (linked into the native driver).
-/
import SkimModel.Model.OrderedVec
namespace SkimModel.OrderedVec

variable {α : Type} (le : α → α → Bool)

/-- the listing order: rank order, reversed by `--tac` -/
def cle (c : Cfg) (a b : α) : Bool := if c.tac then le b a else le a b

/-- what the list shows, position by position, for a given arrival list -/
def view (c : Cfg) (arr : List α) : List α :=
  if c.nosort then (if c.tac then arr.reverse else arr) else arr.mergeSort (cle le c)

def specStep (c : Cfg) (arr : List α) : Op α → List α × Out α
  | .append b => (arr ++ b, .unit)
  | .get i => (arr, .got (match (view le c arr)[i]? with | some a => .some a | none => .none))
  | .len => (arr, .len arr.length)
  | .iter => (arr, .items (view le c arr) false)
  | .clear => ([], .unit)

def specRun (c : Cfg) : List α → List (Op α) → List α × List (Out α)
  | arr, [] => (arr, [])
  | arr, op :: ops =>
    let r := specStep le c arr op
    let rr := specRun c r.1 ops
    (rr.1, r.2 :: rr.2)

/-- everything received since the last clear -/
def arrivals : List α → List (Op α) → List α
  | arr, [] => arr
  | arr, .append b :: ops => arrivals (arr ++ b) ops
  | _, .clear :: ops => arrivals [] ops
  | arr, _ :: ops => arrivals arr ops

variable {K : Type} [DecidableEq α] [DecidableEq K] (key : α → K)

/-- permutation test by sorting both sides with some comparison `tot` (sound for every `tot`, complete when
    `tot` is a linear order — `Props/C02.lean`); n·log n instead of the quadratic `List.isPerm` -/
def permCheck (tot : α → α → Bool) (l l' : List α) : Bool := decide (l.mergeSort tot = l'.mergeSort tot)

/-- Does an observed answer `o` meet the property, given the arrival list `arr` at that moment and the
    spec's answer `sp`?  With `--no-sort` the answer must be the spec's exactly; otherwise it must show the
    same KEYS position by position (= rank never decreases and the multiset of keys is right), name only
    items that did arrive, and a full listing must be a permutation of the arrivals. -/
def accepts (tot : α → α → Bool) (c : Cfg) (arr : List α) : Out α → Out α → Bool
  | .unit, .unit => true
  | .len n, .len m => n == m
  | .got .none, .got .none => true
  | .got (.some a), .got (.some b) =>
    if c.nosort then decide (a = b) else decide (key a = key b) && decide (b ∈ arr)
  | .items l false, .items l' false =>
    if c.nosort then decide (l = l') else decide (l.map key = l'.map key) && permCheck tot l' arr
  | _, _ => false

def acceptsAll (tot : α → α → Bool) (c : Cfg) : List α → List (Op α) → List (Out α) → Bool
  | _, [], [] => true
  | arr, op :: ops, o :: os =>
    let r := specStep le c arr op
    accepts key tot c arr r.2 o && acceptsAll tot c r.1 ops os
  | _, _, _ => false

end SkimModel.OrderedVec
