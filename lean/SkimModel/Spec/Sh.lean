/-
POSIX `sh` token recognition (XCU 2.3 "Token Recognition", 2.2 "Quoting"), restricted to what C07 needs:
how a command string is cut into words and operators and what quote removal leaves of each word.

Modes: unquoted, inside '…', inside "…", directly after a backslash (unquoted / inside "…"), inside a
`#` comment.  NOT modelled (the lexer stops making claims: sticky mode `unsupported`): back-quoted command
substitution (its body is pre-processed with different backslash rules), here-documents (`<<`; the body
is not cut into tokens at all), arithmetic expansion `$((…))` (its body is read as if double-quoted, so a
single quote does not quote there) and the non-POSIX `$'…'`.  `$`, and unquoted `* ? [ ~`, are ordinary word characters for TOKEN
RECOGNITION — which is all this model does — and raise the flag `exp` ("a later expansion stage the model
does not predict applies to some word"), so that the validation against the real `/bin/sh` knows which
inputs it can predict.  The model is character based; `sh` is byte based: every character with a special
meaning is ASCII and no byte of a multi-byte UTF-8 sequence is ASCII, so the two agree on UTF-8 text.

This file is the SPEC side of C07 (trusted; validated against the installed /bin/sh by the harness on every
run).  Import-free.
-/
namespace SkimModel.Sh

inductive Mode | unq | sq | dq | bsU | bsD | comment | unsupported
  deriving DecidableEq, Repr, Inhabited

/-- what the previous unquoted character was, as far as two-character constructs need it -/
inductive Prev | none | lt | dollar | dollarParen
  deriving DecidableEq, Repr, Inhabited

inductive Tok
  | word (w : List Char)     -- after quote removal
  | op (c : Char)            -- one operator character (`| & ; < > ( )` or newline)
  deriving DecidableEq, Repr, Inhabited

structure Lex where
  mode   : Mode := .unq
  word   : List Char := []     -- the word being assembled (quote removal already applied)
  inWord : Bool := false       -- a word has been started (`''` starts an empty one)
  prev   : Prev := .none       -- the previous unquoted character was `<`, `$`, or the `(` of `$(` (to see `<<`, `$'`, `$((`)
  exp    : Bool := false       -- an unmodelled expansion applies somewhere
  toks   : List Tok := []      -- finished tokens, in order
  deriving DecidableEq, Repr, Inhabited

def isOp (c : Char) : Bool :=
  c == '|' || c == '&' || c == ';' || c == '<' || c == '>' || c == '(' || c == ')' || c == '\n'

def isExpChar (c : Char) : Bool := c == '$' || c == '*' || c == '?' || c == '[' || c == '~'

/-- delimit the current word (if one was started) -/
def flush (s : Lex) : Lex :=
  { s with toks := if s.inWord then s.toks ++ [.word s.word] else s.toks, word := [], inWord := false }

/-- what an unquoted character does (depends on the character, the previous character and whether a word
    has been started — never on the text of the word or on the finished tokens) -/
inductive UAct | unsupported | openSq | openDq | backslash | blank | op | comment | char
  deriving DecidableEq, Repr, Inhabited

def unqAct (prev : Prev) (inWord : Bool) (c : Char) : UAct :=
  if c = '\'' ∧ prev = .dollar then .unsupported        -- `$'…'` (other escape rules)
  else if c = '\'' then .openSq
  else if c = '"' then .openDq
  else if c = '\\' then .backslash
  else if c = '`' then .unsupported                      -- back-quoted command substitution
  else if c = '<' ∧ prev = .lt then .unsupported         -- `<<` here-document
  else if c = '(' ∧ prev = .dollarParen then .unsupported -- `$((`: body read as if double-quoted
  else if c = ' ' ∨ c = '\t' then .blank
  else if isOp c then .op
  else if c = '#' ∧ inWord = false then .comment
  else .char

def step (s : Lex) (c : Char) : Lex :=
  match s.mode with
  | .unq =>
    match unqAct s.prev s.inWord c with
    | .unsupported => { s with mode := .unsupported }
    | .openSq => { s with mode := .sq, inWord := true, prev := .none }
    | .openDq => { s with mode := .dq, inWord := true, prev := .none }
    | .backslash => { s with mode := .bsU, prev := .none }
    | .blank => { flush s with prev := .none }
    | .op =>
      { flush s with toks := (flush s).toks ++ [.op c],
                     prev := if c = '<' then .lt else if c = '(' ∧ s.prev = .dollar then .dollarParen else .none }
    | .comment => { s with mode := .comment, prev := .none }
    | .char => { s with word := s.word ++ [c], inWord := true, prev := if c = '$' then .dollar else .none,
                        exp := s.exp || isExpChar c }
  | .sq =>
    if c = '\'' then { s with mode := .unq } else { s with word := s.word ++ [c] }
  | .dq =>
    if c = '"' then { s with mode := .unq }
    else if c = '\\' then { s with mode := .bsD }
    else if c = '`' then { s with mode := .unsupported }
    else { s with word := s.word ++ [c], exp := s.exp || c == '$' }
  | .bsU =>
    if c = '\n' then { s with mode := .unq }                      -- line continuation: both characters vanish
    else { s with mode := .unq, word := s.word ++ [c], inWord := true }
  | .bsD =>
    if c = '\n' then { s with mode := .dq }
    else if c = '$' ∨ c = '`' ∨ c = '"' ∨ c = '\\' then { s with mode := .dq, word := s.word ++ [c] }
    else { s with mode := .dq, word := s.word ++ ['\\', c] }     -- the backslash stays
  | .comment =>
    if c = '\n' then { s with mode := .unq, toks := s.toks ++ [.op '\n'] } else s
  | .unsupported => s

def run (s : Lex) (cs : List Char) : Lex := cs.foldl step s

/-- end of input: only meaningful outside quotes -/
def finish (s : Lex) : Option (List Tok) :=
  match s.mode with
  | .unq | .comment => some (flush s).toks
  | _ => none

/-- the tokens of a complete command string (`none`: unterminated quote or unsupported construct) -/
def lex (cs : List Char) : Option (List Tok) := finish (run {} cs)

def Tok.isWord : Tok → Bool | .word _ => true | .op _ => false

/-- how a value reads back: the shell cannot carry NUL, `escape_single_quote` writes it as `\0` -/
def nul0 (v : List Char) : List Char := v.flatMap fun c => if c = '\x00' then ['\\', '0'] else [c]

end SkimModel.Sh
