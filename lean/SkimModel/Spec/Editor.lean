/-
Reference editor for C18: a buffer is a plain `(line, cursor)` pair; all actions are defined with
`take` / `drop` / `takeWhile` on the line, with no stacks.  This is the "plain reference editor"
the property speaks about.
-/
import SkimModel.Model.Editor
namespace SkimModel.Editor

structure SBuf where
  line : List Char := []
  cur  : Nat := 0
  deriving DecidableEq, Repr, Inhabited

structure SEd where
  fz     : SBuf := {}
  cmd    : SBuf := {}
  yank   : List Char := []
  mode   : Mode := .query
  fzH    : Hist := {}
  cmdH   : Hist := {}
  pasted : Option (List Char) := none
  deriving DecidableEq, Repr, Inhabited

def SEd.cur (e : SEd) : SBuf := match e.mode with | .query => e.fz | .cmd => e.cmd
def SEd.setCur (e : SEd) (b : SBuf) : SEd :=
  match e.mode with | .query => { e with fz := b } | .cmd => { e with cmd := b }
def SEd.hist (e : SEd) : Hist := match e.mode with | .query => e.fzH | .cmd => e.cmdH
def SEd.setHist (e : SEd) (h : Hist) : SEd :=
  match e.mode with | .query => { e with fzH := h } | .cmd => { e with cmdH := h }

def SBuf.left (b : SBuf) : List Char := b.line.take b.cur
def SBuf.right (b : SBuf) : List Char := b.line.drop b.cur

/-- insert `t` at the cursor, cursor ends after the inserted text -/
def SBuf.insert (b : SBuf) (t : List Char) : SBuf :=
  { line := b.left ++ t ++ b.right, cur := b.cur + t.length }

/-- number of characters a backward word action covers: a maximal run of `p₁` characters directly
    left of the cursor, then a maximal run of `p₂` characters left of that -/
def spanLeft (p₁ p₂ : Char → Bool) (b : SBuf) : Nat :=
  let l := b.left.reverse
  let n₁ := (l.takeWhile p₁).length
  n₁ + ((l.drop n₁).takeWhile p₂).length

def spanRight (p₁ p₂ : Char → Bool) (b : SBuf) : Nat :=
  let r := b.right
  let n₁ := (r.takeWhile p₁).length
  n₁ + ((r.drop n₁).takeWhile p₂).length

/-- remember killed text (an empty kill leaves the kill buffer alone) -/
def SEd.kill (e : SEd) (t : List Char) : SEd := if t.isEmpty then e else { e with yank := t }

/-- delete `n` characters left of the cursor, remembering them -/
def killLeft (e : SEd) (n : Nat) : SEd :=
  let b := e.cur
  let killed := (b.left.drop (b.cur - n))
  (e.setCur { line := b.left.take (b.cur - n) ++ b.right, cur := b.cur - n }).kill killed

def killRight (e : SEd) (n : Nat) : SEd :=
  let b := e.cur
  let killed := b.right.take n
  (e.setCur { line := b.left ++ b.right.drop n, cur := b.cur }).kill killed

def specAct (k : Cls) (e : SEd) : Action → SEd
  | .addChar c =>
      match e.pasted with
      | some p => { e with pasted := some (p ++ [c]) }
      | none => e.setCur (e.cur.insert [c])
  | .deleteChar => let b := e.cur; e.setCur { line := b.left ++ b.right.drop 1, cur := b.cur }
  | .backwardDeleteChar =>
      let b := e.cur; e.setCur { line := b.left.take (b.cur - 1) ++ b.right, cur := b.cur - 1 }
  | .backwardChar => let b := e.cur; e.setCur { b with cur := b.cur - 1 }
  | .forwardChar => let b := e.cur; e.setCur { b with cur := min (b.cur + 1) b.line.length }
  | .unixWordRubout => killLeft e (spanLeft k.isWs (fun c => !k.isWs c) e.cur)
  | .backwardKillWord => killLeft e (spanLeft (fun c => !k.isAlnum c) k.isAlnum e.cur)
  | .killWord => killRight e (spanRight (fun c => !k.isAlnum c) k.isAlnum e.cur)
  | .backwardWord =>
      let b := e.cur; e.setCur { b with cur := b.cur - spanLeft (fun c => !k.isAlnum c) k.isAlnum b }
  | .forwardWord =>
      let b := e.cur; e.setCur { b with cur := b.cur + spanRight k.isWs (fun c => !k.isWs c) b }
  | .beginningOfLine => let b := e.cur; e.setCur { b with cur := 0 }
  | .endOfLine => let b := e.cur; e.setCur { b with cur := b.line.length }
  | .killLine => killRight e (e.cur.line.length - e.cur.cur)
  | .unixLineDiscard => killLeft e e.cur.cur
  | .yank => e.setCur (e.cur.insert e.yank)
  | .previousHistory =>
      let h := e.hist
      match h.before with
      | [] => e
      | x :: hb =>
          (e.setHist { before := hb, after := e.cur.line :: h.after }).setCur { line := x, cur := x.length }
  | .nextHistory =>
      let h := e.hist
      match h.after with
      | [] => e
      | x :: ha =>
          (e.setHist { before := e.cur.line :: h.before, after := ha }).setCur { line := x, cur := x.length }
  | .toggleInteractive =>
      { e with mode := match e.mode with | .query => .cmd | .cmd => .query }
  | .pasteStart => { e with pasted := some [] }
  | .pasteEnd =>
      let p := e.pasted.getD []
      let e' := { e with pasted := none }
      e'.setCur (e'.cur.insert p)

def specRun (k : Cls) (e : SEd) (as : List Action) : SEd := as.foldl (specAct k) e

/-- abstraction: a two-stack buffer is the pair (whole line, length of the left stack) -/
def Buf.abs (b : Buf) : SBuf := { line := b.line, cur := b.before.length }

def Ed.abs (e : Ed) : SEd :=
  { fz := e.fz.abs, cmd := e.cmd.abs, yank := e.yank, mode := e.mode,
    fzH := e.fzH, cmdH := e.cmdH, pasted := e.pasted }

/-- The reachable spec states: cursor inside the line. -/
def SBuf.WF (b : SBuf) : Prop := b.cur ≤ b.line.length
def SEd.WF (e : SEd) : Prop := e.fz.WF ∧ e.cmd.WF

end SkimModel.Editor
