/-
C13 — declarative meaning of `--tiebreak`, written from the property statement (hand-written on
purpose: it is what the generated tables are compared with).

  * eight names; `score` = higher score first, `begin`/`end` = earlier first, `length` = shorter first,
    a leading `-` reverses;
  * the configured list: words between commas, looked up case-insensitively, unknown words dropped;
    `score` is put in front when neither `score` nor `-score` is listed; adjacent repeats collapse;
    THEN at most four are kept; no option = `score, begin, end`;
  * items compare by the first criterion that distinguishes them.
-/
import SkimModel.Model.Rank
namespace SkimModel.Rank.Spec
open SkimModel.Generated.Rank SkimModel.Rank

/-- the name of every criterion as written on the command line -/
def name : Criterion → String
  | .Score => "score"   | .NegScore => "-score"
  | .Begin => "begin"   | .NegBegin => "-begin"
  | .End => "end"       | .NegEnd => "-end"
  | .Length => "length" | .NegLength => "-length"

/-- which quantity a criterion looks at -/
def field : Criterion → Field
  | .Score | .NegScore => .score
  | .Begin | .NegBegin => .begin
  | .End | .NegEnd => .«end»
  | .Length | .NegLength => .length

/-- does the LARGER value come first?  (`score`: yes — higher scores first; `begin`, `end`, `length`:
    no — earlier / shorter first; a leading `-` reverses) -/
def largerFirst : Criterion → Bool
  | .Score => true     | .NegScore => false
  | .Begin => false    | .NegBegin => true
  | .End => false      | .NegEnd => true
  | .Length => false   | .NegLength => true

/-- the quantity itself, as a mathematical integer (no casts) -/
def qty (t : Tuple) : Field → Int
  | .score => t.score
  | .begin => t.begin
  | .«end» => t.«end»
  | .length => t.length

/-- one component of the sort key: smaller key = earlier in the list -/
def key (c : Criterion) (t : Tuple) : Int :=
  if largerFirst c then -(qty t (field c)) else qty t (field c)

/-- how criterion `c` alone orders two items (`.lt` = the first item comes first) -/
def prefers (c : Criterion) (t₁ t₂ : Tuple) : Ordering :=
  if largerFirst c then compare (qty t₂ (field c)) (qty t₁ (field c))
  else compare (qty t₁ (field c)) (qty t₂ (field c))

/-- the first criterion that distinguishes decides -/
def lexCompare : List Criterion → Tuple → Tuple → Ordering
  | [], _, _ => .eq
  | c :: cs, t₁, t₂ =>
    match prefers c t₁ t₂ with
    | .eq => lexCompare cs t₁ t₂
    | o => o

/-- case-insensitive lookup of a word among the eight names -/
def lookupLower (w : List Char) : Option Criterion :=
  Criterion.all.find? (fun c => (name c).toList = w.map Char.toLower)

/-- `score` in front unless `score` or `-score` is listed -/
def implicitScore (cs : List Criterion) : List Criterion :=
  if .Score ∈ cs ∨ .NegScore ∈ cs then cs else .Score :: cs

/-- collapse adjacent repeats (keep one of every run) -/
def destutter : List Criterion → List Criterion
  | a :: b :: t => if a = b then destutter (b :: t) else a :: destutter (b :: t)
  | l => l

/-- the words between the commas -/
def words (s : List Char) : List (List Char) := splitOnChar ',' s

def maxCriteria : Nat := 4

/-- the criteria in effect for `--tiebreak s` (`none` = option absent) -/
def effective : Option (List Char) → List Criterion
  | none => [.Score, .Begin, .End]
  | some s => (destutter (implicitScore ((words s).filterMap lookupLower))).take maxCriteria

/-- the tuples for which the `i32` arithmetic of `build_rank` is exact: offsets and lengths below 2³¹
    (a text shorter than 2 GiB) and a score that can be negated -/
def InRange (t : Tuple) : Prop :=
  i32Min < t.score ∧ t.score ≤ i32Max ∧ (t.begin : Int) ≤ i32Max ∧ (t.«end» : Int) ≤ i32Max ∧ (t.length : Int) ≤ i32Max

instance (t : Tuple) : Decidable (InRange t) := by unfold InRange; infer_instance

/-- the sort key the property describes, in the array representation of `Rank` (unused slots 0) -/
def specRank (cs : List Criterion) (t : Tuple) : List Int :=
  cs.map (key · t) ++ List.replicate (maxCriteria - cs.length) 0

/-- the criterion written with / without the leading `-` -/
def opposite : Criterion → Criterion
  | .Score => .NegScore | .NegScore => .Score
  | .Begin => .NegBegin | .NegBegin => .Begin
  | .End => .NegEnd | .NegEnd => .End
  | .Length => .NegLength | .NegLength => .Length

/-- words joined by commas (the inverse of `words`) -/
def joinComma : List (List Char) → List Char
  | [] => []
  | [w] => w
  | w :: ws => w ++ ',' :: joinComma ws

/-- run-length notation: `(c, n)` stands for `n + 1` copies of `c` -/
def expand : List (Criterion × Nat) → List Criterion
  | [] => []
  | (c, n) :: rest => List.replicate (n + 1) c ++ expand rest

def runsDiffer : List (Criterion × Nat) → Bool
  | a :: b :: rest => a.1 != b.1 && runsDiffer (b :: rest)
  | _ => true

/-- neighbouring runs are runs of different criteria -/
def RunsDiffer (runs : List (Criterion × Nat)) : Prop := runsDiffer runs = true

instance (runs : List (Criterion × Nat)) : Decidable (RunsDiffer runs) := by unfold RunsDiffer; infer_instance

end SkimModel.Rank.Spec
