/-
Declarative spec for C12.

A line `x` with delimiter matches `ms` (k-1 of them) has the fields 1..k; field i is the text
between delimiter i-1 and delimiter i and OWNS delimiter i (the last field owns nothing).
A range denotes the set `{i ∈ 1..k | lo ≤ i ≤ hi}` where a negative bound n stands for k+1+n.
-/
import SkimModel.Model.Field
namespace SkimModel.Field.Spec
open SkimModel.Field

/-- a negative number counts from the end: -1 is field k -/
def tr (n : Int) (k : Nat) : Int := if n < 0 then n + (k : Int) + 1 else n

/-- does field number `i` (1-based) belong to the range, on a line with `k` fields? -/
def inRange (r : FieldRange) (k : Nat) (i : Nat) : Bool :=
  match r with
  | .single n => decide ((i : Int) = tr n k)
  | .leftInf n => decide ((i : Int) ≤ tr n k)
  | .rightInf n => decide (tr n k ≤ (i : Int))
  | .both l r => decide (tr l k ≤ (i : Int) ∧ (i : Int) ≤ tr r k)

/-- the selected field numbers: exactly the members of the range, clipped to 1..k -/
def sel (r : FieldRange) (k : Nat) : List Nat := (List.range' 1 k).filter (inRange r k)

/-! fields of a line (1-based field number `i`, `1 ≤ i ≤ ms.length + 1`) -/

/-- where field `i` starts: the end of delimiter `i-1` (0 for the first field) -/
def fieldStart (ms : List (Nat × Nat)) (i : Nat) : Nat :=
  if i ≤ 1 then 0 else (ms[i - 2]?.map (·.2)).getD 0

/-- where field `i` ends = where its delimiter starts (end of line for the last field) -/
def fieldEnd (ms : List (Nat × Nat)) (len : Nat) (i : Nat) : Nat := (ms[i - 1]?.map (·.1)).getD len

/-- where the delimiter owned by field `i` ends (end of line for the last field) -/
def delimEnd (ms : List (Nat × Nat)) (len : Nat) (i : Nat) : Nat := (ms[i - 1]?.map (·.2)).getD len

def field (x : Bytes) (ms : List (Nat × Nat)) (i : Nat) : Bytes :=
  sub x (fieldStart ms i) (fieldEnd ms x.length i)

def delim (x : Bytes) (ms : List (Nat × Nat)) (i : Nat) : Bytes :=
  sub x (fieldEnd ms x.length i) (delimEnd ms x.length i)

/-- field `i` together with the delimiter it owns -/
def fieldD (x : Bytes) (ms : List (Nat × Nat)) (i : Nat) : Bytes := field x ms i ++ delim x ms i

/-- `--with-nth`: the selected fields (with their delimiters), range after range in the order written -/
def specWithNth (x : Bytes) (ms : List (Nat × Nat)) (rs : List FieldRange) : Bytes :=
  rs.flatMap (fun r => (sel r (ms.length + 1)).flatMap (fieldD x ms))

/-- `{N}`: the selected fields, the last one without its trailing delimiter; `none` when nothing is selected -/
def specPlaceholder (x : Bytes) (ms : List (Nat × Nat)) (r : FieldRange) : Option Bytes :=
  let s := sel r (ms.length + 1)
  match s.getLast? with
  | none => none
  | some l => some (s.dropLast.flatMap (fieldD x ms) ++ field x ms l)

/-- the byte span of one range: from the start of its first selected field to the end of the
    delimiter of its last selected field; `none` when nothing is selected -/
def spanOf (ms : List (Nat × Nat)) (len : Nat) (r : FieldRange) : Option (Nat × Nat) :=
  let s := sel r (ms.length + 1)
  match s.head?, s.getLast? with
  | some f, some l => some (fieldStart ms f, delimEnd ms len l)
  | _, _ => none

/-- `--nth`: one byte span per non-empty range, in the order written -/
def specNth (x : Bytes) (ms : List (Nat × Nat)) (rs : List FieldRange) : List (Nat × Nat) :=
  rs.filterMap (spanOf ms x.length)


/-! matching restricted to spans -/

/-- every span lies inside the line, on char boundaries -/
def ValidSpans (x : Bytes) (spans : List (Nat × Nat)) : Prop :=
  ∀ p ∈ spans, p.1 ≤ p.2 ∧ p.2 ≤ x.length ∧ isBoundary x p.1 = true ∧ isBoundary x p.2 = true

/-- exact / regex engines: the first span (in the order written) inside which the term matches
    (for an inverse term: inside which it does not occur) decides; the position found inside the span is
    shifted by the span's start, i.e. reported relative to the whole line -/
def specMatch (find : Bytes → Option (Nat × Nat)) (inverse : Bool) (text : Bytes)
    (spans : List (Nat × Nat)) : Option (Nat × Nat) :=
  match spans.find? (fun p => (find (sub text p.1 p.2)).isSome != inverse) with
  | none => none
  | some p => if inverse then some (0, 0) else (find (sub text p.1 p.2)).map (fun m => (m.1 + p.1, m.2 + p.1))

/-- fuzzy engine: char indices inside the first matching span, shifted by the number of characters
    before the span -/
def specMatchChars (fz : Bytes → Option (List Nat)) (text : Bytes) (spans : List (Nat × Nat)) :
    Option (List Nat) :=
  match spans.find? (fun p => (fz (sub text p.1 p.2)).isSome) with
  | none => none
  | some p => (fz (sub text p.1 p.2)).map (fun v => v.map (· + charCount (sub text 0 p.1)))

/-- byte offsets at which the characters of `x` start (`off` = offset of the first byte) -/
def charStarts (off : Nat) : Bytes → List Nat
  | [] => []
  | b :: bs => if isCont b then charStarts (off + 1) bs else off :: charStarts (off + 1) bs

/-! the written grammar `N`, `N..`, `..M`, `N..M` -/

/-- decimal numeral (ASCII digits, optional leading `-`) inside the `i32` range -/
def intLit (s : List Char) : Option Int :=
  let p := splitSign s
  if p.2.isEmpty || !p.2.all isAsciiDigit then none
  else
    let v : Nat := digitsVal 0 p.2
    let i : Int := if p.1 then - (v : Int) else (v : Int)
    if -2147483648 ≤ i && i ≤ 2147483647 then some i else none

/-- the texts the regex group `(-?\d+)?` can capture: nothing, or a non-empty run of `\d` characters
    with an optional leading `-` -/
def Cap (isD : Char → Bool) (l : List Char) : Prop :=
  l = [] ∨ ∃ ds : List Char, ds ≠ [] ∧ ds.all isD = true ∧ (l = ds ∨ l = '-' :: ds)

/-- split at the first occurrence of `..` -/
def splitDots : List Char → Option (List Char × List Char)
  | [] => none
  | '.' :: '.' :: t => some ([], t)
  | c :: t => (splitDots t).map (fun p => (c :: p.1, p.2))

/-- the range denoted by a string in one of the four written forms (`none`: not of these forms) -/
def specParse (s : List Char) : Option FieldRange :=
  match splitDots s with
  | none => (intLit s).map .single
  | some ([], []) => none
  | some (l, []) => (intLit l).map .rightInf
  | some ([], r) => (intLit r).map .leftInf
  | some (l, r) =>
    match intLit l, intLit r with
    | some a, some b => some (.both a b)
    | _, _ => none

end SkimModel.Field.Spec
