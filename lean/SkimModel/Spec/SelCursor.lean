/-
Declarative vocabulary of property C09 over the cursor model of `Model/SelCursor.lean`:
what "designates an existing result", "inside the window", "clamped move by k" and "the window has
shrunk since the last move" mean.
-/
import SkimModel.Model.SelCursor
import SkimModel.Generated.SelArms
namespace SkimModel.SelCursor

/-- the cursor designates an existing result whenever there is one -/
def Valid (s : Cur) : Prop := 0 < s.n → s.ic + s.lc < s.n

/-- the cursor row lies inside the window (a window whose height is still unknown has one row) -/
def InWindow (s : Cur) : Prop := s.lc < s.H

instance (s : Cur) : Decidable (Valid s) := by unfold Valid; exact inferInstance
instance (s : Cur) : Decidable (InWindow s) := by unfold InWindow; exact inferInstance

def clamp (lo hi x : Int) : Int := max lo (min hi x)

/-- a positive `diff` of `act_move_line_cursor` means "up the screen": towards larger indices in the
    bottom-up layout, towards smaller indices in the reverse (top-down) layout -/
def Cur.dir (s : Cur) (d : Int) : Int := if s.rev then -d else d

/-- events that set the cursor from a requested movement -/
def Ev.isMove : Ev → Bool
  | .up _ | .down _ | .pageUp _ | .pageDown _ | .halfUp _ | .halfDown _ | .row _ => true
  | _ => false

/-- one step of the history together with the flag "a draw has stored a smaller height since the
    last move" (the only way the window shrinks in the model, as in the code) -/
def stepW (st : Cur × Bool) (e : Ev) : Cur × Bool :=
  (step st.1 e, if e.isMove then false else if (step st.1 e).h < st.1.h then true else st.2)

def runW (s : Cur) (evs : List Ev) : Cur × Bool := evs.foldl stepW (s, false)

/-- the number of rows a move event asks for, counted "up the screen" like the `diff` of
    `act_move_line_cursor`, for a window of height `H` (a page is `H - 1` rows, half a page that product
    halved with truncation toward zero).  The driver's verdict uses this very function. -/
def askedRows (H : Nat) : Ev → Option Int
  | .up k => some k
  | .down k => some (-k)
  | .pageUp k => some (((H : Int) - 1) * k)
  | .pageDown k => some (-(((H : Int) - 1) * k))
  | .halfUp k => some (Int.tdiv (((H : Int) - 1) * k) 2)
  | .halfDown k => some (-(Int.tdiv (((H : Int) - 1) * k) 2))
  | _ => none

/-- the heights of the draws of a history never decrease (`m` = lower bound for the next draw) -/
def drawsGrow (m : Nat) : List Ev → Prop
  | [] => True
  | .draw sh :: t => m ≤ sh ∧ drawsGrow sh t
  | _ :: t => drawsGrow m t

/-- the i32 range of the Rust arithmetic -/
def I32 (x : Int) : Prop := -2147483648 ≤ x ∧ x ≤ 2147483647

/-- every value `act_move_line_cursor(diff)` computes in `i32`, in program order (a transcription of the
    Rust expression tree, used only for the range side condition `c09_i32_range`; `c09_i32_values_cover`
    shows that it ends in the two results of the model) -/
def moveI32Values (s : Cur) (diff : Int) : List Int :=
  let d := if s.rev then -diff else diff
  let len : Int := s.n
  let h : Int := s.H
  let lc1 := (s.lc : Int) + d
  [d, (s.lc : Int), (s.ic : Int), len, h, lc1] ++
  (if lc1 ≥ h then
    let ic1 := (s.ic : Int) + (lc1 - h + 1)
    let ic2 := max 0 (min ic1 (len - h))
    [lc1 - h, lc1 - h + 1, ic1, len - h, min ic1 (len - h), ic2, h - 1, len - ic2, len - ic2 - 1,
      min (h - 1) (len - ic2 - 1), max 0 (min (h - 1) (len - ic2 - 1))]
  else if lc1 < 0 then
    [(s.ic : Int) + lc1, max ((s.ic : Int) + lc1) 0, max 0 0]
  else
    [len - 1, len - 1 - s.ic, min lc1 (len - 1 - s.ic), (s.ic : Int), max 0 (min lc1 (len - 1 - s.ic))])

/-! ### the arms of `EventHandler::handle` as extracted from the source (`Generated/SelArms.lean`) -/
open SkimModel.Generated.SelArms in
/-- the `diff` a source arm hands to `act_move_line_cursor` for the argument `k` and the height `H` -/
def armDiff (a : Arm) (H : Nat) (k : Int) : Int :=
  let d := match a.factor with
    | .one => if a.neg then -k else k
    | .hMinus1 => ((H : Int) - 1) * k
    | .oneMinusH => (1 - (H : Int)) * k
  if a.half then Int.tdiv d 2 else d

/-- the model event of a source event name -/
def armEvent (name : String) (k : Int) : Option Ev :=
  match name with
  | "EvActUp" => some (.up k)
  | "EvActDown" => some (.down k)
  | "EvActHalfPageDown" => some (.halfDown k)
  | "EvActHalfPageUp" => some (.halfUp k)
  | "EvActPageDown" => some (.pageDown k)
  | "EvActPageUp" => some (.pageUp k)
  | _ => none

end SkimModel.SelCursor
