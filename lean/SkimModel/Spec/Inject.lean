/-
C07, spec side: what the shell must read when placeholder values are OPAQUE LITERALS.

`specRun ctx s segs` lexes the template's own text with `Sh.step` and, at a placeholder, appends each
designated value (NUL as `\0`) to the current word without looking inside it; several values (`{+…}`) are
separated by one blank.  `phUnquoted` is the decidable side condition "every placeholder stands at an
unquoted position of the template" (a template that puts `{}` inside its own quotes, a comment, a
back-quoted substitution or a here-document is outside the property).
-/
import SkimModel.Model.Inject
import SkimModel.Spec.Sh
namespace SkimModel.Inject
open SkimModel.Sh

/-- a value arrives as an opaque piece of the current word -/
def pushVal (s : Lex) (v : List Char) : Lex :=
  { s with word := s.word ++ nul0 v, inWord := true, prev := .none }

/-- several values: one blank between neighbours -/
def pushVals (s : Lex) : List (List Char) → Lex
  | [] => s
  | [v] => pushVal s v
  | v :: vs => pushVals (step (pushVal s v) ' ') vs

def specSeg (ctx : Ctx) (s : Lex) : Seg → Lex
  | .chr c => step s c
  | .esc r => run s r
  | .ph _ rg => pushVals s (designate ctx rg)

def specRun (ctx : Ctx) (s : Lex) (segs : List Seg) : Lex := segs.foldl (specSeg ctx) s

/-- every placeholder of `segs` is met in unquoted mode and not directly after an unquoted `$` (`$'…'`) -/
def phUnquoted (ctx : Ctx) : Lex → List Seg → Bool
  | _, [] => true
  | s, seg :: rest =>
    (match seg with | .ph _ _ => s.mode == .unq && s.prev != .dollar | _ => true) && phUnquoted ctx (specSeg ctx s seg) rest

/-- the items `{+…}` ranges over: the selection, or the current item when nothing is selected -/
def plusItems (ctx : Ctx) : List (List Char) := if ctx.sels.isEmpty then [ctx.cur] else ctx.sels
def plusIdxs (ctx : Ctx) : List Nat := if ctx.idxs.isEmpty then [ctx.curIdx] else ctx.idxs

/-- `{` blanks [`-`] class* blanks `}` : the language of RE_FIELDS without the optional backslash;
    `rg` is the text between the braces with the blanks trimmed. -/
def IsBrace (m rg : List Char) : Prop :=
  ∃ b1 dash cls b2 : List Char,
    m = '{' :: (b1 ++ (dash ++ (cls ++ (b2 ++ ['}'])))) ∧ rg = dash ++ cls ∧
    (∀ c ∈ b1, c = ' ') ∧ (dash = [] ∨ dash = ['-']) ∧ (∀ c ∈ cls, inClass c = true) ∧ (∀ c ∈ b2, c = ' ')

/-- a token without the text of a word -/
def tokShape : Tok → Option Char | .word _ => none | .op c => some c

/-- everything the lexer knows except the TEXT of the words: mode, flags, and the sequence
    "word / operator c" of finished tokens -/
def shape (s : Lex) : Mode × Bool × Prev × Bool × List (Option Char) :=
  (s.mode, s.inWord, s.prev, s.exp, s.toks.map tokShape)

/-- the interactive command as the property reads it: every `{}` stands for the command query -/
def scanInteractive : List Char → List Seg
  | '{' :: '}' :: r => .ph ['{', '}'] ['c', 'q'] :: scanInteractive r
  | c :: r => .chr c :: scanInteractive r
  | [] => []

def Seg.isPh : Seg → Bool | .ph _ _ => true | _ => false

end SkimModel.Inject
