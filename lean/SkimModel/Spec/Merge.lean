/-
C17 — declarative side: what "ordered", "the attribute shown at character k" and "highlight laid over
colours" mean, plus the executable forms used by the driver to judge the implementation's output.
-/
import SkimModel.Model.Merge
namespace SkimModel.Merge

variable {α : Type}

/-- character index `k` lies inside the (non-empty) range of `f` -/
def covers (k : Nat) (f : Frag α) : Bool := decide (f.start ≤ k) && decide (k < f.stop)

/-- the first fragment whose range contains `k` -/
def findCover (fs : List (Frag α)) (k : Nat) : Option (Frag α) := fs.find? (covers k)

/-- the attribute a fragment list assigns to character `k` (declaratively) -/
def lookup (dflt : α) (fs : List (Frag α)) (k : Nat) : α :=
  match findCover fs k with
  | some f => f.attr
  | none => dflt

/-- ordered by (start, end), non-overlapping, every range well-formed; empty ranges (`start = stop`) allowed -/
def Ordered (fs : List (Frag α)) : Prop :=
  fs.Pairwise (fun a b => a.stop ≤ b.start) ∧ ∀ f ∈ fs, f.start ≤ f.stop

/-- chain form of `Ordered` with a lower bound for the first start (easier to induct on) -/
def OrdFrom : Nat → List (Frag α) → Prop
  | _, [] => True
  | lo, f :: fs => lo ≤ f.start ∧ f.start ≤ f.stop ∧ OrdFrom f.stop fs

/-- executable `Ordered` -/
def orderedFromB : Nat → List (Frag α) → Bool
  | _, [] => true
  | lo, f :: fs => decide (lo ≤ f.start) && decide (f.start ≤ f.stop) && orderedFromB f.stop fs

def orderedB (fs : List (Frag α)) : Bool := orderedFromB 0 fs

/-- THE SPEC: highlight `new` laid over colours `old`, at character `k`:
    the highlight attribute if `k` lies in a non-empty highlight range, else what `old` showed. -/
def specAttr (dflt : α) (old new : List (Frag α)) (k : Nat) : α :=
  match findCover new k with
  | some f => f.attr
  | none => lookup dflt old k

/-- the spec for a whole text of `n` characters -/
def specAttrs (dflt : α) (old new : List (Frag α)) (n : Nat) : List α :=
  (List.range n).map (specAttr dflt old new)

/-- strictly increasing index list (what the matchers return for `Matches::CharIndices`, see C08) -/
def StrictInc : List Nat → Prop
  | [] => True
  | [_] => True
  | a :: b :: rest => a < b ∧ StrictInc (b :: rest)

def strictIncB : List Nat → Bool
  | [] => true
  | [_] => true
  | a :: b :: rest => decide (a < b) && strictIncB (b :: rest)

/-- the highlight ranges a match description stands for, without the `u32` casts of the code
    (`none` only where slicing the text at a byte offset panics) -/
def idealFragments (hl : α) (text : List Char) : Matches → Option (List (Frag α))
  | .none => some []
  | .charIndices is => some (charIndices hl is)
  | .charRange s e => some [⟨hl, s, e⟩]
  | .byteRange s e =>
    if s ≤ e then
      match byteToChar text s, byteToChar text e with
      | some cs, some ce => some [⟨hl, cs, ce⟩]
      | _, _ => none
    else none

/-- well-formed match descriptions: indices strictly increasing (what the engines return, C08), ranges not
    reversed, everything below `u32::MAX` (the code stores character positions as `u32`) -/
def Matches.WellFormed : Matches → Prop
  | .none => True
  | .charIndices is => StrictInc is ∧ ∀ i ∈ is, i < 4294967295
  | .charRange s e => s ≤ e ∧ e < 4294967296
  | .byteRange s e => s ≤ e ∧ e < 4294967296

end SkimModel.Merge
