/-
Declarative vocabulary of property C11: what a row of the list area must show.

  * `styled`      the item text with the attribute each character must carry (match highlight on exactly the
                  matched characters, `base.extend(hl)`; `base` elsewhere),
  * `expandFrom`  tab expansion (a tab becomes blanks up to the next tab stop, each carrying the tab's attribute),
  * `widthFrom`   display width,
  * `Geo`, `shownFrom`  which raw cells a window `[start, stop)` over a text of width `tw` shows
                  (the two dot rules as a function of the POSITION of a raw cell only),
  * `layout`      consecutive columns,
  * `ClippedForm` "a contiguous run of the text's cells, in order, dots on the cut sides",
  * `rowCheck`    the executable form used by the driver's verdict on the IMPLEMENTATION's grid.
-/
import SkimModel.Model.Draw
namespace SkimModel.Draw
open SkimModel.Ansi SkimModel.SelCursor

/-! ### match positions -/

/-- is char index `i` of `text` one of the matched characters? -/
def MatchRange.covers (text : List Char) : MatchRange → Nat → Bool
  | .none, _ => false
  | .chars idxs, i => idxs.contains i
  | .bytes s e, i =>
    match charsBefore text s, charsBefore text e with
    | some a, some b => decide (a ≤ i) && decide (i < b)
    | _, _ => false

/-- valid match positions (what property C08 guarantees): strictly increasing char indices inside the text;
    byte ranges with `start ≤ end`, both on char boundaries of the text -/
def MatchRange.Valid (text : List Char) : MatchRange → Prop
  | .none => True
  | .chars idxs => idxs.Pairwise (· < ·) ∧ ∀ i ∈ idxs, i < text.length
  | .bytes s e => s ≤ e ∧ (charsBefore text s).isSome = true ∧ (charsBefore text e).isSome = true

instance (text : List Char) (mr : MatchRange) : Decidable (mr.Valid text) := by
  cases mr <;> unfold MatchRange.Valid <;> exact inferInstance

/-- executable form of `MatchRange.Valid` (for the driver) -/
def MatchRange.validB (text : List Char) : MatchRange → Bool
  | .none => true
  | .chars idxs =>
    let rec sorted : List Nat → Bool
      | a :: b :: t => decide (a < b) && sorted (b :: t)
      | _ => true
    sorted idxs && idxs.all (fun i => decide (i < text.length))
  | .bytes s e => decide (s ≤ e) && (charsBefore text s).isSome && (charsBefore text e).isSome

/-- the text with the attribute every character must carry, counted from char index `i` -/
def styledFrom (covers : Nat → Bool) (base hl : Attr) (i : Nat) : List Char → List (Char × Attr)
  | [] => []
  | c :: t => (c, if covers i then extend base hl else base) :: styledFrom covers base hl (i + 1) t

/-- exactly the matched characters carry the highlight (on top of the line's attribute) -/
def styled (text : List Char) (mr : MatchRange) (base hl : Attr) : List (Char × Attr) :=
  styledFrom (mr.covers text) base hl 0 text

/-! ### width and tab expansion -/

/-- column reached after `text` when starting at column `pos` -/
def widthFrom (cw : Char → Nat) (tab : Nat) (pos : Nat) : List Char → Nat
  | [] => pos
  | c :: t => widthFrom cw tab (pos + (if c = '\t' then tab - pos % tab else cw c)) t

def textWidth (cw : Char → Nat) (tab : Nat) (text : List Char) : Nat := widthFrom cw tab 0 text

/-- tab expansion of a styled text that starts at column `pos` -/
def expandFrom (cw : Char → Nat) (tab : Nat) (pos : Nat) : List (Char × Attr) → List (Char × Attr)
  | [] => []
  | (c, a) :: t =>
    if c = '\t' then
      List.replicate (tab - pos % tab) (' ', a) ++ expandFrom cw tab (pos + (tab - pos % tab)) t
    else (c, a) :: expandFrom cw tab (pos + cw c) t

/-- columns taken by a sequence of cells -/
def cols (cw : Char → Nat) : List (Char × Attr) → Nat
  | [] => 0
  | (c, _) :: t => cw c + cols cw t

/-- the writes that put a sequence of cells on consecutive columns of `row` from `col` on -/
def layout (cw : Char → Nat) (row col : Nat) : List (Char × Attr) → List Put
  | [] => []
  | (c, a) :: t => ⟨row, col, c, a⟩ :: layout cw row (col + cw c) t

/-! ### the window -/

/-- the window of a printer: positions `[start, stop)` of a text of (claimed) width `tw` -/
structure Geo where
  start : Nat
  stop : Nat
  tw : Nat
  deriving Repr, DecidableEq

def LP.geo (p : LP) : Geo := ⟨p.start, p.stop, p.textWidth⟩

/-- what is shown for the raw cell `(c, a)` whose first column is position `pos` -/
def rawShown (g : Geo) (cw : Char → Nat) (pos : Nat) (c : Char) (a : Attr) : List (Char × Attr) :=
  if pos < g.start ∨ pos ≥ g.stop then []
  else if pos < g.start + 2 ∧ g.start > 0 then List.replicate (min (min (cw c) (pos - g.start + 1)) (g.stop - pos)) ('.', a)
  else if g.stop - pos ≤ 2 ∧ g.tw > g.stop then List.replicate (min (cw c) (g.stop - pos)) ('.', a)
  else [(c, a)]

/-- what is shown for raw cells laid out from position `pos` on -/
def shownFrom (g : Geo) (cw : Char → Nat) (pos : Nat) : List (Char × Attr) → List (Char × Attr)
  | [] => []
  | (c, a) :: t => rawShown g cw pos c a ++ shownFrom g cw (pos + cw c) t

def AllDots (l : List (Char × Attr)) : Prop := ∀ x ∈ l, x.1 = '.'

/-- `shown` is a contiguous run `core` of `raws`, in order, with at most `3` dots before and `2` after;
    dots stand only on a side where something was cut -/
def ClippedForm (raws shown : List (Char × Attr)) : Prop :=
  ∃ pre core post L R, raws = pre ++ core ++ post ∧ shown = L ++ core ++ R ∧ AllDots L ∧ AllDots R ∧
    L.length ≤ 3 ∧ R.length ≤ 2 ∧ (L ≠ [] → pre ≠ []) ∧ (R ≠ [] → post ≠ [])

/-- the window `draw_item` gives the printer of item `it` on a canvas of width `w` -/
def View.geoOf (v : View) (w : Nat) (it : Item) : Option Geo :=
  match matchStartEnd it.text it.mr with
  | none => none
  | some m =>
    match reshapeString v.cw it.text (w - 2) m.1 m.2 v.tabstop with
    | none => none
    | some r =>
      let start := (max ((v.shiftOf it.text (w - 2) m.1 m.2 r.1 r.2 : Nat) + v.hscroll) 0).toNat
      some ⟨start, start + (w - 2), r.2⟩

/-- the cells the text of `it` must show from column 2 on: tab-expanded, exactly the matched characters
    highlighted (current-line variants on the cursor row) -/
def View.rawsOf (v : View) (it : Item) (isCurrent : Bool) : List (Char × Attr) :=
  expandFrom v.cw v.tabstop 0 (styled it.text it.mr (v.base isCurrent) (v.hl isCurrent))

/-- assumptions on the width function that unicode-width satisfies -/
structure CwOk (cw : Char → Nat) : Prop where
  space : cw ' ' = 1
  dot : cw '.' = 1
  gt : cw '>' = 1

/-- the characters of the text are printable (no `\b`, which `print_char` drops) of width 1 or 2; tabs are fine -/
def TextOk (cw : Char → Nat) (text : List Char) : Prop :=
  ∀ c ∈ text, c ≠ '\x08' ∧ (c ≠ '\t' → 1 ≤ cw c ∧ cw c ≤ 2)

instance (cw : Char → Nat) (text : List Char) : Decidable (TextOk cw text) := by
  unfold TextOk; exact inferInstance

/-! ### executable row check (driver verdict; runs on the cells of the IMPLEMENTATION's grid) -/

/-- does the cell list `cells` start with the cells of `seq` (a wide character followed by its
    continuation cell `'\0'` with the same attribute)?  Returns the rest. -/
def eatSeq (cw : Char → Nat) : List (Char × Attr) → List Cell → Option (List Cell)
  | [], cells => some cells
  | (c, a) :: t, cells =>
    match cells with
    | [] => none
    | x :: xs =>
      if x ≠ (c, a) then none
      else if cw c > 1 then
        match xs with
        | y :: ys => if y = ('\x00', a) then eatSeq cw t ys else none
        | [] => none
      else eatSeq cw t xs

def allBlank (cells : List Cell) : Bool := cells.all (fun c => c == blank)

/-- `k` dots, each with one of the two attributes a text cell of the row can carry -/
def eatDots (base hi : Attr) : Nat → List Cell → Option (List Cell)
  | 0, cells => some cells
  | k + 1, cells =>
    match cells with
    | (c, a) :: xs => if c = '.' ∧ (a = base ∨ a = hi) then eatDots base hi k xs else none
    | [] => none

/-- text fits: the cells are exactly the expanded text, the rest of the row is blank -/
def fitsCheck (cw : Char → Nat) (raws : List (Char × Attr)) (cells : List Cell) : Bool :=
  match eatSeq cw raws cells with
  | some rest => allBlank rest
  | none => false

/-- clipped: `k1 ≤ 3` dots, a contiguous run `raws[a, b)`, `k2 ≤ 2` dots, the rest blank; dots on a side exactly when
    something is cut there (`strict`); with `strict = false` a cut side may go unmarked (used only to classify a failure) -/
def clippedCheckWith (strict : Bool) (cw : Char → Nat) (base hi : Attr) (raws : List (Char × Attr)) (cells : List Cell) : Bool :=
  (List.range 4).any fun k1 =>
    match eatDots base hi k1 cells with
    | none => false
    | some rest =>
      (List.range (raws.length + 1)).any fun a =>
        (k1 = 0 || a > 0) && (!strict || k1 > 0 || a = 0) &&
        (List.range (raws.length - a + 1)).any fun n =>
          match eatSeq cw ((raws.drop a).take n) rest with
          | none => false
          | some rest2 =>
            (List.range 3).any fun k2 =>
              (k2 = 0 || a + n < raws.length) && (!strict || k2 > 0 || a + n = raws.length) &&
              match eatDots base hi k2 rest2 with
              | none => false
              | some rest3 => allBlank rest3

def clippedCheck (cw : Char → Nat) (base hi : Attr) (raws : List (Char × Attr)) (cells : List Cell) : Bool :=
  clippedCheckWith true cw base hi raws cells

end SkimModel.Draw
