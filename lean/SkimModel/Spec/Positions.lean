/-
Declarative side of C08: what a VALID report is, what a WITNESS is, and the contracts assumed of the
external matchers.  Every notion is an executable Boolean: the theorems of `Props/C08.lean` are about
these very definitions and the driver evaluates them on the implementation's real output (and the
contracts on every real answer of the regex crate / fuzzy-matcher).
-/
import SkimModel.Model.Positions
namespace SkimModel.Positions
open SkimModel.Engine SkimModel.Field

/-! ### valid positions -/

/-- strictly increasing -/
def strictInc : List Nat → Bool
  | a :: b :: t => decide (a < b) && strictInc (b :: t)
  | _ => true

/-- char indices: strictly increasing and inside a text of `n` characters -/
def validChars (n : Nat) (is : List Nat) : Bool := strictInc is && is.all (fun i => decide (i < n))

/-- a byte span: ordered, inside the text, both ends on character boundaries -/
def validBytes (text : Bytes) (b e : Nat) : Bool :=
  decide (b ≤ e) && decide (e ≤ text.length) && isBoundary text b && isBoundary text e

/-- C08, first sentence: the reported location lies inside the text, falls on character boundaries
    and, when given as character indices, is strictly increasing -/
def validPositions (text : Bytes) : MatchRange → Bool
  | .bytes b e => validBytes text b e
  | .chars is => validChars (charCount text) is

/-- the matching ranges as the engines use them: `(min(start, len), min(end, len))`, whole text without `--nth` -/
def clipped (text : Bytes) (ranges : Option (List (Nat × Nat))) : List (Nat × Nat) :=
  (ranges.getD [(0, text.length)]).map (fun p => (min p.1 text.length, min p.2 text.length))

/-! ### witnesses -/

/-- the text character at index `i` equals the pattern character `p` under the case rule -/
def hitAt (cs : Bool) (x : List Char) (i : Nat) (p : Char) : Bool :=
  match x[i]? with
  | some c => charEq cs c p
  | none => false

/-- fuzzy: one index per pattern character, the text character at each index equals the pattern
    character under the case rule (`cs` = case-sensitive; folding is ASCII) -/
def witnessB (cs : Bool) (body x : List Char) (is : List Nat) : Bool :=
  is.length == body.length && (is.zip body).all (fun p => hitAt cs x p.1 p.2)

/-- ASCII lower-casing on UTF-8 bytes (bytes 65..90 occur only as the letters A..Z) -/
def lowerB (b : UInt8) : UInt8 := if 65 ≤ b.toNat && b.toNat ≤ 90 then UInt8.ofNat (b.toNat + 32) else b

def foldB (cs : Bool) (x : Bytes) : Bytes := if cs then x else x.map lowerB

/-- exact: the bytes `[b, e)` of `text` are the literal under the case rule, and the span respects the
    anchors relative to the searched region `[s, t)` -/
def occurrenceB (cs pre post : Bool) (lit : Bytes) (text : Bytes) (s t b e : Nat) : Bool :=
  decide (s ≤ b) && decide (b ≤ e) && decide (e ≤ t) &&
  (!pre || b == s) && (!post || e == t) && foldB cs (sub text b e) == foldB cs lit

/-- all indices inside the characters `[cs, ce)` -/
def within (lo hi : Nat) (is : List Nat) : Bool := is.all (fun i => decide (lo ≤ i) && decide (i < hi))

/-! ### contracts of the external matchers -/

/-- regex crate, on ONE slice: `find` returns an ordered span inside the slice whose ends are
    character boundaries of the slice -/
def reAnswerOk (sl : Bytes) : Option (Nat × Nat) → Bool
  | none => true
  | some (s, e) => validBytes sl s e

/-- regex crate, for the exact engine's regex `[(?i)][^]escape(lit)[$]`: additionally the span is an
    occurrence of the literal under the case rule and respects the anchors -/
def litAnswerOk (cs pre post : Bool) (lit : Bytes) (sl : Bytes) : Option (Nat × Nat) → Bool
  | none => true
  | some (s, e) => validBytes sl s e && occurrenceB cs pre post lit sl 0 sl.length s e

/-- fuzzy-matcher, on ONE slice given by its characters: strictly increasing indices inside the slice,
    one per pattern character, each a match under the case rule -/
def fzAnswerOk (cs : Bool) (body y : List Char) : Option (List Nat) → Bool
  | none => true
  | some v => validChars y.length v && witnessB cs body y v

def ReContract (find : Bytes → Option (Nat × Nat)) : Prop := ∀ sl, reAnswerOk sl (find sl) = true

def LitContract (cs pre post : Bool) (lit : Bytes) (find : Bytes → Option (Nat × Nat)) : Prop :=
  ∀ sl, litAnswerOk cs pre post lit sl (find sl) = true

def FuzzyContract (cs : Bool) (body : List Char) (fz : Bytes → Option (List Nat)) : Prop :=
  ∀ y : List Char, fzAnswerOk cs body y (fz (utf8 y)) = true

/-- the contract assumed of the external matcher(s) of one leaf engine -/
def ExtOk (cfg : Cfg) : Leaf → Ext → Prop
  | .term .all, _ => True
  | .term (.fuzzy body), x => FuzzyContract (fuzzyCaseSensitive cfg body) body x.fz
  | .term (.exact body pre post _), x => LitContract (caseSensitive cfg.case body) pre post (utf8 body) x.find
  | .regex _, x => ReContract x.find


/-- all leaves of the engine tree keep their contracts -/
def TreeOk (cfg : Cfg) : Tree → Prop
  | .leaf lx => ExtOk cfg lx.1 lx.2
  | .alts as => ∀ a ∈ as, ∀ lx ∈ a, ExtOk cfg lx.1 lx.2


/-! ### what a leaf must report -/

/-- the case rule of a leaf's witness.  `--algo=skim_v1` ignores the case option (known finding of C03):
    under V1 a witness is valid under case-IGNORING equality. -/
def leafCaseSensitive (cfg : Cfg) : TermEngine → Bool
  | .fuzzy body => fuzzyCaseSensitive cfg body
  | .exact body _ _ _ => caseSensitive cfg.case body
  | .all => true

/-- the executable spec of one leaf's report (`x` = the text's characters, `text` its bytes) -/
def leafReportOk (cfg : Cfg) (x : List Char) (text : Bytes) (ranges : Option (List (Nat × Nat))) :
    Leaf → MatchRange → Bool
  | .term .all, r => r == .bytes 0 0
  | .term (.fuzzy body), .chars is =>
    validChars x.length is && witnessB (fuzzyCaseSensitive cfg body) body x is &&
      (clipped text ranges).any (fun p => within (charCount (sub text 0 p.1)) (charCount (sub text 0 p.2)) is)
  | .term (.fuzzy _), .bytes _ _ => false
  | .term (.exact body pre post inv), .bytes b e =>
    if body.isEmpty || inv then b == 0 && e == 0
    else validBytes text b e &&
      (clipped text ranges).any (fun p => occurrenceB (caseSensitive cfg.case body) pre post (utf8 body) text p.1 p.2 b e)
  | .term (.exact _ _ _ _), .chars _ => false
  | .regex compiled, .bytes b e =>
    if !compiled then b == 0 && e == 0
    else validBytes text b e && (clipped text ranges).any (fun p => decide (p.1 ≤ b) && decide (e ≤ p.2))
  | .regex _, .chars _ => false

/-- sorted, duplicate-free union: `l` is strictly increasing and has exactly the members of the lists -/
def isSortedUnion (l : List Nat) (parts : List (List Nat)) : Bool :=
  strictInc l && l.all (fun i => parts.any (·.contains i)) && parts.all (fun p => p.all (l.contains ·))

end SkimModel.Positions
