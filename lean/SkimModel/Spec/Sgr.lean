/-
Spec for C16: an independent, small SGR interpreter and the segment grammar of the property.

* `sgr1 code` — what ONE SGR code means (written from the ECMA-48 / xterm list the property names:
  0 reset, 1 bold, 2 dim, 4 underline, 5 blink, 7 reverse, 30–37 / 90–97 foreground, 40–47 / 100–107
  background, 39 / 49 defaults, 38 / 48 introduce an extended colour, everything else is ignored).
* `sgr a ps` — a whole parameter list, including `38;5;n`, `38;2;r;g;b` and their truncated forms
  (a truncated form is ignored together with the parameters it swallowed; an unknown selector is ignored
  together with the 38/48).
* `Seg`, `render`, `text`, `attrs` — lines are text runs interleaved with CSI sequences; `attrs` gives the
  attribute of every CHARACTER of the stripped text.

Decisions where the property is silent (the code's behaviour is taken, and said here):
colour operands are bytes (`n % 256`, Rust `as u8`); a parameter's sub-parameters (`4:3`) are ignored, only
its first number counts, and a selector must be exactly `2` / `5` without sub-parameters.
-/
import SkimModel.Model.AnsiTypes
namespace SkimModel.Ansi.Spec
open SkimModel.Ansi

/-- meaning of one arm -/
inductive SemAct
  | reset
  | orFlags (e : Effect)
  | setColor (l : Layer) (c : Color)
  | ext (l : Layer)
  | nop
  deriving DecidableEq, Repr

/-- the SGR code list of the property -/
def sgr1 (code : Nat) : SemAct :=
  if code = 0 then .reset
  else if code = 1 then .orFlags { bold := true }
  else if code = 2 then .orFlags { dim := true }
  else if code = 4 then .orFlags { underline := true }
  else if code = 5 then .orFlags { blink := true }
  else if code = 7 then .orFlags { reverse := true }
  else if 30 ≤ code ∧ code ≤ 37 then .setColor .fg (.ansi (code - 30))
  else if code = 38 then .ext .fg
  else if code = 39 then .setColor .fg .default
  else if 40 ≤ code ∧ code ≤ 47 then .setColor .bg (.ansi (code - 40))
  else if code = 48 then .ext .bg
  else if code = 49 then .setColor .bg .default
  else if 90 ≤ code ∧ code ≤ 97 then .setColor .fg (.ansi (code - 90 + 8))
  else if 100 ≤ code ∧ code ≤ 107 then .setColor .bg (.ansi (code - 100 + 8))
  else .nop

def setLayer (a : Attr) : Layer → Color → Attr
  | .fg, c => { a with fg := c }
  | .bg, c => { a with bg := c }

def SemAct.apply : SemAct → Attr → Attr
  | .reset, _ => {}
  | .orFlags e, a => { a with effect := a.effect.or e }
  | .setColor l c, a => setLayer a l c
  | .ext _, a => a
  | .nop, a => a

/-- operands of 38 / 48: `5;n` = palette colour n, `2;r;g;b` = RGB; returns the attribute and the parameters
    left.  A truncated form is ignored together with everything it swallowed (nothing is left); any other
    selector is ignored together with the 38 / 48. -/
def operands (l : Layer) (a : Attr) : List Param → Attr × List Param
  | [] => (a, [])
  | sel :: args =>
    if sel = (5, []) then
      match args with
      | n :: more => (setLayer a l (.ansi (n.1 % 256)), more)
      | [] => (a, [])
    else if sel = (2, []) then
      match args with
      | r :: g :: b :: more => (setLayer a l (.rgb (r.1 % 256) (g.1 % 256) (b.1 % 256)), more)
      | _ => (a, [])
    else (a, args)

theorem operands_len (l : Layer) (a : Attr) (ps : List Param) : (operands l a ps).2.length ≤ ps.length := by
  unfold operands
  repeat' split
  all_goals simp
  all_goals omega

/-- a whole SGR parameter list -/
def sgr (a : Attr) : List Param → Attr
  | [] => a
  | p :: rest =>
    match sgr1 p.1 with
    | .ext l => sgr (operands l a rest).1 (operands l a rest).2
    | act => sgr (act.apply a) rest
termination_by ps => ps.length
decreasing_by
  · have := operands_len l a rest; simp; omega
  · simp

/-- `ESC [ m` (no parameter at all) is a reset -/
def sgrSeq (a : Attr) (ps : List Param) : Attr := if ps.isEmpty then {} else sgr a ps

/-! ### parameter bytes → parameter list (`;` separates parameters, `:` sub-parameters, empty = 0) -/

def mkParam (cur : List Nat) (v : Nat) : Param :=
  match cur with
  | [] => (v, [])
  | h :: t => (h, t ++ [v])

def paramsGo (done : List Param) (cur : List Nat) (v : Nat) : List Char → List Param
  | [] => done ++ [mkParam cur v]
  | c :: r =>
    if c = ';' then paramsGo (done ++ [mkParam cur v]) [] 0 r
    else if c = ':' then paramsGo done (cur ++ [v]) 0 r
    else paramsGo done cur (v * 10 + (c.toNat - 48)) r

/-- decimal numbers separated by `;` (parameters) and `:` (sub-parameters) -/
def params (body : List Char) : List Param := paramsGo [] [] 0 body

/-- all numbers of a parameter list, sub-parameters included, in order -/
def flat (ps : List Param) : List Nat := ps.flatMap (fun p => p.1 :: p.2)

/-- the limits of vte 0.11's parameter buffer: at most 32 numbers, each at most 65535 (beyond them vte drops /
    saturates; the property does not speak about such sequences) -/
def inLimits (body : List Char) : Bool :=
  decide ((flat (params body)).length ≤ 32) && (flat (params body)).all (· ≤ 65535)

/-! ### lines as segment lists -/

inductive Seg
  | text (cs : List Char)                    -- a run of printable characters / tabs
  | sgr (body : List Char)                   -- ESC [ body m          body ∈ {0-9 ; :}*
  | csi (body : List Char) (final : Char)    -- ESC [ body final      any other CSI sequence
  deriving DecidableEq, Repr

def ESC : Char := Char.ofNat 0x1b

def Seg.render : Seg → List Char
  | .text cs => cs
  | .sgr body => ESC :: '[' :: (body ++ ['m'])
  | .csi body f => ESC :: '[' :: (body ++ [f])

def render (segs : List Seg) : List Char := (segs.map Seg.render).flatten

def Seg.text? : Seg → List Char
  | .text cs => cs
  | _ => []

/-- the line with every CSI sequence removed -/
def text (segs : List Seg) : List Char := (segs.map Seg.text?).flatten

def isParamChar (c : Char) : Bool := (48 ≤ c.toNat && c.toNat ≤ 57) || c == ';' || c == ':'

/-- well-formed segment of the property's grammar: text runs hold printable characters (>= U+0020, any
    plane) and tabs; an SGR sequence has only digits `;` `:` between `ESC [` and `m`; any other CSI sequence has
    parameter / intermediate bytes 0x20–0x3F and a final byte 0x40–0x7E other than `m`
    (so `ESC [ > 4 ; 2 m`, `ESC [ ? 1 m`, `ESC [ 1 SP m` — final `m` but not SGR — are NOT in the grammar). -/
def Seg.wf : Seg → Prop
  | .text cs => ∀ c ∈ cs, c = '\t' ∨ 0x20 ≤ c.toNat
  | .sgr body => ∀ c ∈ body, isParamChar c = true
  | .csi body f => (∀ c ∈ body, 0x20 ≤ c.toNat ∧ c.toNat ≤ 0x3f) ∧ 0x40 ≤ f.toNat ∧ f.toNat ≤ 0x7e ∧ f ≠ 'm'

/-- attribute of every character of `text segs`, starting from running attribute `a`;
    `par` turns the parameter bytes of an SGR sequence into its parameter list -/
def attrsWith (par : List Char → List Param) : Attr → List Seg → List Attr
  | _, [] => []
  | a, .text cs :: r => List.replicate cs.length a ++ attrsWith par a r
  | a, .sgr body :: r => attrsWith par (sgrSeq a (par body)) r
  | a, .csi _ _ :: r => attrsWith par a r

/-- running attribute after the line -/
def finalWith (par : List Char → List Param) : Attr → List Seg → Attr
  | a, [] => a
  | a, .text _ :: r => finalWith par a r
  | a, .sgr body :: r => finalWith par (sgrSeq a (par body)) r
  | a, .csi _ _ :: r => finalWith par a r

def attrs : Attr → List Seg → List Attr := attrsWith params
def final : Attr → List Seg → Attr := finalWith params

/-- several lines with the running attribute carried over from line to line (header, preview):
    per line, its stripped text and its characters paired with their attributes -/
def linesWith (par : List Char → List Param) : Attr → List (List Seg) → List (List Char × List (Char × Attr))
  | _, [] => []
  | a, l :: ls => (text l, (text l).zip (attrsWith par a l)) :: linesWith par (finalWith par a l) ls

/-- several items, each starting from the default attribute -/
def itemsWith (par : List Char → List Param) (ls : List (List Seg)) : List (List Char × List (Char × Attr)) :=
  ls.map (fun l => (text l, (text l).zip (attrsWith par {} l)))

end SkimModel.Ansi.Spec
