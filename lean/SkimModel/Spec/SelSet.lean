/-
Reference semantics for C10 (selection-set level): the selection is a SET of keys `(run, index)`; the
actions are insertion/removal, union, symmetric difference and clear.  A set is a duplicate-free list in
no particular order; only membership matters (`SetEq`).  What is shown to the user is derived from the
set: the count is its size, accept returns the keys in ascending `(run, index)` order.

The environment of an action (the list shown, the cursor, the current run number, multi mode, the
pre-selection watermark) is read from the model state; the spec replaces only what happens to `selected`.
-/
import SkimModel.Model.SelSet
namespace SkimModel.SelSet

abbrev KSet := List Key

def SetEq (a b : KSet) : Prop := ∀ k, k ∈ a ↔ k ∈ b

def sInsert (k : Key) (S : KSet) : KSet := if k ∈ S then S else k :: S
def sErase (k : Key) (S : KSet) : KSet := S.filter (· ≠ k)
/-- insertion when absent, removal when present = symmetric difference with `{k}` -/
def sToggle (k : Key) (S : KSet) : KSet := if k ∈ S then sErase k S else k :: S
/-- `S ∪ L` -/
def sUnion (L : List Key) (S : KSet) : KSet := L.foldl (fun S k => sInsert k S) S
/-- `S ∆ L` for a duplicate-free `L` -/
def sSymmDiff (L : List Key) (S : KSet) : KSet := S.filter (· ∉ L) ++ L.filter (· ∉ S)

/-- keys of the items currently listed, under run `run` -/
def listedKeys (s : Sel) (run : Nat) : List Key := s.listed.map (fun x => (run, x.idx))

/-- the keys `pre_select` adds for a batch -/
def preKeys (sel : Selector) (run : Nat) (batch : List MItem) : List Key :=
  (batch.filter (fun m => sel.shouldSelect m.idx m.item)).map (fun m => (run, m.idx))

/-- does `append_sorted_items` run the pre-selection for this batch? (watermark logic, read from the model) -/
def preSelectDue (s : Sel) (run : Nat) (batch : List MItem) : Bool :=
  let wm := if !batch.isEmpty && run > s.latestRun then 0 else s.watermark
  decide (s.listed.length ≥ wm)

/-- the reference transition on the key set; `st` supplies the environment -/
def specStep (st : St) (S : KSet) : Op → KSet
  | .run _ => S
  | .clear => S
  | .append b =>
    match st.sel.selector with
    | some sel => if st.sel.multi && preSelectDue st.sel st.runs.cur b then sUnion (preKeys sel st.runs.cur b) S else S
    | none => S
  | .toggle c =>
    if !st.sel.multi then S else
    match st.sel.listed[c]? with
    | some cur => sToggle (st.runs.cur, cur.idx) S
    | none => S
  | .toggleAll => if !st.sel.multi then S else sSymmDiff (listedKeys st.sel st.runs.cur) S
  | .selectAll => if !st.sel.multi then S else sUnion (listedKeys st.sel st.runs.cur) S
  | .deselectAll => []
  | .selectMatched i _ => if !st.sel.multi then S else sInsert (st.runs.cur, i) S
  | .accept _ => S

/-- ascending `(run, index)` order for output -/
def sortKeys : KSet → List Key
  | [] => []
  | k :: t => insertKey k (sortKeys t)
where insertKey (k : Key) : List Key → List Key
  | [] => [k]
  | x :: t => if keyLt k x then k :: x :: t else x :: insertKey k t

/-- what accept returns according to the property: the selected keys in ascending order (their item
    indices), or the cursor item alone when nothing is selected / in single mode -/
def specAccept (st : St) (S : KSet) (cursor : Nat) : List Nat :=
  let ks := (sortKeys S).map (·.2)
  if (!st.sel.multi || S.isEmpty) && !st.sel.listed.isEmpty then ks ++ ((st.sel.listed[cursor]?).map (·.idx)).toList else ks

/-- the abstraction: the key set of a model state -/
def keys (s : Sel) : KSet := s.selected.map (·.1)

/-- the representation invariant of the BTreeMap: keys strictly ascending -/
def Sorted (m : SelMap) : Prop := m.Pairwise (fun a b => keyLt a.1 b.1 = true)

/-- representation invariant of `selected` -/
def WF (s : Sel) : Prop := Sorted s.selected

/-- model and reference in lockstep; the reference reads its environment (list, cursor, run) from the model -/
def specRun (st : St) (S : KSet) : List Op → Option (St × KSet)
  | [] => some (st, S)
  | o :: os => match step st o with
    | none => none
    | some st' => specRun st' (specStep st S o) os

/-- toggle-all is only issued while the listed indices are pairwise different -/
def Admissible (st : St) : List Op → Prop
  | [] => True
  | o :: os => (o = .toggleAll → (listedKeys st.sel st.runs.cur).Nodup) ∧
      ∀ st', step st o = some st' → Admissible st' os

/-- invariant of `NUM_MAP` / `SEQ`: the empty command has number 0, numbers are below `SEQ` and different
    commands have different numbers -/
def RunsWF (g : Runs) : Prop :=
  Runs.find "" g.map = some 0 ∧ 0 < g.seq ∧
  (∀ c n, Runs.find c g.map = some n → n < g.seq) ∧
  (∀ c d n, Runs.find c g.map = some n → Runs.find d g.map = some n → c = d)

end SkimModel.SelSet
