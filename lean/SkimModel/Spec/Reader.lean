/-
Declarative spec of "lines of a byte stream" (property C06), independent of the reader loop.

`pieces t bs` is the classical split of `bs` at every occurrence of the terminator byte `t`
(n terminators give n+1 pieces, none of which contains `t`).  Every piece but the last was followed
by a terminator; in newline mode (`t = 10`) a CR directly before the terminator belongs to the
terminator (CRLF).  The last piece is the unterminated tail of the stream: it is a line iff it is
not empty.
-/
import SkimModel.Model.Reader
namespace SkimModel.Reader

/-- classical split at `t` (always at least one piece) -/
def pieces (t : UInt8) : Bytes → List Bytes
  | [] => [[]]
  | b :: bs =>
    if b == t then [] :: pieces t bs
    else match pieces t bs with
      | [] => [[b]]            -- unreachable (`pieces` is never empty)
      | p :: ps => (b :: p) :: ps

/-- remove one trailing CR -/
def dropCR (l : Bytes) : Bytes :=
  match l.reverse with
  | x :: r => if x == 13 then r.reverse else l
  | [] => l

/-- the line carried by a TERMINATED piece -/
def lineOf (t : UInt8) (p : Bytes) : Bytes := if t == 10 then dropCR p else p

/-- lines of a list of pieces: all but the last are terminated, the last one is the tail -/
def specOf (t : UInt8) : List Bytes → List Bytes
  | [] => []
  | [p] => if p.isEmpty then [] else [p]
  | p :: q :: ps => lineOf t p :: specOf t (q :: ps)

/-- THE SPEC: the lines of stream `bs` under terminator `t` -/
def specLines (t : UInt8) (bs : Bytes) : List Bytes := specOf t (pieces t bs)

/-- a legal line terminator in mode `t`: the byte `t`, or CR LF in newline mode -/
def IsTerm (t : UInt8) (s : Bytes) : Prop := s = [t] ∨ (t = 10 ∧ s = [13, 10])

/-- the terminator actually found after a terminated piece -/
def sepOf (t : UInt8) (p : Bytes) : Bytes :=
  if t == 10 then (if dropCR p = p then [t] else [13, t]) else [t]

/-- terminators of a list of pieces, aligned with `specOf` (the tail has the empty terminator) -/
def sepsOf (t : UInt8) : List Bytes → List Bytes
  | [] => []
  | [p] => if p.isEmpty then [] else [[]]
  | p :: q :: ps => sepOf t p :: sepsOf t (q :: ps)

def specSeps (t : UInt8) (bs : Bytes) : List Bytes := sepsOf t (pieces t bs)

end SkimModel.Reader
