/-
Declarative spec of C03: what one search term means.  Written with the standard library's notions
(`List.Sublist`, `<+:`, `<:+`, `<:+:`, `Char.toLower`, `Char.isUpper` — both ASCII-only in Lean core),
independently of the engine model.  `termSpecB` is the executable form used by the driver to judge the
IMPLEMENTATION's verdicts; `Props/C03.lean` proves `termSpecB = true ↔ termSpec` and
`matchTerm ↔ termSpec`.
-/
import SkimModel.Model.Engine
namespace SkimModel.Engine

/-- a term with its operators removed -/
structure Stripped where
  fuzzy   : Bool          -- plain term: characters in order
  inverse : Bool          -- leading `!`
  pre     : Bool          -- `^`
  post    : Bool          -- `$`
  body    : List Char     -- the remaining string
  deriving DecidableEq, Repr

/-- The documented operator syntax, outermost first: `'`  `!`  `^`  …  `$`.
    Under `--exact` a leading `'` makes the whole rest a fuzzy term (no further operators).
    A term is fuzzy iff no operator was present and `--exact` is off. -/
def strip (exactMode : Bool) (t : List Char) : Stripped :=
  if exactMode && t.head? == some '\'' then ⟨true, false, false, false, t.tail⟩ else
  let q := t.head? == some '\''
  let t1 := if q then t.tail else t
  let inv := t1.head? == some '!'
  let t2 := if inv then t1.tail else t1
  let pre := t2.head? == some '^'
  let t3 := if pre then t2.tail else t2
  let post := t3.getLast? == some '$'
  let body := if post then t3.dropLast else t3
  ⟨!(q || inv || pre || post || exactMode), inv, pre, post, body⟩

/-- case rule: respect / ignore / smart = the body contains an ASCII upper-case letter -/
def specCaseSensitive (cm : CaseMode) (body : List Char) : Bool :=
  match cm with
  | .respect => true
  | .ignore => false
  | .smart => body.any Char.isUpper

/-- the text as compared: unchanged, or ASCII-lower-cased when case is ignored -/
def fold (cs : Bool) (s : List Char) : List Char := if cs then s else s.map Char.toLower

/-- substring / prefix / suffix / the whole text -/
def anchored (pre post : Bool) (b x : List Char) : Prop :=
  match pre, post with
  | false, false => b <:+: x
  | true,  false => b <+: x
  | false, true  => b <:+ x
  | true,  true  => b = x

/-- the rule for a stripped term -/
def strippedSpec (cm : CaseMode) (d : Stripped) (x : List Char) : Prop :=
  if d.body = [] then True                      -- nothing left to match: matches everything
  else
    let cs := specCaseSensitive cm d.body
    if d.fuzzy then (fold cs d.body).Sublist (fold cs x)
    else if d.inverse then ¬ anchored d.pre d.post (fold cs d.body) (fold cs x)
    else anchored d.pre d.post (fold cs d.body) (fold cs x)

/-- C03 for fuzzy / exact terms. -/
def termSpec (cfg : Cfg) (t x : List Char) : Prop :=
  strippedSpec cfg.case (strip cfg.exactMode t) x

/-! executable form (standard library functions on the folded lists) -/

/-- `b` is a prefix of some tail of the text -/
def isInfixB (b : List Char) : List Char → Bool
  | [] => b.isPrefixOf []
  | c :: xs => b.isPrefixOf (c :: xs) || isInfixB b xs

def anchoredB (pre post : Bool) (b x : List Char) : Bool :=
  match pre, post with
  | false, false => isInfixB b x
  | true,  false => b.isPrefixOf x
  | false, true  => b.isSuffixOf x
  | true,  true  => b == x

def strippedSpecB (cm : CaseMode) (d : Stripped) (x : List Char) : Bool :=
  if d.body.isEmpty then true
  else
    let cs := specCaseSensitive cm d.body
    if d.fuzzy then (fold cs d.body).isSublist (fold cs x)
    else anchoredB d.pre d.post (fold cs d.body) (fold cs x) != d.inverse

def termSpecB (cfg : Cfg) (t x : List Char) : Bool :=
  strippedSpecB cfg.case (strip cfg.exactMode t) x

/-- C03, regex mode: case-sensitive unless ignore-case is forced; an invalid expression filters
    nothing out.  `re p` is the regex crate's answer for pattern string `p` on the text at hand. -/
def regexSpec (cm : CaseMode) (q : List Char) (re : List Char → ReOracle) : Prop :=
  let p := if cm = .ignore then "(?i)".toList ++ q else q
  (re p).compiles = false ∨ (re p).finds = true

def regexSpecB (cm : CaseMode) (q : List Char) (re : List Char → ReOracle) : Bool :=
  let p := if cm = .ignore then "(?i)".toList ++ q else q
  !(re p).compiles || (re p).finds

end SkimModel.Engine
