/-
Declarative spec of C04: what a composed query means, on an AST
(`List` of alternatives, each a `List` of terms, each term the text handed to the term engine).
-/
import SkimModel.Spec.Term
namespace SkimModel.Engine

abbrev Ast := List (List (List Char))

/-- an item matches iff for at least one alternative it matches every term of that alternative
    (an alternative without terms — a stray bar — matches nothing) -/
def astSpec (cfg : Cfg) (ast : Ast) (x : List Char) : Prop :=
  ∃ alt ∈ ast, alt ≠ [] ∧ ∀ t ∈ alt, termSpec cfg t x

/-- executable form -/
def astSpecB (cfg : Cfg) (ast : Ast) (x : List Char) : Bool :=
  ast.any (fun alt => !alt.isEmpty && alt.all (fun t => termSpecB cfg t x))

/-- same alternatives in the same order, each with its terms rearranged -/
inductive InnerPerm : Ast → Ast → Prop
  | nil : InnerPerm [] []
  | cons {a a' : List (List Char)} {as as' : Ast} : a.Perm a' → InnerPerm as as' → InnerPerm (a :: as) (a' :: as')

/-! ### how an AST is written as a query string -/

/-- a term as typed: every blank is written `\ ` -/
def esc (t : List Char) : List Char := t.flatMap (fun c => if c = ' ' then ['\\', ' '] else [c])

/-- `n` blanks -/
def sp (n : Nat) : List Char := List.replicate n ' '

/-- a term that can be written: non-empty, no NUL (the parser's mask character), no bar at either
    end (bars at the ends are stray bars and are dropped), no trailing backslash (it would escape the
    separator that follows).  Blanks are allowed anywhere (they are written `\ `). -/
def WFTerm (t : List Char) : Prop :=
  t ≠ [] ∧ Char.ofNat 0 ∉ t ∧ t.head? ≠ some '|' ∧ t.getLast? ≠ some '|' ∧ t.getLast? ≠ some '\\'

/-- words joined by `gap + 1` blanks (the gap stored with the last word is not written) -/
def joinAlt : List (List Char × Nat) → List Char
  | [] => []
  | (w, k) :: rest => w ++ (if rest.isEmpty then [] else sp (k + 1) ++ joinAlt rest)

/-- alternatives joined by `l + 1` blanks, a bar, `r + 1` blanks (not written after the last one) -/
def joinAlts : List (List (List Char × Nat) × Nat × Nat) → List Char
  | [] => []
  | (a, l, r) :: rest =>
    joinAlt a ++ (if rest.isEmpty then [] else sp (l + 1) ++ '|' :: sp (r + 1) ++ joinAlts rest)

/-- terms with the number of EXTRA blanks after each -/
abbrev PAlt := List (List Char × Nat)

/-- alternatives with the EXTRA blanks left and right of the bar that follows each -/
abbrev PQuery := List (PAlt × Nat × Nat)

/-- apply `f` to every term, keep the padding -/
def PQuery.mapTerms (f : List Char → List Char) (q : PQuery) : PQuery :=
  q.map (fun a => (a.1.map (fun t => (f t.1, t.2)), a.2))

/-- every term written with its blanks escaped -/
def renderAlts (q : PQuery) : List Char := joinAlts (q.mapTerms esc)

/-- the query string: leading blanks, alternatives, trailing blanks -/
def renderQuery (lead trail : Nat) (q : PQuery) : List Char := sp lead ++ renderAlts q ++ sp trail

/-- the AST a padded query denotes -/
def PQuery.ast (q : PQuery) : Ast := q.map (fun a => a.1.map (·.1))

def WFQuery (q : PQuery) : Prop :=
  q ≠ [] ∧ ∀ a ∈ q, a.1 ≠ [] ∧ ∀ t ∈ a.1, WFTerm t.1

end SkimModel.Engine
