/-
Executable model of `src/orderedvec.rs` (`OrderedVec<T>`), mirroring the Rust branch by branch.
NO imports (this file is linked into the native driver).

Representation.  `sorted : Vec<T>` is `sorted : List α` in the same order.  Every vector of
`sub_vectors` is kept by the Rust code "reverse ordered, last one is the smallest one" and is only
ever read through `last()` / `pop()`; the model stores each of them REVERSED, so that Rust's
`v.last()` is the head and `v.pop()` is the tail of the model list.  The outer `Vec<Vec<T>>` keeps
its order (`push` = append at the end, `remove(i)` = `eraseIdx i`).

`T: Ord` is the parameter `le : α → α → Bool` (`a <= b`); `par_sort` is `List.mergeSort le`
(both are stable sorts, so they agree element for element, not only on keys).

Where the Rust code can panic (`&list[index]` in `get`) the model answers `Res.panic`; the
theorems in `Props/C02.lean` show this never happens.
-/
namespace SkimModel.OrderedVec

/-- `tac`, `nosort` and the constant `MAX_MOVEMENT` (instantiated from `Generated/OrderedVec.lean`) -/
structure Cfg where
  tac : Bool
  nosort : Bool
  maxMove : Nat

structure State (α : Type) where
  /-- `sorted`: globally sorted items, the first one is the smallest one -/
  sorted : List α := []
  /-- `sub_vectors`, each inner vector reversed (head = Rust's `last()`) -/
  subs : List (List α) := []

variable {α : Type} (le : α → α → Bool)

/-- `self.compare_item(a, b) == Ordering::Less` -/
def lt (c : Cfg) (a b : α) : Bool := if c.tac then !le a b else !le b a

/-- `sort_vector(vec, asc)`: `asc ^= tac; vec.par_sort(); if !asc { vec.reverse() }` -/
def sortVec (c : Cfg) (asc : Bool) (v : List α) : List α :=
  let s := v.mergeSort le
  if asc ^^ c.tac then s else s.reverse

/-- the movement loop of `append`
    `while items_smaller.len() < MAX_MOVEMENT && !items.is_empty() && compare_item(items.last(), sorted.last()) == Less
       { items_smaller.push(items.pop()) }`
    on the reversed batch (`items.last()` = head); returns `(items_smaller, items)` -/
def moveLoop (c : Cfg) (last : α) : List α → List α → List α × List α
  | x :: items, moved =>
    if moved.length < c.maxMove && lt le c x last then moveLoop c last items (moved ++ [x])
    else (moved, x :: items)
  | [], moved => (moved, [])

/-- `append` (the code after the fix: when, after the movement limit, the batch still holds an item that is
    smaller than `sorted.last()`, the materialised prefix is demoted to a sub-vector) -/
def append (c : Cfg) (s : State α) (batch : List α) : State α :=
  if c.nosort then { s with sorted := s.sorted ++ batch } else
  let items := (sortVec le c false batch).reverse
  let mr := match s.sorted.getLast? with
    | some last => moveLoop le c last items []
    | none => ([], items)
  let moved := mr.1
  let rest := mr.2
  -- `let too_many_moved = !items.is_empty() && !sorted.is_empty() && compare_item(items.last(), sorted.last()) == Less`
  let demote := match s.sorted.getLast? with
    | some last => (match rest.head? with
      | some x => lt le c x last
      | none => false)
    | none => false
  -- `if !items.is_empty() { self.sub_vectors.push(items) }`
  let subs := if rest.isEmpty then s.subs else s.subs ++ [rest]
  -- `sorted.append(&mut items_smaller)`
  let all := s.sorted ++ moved
  if demote then
    { sorted := [], subs := subs ++ [(sortVec le c false all).reverse] }
  else
    { sorted := sortVec le c true all, subs := subs }

/-- `vectors.iter().map(|v| v.last()).enumerate().filter(|(_, item)| item.is_some())
      .min_by(|(_, a), (_, b)| compare_item(a, b))`
    as the left fold that `Iterator::min_by` is: the earlier element is kept unless the later one is
    strictly smaller. Returns the index and the head found there. -/
def minIndexGo (c : Cfg) : Option (Nat × α) → Nat → List (List α) → Option (Nat × α)
  | best, _, [] => best
  | best, i, [] :: vs => minIndexGo c best (i + 1) vs
  | none, i, (y :: _) :: vs => minIndexGo c (some (i, y)) (i + 1) vs
  | some (j, x), i, (y :: _) :: vs =>
    minIndexGo c (if lt le c y x then some (i, y) else some (j, x)) (i + 1) vs

def minIndex (c : Cfg) (vs : List (List α)) : Option (Nat × α) := minIndexGo le c none 0 vs

/-- the `while index >= sorted.len()` loop of `merge_till`; `fuel` bounds the number of iterations
    (one element leaves `sub_vectors` per iteration, see `mergeTill`) -/
def mergeLoop (c : Cfg) (index : Nat) : Nat → State α → State α
  | 0, s => s
  | fuel + 1, s =>
    if index ≥ s.sorted.length then
      match minIndex le c s.subs with
      | none => s                                   -- `o_min_index.is_none()` → break
      | some (i, _) =>
        match s.subs[i]? with                       -- `vectors[min_index].pop()`
        | some (x :: r) =>
          mergeLoop c index fuel
            { sorted := s.sorted ++ [x],
              subs := if r.isEmpty then s.subs.eraseIdx i else s.subs.set i r }
        | _ => s                                    -- `min_item.is_none()` → break
    else s

/-- number of items waiting in `sub_vectors` -/
def pending (s : State α) : Nat := (s.subs.map List.length).sum

/-- `len()` -/
def len (s : State α) : Nat := s.sorted.length + pending s

def mergeTill (c : Cfg) (index : Nat) (s : State α) : State α := mergeLoop le c index (pending s) s

/-- result of `get`: `None`, `Some(item)`, or an index panic -/
inductive Res (α : Type) where
  | none
  | some (a : α)
  | panic

/-- `get(index)` -/
def get (c : Cfg) (s : State α) (index : Nat) : State α × Res α :=
  let s := mergeTill le c index s
  if len s ≤ index then (s, .none) else
  let idx := if c.tac && c.nosort then len s - index - 1 else index
  match s.sorted[idx]? with
  | some a => (s, .some a)
  | none => (s, .panic)

/-- `OrderedVecIter::next` until `None`; items are collected newest first.
    The flag is `true` when a `get` panicked or the fuel ran out (neither can happen). -/
def iterLoop (c : Cfg) : Nat → Nat → State α → List α → State α × List α × Bool
  | 0, _, s, acc => (s, acc, true)
  | fuel + 1, i, s, acc =>
    match get le c s i with
    | (s', .some a) => iterLoop c fuel (i + 1) s' (a :: acc)
    | (s', .none) => (s', acc, false)
    | (s', .panic) => (s', acc, true)

/-- `iter()` consumed to the end: `merge_till(self.len())`, then `get(0), get(1), …` -/
def iter (c : Cfg) (s : State α) : State α × List α × Bool :=
  let s := mergeTill le c (len s) s
  let r := iterLoop le c (len s + 1) 0 s []
  (r.1, r.2.1.reverse, r.2.2)

inductive Op (α : Type) where
  | append (batch : List α)
  | get (i : Nat)
  | len
  | iter
  | clear

inductive Out (α : Type) where
  | unit
  | len (n : Nat)
  | got (r : Res α)
  | items (l : List α) (panicked : Bool)

def step (c : Cfg) (s : State α) : Op α → State α × Out α
  | .append b => (append le c s b, .unit)
  | .get i => let r := get le c s i; (r.1, .got r.2)
  | .len => (s, .len (len s))
  | .iter => let r := iter le c s; (r.1, .items r.2.1 r.2.2)
  | .clear => ({ sorted := [], subs := [] }, .unit)

/-- run a history from a state; outputs in order -/
def run (c : Cfg) : State α → List (Op α) → State α × List (Out α)
  | s, [] => (s, [])
  | s, op :: ops =>
    let r := step le c s op
    let rr := run c r.1 ops
    (rr.1, r.2 :: rr.2)

end SkimModel.OrderedVec
