/-
Types shared by the C19 model and the tables generated from the source
(`Generated/Keymap.lean`).  Import-free.

Strings are `List Char` throughout (no `String` in anything a theorem talks about).
-/
namespace SkimModel.Keymap

/-- `tuikit::key::Key`, as far as `from_keyname` and the default key map can produce it.
    Unit variants (`Tab`, `Enter`, `ESC`, `Null`, `ShiftUp`, …) are `named <variant>`. -/
inductive Key
  | named (n : List Char)
  | ctrl (c : Char)
  | ctrlAlt (c : Char)
  | alt (c : Char)
  | char (c : Char)
  | f (n : Nat)
  deriving DecidableEq, Repr, Inhabited

/-- how `parse_event` uses the optional argument of an action -/
inductive ArgKind
  | none      -- argument ignored
  | optStr    -- passed on as `Option<String>`                       (accept)
  | int1      -- `arg.and_then(|s| s.parse().ok()).unwrap_or(1)`     (up, down, page-up, …)
  | reqStr    -- `arg.expect(msg)`: PANICS without an argument       (execute, if-query-empty, …)
  deriving DecidableEq, Repr, Inhabited

/-- `skim::event::Event`; the constructor is kept as its source name (the table is generated) -/
inductive Event
  | plain (ctor : List Char)
  | int (ctor : List Char) (n : Int)
  | str (ctor : List Char) (s : List Char)
  | optStr (ctor : List Char) (s : Option (List Char))
  | addChar (c : Char)
  | inputKey (k : Key)
  deriving DecidableEq, Repr, Inhabited

structure ActionRow where
  name : List Char
  ctor : List Char
  kind : ArgKind
  msg  : List Char
  deriving DecidableEq, Repr, Inhabited

/-- the condition of a conditional arm of `Model::start` -/
inductive Cond
  | queryEmpty | queryNotEmpty | nonMatched
  deriving DecidableEq, Repr, Inhabited

end SkimModel.Keymap
