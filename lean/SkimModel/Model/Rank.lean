/-
Model of the sort-key machinery of skim (property C13), mirroring the code branch by branch:

  src/item.rs   `parse_criteria`, `RankBuilder::{default,new,build_rank}`, `Ord for MatchedItem`
  src/model.rs  `Model::new`: `options.tiebreak` -> `split(',').filter_map(parse_criteria)` or
                `DEFAULT_CRITERION`, then `RankBuilder::new`

All tables (the enum, the name table, the arms of the `match` in `build_rank`, both defaults, the
separator, `take(4)`, `[0; 4]`) come from `SkimModel.Generated.Rank`, which `tools/extractors/rank.py`
regenerates from the Rust sources on every run.  Nothing else is imported (the driver links natively).

Integers.  `i32` values are modelled as `Int`; `usize as i32` is the two's-complement wrap `asI32`;
unary minus on `i32` is CHECKED (the harness is compiled with overflow checks, as a debug build of
skim is): negating `i32::MIN` is a panic, visible here as `none`.  No theorem quietly assumes the
absence of overflow: the range hypotheses are explicit in `Props/C13.lean`.
-/
import SkimModel.Generated.Rank
namespace SkimModel.Rank
open SkimModel.Generated.Rank

/-! ### text -> criteria -/

/-- `str::split(sep)` on a character: the pieces between separators; always at least one piece;
    empty pieces are kept (`"a,,b"` -> `a`, ``, `b`; `""` -> one empty piece). -/
def splitOnChar (sep : Char) : List Char → List (List Char)
  | [] => [[]]
  | c :: cs =>
    if c = sep then [] :: splitOnChar sep cs
    else match splitOnChar sep cs with
      | [] => [[c]]                     -- unreachable (the result is never empty)
      | w :: ws => (c :: w) :: ws

/-- `text.to_lowercase()` restricted to what can matter for the comparison with the ASCII names of the
    table: ASCII letters are folded, every other character is left alone.  (Rust folds all of Unicode;
    the only non-ASCII character whose lower case is ASCII is U+212A KELVIN SIGN -> `k`, and no
    name contains `k`; the harness generates such characters to keep this honest.) -/
def lower (text : List Char) : List Char := text.map Char.toLower

/-- first arm of the table whose string equals `key` (a Rust `match` on string literals) -/
def lookup (key : List Char) : List (String × Criterion) → Option Criterion
  | [] => none
  | (name, c) :: rest => if key = name.toList then some c else lookup key rest

/-- `parse_criteria` -/
def parseCriteria (text : List Char) : Option Criterion := lookup (lower text) parseCriteriaTable

/-- `Model::new`: the criteria handed to `RankBuilder::new` -/
def modelCriterion : Option (List Char) → List Criterion
  | some tieBreaker => (splitOnChar splitChar tieBreaker).filterMap parseCriteria
  | none => modelDefault

/-! ### RankBuilder -/

/-- the loop of `Vec::dedup`: every element is compared with the last element KEPT so far (`prev`)
    and dropped when equal -/
def dedupFrom (prev : Criterion) : List Criterion → List Criterion
  | [] => []
  | b :: t => if prev = b then dedupFrom prev t else b :: dedupFrom b t

/-- `Vec::dedup`: consecutive repeated elements are removed, the first of every run stays -/
def dedup : List Criterion → List Criterion
  | [] => []
  | a :: t => a :: dedupFrom a t

/-- `RankBuilder::new` -/
def rankBuilderNew (criterion : List Criterion) : List Criterion :=
  let criterion :=
    if implicitUnless.all (fun u => !criterion.contains u) then implicitCriterion :: criterion
    else criterion
  dedup criterion

/-- the builder skim uses for a session started with `options.tiebreak = tb` -/
def builderOf (tb : Option (List Char)) : List Criterion := rankBuilderNew (modelCriterion tb)

/-! ### build_rank -/

def i32Min : Int := -2147483648
def i32Max : Int := 2147483647

/-- `x as i32` for `x : usize` (64-bit or 32-bit alike): keep the low 32 bits, read as signed -/
def asI32 (n : Nat) : Int :=
  let m : Int := (n % 4294967296 : Nat)
  if m ≤ i32Max then m else m - 4294967296

/-- checked `-x` on `i32`: `none` = "attempt to negate with overflow" -/
def negI32 (x : Int) : Option Int := if x = i32Min then none else some (-x)

/-- the arguments of `build_rank` -/
structure Tuple where
  score  : Int          -- an `i32`
  begin  : Nat          -- `usize`
  «end»  : Nat
  length : Nat
  deriving DecidableEq, Repr, Inhabited

/-- the four `i32` locals of `build_rank` after the `as i32` casts -/
def local32 (t : Tuple) : Field → Int
  | .score => t.score
  | .begin => asI32 t.begin
  | .«end» => asI32 t.«end»
  | .length => asI32 t.length

/-- `let value = match criteria { … }` -/
def value (c : Criterion) (t : Tuple) : Option Int :=
  match rankArm c with
  | (true, f) => negI32 (local32 t f)
  | (false, f) => some (local32 t f)

/-- the `for (index, criteria) in … .enumerate()` loop; `none` = panic (negation overflow, or an
    index outside the array if `take(N)` ever exceeded the array length) -/
def fill (t : Tuple) : List Criterion → Nat → List Int → Option (List Int)
  | [], _, rank => some rank
  | c :: cs, index, rank =>
    match value c t with
    | none => none
    | some v => if index < rank.length then fill t cs (index + 1) (rank.set index v) else none

/-- `RankBuilder::build_rank` on a builder whose `criterion` vector is `cs` -/
def buildRank (cs : List Criterion) (t : Tuple) : Option (List Int) :=
  fill t (cs.take takeN) 0 (List.replicate rankLen 0)

/-- `Ord for [i32; N]` (what `Ord for MatchedItem` delegates to): lexicographic -/
def cmpRank : List Int → List Int → Ordering
  | [], [] => .eq
  | [], _ :: _ => .lt
  | _ :: _, [] => .gt
  | a :: as, b :: bs => if a < b then .lt else if b < a then .gt else cmpRank as bs

end SkimModel.Rank
