/-
Model of the SELECTION-SET level of `src/selection.rs` (property C10) and of the run-number table of
`src/global.rs`.

What is modelled (branch by branch):
  * `selected : BTreeMap<(u32,u32), Arc<dyn SkimItem>>`  = a key-sorted, key-unique association list
    (`insert` replaces the value of an existing key, `remove`, `containsKey`),
  * `act_toggle`, `act_toggle_all`, `act_select_all`, `act_deselect_all`, `act_select_raw_item`
    (= `act_select_matched`), `pre_select` and the watermark logic of `append_sorted_items`,
    `clear`, `get_num_selected`, `get_selected_indices_and_items`,
  * `global::mark_new_run` / `current_run_num` (one run number per distinct command string).

What is NOT modelled here: the cursor arithmetic (`act_move_line_cursor`, the cursor repair at the end
of `append_sorted_items`) — that is property C09.  In this model the cursor (`item_cursor + line_cursor`)
is an INPUT of `toggle` and `accept`.  Where the Rust code panics (`items.get(cursor)` is `None`) the model
returns `none`.

The list widget's `items : OrderedVec<MatchedItem>` is represented by the sequence in which
`OrderedVec::iter()` / `get(i)` enumerate it (property C02 is about that container); `appendItems` gives
that sequence for `--no-sort` (append order, reversed by `--tac`) and for sorted lists whose ranks are all
different (ascending rank, descending with `--tac`).

An item is represented by a natural number (the harness renders item `n` as the text `t<n>`).
The model is import-free so that the driver links as a native executable.
-/
namespace SkimModel.SelSet

/-- `(run number, item index)` — `ItemIndex` in selection.rs -/
abbrev Key := Nat × Nat
abbrev Item := Nat

/-- `Ord` of the tuple `(u32, u32)`: lexicographic -/
def keyLt (a b : Key) : Bool := a.1 < b.1 || (a.1 == b.1 && a.2 < b.2)

abbrev SelMap := List (Key × Item)

/-- `BTreeMap::insert`: keeps key order, replaces the value when the key is present -/
def insert (k : Key) (v : Item) : SelMap → SelMap
  | [] => [(k, v)]
  | e :: t =>
    if keyLt k e.1 then (k, v) :: e :: t
    else if k = e.1 then (k, v) :: t
    else e :: insert k v t

/-- `BTreeMap::remove` -/
def remove (k : Key) : SelMap → SelMap
  | [] => []
  | e :: t => if k = e.1 then t else e :: remove k t

/-- `BTreeMap::contains_key` -/
def containsKey (k : Key) (m : SelMap) : Bool := m.any (fun e => k == e.1)

/-- `BTreeMap::get` -/
def lookup (k : Key) : SelMap → Option Item
  | [] => none
  | e :: t => if k = e.1 then some e.2 else lookup k t

/-- `MatchedItem`: only what the selection code reads (`item_idx`, `item`) plus the rank that decides
    the place in the list -/
structure MItem where
  idx  : Nat
  item : Item
  rank : Int
  deriving DecidableEq, Repr, Inhabited

/-- `DefaultSkimSelector` with `first_n` and `preset` (helper/selector.rs): an item is pre-selected
    when `first_n > index` or its text is in the preset -/
structure Selector where
  firstN : Nat
  preset : List Item
  deriving DecidableEq, Repr, Inhabited

def Selector.shouldSelect (sel : Selector) (idx : Nat) (it : Item) : Bool :=
  decide (sel.firstN > idx) || sel.preset.contains it

structure Sel where
  selected  : SelMap := []
  /-- the list in the order `OrderedVec::iter()` enumerates it -/
  listed    : List MItem := []
  multi     : Bool := false
  nosort    : Bool := false
  tac       : Bool := false
  selector  : Option Selector := none
  latestRun : Nat := 0          -- latest_select_run_num
  watermark : Nat := 0          -- pre_selected_watermark
  deriving DecidableEq, Repr, Inhabited

/-- place of a new item in a rank-sorted list (ascending; descending with `tac`) -/
def insertRank (tac : Bool) (m : MItem) : List MItem → List MItem
  | [] => [m]
  | x :: t =>
    if (if tac then decide (x.rank < m.rank) else decide (m.rank < x.rank)) then m :: x :: t
    else x :: insertRank tac m t

/-- `OrderedVec::append` as seen through `iter()` -/
def appendItems (s : Sel) (batch : List MItem) : List MItem :=
  if s.nosort then (if s.tac then batch.reverse ++ s.listed else s.listed ++ batch)
  else batch.foldl (fun acc m => insertRank s.tac m acc) s.listed

/-- `act_select_raw_item` (and `act_select_matched`, which only unpacks its argument) -/
def selectRaw (s : Sel) (run idx : Nat) (it : Item) : Sel :=
  if !s.multi then s else { s with selected := insert (run, idx) it s.selected }

/-- `pre_select` -/
def preSelect (s : Sel) (run : Nat) (batch : List MItem) : Sel :=
  match s.selector with
  | none => s
  | some sel =>
    if !s.multi then s
    else batch.foldl (fun s m => if sel.shouldSelect m.idx m.item then selectRaw s run m.idx m.item else s) s

/-- `append_sorted_items` without the cursor repair at its end (C09) -/
def append (s : Sel) (run : Nat) (batch : List MItem) : Sel :=
  let s1 := if !batch.isEmpty && run > s.latestRun then { s with latestRun := run, watermark := 0 } else s
  let s2 := if s1.listed.length ≥ s1.watermark then preSelect s1 run batch else s1
  let s3 := { s2 with listed := appendItems s2 batch }
  { s3 with watermark := max s3.watermark s3.listed.length }

/-- `clear` -/
def clear (s : Sel) : Sel := { s with listed := [] }

/-- the body of the loops of `act_toggle` / `act_toggle_all` -/
def toggleKey (k : Key) (it : Item) (m : SelMap) : SelMap :=
  if !containsKey k m then insert k it m else remove k m

/-- `act_toggle`; `none` = the `panic!("model:act_toggle: failed to get item ..")` -/
def toggle (s : Sel) (run cursor : Nat) : Option Sel :=
  if !s.multi || s.listed.isEmpty then some s
  else match s.listed[cursor]? with
    | none => none
    | some cur => some { s with selected := toggleKey (run, cur.idx) cur.item s.selected }

/-- `act_toggle_all` -/
def toggleAll (s : Sel) (run : Nat) : Sel :=
  if !s.multi || s.listed.isEmpty then s
  else { s with selected := s.listed.foldl (fun m x => toggleKey (run, x.idx) x.item m) s.selected }

/-- `act_select_all` -/
def selectAll (s : Sel) (run : Nat) : Sel :=
  if !s.multi || s.listed.isEmpty then s
  else { s with selected := s.listed.foldl (fun m x => insert (run, x.idx) x.item m) s.selected }

/-- `act_deselect_all` (no guard in the source) -/
def deselectAll (s : Sel) : Sel := { s with selected := [] }

/-- `get_num_selected` -/
def numSelected (s : Sel) : Nat := s.selected.length

/-- `get_selected_indices_and_items`; `none` = the `panic!("model:act_output: ..")`.
    The index pushed for the cursor item is the item's own index (its position in the input), like the indices of the
    selected items (before the fix 2308cdf it was the ROW of the cursor). -/
def accept (s : Sel) (cursor : Nat) : Option (List Nat × List Item) :=
  let selectCursor := !s.multi || s.selected.isEmpty
  let items := s.selected.map (·.2)
  let idxs := s.selected.map (·.1.2)
  if selectCursor && !s.listed.isEmpty then
    match s.listed[cursor]? with
    | none => none
    | some cur => some (idxs ++ [cur.idx], items ++ [cur.item])
  else some (idxs, items)

/-! ### global.rs: run numbers -/

/-- `NUM_MAP`, `SEQ`, `RUN_NUM` -/
structure Runs where
  map : List (String × Nat) := [("", 0)]
  seq : Nat := 1
  cur : Nat := 0
  deriving DecidableEq, Repr, Inhabited

def Runs.find (cmd : String) : List (String × Nat) → Option Nat
  | [] => none
  | e :: t => if e.1 = cmd then some e.2 else Runs.find cmd t

/-- `mark_new_run`: `*map.entry(cmd).or_insert_with(|| SEQ.fetch_add(1))`, stored into `RUN_NUM` -/
def markNewRun (g : Runs) (cmd : String) : Runs :=
  match Runs.find cmd g.map with
  | some n => { g with cur := n }
  | none => { map := (cmd, g.seq) :: g.map, seq := g.seq + 1, cur := g.seq }

/-! ### one state, one step function (what the correspondence harness drives) -/

structure St where
  runs : Runs := {}
  sel  : Sel := {}
  deriving DecidableEq, Repr, Inhabited

inductive Op
  | run (cmd : String)                 -- Reader::run -> mark_new_run(cmd)
  | clear
  | append (batch : List MItem)
  | toggle (cursor : Nat)
  | toggleAll
  | selectAll
  | deselectAll
  | selectMatched (idx : Nat) (it : Item)   -- model.rs act_append_and_select: act_select_matched(current_run_num(), ..)
  | accept (cursor : Nat)              -- get_selected_indices_and_items (observation only)
  deriving DecidableEq, Repr, Inhabited

/-- `none` = the Rust code panics -/
def step (st : St) : Op → Option St
  | .run cmd => some { st with runs := markNewRun st.runs cmd }
  | .clear => some { st with sel := clear st.sel }
  | .append b => some { st with sel := append st.sel st.runs.cur b }
  | .toggle c => (toggle st.sel st.runs.cur c).map (fun s => { st with sel := s })
  | .toggleAll => some { st with sel := toggleAll st.sel st.runs.cur }
  | .selectAll => some { st with sel := selectAll st.sel st.runs.cur }
  | .deselectAll => some { st with sel := deselectAll st.sel }
  | .selectMatched i it => some { st with sel := selectRaw st.sel st.runs.cur i it }
  | .accept c => (accept st.sel c).map (fun _ => st)

def runOps (st : St) : List Op → Option St
  | [] => some st
  | o :: os => match step st o with
    | none => none
    | some st' => runOps st' os

end SkimModel.SelSet
