/-
Model of skim's matching engines (`src/engine/{factory,exact,fuzzy,regexp,all,andor,util}.rs`).
Used by C03 (one term) and C04 (query composition).  Import-free (linked into the native driver).

Text representation: `List Char` everywhere.

External crates are PARAMETERS of the model (DESIGN §2), with the behaviour assumed here and checked
only by the correspondence run:
* `fuzzy-matcher` 0.3.7: the VERDICT of `fuzzy_indices(choice, pattern)` is its `cheap_matches`
  pre-filter = the greedy left-to-right scan `greedy` below with `char_equal`
  (`a == b`, or `a.eq_ignore_ascii_case(b)`).  SkimV2 / Clangd take the case option
  (respect / ignore / smart = pattern contains an ASCII upper-case letter); the deprecated V1 matcher
  (`SkimMatcher`) takes no option and always compares `to_ascii_lowercase()` (finding F-C03-V1).
* `regex` 1.6: for the exact engine the regex is `[(?i)] [^] escape(body) [$]`; `find` on such a regex
  is modelled as infix / prefix / suffix / whole-text search of the literal, comparing characters
  with `charEq` (ASCII folding when `(?i)`; the regex crate folds Unicode — cased non-ASCII letters
  are outside the property and outside the generators).  In regex mode the crate is an oracle: the
  harness supplies `compiles?` and `find(text).is_some()` for the two candidate pattern strings.
-/
namespace SkimModel.Engine

inductive CaseMode | smart | respect | ignore
  deriving DecidableEq, Repr, Inhabited

inductive Algo | skimV1 | skimV2 | clangd
  deriving DecidableEq, Repr, Inhabited

structure Cfg where
  exactMode : Bool := false
  case      : CaseMode := .smart
  algo      : Algo := .skimV2
  deriving DecidableEq, Repr, Inhabited

/-! ### `util.rs` -/

/-- `char::is_ascii_uppercase`.  Lean core's `Char.isUpper` is exactly the ASCII test `'A' ≤ c ≤ 'Z'`. -/
def isAsciiUpper (c : Char) : Bool := c.isUpper

/-- `contains_upper`: any ASCII upper-case letter -/
def containsUpper (s : List Char) : Bool := s.any isAsciiUpper

/-- `char::to_ascii_lowercase`.  Lean core's `Char.toLower` maps `'A'..'Z'` to `'a'..'z'` and nothing else. -/
def asciiLower (c : Char) : Char := c.toLower

/-- the `match param.case { Respect => true, Ignore => false, Smart => contains_upper(query) }`
    of `ExactEngine::builder`, and the identical rule inside SkimMatcherV2 / ClangdMatcher -/
def caseSensitive (cm : CaseMode) (body : List Char) : Bool :=
  match cm with
  | .respect => true
  | .ignore => false
  | .smart => containsUpper body

/-- fuzzy-matcher `char_equal(a, b, case_sensitive)`; also the per-character comparison assumed for a
    literal under the regex crate's `(?i)` on the ASCII range -/
def charEq (cs : Bool) (a b : Char) : Bool :=
  if cs then a == b else asciiLower a == asciiLower b

/-! ### term engines -/

/-- what `ExactOrFuzzyEngineFactory::create_engine_with_case` builds -/
inductive TermEngine
  | all                                                     -- MatchAllEngine
  | fuzzy (body : List Char)                                -- FuzzyEngine { query }
  | exact (body : List Char) (pre post inv : Bool)          -- ExactEngine::builder(query, param)
  deriving DecidableEq, Repr, Inhabited

/-- `query.ends_with('$')` / `&query[..len-1]` -/
def endsWithDollar (q : List Char) : Bool := q.getLast? == some '$'

/-- the part of `create_engine_with_case` after the `!` test and the `is_empty` test;
    `exact` and `inv` are the local flag / `param.inverse` so far -/
def decodeAnchors (exactMode exact inv : Bool) (q : List Char) : TermEngine :=
  -- if query.starts_with('^') { query = &query[1..]; exact = true; param.prefix = true; }
  let pre := match q with | '^' :: _ => true | _ => false
  let q := match q with | '^' :: r => r | _ => q
  -- if query.ends_with('$') { query = &query[..len-1]; exact = true; param.postfix = true; }
  let post := endsWithDollar q
  let q := if post then q.dropLast else q
  -- if self.exact_mode { exact = true; }
  if exact || pre || post || exactMode then .exact q pre post inv else .fuzzy q

/-- the part of `create_engine_with_case` after the `'` test.  `exact` is the local flag. -/
def decodeRest (exactMode : Bool) (exact : Bool) (q : List Char) : TermEngine :=
  match q with
  -- if query.starts_with('!') { query = &query[1..]; exact = true; param.inverse = true; }
  | '!' :: r =>
    -- if query.is_empty() { return MatchAllEngine }   ("if only `!` was provided, will still show all items")
    if r.isEmpty then .all else decodeAnchors exactMode true true r
  | _ =>
    if q.isEmpty then .all else decodeAnchors exactMode exact false q

/-- `ExactOrFuzzyEngineFactory::create_engine_with_case` (branch order as in the source) -/
def decodeTerm (exactMode : Bool) (q : List Char) : TermEngine :=
  match q with
  | '\'' :: r =>
    if exactMode then .fuzzy r          -- early return: the rest is NOT inspected for ! ^ $
    else decodeRest exactMode true r
  | _ => decodeRest exactMode false q

/-- fuzzy-matcher's verdict (its `cheap_matches`): greedy in-order scan -/
def greedy (cs : Bool) : (pattern : List Char) → (choice : List Char) → Bool
  | [], _ => true
  | _ :: _, [] => false
  | p :: ps, c :: xs => if charEq cs c p then greedy cs ps xs else greedy cs (p :: ps) xs

/-- case sensitivity the fuzzy engine ends up with: V1 has no case option (always folds) -/
def fuzzyCaseSensitive (cfg : Cfg) (body : List Char) : Bool :=
  match cfg.algo with
  | .skimV1 => false
  | _ => caseSensitive cfg.case body

/-- `FuzzyEngine::fuzzy_match` + `match_item` (whole text is the only matching range):
    empty pattern ⇒ Some, else empty choice ⇒ None, else the matcher's verdict -/
def fuzzyVerdict (cfg : Cfg) (body text : List Char) : Bool :=
  if body.isEmpty then true
  else if text.isEmpty then false
  else greedy (fuzzyCaseSensitive cfg body) body text

/-- literal at the head of the text -/
def litPrefix (cs : Bool) : (lit : List Char) → (text : List Char) → Bool
  | [], _ => true
  | _ :: _, [] => false
  | p :: ps, c :: xs => charEq cs c p && litPrefix cs ps xs

/-- literal at the head of the text and nothing after it (`^lit$`) -/
def litWhole (cs : Bool) : (lit : List Char) → (text : List Char) → Bool
  | [], [] => true
  | [], _ :: _ => false
  | _ :: _, [] => false
  | p :: ps, c :: xs => charEq cs c p && litWhole cs ps xs

/-- `Regex::find` for `[(?i)] [^] escape(lit) [$]`: try every start position from the left
    (only position 0 when anchored with `^`) -/
def litFind (cs pre post : Bool) (lit : List Char) : (text : List Char) → Bool
  | [] => if post then litWhole cs lit [] else litPrefix cs lit []
  | c :: xs =>
    (if post then litWhole cs lit (c :: xs) else litPrefix cs lit (c :: xs))
      || (!pre && litFind cs pre post lit xs)

/-- `ExactEngine::match_item`: `query_regex = None` for an empty body ⇒ match (before the xor);
    otherwise `regex_match(..).is_some() xor inverse` -/
def exactVerdict (cm : CaseMode) (body : List Char) (pre post inv : Bool) (text : List Char) : Bool :=
  if body.isEmpty then true
  else
    let cs := caseSensitive cm body
    (litFind cs pre post body text) != inv

def termVerdict (cfg : Cfg) (e : TermEngine) (text : List Char) : Bool :=
  match e with
  | .all => true
  | .fuzzy body => fuzzyVerdict cfg body text
  | .exact body pre post inv => exactVerdict cfg.case body pre post inv text

/-- `factory.create_engine_with_case(term, case).match_item(text).is_some()` -/
def matchTerm (cfg : Cfg) (term text : List Char) : Bool :=
  termVerdict cfg (decodeTerm cfg.exactMode term) text

/-! ### regex mode (`RegexEngine`) — the regex crate is an oracle -/

/-- answers of the regex crate for one pattern string on one text -/
structure ReOracle where
  compiles : Bool      -- `Regex::new(p).is_ok()`
  finds    : Bool      -- `re.find(text).is_some()` (meaningless when `compiles = false`)
  deriving DecidableEq, Repr, Inhabited

/-- `RegexEngine::builder`: the pattern string handed to `Regex::new` -/
def regexPattern (cm : CaseMode) (q : List Char) : List Char :=
  match cm with
  | .ignore => "(?i)".toList ++ q
  | _ => q

/-- `RegexEngine::match_item`: `query_regex = None` ⇒ match; else `find(text).is_some()` -/
def regexVerdict (o : ReOracle) : Bool := !o.compiles || o.finds

/-! ### query composition (`AndOrEngineFactory`, `andor.rs`) -/

/-- `mask_escape_space`: `string.replace("\\ ", "\0")` (left to right, non-overlapping) -/
def mask : List Char → List Char
  | '\\' :: ' ' :: r => Char.ofNat 0 :: mask r
  | c :: r => c :: mask r
  | [] => []

/-- `unmask_escape_space`: `string.replace('\0', " ")` -/
def unmask (s : List Char) : List Char := s.map (fun c => if c = Char.ofNat 0 then ' ' else c)

def isSp (c : Char) : Bool := c == ' '
def isSpBar (c : Char) : Bool := c == ' ' || c == '|'

/-- `str::trim_matches(|c| c == ' ' || c == '|')` -/
def trimSB (s : List Char) : List Char := ((s.dropWhile isSpBar).reverse.dropWhile isSpBar).reverse

/-- a match of `RE_OR = " +\| +"` at the head of `s`: returns what follows the (maximal) match -/
def orSepAt (s : List Char) : Option (List Char) :=
  match s with
  | ' ' :: r =>
    match r.dropWhile isSp with
    | '|' :: ' ' :: r' => some (r'.dropWhile isSp)
    | _ => none
  | _ => none

theorem length_dropWhile_le (p : Char → Bool) (l : List Char) : (l.dropWhile p).length ≤ l.length := by
  induction l with
  | nil => exact Nat.le_refl _
  | cons a t ih =>
    simp only [List.dropWhile]
    split
    · exact Nat.le_trans ih (Nat.le_succ _)
    · exact Nat.le_refl _

theorem orSepAt_lt {s r : List Char} (h : orSepAt s = some r) : r.length < s.length := by
  unfold orSepAt at h
  split at h
  · rename_i t
    split at h
    · rename_i r' heq
      cases h
      have h1 := length_dropWhile_le isSp t
      have h2 := length_dropWhile_le isSp r'
      rw [heq] at h1
      simp only [List.length_cons] at h1 ⊢
      omega
    · cases h
  · cases h

/-- `RE_OR.split(s)`: pieces between the leftmost, non-overlapping matches of `" +\| +"`
    (`cur` = current piece, reversed) -/
def splitOrGo (cur : List Char) (s : List Char) : List (List Char) :=
  match _h : orSepAt s with
  | some rest => cur.reverse :: splitOrGo [] rest
  | none =>
    match s with
    | [] => [cur.reverse]
    | c :: cs => splitOrGo (c :: cur) cs
termination_by s.length
decreasing_by
  · exact orSepAt_lt (by assumption)
  · simp

def splitOr (s : List Char) : List (List Char) := splitOrGo [] s

/-- split at every blank.  `parse_and` iterates over the matches of `RE_AND`; inside a piece produced
    by `RE_OR.split` the first alternative of `RE_AND` (`[^ |]+( +\| +[^ |]*)+`) can never match
    (it needs blank-bar-blank, see `Props/C04.lean: c04_piece_has_no_or_sep`), so the matches are the
    maximal runs of blanks.  Splitting at every single blank yields the same non-empty segments, and
    empty segments are dropped by `if !term.is_empty()` either way. -/
def splitSp : List Char → List (List Char)
  | [] => [[]]
  | c :: cs =>
    if c = ' ' then [] :: splitSp cs
    else match splitSp cs with
      | [] => [[c]]
      | w :: ws => (c :: w) :: ws

/-- the terms `parse_and` hands to the inner factory for one piece -/
def parseAnd (piece : List Char) : List (List Char) :=
  ((splitSp (trimSB piece)).map (fun t => unmask (trimSB t))).filter (fun t => !t.isEmpty)

/-- Unicode `White_Space` (what `str::trim` removes) -/
def isWhitespace (c : Char) : Bool :=
  let n := c.toNat
  (decide (9 ≤ n) && decide (n ≤ 13)) || n == 32 || n == 0x85 || n == 0xA0 || n == 0x1680 ||
  (decide (0x2000 ≤ n) && decide (n ≤ 0x200A)) || n == 0x2028 || n == 0x2029 || n == 0x202F ||
  n == 0x205F || n == 0x3000

/-- what `AndOrEngineFactory::parse_or` builds -/
inductive Query
  | verbatim (term : List Char)                 -- `query.trim().is_empty()`: passed to the term engine
  | alts (alternatives : List (List (List Char)))   -- OrEngine of AndEngines of terms
  deriving DecidableEq, Repr, Inhabited

/-- the `else` branch of `parse_or`: mask, split on `RE_OR`, one `parse_and` per piece -/
def parseAlts (q : List Char) : List (List (List Char)) := (splitOr (mask q)).map parseAnd

def parseQuery (q : List Char) : Query :=
  if q.all isWhitespace then .verbatim q
  else .alts (parseAlts q)

/-- `AndEngine::match_item(..).is_some()`: every engine matches, and there is at least one -/
def andVerdict (cfg : Cfg) (terms : List (List Char)) (text : List Char) : Bool :=
  !terms.isEmpty && terms.all (fun t => matchTerm cfg t text)

/-- `OrEngine::match_item(..).is_some()`: some alternative matches -/
def orVerdict (cfg : Cfg) (as : List (List (List Char))) (text : List Char) : Bool :=
  as.any (fun a => andVerdict cfg a text)

def queryVerdict (cfg : Cfg) (q : Query) (text : List Char) : Bool :=
  match q with
  | .verbatim t => matchTerm cfg t text
  | .alts as => orVerdict cfg as text

/-- `AndOrEngineFactory::new(ExactOrFuzzy…).create_engine_with_case(q, case).match_item(text).is_some()` -/
def matchQuery (cfg : Cfg) (q text : List Char) : Bool := queryVerdict cfg (parseQuery q) text

end SkimModel.Engine
