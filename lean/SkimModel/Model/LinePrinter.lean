/-
Executable model of `src/util.rs`: `LinePrinter` (`reset`, `print_ch_to_canvas`, `print_char_raw` with the
two dot rules, `print_char` with tab expansion), `print_item`, `accumulate_text_width`, `reshape_string`,
`clear_canvas`; and of `tuikit::attr::Attr::extend`.  Mirrors the (FIXED, see fix-1: the left dots stop at the
end of the container) Rust branch by branch.
Imports only the (import-free) attribute types, so the driver links natively.

Character width is the PARAMETER `cw : Char → Nat` (= `ch.width().unwrap_or(2)` of unicode-width).

What the code writes is a list of `Put`s (one per `Canvas::put_cell` call, in program order); what the
screen shows afterwards is `cellAt` (the recording canvas of the harness, i.e. tuikit's `Screen` rule:
a write outside the area is ignored, a wide character occupies its cell and marks the next one).

Partiality made visible:
  * `reshapeString` returns `none` where the Rust would panic (index outside `acc_width`, `usize`
    subtraction below zero),
  * `current_pos : i32` starts at 0 after `build()` (= `reset()`), only grows, and is modelled as `Nat`
    (the `assert!(current_pos >= 0)` and the `current_pos < 0` arm of the tab rule are unreachable; the i32
    range — text narrower than 2^31 columns — is a stated assumption),
  * `tabstop` is ≥ 1 wherever a printer is built (`Selection` stores `max(1, tabstop)`); `% 0` would panic.
-/
import SkimModel.Model.AnsiTypes
namespace SkimModel.Draw
open SkimModel.Ansi

/-- `tuikit::attr::Attr::extend` -/
def extend (a new : Attr) : Attr :=
  { fg := if new.fg ≠ Color.default then new.fg else a.fg
    bg := if new.bg ≠ Color.default then new.bg else a.bg
    effect := a.effect.or new.effect }

/-- one `Canvas::put_cell(row, col, Cell { ch, attr })` -/
structure Put where
  row : Nat
  col : Nat
  ch : Char
  attr : Attr
  deriving DecidableEq, Repr, Inhabited

/-- what a cell of the recording canvas holds; `'\0'` marks the second half of a wide character -/
abbrev Cell := Char × Attr

def blank : Cell := (' ', Attr.dflt)

/-- `RecCanvas::put_cell` seen from the cell `(r, c)` of a `w × h` canvas: the new content of that cell
    if the write changes it.  (Width ≥ 2: stored only if both halves are inside; width 0/1: one cell.) -/
def Put.hits (cw : Char → Nat) (w h : Nat) (p : Put) (r c : Nat) : Option Cell :=
  if p.row < h ∧ p.col < w ∧ r = p.row then
    if cw p.ch > 1 then
      if p.col + 1 < w then
        (if c = p.col then some (p.ch, p.attr) else if c = p.col + 1 then some ('\x00', p.attr) else none)
      else none
    else if c = p.col then some (p.ch, p.attr) else none
  else none

/-- content of cell `(r, c)` of a fresh (blank) `w × h` canvas after the writes `ps` -/
def cellAt (cw : Char → Nat) (w h : Nat) (ps : List Put) (r c : Nat) : Cell :=
  ps.foldl (fun cur p => (p.hits cw w h r c).getD cur) blank

/-- the write lies completely inside the `w × h` area -/
def Put.inside (cw : Char → Nat) (w h : Nat) (p : Put) : Prop := p.row < h ∧ p.col + max (cw p.ch) 1 ≤ w

instance (cw : Char → Nat) (w h : Nat) (p : Put) : Decidable (p.inside cw w h) := by
  unfold Put.inside; exact inferInstance

/-- `util::clear_canvas`: `canvas.print(y, x, " ")` for every cell, row by row -/
def clearCanvas (w h : Nat) : List Put :=
  (List.range h).flatMap fun y => (List.range w).map fun x => ⟨y, x, ' ', Attr.dflt⟩

/-! ## LinePrinter -/

structure LP where
  start : Nat := 0
  stop : Nat := 0            -- `end`
  cur : Nat := 0             -- `current_pos` (see the header)
  scol : Nat := 0            -- `screen_col`
  row : Nat := 0
  col : Nat := 0
  tabstop : Nat := 8
  shift : Nat := 0
  textWidth : Nat := 0
  cwidth : Nat := 0          -- `container_width`
  hscroll : Int := 0
  deriving DecidableEq, Repr, Inhabited

/-- `reset` (called by `build`) -/
def LP.reset (p : LP) : LP :=
  let start := (max ((p.shift : Int) + p.hscroll) 0).toNat
  { p with cur := 0, scol := p.col, start := start, stop := start + p.cwidth }

/-- `LinePrinter::builder().row(..).col(..).tabstop(..).container_width(..).shift(..).text_width(..)
    .hscroll_offset(..).build()` -/
def LP.build (row col tabstop cwidth shift textWidth : Nat) (hscroll : Int) : LP :=
  LP.reset { row := row, col := col, tabstop := tabstop, cwidth := cwidth, shift := shift,
             textWidth := textWidth, hscroll := hscroll }

/-- `print_ch_to_canvas` with `skip = false` -/
def LP.putCh (cw : Char → Nat) (p : LP) (ch : Char) (attr : Attr) : LP × List Put :=
  ({ p with scol := p.scol + cw ch }, [⟨p.row, p.scol, ch, attr⟩])

/-- `for _ in 0..k { self.print_ch_to_canvas(canvas, '.', attr, skip) }` -/
def LP.dots (cw : Char → Nat) (p : LP) (attr : Attr) : Nat → LP × List Put
  | 0 => (p, [])
  | k + 1 =>
    let r1 := p.putCh cw '.' attr
    let r2 := LP.dots cw r1.1 attr k
    (r2.1, r1.2 ++ r2.2)

/-- `print_char_raw` -/
def LP.printCharRaw (cw : Char → Nat) (p : LP) (ch : Char) (attr : Attr) : LP × List Put :=
  let w := cw ch
  let current := p.cur
  let r : LP × List Put :=
    if current < p.start ∨ current ≥ p.stop then (p, [])                       -- hidden
    else if current < p.start + 2 ∧ p.start > 0 then                           -- left ".."
      p.dots cw attr (min (min w (current - p.start + 1)) (p.stop - current))
    else if p.stop - current ≤ 2 ∧ p.textWidth > p.stop then                   -- right ".."
      p.dots cw attr (min w (p.stop - current))
    else p.putCh cw ch attr
  ({ r.1 with cur := r.1.cur + w }, r.2)

/-- `for _ in 0..k { self.print_char_raw(canvas, ' ', attr, skip) }` -/
def LP.spaces (cw : Char → Nat) (p : LP) (attr : Attr) : Nat → LP × List Put
  | 0 => (p, [])
  | k + 1 =>
    let r1 := p.printCharRaw cw ' ' attr
    let r2 := LP.spaces cw r1.1 attr k
    (r2.1, r1.2 ++ r2.2)

/-- `print_char` -/
def LP.printChar (cw : Char → Nat) (p : LP) (ch : Char) (attr : Attr) : LP × List Put :=
  if ch = '\x08' then (p, [])                                                  -- ignore \b
  else if ch = '\t' then p.spaces cw attr (p.tabstop - p.cur % p.tabstop)      -- tabstop
  else p.printCharRaw cw ch attr

/-- `print_item`: `for (ch, attr) in content.iter() { printer.print_char(canvas, ch, default_attr.extend(attr), false) }` -/
def LP.printItem (cw : Char → Nat) (p : LP) (dflt : Attr) : List (Char × Attr) → LP × List Put
  | [] => (p, [])
  | (ch, a) :: t =>
    let r1 := p.printChar cw ch (extend dflt a)
    let r2 := LP.printItem cw r1.1 dflt t
    (r2.1, r1.2 ++ r2.2)

/-! ## accumulate_text_width / reshape_string -/

/-- the loop of `accumulate_text_width` started with `w` -/
def accFrom (cw : Char → Nat) (tabstop : Nat) (w : Nat) : List Char → List Nat
  | [] => []
  | ch :: t =>
    let w' := w + (if ch = '\t' then tabstop - w % tabstop else cw ch)
    w' :: accFrom cw tabstop w' t

/-- `accumulate_text_width`: `arr[i]` = display width up to and including char `i` -/
def accumulateTextWidth (cw : Char → Nat) (text : List Char) (tabstop : Nat) : List Nat :=
  accFrom cw tabstop 0 text

/-- checked `usize` subtraction (`none` = overflow panic of the debug profile) -/
def csub (a b : Nat) : Option Nat := if b ≤ a then some (a - b) else none

/-- `w1 = if match_start == 0 { 0 } else { acc_width[match_start - 1] }` -/
def reshapeW1 (acc : List Nat) (matchStart : Nat) : Option Nat :=
  if matchStart = 0 then some 0 else acc[matchStart - 1]?

/-- `w2 = if match_end >= acc_width.len() { full_width - w1 } else { acc_width[match_end] - w1 }` -/
def reshapeW2 (acc : List Nat) (fullWidth w1 matchEnd : Nat) : Option Nat :=
  if matchEnd ≥ acc.length then csub fullWidth w1 else (acc[matchEnd]?).bind fun a => csub a w1

/-- `w3 = acc_width[acc_width.len() - 1] - w1 - w2` -/
def reshapeW3 (fullWidth w1 w2 : Nat) : Option Nat := (csub fullWidth w1).bind fun a => csub a w2

/-- `reshape_string`; `none` = the Rust panics (index outside `acc_width` or subtraction below zero) -/
def reshapeString (cw : Char → Nat) (text : List Char) (cwidth matchStart matchEnd tabstop : Nat) :
    Option (Nat × Nat) :=
  if text.isEmpty then some (0, 0) else
  let acc := accumulateTextWidth cw text tabstop
  match acc[acc.length - 1]? with
  | none => none
  | some fullWidth =>
    if fullWidth ≤ cwidth then some (0, fullWidth) else
    match reshapeW1 acc matchStart with
    | none => none
    | some w1 =>
      match reshapeW2 acc fullWidth w1 matchEnd with
      | none => none
      | some w2 =>
        match reshapeW3 fullWidth w1 w2 with
        | none => none
        | some w3 =>
          if (w1 > w3 ∧ w2 + w3 ≤ cwidth) ∨ w3 ≤ 2 then
            -- right-fixed
            (csub fullWidth cwidth).map fun s => (s, fullWidth)
          else if w1 ≤ w3 ∧ w1 + w2 ≤ cwidth then
            -- left-fixed
            some (0, fullWidth)
          else
            -- left-right
            match acc[matchEnd]? with
            | none => none
            | some a => (csub a cwidth).map fun s => (s + 2, fullWidth)

end SkimModel.Draw
