/-
Model of `ItemPool` (src/item.rs).  Every public operation takes the pool spin lock for its whole
body (or is a single atomic load), so under the lock theorem (`Model/SpinLock.lean`) the pool is a
sequential object: any interleaving of threads is a sequence of these atomic operations.
-/
namespace SkimModel.Pool

structure Pool (α : Type) where
  nres     : Nat := 0          -- lines_to_reserve (configuration)
  reserved : List α := []      -- reserved_items (header lines)
  pool     : List α := []
  taken    : Nat := 0          -- atomic `taken`
  length   : Nat := 0          -- atomic `length`
  deriving Repr

variable {α : Type}

/-- `append`: returns the new pool length -/
def Pool.append (p : Pool α) (items : List α) : Pool α × Nat :=
  let toReserve := p.nres - p.reserved.length
  let p' : Pool α :=
    if toReserve > 0 then
      let k := min toReserve items.length
      { p with reserved := p.reserved ++ items.take k, pool := p.pool ++ items.drop k }
    else
      { p with pool := p.pool ++ items }
  ({ p' with length := p'.pool.length }, p'.pool.length)

/-- `take`: returns (start index, the not yet taken items) and marks everything taken -/
def Pool.take (p : Pool α) : Pool α × (Nat × List α) :=
  ({ p with taken := p.pool.length }, (p.taken, p.pool.drop p.taken))

def Pool.reset (p : Pool α) : Pool α := { p with taken := 0 }

def Pool.clear (p : Pool α) : Pool α := { p with pool := [], reserved := [], taken := 0, length := 0 }

def Pool.len (p : Pool α) : Nat := p.length
def Pool.numTaken (p : Pool α) : Nat := p.taken
/-- `num_not_taken` is `length - taken` on `usize`: it panics (debug) / wraps (release) if `taken > length` -/
def Pool.numNotTaken (p : Pool α) : Option Nat := if p.taken ≤ p.length then some (p.length - p.taken) else none

inductive Op (α : Type)
  | append (items : List α)
  | take
  | reset
  | clear
  | len
  | numTaken
  | numNotTaken
  | reserved
  deriving Repr

inductive Out (α : Type)
  | unit
  | nat (n : Nat)
  | slice (start : Nat) (items : List α)
  | items (items : List α)
  | panic
  deriving Repr

def step (p : Pool α) : Op α → Pool α × Out α
  | .append items => let r := p.append items; (r.1, .nat r.2)
  | .take => let r := p.take; (r.1, .slice r.2.1 r.2.2)
  | .reset => (p.reset, .unit)
  | .clear => (p.clear, .unit)
  | .len => (p, .nat p.len)
  | .numTaken => (p, .nat p.numTaken)
  | .numNotTaken => (p, match p.numNotTaken with | some n => .nat n | none => .panic)
  | .reserved => (p, .items p.reserved)

def run (p : Pool α) : List (Op α) → Pool α × List (Out α)
  | [] => (p, [])
  | o :: os => let r := step p o; let rs := run r.1 os; (rs.1, r.2 :: rs.2)

def runState (p : Pool α) (ops : List (Op α)) : Pool α := ops.foldl (fun s o => (step s o).1) p

end SkimModel.Pool
