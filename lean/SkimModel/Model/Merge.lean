/-
Executable model of the highlight-over-colour machinery of skim (C17).  NO imports.

Mirrors, branch by branch:
  src/ansi.rs        merge_fragments, AnsiString::{new_str,new_string,override_attrs,iter},
                     AnsiStringIterator::next, From<(&str,&[usize],Attr)>
  src/helper/item.rs DefaultSkimItem::display   (how the highlight ranges are built)
  src/lib.rs         From<DisplayContext> for AnsiString

A fragment is `(attr, (start, stop))` with `stop` exclusive, counted in characters.
Attributes are an arbitrary type `α`; `dflt` plays the part of `Attr::default()`.
Coordinates are `u32` in the code and `Nat` here: the code only compares and takes `max` of them
(no subtraction, no addition inside `merge_fragments`), so no wrap-around can happen there; the casts
`idx as u32` / `idx as u32 + 1` of `display` are modelled (`u32`, `unitFrag`).
-/
namespace SkimModel.Merge

structure Frag (α : Type) where
  attr : α
  start : Nat
  stop : Nat
deriving Repr, DecidableEq

variable {α : Type}

/-- the tail loop `for &(oa,(s,e)) in old[i..] { ret.push((oa,(max(os,s),e))) }` -/
def raise (os : Nat) (o : Frag α) : Frag α := { o with start := max os o.start }

/--
`merge_fragments`: the loop state `(i, j, os, ret)` is represented by `(old[i..], new[j..], os)` and the
function returns what is still going to be pushed onto `ret`.

```
while i < old.len() && j < new.len() {
    os = max(os, o_start);
    if ns <= os && ne >= oe { i += 1 }                                   -- (1) skip old
    else if ns <= os       { ret.push(new[j]); os = ne; j += 1 }         -- (2)
    else if ns >= oe       { ret.push((oa,(os,oe))); i += 1 }            -- (3)
    else                   { ret.push((oa,(os,ns))); os = ns }           -- (4) advances neither index
}
if i < old.len() { for o in old[i..] { ret.push((oa,(max(os,s),e))) } }
if j < new.len() { ret.extend_from_slice(&new[j..]) }
```
Branch (4) advances neither list.  The next iteration then sees the same two heads with
`os = max(ns, o_start) = ns` (because (4) is only reached with `ns > os ≥ o_start`), so `ns <= os`
holds and it takes branch (1) when `ne >= oe` and branch (2) otherwise.  That following iteration is
inlined here, which makes `old.length + new.length` a termination measure.  `mergeLoop` below is the
literal one-branch-per-iteration loop (with fuel) and `Lemmas/Merge.lean` proves both equal.
-/
def mergeGo (os : Nat) : List (Frag α) → List (Frag α) → List (Frag α)
  | [], new => new
  | old, [] => old.map (raise os)
  | o :: old, n :: new =>
    let os := max os o.start
    if n.start ≤ os ∧ n.stop ≥ o.stop then
      mergeGo os old (n :: new)
    else if n.start ≤ os then
      n :: mergeGo n.stop (o :: old) new
    else if n.start ≥ o.stop then
      ⟨o.attr, os, o.stop⟩ :: mergeGo os old (n :: new)
    else
      ⟨o.attr, os, n.start⟩ ::
        (if n.stop ≥ o.stop then mergeGo n.start old (n :: new)
         else n :: mergeGo n.stop (o :: old) new)
termination_by old new => old.length + new.length

def mergeFragments (old new : List (Frag α)) : List (Frag α) := mergeGo 0 old new

/-- the literal loop: exactly one branch per iteration, `fuel` bounds the number of iterations -/
def mergeLoop : Nat → Nat → List (Frag α) → List (Frag α) → List (Frag α)
  | _, _, [], new => new
  | _, os, old, [] => old.map (raise os)
  | 0, _, _, _ => []
  | fuel + 1, os, o :: old, n :: new =>
    let os := max os o.start
    if n.start ≤ os ∧ n.stop ≥ o.stop then mergeLoop fuel os old (n :: new)
    else if n.start ≤ os then n :: mergeLoop fuel n.stop (o :: old) new
    else if n.start ≥ o.stop then ⟨o.attr, os, o.stop⟩ :: mergeLoop fuel os old (n :: new)
    else ⟨o.attr, os, n.start⟩ :: mergeLoop fuel n.start (o :: old) (n :: new)

/-- `AnsiString::new_str` / `new_string`: an empty vector or a single fragment carrying the default
    attribute is stored as `None`. -/
def mkAnsi [DecidableEq α] (dflt : α) (fs : List (Frag α)) : Option (List (Frag α)) :=
  match fs with
  | [] => none
  | [f] => if f.attr = dflt then none else some [f]
  | fs => some fs

/-- `AnsiString::override_attrs` on the `fragments` field -/
def overrideAttrs (cur : Option (List (Frag α))) (attrs : List (Frag α)) : Option (List (Frag α)) :=
  match attrs, cur with
  | [], cur => cur
  | attrs, none => some attrs
  | attrs, some c => some (mergeFragments c attrs)

/-- the `loop` at the top of `AnsiStringIterator::next`: `fragment_idx` only moves forward, past every
    fragment whose end is `≤ char_idx`; the state is `fragments[fragment_idx..]` -/
def advance (k : Nat) : List (Frag α) → List (Frag α)
  | [] => []
  | f :: fs => if k < f.stop then f :: fs else advance k fs

/-- the attribute `AnsiStringIterator::next` yields for `char_idx = k` once `fragment_idx` is settled -/
def attrAt (dflt : α) (k : Nat) : List (Frag α) → α
  | [] => dflt
  | f :: _ => if f.start ≤ k ∧ k < f.stop then f.attr else dflt

/-- `AnsiStringIterator`: characters `k, k+1, …, k+n-1` with the fragment cursor carried along -/
def iterGo (dflt : α) : Nat → Nat → List (Frag α) → List α
  | 0, _, _ => []
  | n + 1, k, rest =>
    let rest := advance k rest
    attrAt dflt k rest :: iterGo dflt n (k + 1) rest

/-- `AnsiString::iter` (attribute column) over a text of `n` characters -/
def iterAttrs (dflt : α) (frs : Option (List (Frag α))) (n : Nat) : List α :=
  match frs with
  | none => List.replicate n dflt
  | some fs => iterGo dflt n 0 fs

/-! ### how `display` builds the highlight ranges -/

/-- `x as u32` for a `usize` (the harness and the sk binary are 64-bit) -/
def u32 (x : Nat) : Nat := x % 4294967296

/-- `(idx as u32, idx as u32 + 1)`: the cast truncates silently, the `+ 1` overflows for `u32::MAX`
    (a panic with overflow checks, which is how the harness builds the crate) -/
def unitFrag (hl : α) (i : Nat) : Option (Frag α) :=
  if u32 i + 1 < 4294967296 then some ⟨hl, u32 i, u32 i + 1⟩ else none

/-- `indices.iter().map(|&idx| …).collect()`: `none` = one of the closures panicked -/
def unitFrags (hl : α) : List Nat → Option (List (Frag α))
  | [] => some []
  | i :: is =>
    match unitFrag hl i, unitFrags hl is with
    | some f, some fs => some (f :: fs)
    | _, _ => none

/-- `Matches::CharIndices` without the casts: one unit range per index (what `unitFrags` is for indices
    below `u32::MAX`, see `c17_display_in_range`) -/
def charIndices (hl : α) (is : List Nat) : List (Frag α) := is.map (fun i => ⟨hl, i, i + 1⟩)

/-- number of characters in the first `b` bytes of the text; `none` where `&text[..b]` panics
    (beyond the end or inside a multi-byte character) -/
def byteToChar : List Char → Nat → Option Nat
  | _, 0 => some 0
  | [], _ + 1 => none
  | c :: cs, b + 1 =>
    if b + 1 < c.utf8Size then none else (byteToChar cs (b + 1 - c.utf8Size)).map (· + 1)

inductive Matches where
  | none
  | charIndices (is : List Nat)
  | charRange (s e : Nat)
  | byteRange (s e : Nat)
deriving Repr

/-- the `match context.matches` of `DefaultSkimItem::display`; `none` = the slicing panics -/
def newFragments (hl : α) (text : List Char) : Matches → Option (List (Frag α))
  | .none => some []
  | .charIndices is => unitFrags hl is
  | .charRange s e => some [⟨hl, u32 s, u32 e⟩]
  | .byteRange s e =>
    if s ≤ e then
      match byteToChar text s, byteToChar text e with
      | some cs, some ce => some [⟨hl, u32 cs, u32 ce⟩]
      | _, _ => none
    else none

/-- `DefaultSkimItem::display`: clone the item's text and `override_attrs` -/
def display (hl : α) (text : List Char) (cur : Option (List (Frag α))) (m : Matches) :
    Option (Option (List (Frag α))) :=
  (newFragments hl text m).map (overrideAttrs cur)

/-- `From<DisplayContext> for AnsiString` (the default `SkimItem::display`): no colours underneath,
    every arm ends in `AnsiString::new_str(text, fragments)`. -/
def fromContext [DecidableEq α] (dflt hl : α) (text : List Char) (m : Matches) :
    Option (Option (List (Frag α))) :=
  (newFragments hl text m).map (mkAnsi dflt)

end SkimModel.Merge
