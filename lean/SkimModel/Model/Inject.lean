/-
Model of `src/util.rs`: `escape_single_quote`, `RE_FIELDS`, `inject_command`.

    RE_FIELDS = \\?(\{ *-?[0-9.,cq+n]*? *})          (class, escape table, wrapper and join separator
                                                      are GENERATED from the source: Generated/Inject.lean)

`regex::Regex::replace_all` visits the leftmost, non-overlapping matches in order.  At a given start the
pattern is deterministic: neither the blank, nor `-`, nor `}` is in the class (the extractor checks this),
so a match at position i exists iff the text there reads
    [`\`] `{` blanks [`-`] class* blanks `}`
and it is unique (it ends at the first `}`); laziness of `*?` therefore does not matter.  The optional
backslash is tried first (greedy `?`); when the text at i is a backslash NOT followed by a match, no
match starts at i (the alternative "no backslash" needs `{` at i).

The field lookup `get_string_by_range(delimiter, text, range)` of `src/field.rs` is a PARAMETER (`Ctx.fld`);
property C12 is about it.  Strings are `List Char` (Rust `str` = sequence of chars; every index the Rust
code computes here is a regex match boundary, hence a char boundary; `&caps[0][0..1]` slices one ASCII
byte because a match begins with `\` or `{`).  `inject_command` has no panicking path on any input:
`assert!(range.len() >= 2)` holds for every match (`{` and `}`), `&range[1..]` follows `starts_with('+')`.

Only import: the generated constants (import-free themselves), so the driver links natively.
-/
import SkimModel.Generated.Inject
namespace SkimModel.Inject
open SkimModel.Generated.Inject

/-- `InjectContext`.  `fld text range` = `get_string_by_range(context.delimiter, text, range)`. -/
structure Ctx where
  cur      : List Char := []            -- current_selection
  curIdx   : Nat := 0                   -- current_index
  sels     : List (List Char) := []     -- selections
  idxs     : List Nat := []             -- indices
  query    : List Char := []
  cmdQuery : List Char := []
  fld      : List Char → List Char → Option (List Char) := fun _ _ => none

/-- A piece of the template as `replace_all` sees it. -/
inductive Seg
  | chr (c : Char)                              -- a character outside every match: copied
  | esc (raw : List Char)                       -- a match that begins with a backslash: copied (raw includes `\`)
  | ph  (raw : List Char) (range : List Char)   -- a match `{…}`; `range` = the text between the braces, trimmed
  deriving DecidableEq, Repr, Inhabited

def Seg.raw : Seg → List Char
  | .chr c => [c]
  | .esc r => r
  | .ph r _ => r

def isBlank (c : Char) : Bool := c == ' '
def inClass (c : Char) : Bool := fieldClass.contains c

/-- the optional `-` -/
def stripDash : List Char → List Char × List Char
  | '-' :: t => (['-'], t)
  | l => ([], l)

/-- `\{ *-?[class]*? *}` at the head of `s`: `(trimmed inner text, matched text, rest)`. -/
def matchBrace (s : List Char) : Option (List Char × List Char × List Char) :=
  match s with
  | '{' :: r0 =>
    let d := stripDash (r0.dropWhile isBlank)
    let r3 := d.2.dropWhile inClass
    match r3.dropWhile isBlank with
    | '}' :: rest =>
      some (d.1 ++ d.2.takeWhile inClass,
            '{' :: (r0.takeWhile isBlank ++ (d.1 ++ (d.2.takeWhile inClass ++ (r3.takeWhile isBlank ++ ['}'])))),
            rest)
    | _ => none
  | _ => none

theorem length_dropWhile_le (p : Char → Bool) (l : List Char) : (l.dropWhile p).length ≤ l.length := by
  induction l with
  | nil => simp
  | cons a t ih => simp only [List.dropWhile]; split <;> simp <;> omega

theorem stripDash_length (l : List Char) : (stripDash l).2.length ≤ l.length := by
  unfold stripDash; split <;> simp

theorem matchBrace_rest_lt {s rg m rest} (h : matchBrace s = some (rg, m, rest)) : rest.length < s.length := by
  unfold matchBrace at h
  split at h
  · rename_i r0
    simp only at h
    split at h
    · rename_i rest' heq
      simp only [Option.some.injEq, Prod.mk.injEq] at h
      obtain ⟨_, _, rfl⟩ := h
      have h1 := length_dropWhile_le isBlank r0
      have h2 := stripDash_length (r0.dropWhile isBlank)
      have h3 := length_dropWhile_le inClass (stripDash (r0.dropWhile isBlank)).2
      have h4 := length_dropWhile_le isBlank ((stripDash (r0.dropWhile isBlank)).2.dropWhile inClass)
      rw [heq] at h4
      simp only [List.length_cons] at h4 ⊢
      omega
    · simp at h
  · simp at h

/-- The segments `replace_all` sees, left to right. -/
def scan : List Char → List Seg
  | [] => []
  | c :: r =>
    if c = '\\' then
      match _h : matchBrace r with
      | some (_, m, rest) => .esc ('\\' :: m) :: scan rest
      | none => .chr c :: scan r
    else
      match _h : matchBrace (c :: r) with
      | some (rg, m, rest) => .ph m rg :: scan rest
      | none => .chr c :: scan r
termination_by l => l.length
decreasing_by
  all_goals simp_wf
  · have := matchBrace_rest_lt _h; omega
  · have := matchBrace_rest_lt _h; simp at this; omega

/-- `format!("{}", i)` -/
def natStr (n : Nat) : List Char := (toString n).toList

/-- The value(s) a placeholder stands for (the closure of `inject_command`, before quoting). -/
def designate (ctx : Ctx) (range : List Char) : List (List Char) :=
  match range with
  | '+' :: rest =>
    let sels := if ctx.sels.isEmpty then [ctx.cur] else ctx.sels
    let idxs := if ctx.idxs.isEmpty then [ctx.curIdx] else ctx.idxs
    (sels.zip idxs).map fun (s, i) =>
      match rest with
      | [] => s
      | ['n'] => natStr i
      | _ => (ctx.fld s rest).getD []
  | [] => [ctx.cur]
  | ['n'] => [natStr ctx.curIdx]
  | ['q'] => [ctx.query]
  | ['c', 'q'] => [ctx.cmdQuery]
  | _ => [(ctx.fld ctx.cur range).getD []]

/-- one match of RE_ESCAPE replaced by its `match` arm -/
def escapeOne (c : Char) : List Char :=
  if escapeClass.contains c then (escapeTable.lookup c).getD escapeDefault else [c]

/-- `escape_single_quote` -/
def escapeSQ (v : List Char) : List Char := v.flatMap escapeOne

/-- `format!("'{}'", escape_single_quote(replacement))` -/
def quote (v : List Char) : List Char := quoteOpen ++ (escapeSQ v ++ quoteClose)

/-- `.collect::<Vec<_>>().join(" ")` -/
def joinVals : List (List Char) → List Char
  | [] => []
  | [q] => q
  | q :: qs => q ++ (joinSep ++ joinVals qs)

def renderSeg (ctx : Ctx) : Seg → List Char
  | .chr c => [c]
  | .esc r => r
  | .ph _ rg => joinVals ((designate ctx rg).map quote)

/-- `inject_command(cmd, context)` -/
def inject (ctx : Ctx) (cmd : List Char) : List Char := (scan cmd).flatMap (renderSeg ctx)

/-- `Query::get_cmd` (src/query.rs) for the interactive command (`-i -c <base_cmd>`):
    `self.base_cmd.replace(&self.replstr, &arg)` with the default replstr `{}` — a plain textual
    replacement of every non-overlapping `{}` by the command query, NOT `inject_command`. -/
def interactiveCmd (arg : List Char) : List Char → List Char
  | '{' :: '}' :: r => arg ++ interactiveCmd arg r
  | c :: r => c :: interactiveCmd arg r
  | [] => []

end SkimModel.Inject
