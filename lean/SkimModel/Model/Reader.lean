/-
Model of the line reader and of filter-mode output (property C06).

Mirrors, over `List UInt8`:
  * `std::io::BufRead::read_until`                                  → `readUntil1`
  * the loop of `SkimItemReader::raw_bufread` /
    `read_and_collect_from_command` (src/helper/item_reader.rs)     → `readLoop`
  * `strip_line_ending` (the terminator stripping, AFTER the C06 fix) → `strip`
  * `SkimItemReader::of_bufread` dispatch + `DefaultSkimItem::new`,
    `text()`, `output()` (src/helper/item.rs)                        → `mkItem`, `Item.text`, `Item.output`
  * `filter()` of src/bin/main.rs                                    → `filterMode`

The source is presented the way `BufRead` presents it: the successive slices returned by
`fill_buf` (`Src`); an EMPTY slice is end of input (that is how `fill_buf` signals it).  `chunks`
is the same computation on the flat byte stream; `Lemmas/Reader.lean` proves that the loop over
any cut of the stream into reads equals `chunks` of the concatenation.

Not verified, parameters of the model (`Fns`): `String::from_utf8_lossy`, the ANSI parser
(`parse_ansi(..).stripped()`, `.has_attrs()`), `parse_transform_fields`.  The channel between the
reader thread and the consumer is FIFO and lossless (crossbeam), so the item list IS the send order.

Import-free so that the driver links as a native executable.
-/
namespace SkimModel.Reader

set_option linter.unusedVariables false

abbrev Bytes := List UInt8

/-- what `fill_buf` returns, call after call (a slice that was only partly consumed is returned
    again without its consumed front); `[]` = end of input -/
abbrev Src := List Bytes

def srcLen (s : Src) : Nat := s.flatten.length

/-- `memchr(t, available)` + split: the bytes up to AND INCLUDING the first `t` (everything when
    there is none), and what follows -/
def cut (t : UInt8) : Bytes → Bytes × Bytes
  | [] => ([], [])
  | b :: bs => if b == t then ([b], bs) else (b :: (cut t bs).1, (cut t bs).2)

/-- `BufRead::read_until(t, &mut buf)`: appends to `buf`, returns the buffer and the source after
    `consume`.  (`ErrorKind::Interrupted` is retried inside std and is invisible here.) -/
def readUntil1 (t : UInt8) : Src → Bytes → Bytes × Src
  | [], buf => (buf, [])                              -- fill_buf = [] : used = 0, return
  | a :: rest, buf =>
    if a.isEmpty then (buf, [])                       -- fill_buf = [] : end of input
    else if a.contains t then                         -- memchr = Some(i): extend with available[..=i], consume i+1
      (buf ++ (cut t a).1, if (cut t a).2.isEmpty then rest else (cut t a).2 :: rest)
    else readUntil1 t rest (buf ++ a)                 -- memchr = None: extend with everything, loop

/-- terminator stripping of the reader loops (after the fix): the configured terminator is
    removed, and in newline mode a CR directly before it:
      if line_ending == b'\n' && buffer.ends_with(b"\r\n") { pop; pop }
      else if buffer.ends_with(&[line_ending]) { pop } -/
def strip (t : UInt8) (buf : Bytes) : Bytes :=
  match buf.reverse with
  | x :: r =>
    if x == t then
      if t == 10 then
        match r with
        | y :: r' => if y == 13 then r'.reverse else r.reverse
        | [] => r.reverse
      else r.reverse
    else buf
  | [] => buf

theorem cut_length (t : UInt8) (bs : Bytes) : (cut t bs).1.length + (cut t bs).2.length = bs.length := by
  induction bs with
  | nil => rfl
  | cons b bs ih => simp only [cut]; split <;> simp <;> omega

theorem readUntil1_len (t : UInt8) (s : Src) (buf : Bytes) :
    (readUntil1 t s buf).1.length + srcLen (readUntil1 t s buf).2 ≤ buf.length + srcLen s := by
  induction s generalizing buf with
  | nil => simp [readUntil1]
  | cons a rest ih =>
    simp only [readUntil1]
    split
    · simp [srcLen]
    · split
      · have := cut_length t a
        split <;> simp_all [srcLen] <;> omega
      · have := ih (buf ++ a)
        simp [srcLen] at *; omega

/-- the reader loop: `loop { buffer.clear(); n = read_until(..); if n == 0 {break}; strip; send }`;
    the result is the sequence of byte buffers handed to `String::from_utf8_lossy`, in send order -/
def readLoop (t : UInt8) (s : Src) : List Bytes :=
  match h : readUntil1 t s [] with
  | (buf, s') =>
    if hb : buf.isEmpty then []
    else strip t buf :: readLoop t s'
termination_by srcLen s
decreasing_by
  have := readUntil1_len t s []
  rw [h] at this
  cases buf with
  | nil => simp at hb
  | cons x xs => simp at this; omega

/-- the same loop on the flat stream: split AFTER each terminator byte; the last chunk may be
    unterminated; no empty chunk -/
def chunks (t : UInt8) : Bytes → List Bytes
  | [] => []
  | b :: bs =>
    if b == t then [b] :: chunks t bs
    else match chunks t bs with
      | [] => [[b]]
      | c :: cs => (b :: c) :: cs

/-- the lines handed to `from_utf8_lossy` for a flat stream -/
def lines (t : UInt8) (bs : Bytes) : List Bytes := (chunks t bs).map (strip t)

/-! ### items -/

/-- library functions that are parameters of the model -/
structure Fns where
  lossy : Bytes → Bytes            -- String::from_utf8_lossy (result as UTF-8 bytes)
  stripAnsi : Bytes → Bytes        -- ANSIParser::parse_ansi(s).stripped()
  hasAttrs : Bytes → Bool          -- ANSIParser::parse_ansi(s).has_attrs()
  transform : Bytes → Bytes        -- parse_transform_fields(delimiter, s, with_nth)

/-- `SkimItemReaderOption`, as far as it is observable in text()/output() -/
structure Opt where
  term : UInt8 := 10               -- line_ending
  ansi : Bool := false             -- use_ansi_color
  withNth : Bool := false          -- !transform_fields.is_empty()
  nth : Bool := false              -- !matching_fields.is_empty()
  deriving Repr, Inhabited

def Opt.isSimple (o : Opt) : Bool := !o.ansi && !o.nth && !o.withNth

inductive Item
  /-- `Arc<String>` sent by `raw_bufread` -/
  | raw (s : Bytes)
  /-- `DefaultSkimItem { orig_text, text: AnsiString{stripped, fragments.is_some()} }`
      (`matching_ranges` does not influence text()/output()) -/
  | dflt (orig : Option Bytes) (stripped : Bytes) (attrs : Bool)
  deriving Repr, Inhabited, DecidableEq

/-- `DefaultSkimItem::new(line, ansi, with_nth, nth, delimiter)` -/
def newDefault (o : Opt) (f : Fns) (line : Bytes) : Item :=
  if o.withNth && o.ansi then
    .dflt (some line) (f.stripAnsi (f.transform line)) (f.hasAttrs (f.transform line))
  else if o.withNth then
    .dflt (some line) (f.transform line) false
  else if o.ansi then
    .dflt none (f.stripAnsi line) (f.hasAttrs line)
  else
    .dflt none line false

/-- `of_bufread`: `raw_bufread` when the option `is_simple()`, else the collector loop -/
def mkItem (o : Opt) (f : Fns) (line : Bytes) : Item :=
  if o.isSimple then .raw line else newDefault o f line

def Item.text : Item → Bytes
  | .raw s => s
  | .dflt _ s _ => s

/-- `SkimItem::output` (default impl = text() for `String`; `DefaultSkimItem::output`) -/
def Item.output (f : Fns) : Item → Bytes
  | .raw s => s
  | .dflt (some orig) _ attrs => if attrs then f.stripAnsi orig else orig
  | .dflt none s _ => s

/-- the items received from `of_bufread(source)`, in order -/
def readItems (o : Opt) (f : Fns) (s : Src) : List Item :=
  (readLoop o.term s).map (fun b => mkItem o f (f.lossy b))

/-- `filter()` in src/bin/main.rs: sequential `filter_map(match_item)` then
    `write!("{}{}", item.output(), ending)`; returns stdout and the exit code -/
def filterMode (o : Opt) (f : Fns) (sel : Item → Bool) (ending : Bytes) (s : Src) : Bytes × Nat :=
  let hits := (readItems o f s).filter sel
  ((hits.map (fun it => it.output f ++ ending)).flatten, if hits.isEmpty then 1 else 0)

end SkimModel.Reader
