/-
Executable model of what `Selection` draws: `Draw::draw` (the row loop, the pointer label in column 0)
and `draw_item` (selection marker in column 1, text from column 2 through a `LinePrinter`,
`container_width = width - 2`, the shift / hscroll logic incl. `no_hscroll`, `keep_right`,
`skip_to_pattern`) of `src/selection.rs`; `From<DisplayContext> for AnsiString` of `src/lib.rs`
(default `SkimItem::display`).  Mirrors the Rust branch by branch.

Reused models: the cursor state `SelCursor.Cur` (`ic`, `lc`, `rev`, height, and the event arithmetic of C09),
the selected map of `SelSet` (`containsKey`, `toggleKey`, `insert`), `Ansi.AnsiString` (`new_str`, `iter`).

`none` = the Rust code panics (a byte range off a char boundary / beyond the text, a match position
outside `acc_width`): see `matchStartEnd`, `displayContent`, `reshapeString`.

`skip_to_pattern` is a regex in the code; the model covers the patterns that are one literal character
(`regex.find` = first occurrence), the only ones the harness uses.  `width_cjk` is the second width
parameter `cwj` (0 for control characters such as tab, as `UnicodeWidthStr::width_cjk` sums
`width_cjk().unwrap_or(0)`).
-/
import SkimModel.Model.LinePrinter
import SkimModel.Model.Ansi
import SkimModel.Model.SelCursor
import SkimModel.Model.SelSet
namespace SkimModel.Draw
open SkimModel.Ansi SkimModel.SelCursor

/-- `MatchedItem::matched_range : Option<MatchRange>` -/
inductive MatchRange
  | none
  | chars (idxs : List Nat)
  | bytes (s e : Nat)
  deriving DecidableEq, Repr, Inhabited

/-- a `MatchedItem` whose item is a plain string (default `display`) -/
structure Item where
  idx : Nat
  text : List Char
  mr : MatchRange
  deriving DecidableEq, Repr, Inhabited

/-- the six attributes `draw` / `draw_item` ask the `ColorTheme` for -/
structure Theme where
  normal : Attr := {}
  matched : Attr := {}
  current : Attr := {}
  currentMatch : Attr := {}
  cursor : Attr := {}
  selected : Attr := {}
  deriving DecidableEq, Repr, Inhabited

/-- everything `Draw::draw` reads -/
structure View where
  cur : Cur := {}
  items : List Item := []
  selected : SelSet.SelMap := []
  run : Nat := 0                    -- `current_run_num()`
  tabstop : Nat := 8
  noHscroll : Bool := false
  keepRight : Bool := false
  hscroll : Int := 0
  skip : Option Char := none        -- `skip_to_pattern` (one literal character)
  theme : Theme := {}
  cw : Char → Nat                   -- `UnicodeWidthChar::width().unwrap_or(2)`
  cwj : Char → Nat                  -- `UnicodeWidthChar::width_cjk().unwrap_or(0)`

/-- `text[..b].chars().count()`; `none` = `b` is not a char boundary of the text (the slice panics) -/
def charsBefore : List Char → Nat → Option Nat
  | [], b => if b = 0 then some 0 else none
  | c :: t, b =>
    if b = 0 then some 0
    else if b < c.utf8Size then none
    else (charsBefore t (b - c.utf8Size)).map (· + 1)

/-- `(text[..s].chars().count(), text[s..e].chars().count())` -/
def byteRangeChars (text : List Char) (s e : Nat) : Option (Nat × Nat) := do
  let cs ← charsBefore text s
  if e < s then none
  let ce ← charsBefore text e
  some (cs, ce - cs)

/-- `AnsiString::from(DisplayContext { text, matches, highlight_attr, .. })` -/
def displayContent (text : List Char) (mr : MatchRange) (hl : Attr) : Option AnsiString :=
  match mr with
  | .chars idxs => some (AnsiString.newString text (idxs.map fun i => ⟨hl, i, 1 + i⟩))
  | .bytes s e => do
    let r ← byteRangeChars text s e
    some (AnsiString.newString text [⟨hl, r.1, r.1 + r.2⟩])
  | .none => some (AnsiString.newString text [])

/-- `(match_start_char, match_end_char)` of `draw_item` -/
def matchStartEnd (text : List Char) (mr : MatchRange) : Option (Nat × Nat) :=
  match mr with
  | .chars idxs =>
    if !idxs.isEmpty then some (idxs.headD 0, idxs.getLastD 0 + 1) else some (0, 0)
  | .bytes s e => do
    let r ← byteRangeChars text s e
    some (r.1, r.1 + r.2)
  | .none => some (0, 0)

/-- `text[..mat.start()].width_cjk()` for the first occurrence of the literal `p`, 0 when there is none -/
def skipBefore (cwj : Char → Nat) (p : Char) : List Char → Option Nat
  | [] => none
  | c :: t => if c = p then some 0 else (skipBefore cwj p t).map (· + cwj c)

/-- `calc_skip_width` -/
def View.calcSkipWidth (v : View) (text : List Char) : Nat :=
  let skip := match v.skip with
    | none => 0
    | some p => (skipBefore v.cwj p text).getD 0
  max 2 skip - 2

/-- the `shift` handed to the printer -/
def View.shiftOf (v : View) (text : List Char) (cwidth ms me shift full : Nat) : Nat :=
  if v.noHscroll then 0
  else if ms = 0 ∧ me = 0 then
    if v.keepRight then max full cwidth - cwidth else v.calcSkipWidth text
  else shift

/-- `default_attr` of `draw_item` -/
def View.base (v : View) (isCurrent : Bool) : Attr := if isCurrent then v.theme.current else v.theme.normal

/-- `matched_attr` of `draw_item` -/
def View.hl (v : View) (isCurrent : Bool) : Attr := if isCurrent then v.theme.currentMatch else v.theme.matched

/-- "print selection cursor": column 1 -/
def View.mark (v : View) (row : Nat) (it : Item) (isCurrent : Bool) : Put :=
  if SelSet.containsKey (v.run, it.idx) v.selected then
    ⟨row, 1, '>', extend (v.base isCurrent) v.theme.selected⟩
  else ⟨row, 1, ' ', v.base isCurrent⟩

/-- `draw_item` (the stores to `height` are in `SelCursor.draw`); the writes after the pointer label -/
def drawItem (v : View) (w : Nat) (row : Nat) (it : Item) (isCurrent : Bool) : Option (List Put) :=
  if w < 3 then some [] else                                   -- Err("screen width is too small")
  let cwidth := w - 2
  match displayContent it.text it.mr (v.hl isCurrent) with
  | none => none
  | some content =>
    match matchStartEnd it.text it.mr with
    | none => none
    | some m =>
      match reshapeString v.cw it.text cwidth m.1 m.2 v.tabstop with
      | none => none
      | some r =>
        let shift := v.shiftOf it.text cwidth m.1 m.2 r.1 r.2
        let pr := LP.build row 2 v.tabstop cwidth shift r.2 v.hscroll
        some (v.mark row it isCurrent :: (pr.printItem v.cw (v.base isCurrent) content.iter).2)

/-- one iteration of the row loop of `Draw::draw` for `line_cursor = lcur` -/
def rowPuts (v : View) (w h lcur : Nat) : Option (List Put) :=
  let lineNo := if v.cur.rev then lcur else h - 1 - lcur
  let label := if lcur = v.cur.lc then '>' else ' '
  match v.items[v.cur.ic + lcur]? with
  | none => none                                                -- "model:draw_items: failed to get item"
  | some it =>
    (drawItem v w lineNo it (lcur = v.cur.lc)).map fun ps => ⟨lineNo, 0, label, v.theme.cursor⟩ :: ps

def allSome {α : Type} : List (Option α) → Option (List α)
  | [] => some []
  | none :: _ => none
  | some a :: t => (allSome t).map (a :: ·)

/-- number of rows painted: `item_cursor .. min(item_cursor + screen_height, items.len())` -/
def View.nrows (v : View) (h : Nat) : Nat := min (v.cur.ic + h) v.items.length - v.cur.ic

/-- `Draw::draw` on a `w × h` canvas: all `put_cell` calls in program order (`canvas.clear()` first makes
    the canvas blank; `cellAt` starts from a blank canvas) -/
def draw (v : View) (w h : Nat) : Option (List Put) :=
  (allSome ((List.range (v.nrows h)).map (rowPuts v w h))).map fun rows => clearCanvas w h ++ rows.flatten

/-! ## the state changes that a history can apply (cursor arithmetic: `SelCursor.step`) -/

/-- `append_sorted_items` (items arrive in rank order) -/
def View.append (v : View) (batch : List Item) : View :=
  { v with items := v.items ++ batch, cur := appendItems v.cur batch.length }

/-- `clear` -/
def View.clear (v : View) : View := { v with items := [], cur := SelCursor.clear v.cur }

/-- `act_toggle` (multi-selection on); `none` = "failed to get item" -/
def View.toggle (v : View) : Option View :=
  if v.items.isEmpty then some v else
  match v.items[v.cur.ic + v.cur.lc]? with
  | none => none
  | some it => some { v with selected := SelSet.toggleKey (v.run, it.idx) 0 v.selected }

/-- `act_toggle_all` -/
def View.toggleAll (v : View) : View :=
  { v with selected := v.items.foldl (fun m x => SelSet.toggleKey (v.run, x.idx) 0 m) v.selected }

/-- `act_select_all` -/
def View.selectAll (v : View) : View :=
  { v with selected := v.items.foldl (fun m x => SelSet.insert (v.run, x.idx) 0 m) v.selected }

/-- `act_deselect_all` -/
def View.deselectAll (v : View) : View := { v with selected := [] }

/-- `act_scroll` -/
def View.scroll (v : View) (d : Int) : View := { v with hscroll := v.hscroll + d }

end SkimModel.Draw
