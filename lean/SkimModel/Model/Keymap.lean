/-
Model of `src/input.rs` (key bindings), `parse_event` of `src/event.rs`, the three conditional arms
of `Model::start` (`src/model.rs`) and the input-thread loop of `src/lib.rs`.

Only the generated tables are imported (core Lean otherwise), so the driver links natively.

### The two regexes of `parse_key_action`

    RE      (?si)([^:]+?):((?:\+?[a-z-]+?(?:"[^"]*?"|'[^']*?'|\([^\)]*?\)|\[[^\]]*?\]|:[^:]*?)?\s*)+)(?:,|$)
    RE_BIND (?si)([a-z-]+)("[^"]+?"|'[^']+?'|\([^\)]+?\)|\[[^\]]+?\]|:[^:]+?)?(?:\+|$)

are NOT interpreted by a generic regex semantics.  They are compiled BY HAND into the matchers below,
following the leftmost-first (backtracking priority) discipline of the `regex` crate:

* `mI / mA / mL / mC` are the states of one run of group 2 of `RE` ("iteration start", "after the
  name", "after the blanks: loop or exit", "inside a lazy `:arg`").  Each returns the input that
  is left at the exit `(?:,|$)` of the FIRST successful path in priority order.  Simplifications
  that do not change the first success (they only remove attempts that provably fail or lead to
  the same state): the lazy name `[a-z-]+?` ends at the end of the maximal run of name characters;
  greedy `\s*` only succeeds at the end of the maximal run of blanks; an argument opener that
  does not lead to a match has no fallback (an opener is neither a name character, `+`, `,` nor a blank).
  The one real choice point is the lazy `:[^:]*?` (`mC`): it grows one character at a time until the
  rest of the regex matches.
* `reScan` is `captures_iter`: the key is everything from the search position to the first `:`;
  when no match starts there the search resumes after that `:`.
* `bMatch / bScan` are `RE_BIND.captures_iter` over group 2.

That this hand compilation agrees with the regex crate is established ONLY by the correspondence
check (all generated strings, well-formed and malformed).
-/
import SkimModel.Generated.Keymap
namespace SkimModel.Keymap
open SkimModel.Generated.Keymap

abbrev Str := List Char

/-! ## character classes -/

/-- `(?i)[a-z-]` with Unicode simple case folding: a-z, A-Z, '-', U+017F (ſ), U+212A (K) -/
def isNameCh (c : Char) : Bool :=
  (97 ≤ c.toNat && c.toNat ≤ 122) || (65 ≤ c.toNat && c.toNat ≤ 90) || c.toNat == 45
    || c.toNat == 0x17F || c.toNat == 0x212A

/-- `\s` (Unicode White_Space) -/
def isWs (c : Char) : Bool :=
  let n := c.toNat
  (9 ≤ n && n ≤ 13) || n == 32 || n == 0x85 || n == 0xA0 || n == 0x1680 || (0x2000 ≤ n && n ≤ 0x200A)
    || n == 0x2028 || n == 0x2029 || n == 0x202F || n == 0x205F || n == 0x3000

/-- the closing delimiter of an argument opener -/
def closerOf (c : Char) : Option Char :=
  if c = '"' then some '"' else if c = '\'' then some '\'' else if c = '(' then some ')'
  else if c = '[' then some ']' else none

/-! ## small list helpers (own definitions: easy to unfold) -/

def skipName : Str → Str
  | [] => []
  | c :: r => if isNameCh c then skipName r else c :: r

def takeName : Str → Str
  | [] => []
  | c :: r => if isNameCh c then c :: takeName r else []

def skipWs : Str → Str
  | [] => []
  | c :: r => if isWs c then skipWs r else c :: r

/-- input after the first `q`, if there is one -/
def afterClose (q : Char) : Str → Option Str
  | [] => none
  | c :: r => if c = q then some r else afterClose q r

/-- input before the first `q` (all of it when there is none) -/
def beforeClose (q : Char) : Str → Str
  | [] => []
  | c :: r => if c = q then [] else c :: beforeClose q r

theorem skipName_length (cs : Str) : (skipName cs).length ≤ cs.length := by
  induction cs with
  | nil => simp [skipName]
  | cons c r ih => simp only [skipName]; split <;> simp <;> omega

theorem skipWs_length (cs : Str) : (skipWs cs).length ≤ cs.length := by
  induction cs with
  | nil => simp [skipWs]
  | cons c r ih => simp only [skipWs]; split <;> simp <;> omega

theorem afterClose_length {q : Char} {cs t : Str} (h : afterClose q cs = some t) : t.length < cs.length := by
  induction cs with
  | nil => simp [afterClose] at h
  | cons c r ih =>
    simp only [afterClose] at h
    split at h
    · cases h; simp
    · have := ih h; simp; omega

/-! ## RE: one run of group 2 -/

mutual
/-- start of an iteration `\+?[a-z-]+?…` -/
def mI (cs : Str) : Option Str :=
  match cs with
  | [] => none
  | c :: r =>
    if c = '+' then
      match r with
      | [] => none
      | d :: r' => if isNameCh d then mA (skipName r') else none
    else if isNameCh c then mA (skipName r) else none
termination_by (cs.length, 0)
decreasing_by
  · have h2 := skipName_length r'
    exact Prod.Lex.left _ _ (by simp only [List.length_cons]; omega)
  · have h2 := skipName_length r
    exact Prod.Lex.left _ _ (by simp only [List.length_cons]; omega)

/-- after the name: the optional argument, then `\s*` -/
def mA (cs : Str) : Option Str :=
  match cs with
  | [] => mL []
  | c :: r =>
    match closerOf c with
    | some q =>
      match _h : afterClose q r with
      | some t => mL (skipWs t)
      | none => none
    | none => if c = ':' then mC r else mL (skipWs (c :: r))
termination_by (cs.length, 2)
decreasing_by
  · exact Prod.Lex.right _ (by omega)
  · have h1 := afterClose_length _h
    have h2 := skipWs_length t
    exact Prod.Lex.left _ _ (by simp only [List.length_cons]; omega)
  · exact Prod.Lex.left _ _ (by simp)
  · have h2 := skipWs_length (c :: r)
    rcases Nat.lt_or_eq_of_le h2 with h | h
    · exact Prod.Lex.left _ _ h
    · rw [h]; exact Prod.Lex.right _ (by omega)

/-- after the blanks: another iteration (greedy `+`) or the exit `(?:,|$)` -/
def mL (cs : Str) : Option Str :=
  match cs with
  | [] => some []
  | c :: r => if c = ',' then some (c :: r) else mI (c :: r)
termination_by (cs.length, 1)
decreasing_by
  exact Prod.Lex.right _ (by omega)

/-- inside `:[^:]*?` (lazy): try to go on with the regex here; otherwise eat one more non-colon -/
def mC (cs : Str) : Option Str :=
  match mL (skipWs cs) with
  | some r => some r
  | none =>
    match cs with
    | [] => none
    | c :: r => if c = ':' then none else mC r
termination_by (cs.length, 2)
decreasing_by
  · have h2 := skipWs_length cs
    rcases Nat.lt_or_eq_of_le h2 with h | h
    · exact Prod.Lex.left _ _ h
    · rw [h]; exact Prod.Lex.right _ (by omega)
  · exact Prod.Lex.left _ _ (by simp)
end

/-! ## RE: captures_iter -/

/-- (text before the first ':', text after it) -/
def splitColon : Str → Option (Str × Str)
  | [] => none
  | c :: r =>
    if c = ':' then some ([], r) else
    match splitColon r with
    | some (k, a) => some (c :: k, a)
    | none => none

theorem splitColon_length {cs k a : Str} (h : splitColon cs = some (k, a)) : a.length < cs.length := by
  induction cs generalizing k with
  | nil => simp [splitColon] at h
  | cons c r ih =>
    simp only [splitColon] at h
    split at h
    · cases h; simp
    · split at h
      · rename_i k' a' h'
        cases h
        have := ih h'
        simp; omega
      · cases h

/-- all matches of RE: (group 1 = key, group 2 = action text) -/
def reScan (cs : Str) : List (Str × Str) :=
  match cs with
  | [] => []
  | c :: r =>
    match splitColon (c :: r) with
    | none => []
    | some (key, _) =>
      let after := r.drop key.length        -- = the text after the first ':'
      if key.isEmpty then reScan after else
      match mI after with
      | none => reScan after
      | some rest =>
        let n := after.length - rest.length
        (key, after.take n) :: reScan (after.drop (n + 1))
termination_by cs.length
decreasing_by
  all_goals simp only [List.length_drop, List.length_cons]
  all_goals omega

/-! ## RE_BIND -/

/-- lazy `:[^:]+?` followed by `(?:\+|$)`; input = text after the ':'.  Result: (argument, rest), the
    rest being empty or starting with '+' -/
def colonArg : Str → Option (Str × Str)
  | [] => none
  | c :: r =>
    if c = ':' then none else
    match r with
    | [] => some ([c], [])
    | d :: r' =>
      if d = '+' then some ([c], d :: r') else
      match colonArg (d :: r') with
      | some (a, t) => some (c :: a, t)
      | none => none

/-- `(?:\+|$)` -/
def endOrPlus : Str → Option Str
  | [] => some []
  | c :: r => if c = '+' then some r else none

/-- one match of RE_BIND starting exactly here: ((name, argument), rest after the match) -/
def bMatch (cs : Str) : Option ((Str × Option Str) × Str) :=
  let name := takeName cs
  if name.isEmpty then none else
  match skipName cs with
  | [] => some ((name, none), [])
  | c :: r =>
    if c = '+' then some ((name, none), r) else
    match closerOf c with
    | some q =>
      let content := beforeClose q r
      match afterClose q r with
      | none => none
      | some t =>
        if content.isEmpty then none else
        match endOrPlus t with
        | some t' => some ((name, some content), t')
        | none => none
    | none =>
      if c = ':' then
        match colonArg r with
        | some (a, t) =>
          match endOrPlus t with
          | some t' => some ((name, some a), t')
          | none => none
        | none => none
      else none

theorem colonArg_length {cs a t : Str} (h : colonArg cs = some (a, t)) : t.length < cs.length := by
  induction cs generalizing a with
  | nil => simp [colonArg] at h
  | cons c r ih =>
    unfold colonArg at h
    split at h
    · cases h
    · split at h
      · cases h; simp
      · rename_i d r'
        split at h
        · cases h; simp
        · split at h
          · rename_i a' t' h'
            cases h
            have := ih h'
            simp at this ⊢; omega
          · cases h

theorem endOrPlus_length {cs t : Str} (h : endOrPlus cs = some t) : t.length ≤ cs.length := by
  cases cs with
  | nil => simp [endOrPlus] at h; subst h; simp
  | cons c r =>
    simp only [endOrPlus] at h
    split at h
    · cases h; simp
    · cases h

theorem takeName_nonempty_skip {cs : Str} (h : (takeName cs).isEmpty = false) :
    (skipName cs).length < cs.length := by
  cases cs with
  | nil => simp [takeName] at h
  | cons c r =>
    simp only [takeName] at h
    simp only [skipName]
    split
    · have := skipName_length r; simp; omega
    · rename_i hc; simp [hc] at h

theorem bMatch_length {cs : Str} {x : Str × Option Str} {t : Str} (h : bMatch cs = some (x, t)) :
    t.length < cs.length := by
  unfold bMatch at h
  simp only at h
  split at h
  · cases h
  · rename_i hne
    have hs := takeName_nonempty_skip (cs := cs) (by simpa using hne)
    split at h
    · cases h; rename_i he; rw [he] at hs; exact hs
    · rename_i c r he
      rw [he] at hs
      simp only [List.length_cons] at hs
      split at h
      · cases h; omega
      · split at h
        · split at h
          · cases h
          · rename_i t0 hc
            have := afterClose_length hc
            split at h
            · cases h
            · split at h
              · rename_i t1 he1
                have := endOrPlus_length he1
                cases h; omega
              · cases h
        · split at h
          · split at h
            · rename_i a0 t0 hc
              have := colonArg_length hc
              split at h
              · rename_i t1 he1
                have := endOrPlus_length he1
                cases h; omega
              · cases h
            · cases h
          · cases h

/-- `RE_BIND.captures_iter`: leftmost match from each search position, resuming after it -/
def bScan (cs : Str) : List (Str × Option Str) :=
  match cs with
  | [] => []
  | c :: r =>
    match _h : bMatch (c :: r) with
    | some (x, rest) => x :: bScan rest
    | none => bScan r
termination_by cs.length
decreasing_by
  · exact bMatch_length _h
  · simp

/-- `parse_key_action` -/
def parseKeyAction (cs : Str) : List (Str × List (Str × Option Str)) :=
  (reScan cs).map (fun kg => (kg.1, bScan kg.2))

/-! ## parse_event -/

def digitsVal : Str → Nat → Option Nat
  | [], acc => some acc
  | c :: r, acc => if 48 ≤ c.toNat && c.toNat ≤ 57 then digitsVal r (acc * 10 + (c.toNat - 48)) else none

/-- `str::parse::<i32>()`: optional sign, at least one ASCII digit, value in range -/
def parseI32 (s : Str) : Option Int :=
  match s with
  | [] => none
  | c :: r =>
    if c = '-' then
      (if r.isEmpty then none else
        match digitsVal r 0 with
        | some n => if n ≤ 2147483648 then some (-(n : Int)) else none
        | none => none)
    else
      let ds := if c = '+' then r else c :: r
      if ds.isEmpty then none else
      match digitsVal ds 0 with
      | some n => if n ≤ 2147483647 then some (n : Int) else none
      | none => none

def findRow (name : Str) : Option ActionRow := actionTable.find? (fun r => r.name == name)

/-- `parse_event`; `.error msg` = the `.expect(msg)` panic -/
def parseEvent (name : Str) (arg : Option Str) : Except Str (Option Event) :=
  match findRow name with
  | none => .ok none
  | some r =>
    match r.kind with
    | .none => .ok (some (.plain r.ctor))
    | .optStr => .ok (some (.optStr r.ctor arg))
    | .int1 => .ok (some (.int r.ctor ((arg.bind parseI32).getD 1)))
    | .reqStr =>
      match arg with
      | some a => .ok (some (.str r.ctor a))
      | none => .error r.msg

/-! ## key names -/

/-- `tuikit::key::from_keyname` (lower-casing modelled for ASCII only; see ASSUMPTIONS) -/
def keyOf (name : Str) : Option Key :=
  let l := name.map Char.toLower
  match keyNameTable.find? (fun r => r.1 == l) with
  | some r => some r.2
  | none =>
    match l with
    | [c] => some (.char c)
    | _ => none

/-! ## Input -/

abbrev Chain := List Event
abbrev Keymap := List (Key × Chain)

def kmLookup : Keymap → Key → Option Chain
  | [], _ => none
  | (k', v) :: r, k => if k' = k then some v else kmLookup r k

/-- `keymap.remove(&key); keymap.entry(key).or_insert(chain)` -/
def kmInsert (km : Keymap) (k : Key) (v : Chain) : Keymap :=
  (k, v) :: km.filter (fun e => e.1 ≠ k)

/-- `get_default_key_map` -/
def defaultKeymap : Keymap :=
  defaultKeyRows.foldl (fun km e => kmInsert km e.1 e.2) []

/-- `Input::bind` -/
def bind (km : Keymap) (key : Str) (chain : Chain) : Keymap :=
  match keyOf key with
  | none => km
  | some k => if chain.isEmpty then km else kmInsert km k chain

/-- `.filter_map(|(action, arg)| parse_event(action, arg)).collect()`; the first `.expect` failure
    (in order) is the panic -/
def chainEvents : List (Str × Option Str) → Except Str Chain
  | [] => .ok []
  | (n, a) :: r =>
    match parseEvent n a with
    | .error m => .error m
    | .ok none => chainEvents r
    | .ok (some e) =>
      match chainEvents r with
      | .error m => .error m
      | .ok es => .ok (e :: es)

def bindAll : Keymap → List (Str × List (Str × Option Str)) → Except Str Keymap
  | km, [] => .ok km
  | km, (key, acts) :: r =>
    match chainEvents acts with
    | .error m => .error m
    | .ok ch => bindAll (bind km key ch) r

/-- `Input::parse_keymap` -/
def parseKeymap (km : Keymap) (s : Str) : Except Str Keymap := bindAll km (parseKeyAction s)

/-- `Input::parse_keymaps` -/
def parseKeymaps : Keymap → List Str → Except Str Keymap
  | km, [] => .ok km
  | km, s :: r =>
    match parseKeymap km s with
    | .error m => .error m
    | .ok km' => parseKeymaps km' r

/-- `str::split(',')` -/
def splitComma : Str → List Str
  | [] => [[]]
  | c :: r =>
    if c = ',' then [] :: splitComma r else
    match splitComma r with
    | [] => [[c]]          -- unreachable: splitComma never returns []
    | p :: ps => (c :: p) :: ps

def evAccept : Str := "EvActAccept".toList

/-- `Input::parse_expect_keys` -/
def parseExpectKeys (km : Keymap) : Option Str → Keymap
  | none => km
  | some ks => (splitComma ks).foldl (fun km k => bind km k [.optStr evAccept (some k)]) km

/-- `tuikit::event::Event` as far as `translate_event` distinguishes -/
inductive TermEvent
  | key (k : Key) | resize | other
  deriving DecidableEq, Repr

def keyNull : Key := .named "Null".toList

/-- `Input::translate_event` -/
def translateEvent (km : Keymap) : TermEvent → Key × Chain
  | .key k =>
    (k, match kmLookup km k with
        | some ch => ch
        | none => match k with
          | .char c => [.addChar c]
          | _ => [.inputKey k])
  | .resize => (keyNull, [.plain "EvActRedraw".toList])
  | .other => (keyNull, [.plain "EvInputInvalid".toList])

/-- `Skim::run_with`: `Input::new(); parse_keymaps(&options.bind); parse_expect_keys(options.expect)` -/
def buildInput (binds : List Str) (expect : Option Str) : Except Str Keymap :=
  match parseKeymaps defaultKeymap binds with
  | .error m => .error m
  | .ok km => .ok (parseExpectKeys km expect)

/-- the input thread: `for event in action_chain { tx.send((key, event)) }` on a FIFO channel -/
def sendChain (chan : List (Key × Event)) (kc : Key × Chain) : List (Key × Event) :=
  kc.2.foldl (fun q e => q ++ [(kc.1, e)]) chan

/-! ## conditional actions -/

def fakeKey : Str := "fake_key".toList ++ [':']

/-- `parse_action_arg` -/
def parseActionArg (a : Str) : Except Str (Option Event) :=
  match parseKeyAction (fakeKey ++ a) with
  | [] => .ok none
  | (_, []) :: _ => .ok none
  | (_, (n, arg) :: _) :: _ => parseEvent n arg

/-- what the conditional arms of `Model::start` read -/
structure Env where
  query : Str
  matched : Nat      -- num_options + matcher_control.get_num_matched()

def condHolds : Cond → Env → Bool
  | .queryEmpty, e => e.query.isEmpty
  | .queryNotEmpty, e => !e.query.isEmpty
  | .nonMatched, e => e.matched == 0

/-- the conditional arms of `Model::start`: the value assigned to `next_event` (without the key),
    `none` when the arm does nothing -/
def condStep (ev : Event) (env : Env) : Except Str (Option Event) :=
  match ev with
  | .str ctor a =>
    match condTable.find? (fun r => r.1 == ctor) with
    | some r => if condHolds r.2 env then parseActionArg a else .ok none
    | none => .ok none
  | _ => .ok none

end SkimModel.Keymap
