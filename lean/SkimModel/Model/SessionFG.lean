/-
Fine-grained version of the Session transition system: the heart-beat handler of the event loop
(act_heart_beat + handle_select1_or_exit0) is split at every read of a flag owned by another thread, and
the other threads may take steps between any two of M's micro-steps.

  idle ──dequeue HB──▶ hb1 ──rs := is_done──▶ hb2 ──ms := stopped──▶ hb3 ──harvest (if ms)──▶ hb4
       ──ic := num_not_taken = 0──▶ hb5 ──restart? arm timer?──▶ (s1 | idle)
  s1 ──ic' := num_not_taken = 0──▶ s2 ──rs' := is_done──▶ s3 ──decide (if rs' ∧ ic' ∧ harvested)──▶ idle

Every read returns the CURRENT value when its label says `.m true`; `.m false` makes a read return `false`
whatever the flag is (a reading that is already out of date when M acts on it, or whose log line was overtaken:
the trace replay needs it, the theorems hold for both).  The accurate system — all labels `.m true` — is the
sub-system this model was written for: it is what the stale-false reads of `Model/Session.lean` over-approximate.  What stays atomic, and why that loses nothing:
  * the harvest (under the result lock; everything else it touches is M-local);
  * `restart_matcher` (is_done, take under the buffer lock, append under the pool lock, send, spawn): no matcher thread
    exists while it runs, reader pushes commute with it (a push between its steps is a push before or after it);
  * the handlers of user events (kill = store + join: the killed thread's remaining steps happen inside the join).
-/
import SkimModel.Model.Session
namespace SkimModel.Session
variable {α κ : Type}

/-- M's program counter with the values it has read so far -/
inductive PC
  | idle
  | hb1
  | hb2 (rs : Bool)
  | hb3 (rs ms : Bool)
  | hb4 (rs : Bool)
  | hb5 (rs ic : Bool)
  | s1
  | s2 (ic' : Bool)
  | s3 (ic' rs' : Bool)
  deriving DecidableEq, Repr

structure FSt (α κ : Type) where
  s  : St α κ
  pc : PC := .idle

/-- labels: the other threads' steps (as in the coarse model) and one micro-step of M -/
inductive FLabel (α κ : Type)
  | foreign (l : Label α κ)      -- any label except `loop`
  | m (rd : Bool)                -- M's next micro-step; a read returns `rd && current value`

/-- the part of act_heart_beat after the reads: restart if not processed and no run is outstanding, arm the timer -/
def hbFinish (s : St α κ) (rs ic : Bool) : St α κ :=
  let processed := rs && ic
  let s2 := if !processed && s.mc.isNone then restart s else s
  if s2.mc.isSome || !processed then { s2 with timer := true } else s2

def mstep (f : FSt α κ) (rd : Bool := true) : Option (FSt α κ) :=
  if f.s.finished.isSome then none else
  match f.pc with
  | .idle =>
      match f.s.queue with
      | [] => none
      | .hb :: rest => some { s := { f.s with queue := rest.dropWhile Ev.isHB }, pc := .hb1 }
      | .user e :: rest => some { s := handleUser { f.s with queue := rest } e, pc := .idle }
  | .hb1 => some { f with pc := .hb2 (rd && readerDone f.s) }
  | .hb2 rs => some { f with pc := .hb3 rs (rd && matcherStopped f.s) }
  | .hb3 rs ms => some { s := hbHarvest f.s rs ms, pc := .hb4 rs }
  | .hb4 rs => some { f with pc := .hb5 rs (rd && itemsConsumed f.s) }
  | .hb5 rs ic =>
      let s' := hbFinish f.s rs ic
      some { s := s', pc := if !s'.select1 && !s'.exit0 then .idle else .s1 }
  | .s1 => some { f with pc := .s2 (rd && itemsConsumed f.s) }
  | .s2 ic' => some { f with pc := .s3 ic' (rd && readerDone f.s) }
  | .s3 ic' rs' =>
      some { s := if rs' && ic' && f.s.mc.isNone then decide1 f.s else f.s, pc := .idle }

def fstep (m : κ → α → Bool) (f : FSt α κ) : FLabel α κ → Option (FSt α κ)
  | .foreign l =>
      match l with
      | .loop _ => none
      | l => (step m f.s l).map (fun s' => { f with s := s' })
  | .m rd => mstep f rd

def frun (m : κ → α → Bool) (f : FSt α κ) (ls : List (FLabel α κ)) : FSt α κ :=
  ls.foldl (fun f l => (fstep m f l).getD f) f

def finit (o : Opts) (q : κ) (src : List α) : FSt α κ := { s := initWith o q src }

end SkimModel.Session
