/-
Model of `src/query.rs` (the query editor), action by action.

Representation.  The Rust code keeps, per buffer, `before : Vec<char>` (text left of the cursor,
top of stack = last element = the character directly left of the cursor) and `after : Vec<char>`
(text right of the cursor stored REVERSED, top of stack = last element = the character directly
right of the cursor).  In Lean a stack is a list whose HEAD is the top, so

  `before` here = Rust `before` reversed  (head = character directly left of the cursor)
  `after`  here = Rust `after`  reversed  (head = character directly right of the cursor,
                                            i.e. the text after the cursor in reading order)

`yank` is kept in the order of the Rust vector (reading order when the code is right).
History stacks: head = top (= last element of the Rust vector).

The model is import-free so that the driver links as a native executable.
-/
namespace SkimModel.Editor

inductive Mode | query | cmd
  deriving DecidableEq, Repr, Inhabited

structure Buf where
  before : List Char := []
  after  : List Char := []
  deriving DecidableEq, Repr, Inhabited

structure Hist where
  before : List (List Char) := []
  after  : List (List Char) := []
  deriving DecidableEq, Repr, Inhabited

structure Ed where
  fz     : Buf := {}
  cmd    : Buf := {}
  yank   : List Char := []
  mode   : Mode := .query
  fzH    : Hist := {}
  cmdH   : Hist := {}
  pasted : Option (List Char) := none     -- reading order
  deriving DecidableEq, Repr, Inhabited

/-- The 20 editing / history / mode actions handled by `Query::handle`
    (`delete-charEOF` behaves as `delete-char`; it is the same arm in the source). -/
inductive Action
  | addChar (c : Char)
  | deleteChar
  | backwardChar
  | backwardDeleteChar
  | backwardKillWord
  | backwardWord
  | beginningOfLine
  | endOfLine
  | forwardChar
  | forwardWord
  | killLine
  | killWord
  | previousHistory
  | nextHistory
  | unixLineDiscard
  | unixWordRubout
  | yank
  | toggleInteractive
  | pasteStart
  | pasteEnd
  deriving DecidableEq, Repr, Inhabited

/-- Character classes used by the word actions (`char::is_alphanumeric`, `char::is_whitespace`
    in the source); parameters of the model. -/
structure Cls where
  isAlnum : Char → Bool
  isWs    : Char → Bool

def Buf.line (b : Buf) : List Char := b.before.reverse ++ b.after

def Ed.cur (e : Ed) : Buf := match e.mode with | .query => e.fz | .cmd => e.cmd
def Ed.setCur (e : Ed) (b : Buf) : Ed :=
  match e.mode with | .query => { e with fz := b } | .cmd => { e with cmd := b }
def Ed.hist (e : Ed) : Hist := match e.mode with | .query => e.fzH | .cmd => e.cmdH
def Ed.setHist (e : Ed) (h : Hist) : Ed :=
  match e.mode with | .query => { e with fzH := h } | .cmd => { e with cmdH := h }

/-- `save_yank(yank, reverse)`: `v` is the vector handed over, in vector order. -/
def saveYank (e : Ed) (v : List Char) (reverse : Bool) : Ed :=
  if v.isEmpty then e else { e with yank := if reverse then v.reverse else v }

/-- pop while `p` holds on the top; returns (popped in pop order, rest) -/
def popWhile (p : Char → Bool) : List Char → List Char × List Char
  | [] => ([], [])
  | c :: cs => if p c then let r := popWhile p cs; (c :: r.1, r.2) else ([], c :: cs)

def addCharRaw (e : Ed) (c : Char) : Ed :=
  let b := e.cur; e.setCur { b with before := c :: b.before }

def act (k : Cls) (e : Ed) : Action → Ed
  | .addChar c =>
      match e.pasted with
      | some p => { e with pasted := some (p ++ [c]) }
      | none => addCharRaw e c
  | .deleteChar => let b := e.cur; e.setCur { b with after := b.after.tail }
  | .backwardDeleteChar => let b := e.cur; e.setCur { b with before := b.before.tail }
  | .backwardChar =>
      let b := e.cur
      match b.before with
      | [] => e
      | c :: bs => e.setCur { before := bs, after := c :: b.after }
  | .forwardChar =>
      let b := e.cur
      match b.after with
      | [] => e
      | c :: as => e.setCur { before := c :: b.before, after := as }
  | .unixWordRubout =>
      let b := e.cur
      let r1 := popWhile k.isWs b.before
      let r2 := popWhile (fun c => !k.isWs c) r1.2
      saveYank (e.setCur { b with before := r2.2 }) (r1.1 ++ r2.1) true
  | .backwardKillWord =>
      let b := e.cur
      let r1 := popWhile (fun c => !k.isAlnum c) b.before
      let r2 := popWhile k.isAlnum r1.2
      saveYank (e.setCur { b with before := r2.2 }) (r1.1 ++ r2.1) true
  | .killWord =>
      let b := e.cur
      let r1 := popWhile (fun c => !k.isAlnum c) b.after
      let r2 := popWhile k.isAlnum r1.2
      saveYank (e.setCur { b with after := r2.2 }) (r1.1 ++ r2.1) false
  | .backwardWord =>
      let b := e.cur
      let r1 := popWhile (fun c => !k.isAlnum c) b.before
      let r2 := popWhile k.isAlnum r1.2
      -- every popped character is pushed on `after`
      e.setCur { before := r2.2, after := r2.1.reverse ++ (r1.1.reverse ++ b.after) }
  | .forwardWord =>
      let b := e.cur
      let r1 := popWhile k.isWs b.after
      let r2 := popWhile (fun c => !k.isWs c) r1.2
      e.setCur { before := r2.1.reverse ++ (r1.1.reverse ++ b.before), after := r2.2 }
  | .beginningOfLine =>
      let b := e.cur; e.setCur { before := [], after := b.before.reverse ++ b.after }
  | .endOfLine =>
      let b := e.cur; e.setCur { before := b.after.reverse ++ b.before, after := [] }
  | .killLine =>
      -- `mem::take(after)` hands over the Rust vector, which is the text REVERSED;
      -- `save_yank(after, true)` (after the fix) restores reading order.
      let b := e.cur
      saveYank (e.setCur { b with after := [] }) b.after.reverse true
  | .unixLineDiscard =>
      let b := e.cur
      saveYank (e.setCur { b with before := [] }) b.before.reverse false
  | .yank => e.yank.foldl addCharRaw e
  | .previousHistory =>
      let h := e.hist
      match h.before with
      | [] => e
      | x :: hb =>
          let e1 := e.setHist { before := hb, after := e.cur.line :: h.after }
          e1.setCur { before := x.reverse, after := [] }
  | .nextHistory =>
      let h := e.hist
      match h.after with
      | [] => e
      | x :: ha =>
          let e1 := e.setHist { before := e.cur.line :: h.before, after := ha }
          e1.setCur { before := x.reverse, after := [] }
  | .toggleInteractive =>
      { e with mode := match e.mode with | .query => .cmd | .cmd => .query }
  | .pasteStart => { e with pasted := some [] }
  | .pasteEnd =>
      let p := e.pasted.getD []
      p.foldl addCharRaw { e with pasted := none }

def run (k : Cls) (e : Ed) (as : List Action) : Ed := as.foldl (act k) e

end SkimModel.Editor
