/-
Executable stand-ins for the LIBRARY functions that are parameters of the C06 model
(`SkimModel.Reader.Fns`).  No theorem of C06 depends on their internals; they exist so that the
driver can predict the observable bytes and the correspondence check exercises skim's code
together with the real library functions.

  * `lossyImpl`     = `String::from_utf8_lossy` (std `Utf8Chunks`: one U+FFFD per maximal invalid
                      prefix), result as UTF-8 bytes
  * `stripAnsiImpl` = `ANSIParser::parse_ansi(s).stripped()` for the RESTRICTED grammar the C06
                      generator emits under --ansi: text, C0 controls, `ESC [ params final`
                      (the full tokenizer is the subject of C16)
  * `subseqFold`    = verdict of the default fuzzy matcher for an all-lowercase ASCII query
                      (in-order subsequence, ASCII case folded; the subject of C03)
Import-free.
-/
import SkimModel.Model.Reader
namespace SkimModel.Reader

def isCont (b : UInt8) : Bool := b &&& 0xC0 == 0x80

def replBytes : Bytes := [0xEF, 0xBF, 0xBD]

/-- decode one scalar value at the head of a non-empty input: (bytes to emit, number of input
    bytes consumed beyond the first) -/
def decode1 (b : UInt8) (rest : Bytes) : Bytes × Nat :=
  if b < 0x80 then ([b], 0)
  else if 0xC2 ≤ b && b ≤ 0xDF then
    match rest with
    | c :: _ => if isCont c then ([b, c], 1) else (replBytes, 0)
    | [] => (replBytes, 0)
  else if 0xE0 ≤ b && b ≤ 0xEF then
    match rest with
    | c :: r =>
      let ok := (b == 0xE0 && 0xA0 ≤ c && c ≤ 0xBF) || (0xE1 ≤ b && b ≤ 0xEC && 0x80 ≤ c && c ≤ 0xBF)
             || (b == 0xED && 0x80 ≤ c && c ≤ 0x9F) || (0xEE ≤ b && b ≤ 0xEF && 0x80 ≤ c && c ≤ 0xBF)
      if ok then
        match r with
        | d :: _ => if isCont d then ([b, c, d], 2) else (replBytes, 1)
        | [] => (replBytes, 1)
      else (replBytes, 0)
    | [] => (replBytes, 0)
  else if 0xF0 ≤ b && b ≤ 0xF4 then
    match rest with
    | c :: r =>
      let ok := (b == 0xF0 && 0x90 ≤ c && c ≤ 0xBF) || (0xF1 ≤ b && b ≤ 0xF3 && 0x80 ≤ c && c ≤ 0xBF)
             || (b == 0xF4 && 0x80 ≤ c && c ≤ 0x8F)
      if ok then
        match r with
        | d :: r2 =>
          if isCont d then
            match r2 with
            | e :: _ => if isCont e then ([b, c, d, e], 3) else (replBytes, 2)
            | [] => (replBytes, 2)
          else (replBytes, 1)
        | [] => (replBytes, 1)
      else (replBytes, 0)
    | [] => (replBytes, 0)
  else (replBytes, 0)

def lossyImpl (bs : Bytes) : Bytes :=
  match bs with
  | [] => []
  | b :: rest => (decode1 b rest).1 ++ lossyImpl (rest.drop (decode1 b rest).2)
termination_by bs.length
decreasing_by simp; omega

inductive AState | ground | esc | csi
  deriving DecidableEq

/-- drop the last UTF-8 scalar of an accumulated (reversed) byte list: `String::pop` -/
def popCharRev : Bytes → Bytes
  | [] => []
  | b :: r => if isCont b then popCharRev r else r

/-- `execute(byte)` of `impl Perform for ANSIParser` on the reversed accumulator -/
def ansiExec (b : UInt8) (acc : Bytes) : Bytes :=
  if b == 0x08 then popCharRev acc
  else if b == 0x00 || b == 0x0d || b == 0x0a || b == 0x09 then b :: acc
  else acc

def stripAnsiGo : AState → Bytes → Bytes → Bytes
  | _, acc, [] => acc.reverse
  | .ground, acc, b :: bs =>
    if b == 0x1b then stripAnsiGo .esc acc bs
    else if b < 0x20 then stripAnsiGo .ground (ansiExec b acc) bs
    else stripAnsiGo .ground (b :: acc) bs
  | .esc, acc, b :: bs =>
    if b == 0x5b then stripAnsiGo .csi acc bs
    else if b == 0x1b then stripAnsiGo .esc acc bs
    else if b < 0x20 then stripAnsiGo .esc (ansiExec b acc) bs
    else stripAnsiGo .ground (0x5b :: 0x22 :: acc) bs      -- esc_dispatch pushes `"[`
  | .csi, acc, b :: bs =>
    if b == 0x1b then stripAnsiGo .esc acc bs
    else if b < 0x20 then stripAnsiGo .csi (ansiExec b acc) bs
    else if 0x40 ≤ b && b ≤ 0x7e then stripAnsiGo .ground acc bs     -- csi_dispatch: no text
    else stripAnsiGo .csi acc bs

def stripAnsiImpl (s : Bytes) : Bytes := stripAnsiGo .ground [] s

def foldAscii (b : UInt8) : UInt8 := if 0x41 ≤ b && b ≤ 0x5a then b + 32 else b

/-- is `q` an in-order subsequence of `text` after ASCII case folding of `text`? -/
def subseqFold : Bytes → Bytes → Bool
  | [], _ => true
  | _ :: _, [] => false
  | q :: qs, c :: cs => if foldAscii c == q then subseqFold qs cs else subseqFold (q :: qs) cs

end SkimModel.Reader
