/-
Executable model of the cursor arithmetic of `src/selection.rs` (the FIXED code: an unknown height
counts as one row, `append_sorted_items` brings the cursor row back into the list and the window).
Mirrors the Rust branch by branch.  NO imports (linked into the native driver).

Rust state                       model
  items.len()                    n
  item_cursor : usize            ic      index of the result shown on the first row of the window
  line_cursor : usize            lc      row of the cursor inside the window (0 = first row)
  height : AtomicUsize           h       list-area height seen by the last draw that drew a row; 0 = none yet
  reverse : bool                 rev

The signed arithmetic of `act_move_line_cursor` is done on `Int` exactly as the Rust does it on `i32`
(`usize as i32` casts, `max`/`min`, `height * diff / 2` truncating toward zero = `Int.tdiv`).
Unbounded integers: the i32 range is an explicit side condition (see `Props/C09.lean`, `c09_i32_range`).
The `as usize` casts back are `Int.toNat`; `c09_casts_exact` proves the values are never negative,
so nothing is lost.  The `usize` subtractions of `append_sorted_items` and `draw` are guarded by
`max`/loop bounds; `c09_no_underflow` proves the guards (in Rust an underflow would panic).
-/
namespace SkimModel.SelCursor

structure Cur where
  ic : Nat := 0
  lc : Nat := 0
  h : Nat := 0
  n : Nat := 0
  rev : Bool := false
deriving Repr, DecidableEq, Inhabited

/-- `Selection::new` / `with_options` -/
def Cur.init (rev : Bool) : Cur := { rev := rev }

/-- `fn known_height(&self) = max(self.height.load(), 1)` — the height used by all cursor arithmetic -/
def Cur.H (s : Cur) : Nat := max s.h 1

/-- `get_current_item_idx` -/
def Cur.cursor (s : Cur) : Nat := s.ic + s.lc

/-- `get_current_item().map(index)`: `items.get(item_cursor + line_cursor)` -/
def Cur.currentItem (s : Cur) : Option Nat := if s.ic + s.lc < s.n then some (s.ic + s.lc) else none

/-- `act_toggle` / `get_selected_indices_and_items` panic ("failed to get item") iff this is false -/
def Cur.getOk (s : Cur) : Bool := s.n == 0 || decide (s.ic + s.lc < s.n)

/-- the signed intermediate values of `act_move_line_cursor(diff)` just before the `as usize` casts -/
def moveRaw (s : Cur) (diff : Int) : Int × Int :=
  let diff := if s.rev then -diff else diff
  let itemLen : Int := s.n
  let height : Int := s.H
  let lineCursor : Int := (s.lc : Int) + diff
  if lineCursor ≥ height then
    let itemCursor := (s.ic : Int) + (lineCursor - height + 1)
    let itemCursor := max 0 (min itemCursor (itemLen - height))
    let lineCursor := min (height - 1) (itemLen - itemCursor - 1)
    (itemCursor, max 0 lineCursor)
  else if lineCursor < 0 then
    let itemCursor := (s.ic : Int) + lineCursor
    let itemCursor := max itemCursor 0
    (itemCursor, max 0 0)
  else
    let lineCursor := min lineCursor (itemLen - 1 - s.ic)
    ((s.ic : Int), max 0 lineCursor)

/-- `act_move_line_cursor(diff)`:  > 0 means move up, < 0 means move down -/
def moveLine (s : Cur) (diff : Int) : Cur :=
  let r := moveRaw s diff
  { s with ic := r.1.toNat, lc := r.2.toNat }

/-- the `diff` computed by `act_select_screen_row(rows_to_top)` -/
def rowDiff (s : Cur) (r : Nat) : Int :=
  if s.rev then (s.lc : Int) - (r : Int) else (s.H : Int) - (r : Int) - 1 - (s.lc : Int)

/-- `act_select_screen_row` -/
def selectRow (s : Cur) (r : Nat) : Cur := moveLine s (rowDiff s r)

/-- the cursor fix-up at the end of `append_sorted_items` after `k` items were added -/
def appendItems (s : Cur) (k : Nat) : Cur :=
  let len := s.n + k
  let height := s.H
  let lc := if len ≤ s.lc ∨ height ≤ s.lc then max (min len height) 1 - 1 else s.lc
  let ic := if len ≤ lc + s.ic then max len height - height else s.ic
  { s with n := len, lc := lc, ic := ic }

/-- `clear`: only the items go away, the cursors stay -/
def clear (s : Cur) : Cur := { s with n := 0 }

/-- number of rows `Draw::draw` paints on a canvas of height `sh`: `item_cursor .. min(item_cursor + sh, len)` -/
def rowsDrawn (s : Cur) (sh : Nat) : Nat := min (s.ic + sh) s.n - s.ic

/-- `Draw::draw` on a canvas of height `sh`: `draw_item` stores the height, so it is stored only when
    at least one item row is painted -/
def draw (s : Cur) (sh : Nat) : Cur := if 0 < rowsDrawn s sh then { s with h := sh } else s

/-- screen row (0 = top) of the window row `i` (0 = first item of the window) -/
def screenRow (s : Cur) (sh i : Nat) : Nat := if s.rev then i else sh - 1 - i

/-- the screen row that gets the pointer label `>`, if any -/
def pointerRow (s : Cur) (sh : Nat) : Option Nat :=
  if s.lc < rowsDrawn s sh then some (screenRow s sh s.lc) else none

/-- index of the item painted on screen row `r` of a canvas of height `sh` -/
def itemAtRow (s : Cur) (sh r : Nat) : Option Nat :=
  let i := if s.rev then r else sh - 1 - r
  if r < sh ∧ i < rowsDrawn s sh then some (s.ic + i) else none

inductive Ev where
  | up (k : Int) | down (k : Int)
  | pageUp (k : Int) | pageDown (k : Int)
  | halfUp (k : Int) | halfDown (k : Int)
  | row (r : Nat)
  | append (k : Nat)
  | clear
  | draw (h : Nat)
deriving Repr, DecidableEq

/-- the `diff` handed to `act_move_line_cursor` by the arms of `EventHandler::handle` -/
def evDiff (s : Cur) : Ev → Option Int
  | .up k => some k
  | .down k => some (-k)
  | .halfDown k => some (Int.tdiv ((1 - (s.H : Int)) * k) 2)
  | .halfUp k => some (Int.tdiv (((s.H : Int) - 1) * k) 2)
  | .pageDown k => some ((1 - (s.H : Int)) * k)
  | .pageUp k => some (((s.H : Int) - 1) * k)
  | .row r => some (rowDiff s r)
  | _ => none

def step (s : Cur) : Ev → Cur
  | .up k => moveLine s k
  | .down k => moveLine s (-k)
  | .halfDown k => moveLine s (Int.tdiv ((1 - (s.H : Int)) * k) 2)
  | .halfUp k => moveLine s (Int.tdiv (((s.H : Int) - 1) * k) 2)
  | .pageDown k => moveLine s ((1 - (s.H : Int)) * k)
  | .pageUp k => moveLine s (((s.H : Int) - 1) * k)
  | .row r => selectRow s r
  | .append k => appendItems s k
  | .clear => clear s
  | .draw sh => draw s sh

def run (s : Cur) (evs : List Ev) : Cur := evs.foldl step s

end SkimModel.SelCursor
