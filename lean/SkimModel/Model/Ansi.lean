/-
Model of `src/ansi.rs` (ANSIParser, its `vte::Perform` impl, AnsiString, AnsiStringIterator) and of the
part of vte 0.11's state machine that the property's grammar reaches (Ground, Escape, EscapeIntermediate,
CsiEntry, CsiParam, CsiIntermediate, CsiIgnore; OSC / DCS / SOS-PM-APC strings are flagged `unsupported`).

Text is a `List Char` (the Rust code feeds UTF-8 bytes; vte reassembles every non-ASCII scalar and calls
`print(char)` in Ground, and ignores bytes >= 0x80 in the Escape / CSI states, so the char-level step below
is what the byte-level machine does on valid UTF-8).  Character COUNTS position the fragments, as in the code.

Integer widths: `stripped_char_count as u32` is not modelled (texts < 2^32 chars); `x as u8` is `x % 256`;
vte's u16 parameter accumulator saturates at 65535 and is modelled so.

Only imports the generated SGR table (which imports the import-free type file).
-/
import SkimModel.Generated.Sgr
namespace SkimModel.Ansi

/-! ## csi_dispatch: the SGR fold over the generated table -/

/-- Rust `match`: first arm whose pattern matches -/
def lookup : List (Pat × Act) → Nat → Act
  | [], _ => .ignore
  | (p, a) :: r, c => if p.matches c then a else lookup r c

def Attr.setLayer (a : Attr) : Layer → Color → Attr
  | .fg, c => { a with fg := c }
  | .bg, c => { a with bg := c }

/-- `x as u8` on a u16 -/
def u8 (x : Nat) : Nat := x % 256

/-- the arms that do not touch the parameter iterator (`num - k` never underflows: `c16_table` checks
    `k ≤ lo` for every range row, and the extractor only accepts `num` bound by the arm's own range) -/
def applySimple (act : Act) (code : Nat) (attr : Attr) : Attr :=
  match act with
  | .reset => Attr.dflt
  | .orEffect e => { attr with effect := attr.effect.or e.eval }
  | .setAnsiSub l k => attr.setLayer l (.ansi (u8 (code - k)))
  | .setDefault l => attr.setLayer l .default
  | .ext _ => attr
  | .ignore => attr

/-- the nested `match iter.next()` of the 38 / 48 arms: returns the new attribute and what is left of the
    iterator.  `continue` after a failed `(iter.next(), iter.next(), iter.next())` finds the iterator
    exhausted (all three `next()` calls are evaluated), so the loop ends: remaining = []. -/
def extStep (l : Layer) (attr : Attr) : List Param → Attr × List Param
  | [] => (attr, [])                                    -- iter.next() = None: the `_` arm
  | sel :: rest =>
    if sel = (2, []) then                               -- Some(&[2])
      match rest with
      | r :: g :: b :: rest' => (attr.setLayer l (.rgb (u8 r.1) (u8 g.1) (u8 b.1)), rest')
      | _ => (attr, [])                                 -- continue, iterator exhausted
    else if sel = (5, []) then                          -- Some(&[5])
      match rest with
      | c :: rest' => (attr.setLayer l (.ansi (u8 c.1)), rest')
      | [] => (attr, [])                                -- continue, iterator exhausted
    else (attr, rest)                                   -- `_` arm: the selector is consumed

theorem extStep_len (l : Layer) (attr : Attr) (ps : List Param) : (extStep l attr ps).2.length ≤ ps.length := by
  unfold extStep
  repeat' split
  all_goals simp
  all_goals omega

/-- `while let Some(code) = iter.next() { match code[0] { … } }` -/
def sgrLoop (tbl : List (Pat × Act)) (attr : Attr) : List Param → Attr
  | [] => attr
  | code :: rest =>
    match lookup tbl code.1 with
    | .ext l =>
      let r := extStep l attr rest
      sgrLoop tbl r.1 r.2
    | act => sgrLoop tbl (applySimple act code.1 attr) rest
termination_by ps => ps.length
decreasing_by
  · have := extStep_len l attr rest; simp; omega
  · simp

/-! ## ANSIParser -/

structure Frag where
  attr : Attr
  start : Nat
  stop : Nat
  deriving DecidableEq, Repr

structure Parser where
  partialStr : List Char := []
  lastAttr : Attr := {}
  stripped : List Char := []
  strippedCount : Nat := 0
  fragments : List Frag := []
  deriving DecidableEq, Repr

/-- what vte hands to the `Perform` callbacks that skim implements non-trivially -/
inductive Tok
  | print (c : Char)
  | execute (b : Nat)
  | csi (params : List Param) (action : Char)
  | esc (b : Nat)
  deriving DecidableEq, Repr

def Parser.print (p : Parser) (c : Char) : Parser := { p with partialStr := p.partialStr ++ [c] }

def Parser.execute (p : Parser) (b : Nat) : Parser :=
  if b == 0x08 then { p with partialStr := p.partialStr.dropLast }
  else if b == 0x00 || b == 0x0d || b == 0x0a || b == 0x09 then { p with partialStr := p.partialStr ++ [Char.ofNat b] }
  else p

def Parser.saveStr (p : Parser) : Parser :=
  if p.partialStr.isEmpty then p
  else
    let n := p.partialStr.length
    { p with partialStr := [],
             fragments := p.fragments ++ [⟨p.lastAttr, p.strippedCount, p.strippedCount + n⟩],
             strippedCount := p.strippedCount + n,
             stripped := p.stripped ++ p.partialStr }

def Parser.attrChange (p : Parser) (new : Attr) : Parser :=
  if new = p.lastAttr then p else { p.saveStr with lastAttr := new }

def Parser.csiDispatch (p : Parser) (params : List Param) (action : Char) : Parser :=
  if action ≠ 'm' then p
  else
    let attr := if params.isEmpty then Attr.dflt else p.lastAttr
    p.attrChange (sgrLoop Generated.sgrTable attr params)

def Parser.escDispatch (p : Parser) : Parser := { p with partialStr := p.partialStr ++ ['"', '['] }

def perform (p : Parser) : Tok → Parser
  | .print c => p.print c
  | .execute b => p.execute b
  | .csi ps a => p.csiDispatch ps a
  | .esc _ => p.escDispatch

/-! ## vte 0.11 state machine, restricted -/

inductive VtState | ground | escape | escInt | csiEntry | csiParam | csiInt | csiIgnore | outside
  deriving DecidableEq, Repr

/-- vte's parameter buffer (`params`, `param`) -/
structure PBuf where
  groups : List Param := []     -- closed parameters
  cur : List Nat := []          -- items of the parameter that `:` left open
  param : Nat := 0              -- `self.param`
  len : Nat := 0                -- `params.len` (items, sub-parameters included)
  deriving DecidableEq, Repr

structure Vt where
  state : VtState := .ground
  buf : PBuf := {}
  deriving DecidableEq, Repr

/-- an OSC / DCS / SOS / PM / APC string was entered (outside the model; the state is absorbing) -/
def Vt.unsupported (v : Vt) : Bool := v.state == .outside

def MAX_PARAMS : Nat := 32

/-- `Action::Clear` -/
def Vt.clear (v : Vt) : Vt := { v with buf := {} }

def closeGroup (cur : List Nat) (param : Nat) : Param :=
  match cur with
  | [] => (param, [])
  | h :: t => (h, t ++ [param])

/-- `Action::Param` -/
def PBuf.paramAction (v : PBuf) (c : Char) : PBuf :=
  if v.len = MAX_PARAMS then v
  else if c = ';' then { v with groups := v.groups ++ [closeGroup v.cur v.param], cur := [], param := 0, len := v.len + 1 }
  else if c = ':' then { v with cur := v.cur ++ [v.param], param := 0, len := v.len + 1 }
  else { v with param := min (min (v.param * 10) 65535 + (c.toNat - 48)) 65535 }

/-- the parameter list seen by `csi_dispatch` (`Action::CsiDispatch` pushes the pending `param` unless full) -/
def PBuf.dispatchParams (v : PBuf) : List Param :=
  if v.len = MAX_PARAMS then
    v.groups ++ (match v.cur with | [] => [] | h :: t => [(h, t)])
  else v.groups ++ [closeGroup v.cur v.param]

/-- parameters of `ESC [ body <final>` when `body` consists of digits, `;` and `:` -/
def csiParams (body : List Char) : List Param := (body.foldl PBuf.paramAction {}).dispatchParams

/-- one input character: new state and the callback it triggers, if any -/
def vtFeed (v : Vt) (c : Char) : Vt × Option Tok :=
  let n := c.toNat
  if n = 0x18 ∨ n = 0x1a then ({ v with state := if v.state = .outside then .outside else .ground }, some (.execute n))
  else if n = 0x1b then
    if v.state = .outside then (v, none) else ({ v.clear with state := .escape }, none)
  else
    match v.state with
    | .ground => if n < 0x20 then (v, some (.execute n)) else (v, some (.print c))
    | .escape =>
      if n < 0x20 then (v, some (.execute n))
      else if n ≥ 0x7f then (v, none)
      else if n < 0x30 then ({ v with state := .escInt }, none)
      else if n = 0x5b then ({ v.clear with state := .csiEntry }, none)
      else if n = 0x5d ∨ n = 0x50 ∨ n = 0x58 ∨ n = 0x5e ∨ n = 0x5f then
        ({ v with state := .outside }, none)
      else ({ v with state := .ground }, some (.esc n))
    | .escInt =>
      if n < 0x20 then (v, some (.execute n))
      else if n ≥ 0x7f then (v, none)
      else if n < 0x30 then (v, none)
      else ({ v with state := .ground }, some (.esc n))
    | .csiEntry =>
      if n < 0x20 then (v, some (.execute n))
      else if n ≥ 0x7f then (v, none)
      else if n < 0x30 then ({ v with state := .csiInt }, none)
      else if n < 0x3c then ({ state := .csiParam, buf := v.buf.paramAction c }, none)
      else if n < 0x40 then ({ v with state := .csiParam }, none)
      else ({ v with state := .ground }, some (.csi v.buf.dispatchParams c))
    | .csiParam =>
      if n < 0x20 then (v, some (.execute n))
      else if n ≥ 0x7f then (v, none)
      else if n < 0x30 then ({ v with state := .csiInt }, none)
      else if n < 0x3c then ({ v with buf := v.buf.paramAction c }, none)
      else if n < 0x40 then ({ v with state := .csiIgnore }, none)
      else ({ v with state := .ground }, some (.csi v.buf.dispatchParams c))
    | .csiInt =>
      if n < 0x20 then (v, some (.execute n))
      else if n ≥ 0x7f then (v, none)
      else if n < 0x30 then (v, none)
      else if n < 0x40 then ({ v with state := .csiIgnore }, none)
      else ({ v with state := .ground }, some (.csi v.buf.dispatchParams c))
    | .csiIgnore =>
      if n < 0x20 then (v, some (.execute n))
      else if n ≥ 0x7f then (v, none)
      else if n < 0x40 then (v, none)
      else ({ v with state := .ground }, none)
    | .outside => (v, none)

def optCons (t : Option Tok) (l : List Tok) : List Tok :=
  match t with
  | some x => x :: l
  | none => l

/-- callbacks produced by a text, from machine state `v` -/
def tokGo (v : Vt) : List Char → List Tok
  | [] => []
  | c :: cs => optCons (vtFeed v c).2 (tokGo (vtFeed v c).1 cs)

/-- machine state after a text -/
def vtRun (v : Vt) : List Char → Vt
  | [] => v
  | c :: cs => vtRun (vtFeed v c).1 cs

/-- `vte::Parser::new()` then `advance` over the bytes of the text -/
def tokenize (text : List Char) : List Tok := tokGo {} text

/-! ## AnsiString -/

structure AnsiString where
  stripped : List Char
  fragments : Option (List Frag)
  deriving DecidableEq, Repr

/-- `AnsiString::new_string` -/
def AnsiString.newString (stripped : List Char) (fragments : List Frag) : AnsiString :=
  let fragmentsEmpty := fragments.isEmpty ||
    (match fragments with | [f] => decide (f.attr = Attr.dflt) | _ => false)
  { stripped := stripped, fragments := if fragmentsEmpty then none else some fragments }

def AnsiString.hasAttrs (s : AnsiString) : Bool := s.fragments.isSome

/-- `parse_ansi`: returns the AnsiString and the parser as it is left for the next call -/
def Parser.parseAnsi (p : Parser) (text : List Char) : AnsiString × Parser :=
  let p1 := ((tokenize text).foldl perform p).saveStr
  (AnsiString.newString p1.stripped p1.fragments,
   { p1 with stripped := [], strippedCount := 0, fragments := [] })

/-- `AnsiString::parse` -/
def parse (text : List Char) : AnsiString := (Parser.parseAnsi {} text).1

/-! ## AnsiStringIterator (fragment_idx is represented by the list of fragments not yet passed) -/

/-- the `loop` that moves `fragment_idx` to the first fragment with `char_idx < end` -/
def advance : List Frag → Nat → List Frag
  | [], _ => []
  | f :: fs, i => if i < f.stop then f :: fs else advance fs i

def iterGo (frags : List Frag) (idx : Nat) : List Char → List (Char × Attr)
  | [] => []
  | c :: cs =>
    let fr := advance frags idx
    let a := match fr with
      | [] => Attr.dflt
      | f :: _ => if f.start ≤ idx ∧ idx < f.stop then f.attr else Attr.dflt
    (c, a) :: iterGo fr (idx + 1) cs

/-- `AnsiString::iter` -/
def AnsiString.iter (s : AnsiString) : List (Char × Attr) :=
  match s.fragments with
  | none => s.stripped.map (fun c => (c, Attr.dflt))
  | some fr => iterGo fr 0 s.stripped

/-! ## callers: one parser for all lines (header, preview) vs. a fresh parser per item -/

/-- `lines.map(|l| parser.parse_ansi(l))` with ONE parser (header.rs `with_options`, previewer.rs) -/
def parseLines (p : Parser) : List (List Char) → List AnsiString
  | [] => []
  | l :: ls => (p.parseAnsi l).1 :: parseLines (p.parseAnsi l).2 ls

/-- a fresh `ANSIParser::default()` per item (helper/item.rs `DefaultSkimItem::new`) -/
def parseItems (ls : List (List Char)) : List AnsiString := ls.map parse

/-- Rust `char::is_whitespace` (Unicode White_Space) -/
def isWhitespace (c : Char) : Bool :=
  let n := c.toNat
  (0x09 ≤ n && n ≤ 0x0d) || n == 0x20 || n == 0x85 || n == 0xa0 || n == 0x1680 ||
  (0x2000 ≤ n && n ≤ 0x200a) || n == 0x2028 || n == 0x2029 || n == 0x202f || n == 0x205f || n == 0x3000

def trimEnd (s : List Char) : List Char := (s.reverse.dropWhile isWhitespace).reverse

def splitNl : List Char → List (List Char)
  | [] => [[]]
  | c :: cs =>
    match splitNl cs with
    | [] => [[]]          -- unreachable
    | l :: ls => if c = '\n' then [] :: l :: ls else (c :: l) :: ls

/-- util.rs `str_lines`: `string.trim_end().split('\n')` -/
def strLines (s : List Char) : List (List Char) := splitNl (trimEnd s)

/-- header.rs `with_options`, `Some(header)` with `header != ""` -/
def headerLines (s : List Char) : List AnsiString := parseLines {} (strLines s)

end SkimModel.Ansi
