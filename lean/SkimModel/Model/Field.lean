/-
Model of `src/field.rs` (field ranges: `--nth`, `--with-nth`, `{N}` placeholders) and of the loop
over matching ranges in `src/engine/{exact,regexp,fuzzy}.rs`, branch by branch.

Representation (ONE, kept everywhere).  A Rust `&str` is its UTF-8 BYTES: `Bytes = List UInt8`.
All offsets are byte offsets, exactly as in the Rust code.  `is_char_boundary` is the byte test
of `core::str` (offset 0, offset `len`, or a byte that is not a continuation byte `10xxxxxx`).
`&text[b..e]` panics when `b > e`, `e > len` or an end is not a char boundary: `slice` returns
`none` in exactly these cases, and every function that slices or indexes returns an outer `Option`
whose `none` means "the Rust code panics here".

The delimiter regex is EXTERNAL: every function takes the list `ms` of delimiter matches
`(start, end)` = `delimiter.find_iter(text)` as a parameter.  The contract assumed about it
(`okMatches`: in order, non-overlapping, inside the text, on char boundaries) is an executable
Boolean; the theorems take it as their hypothesis and the driver evaluates it on every case.

`i32`: numbers are `Int`.  `from_str` falls back to 1 / -1 when `str::parse::<i32>` fails
(overflow, non-ASCII digit); that is mirrored (`parseI32`).  `length as i32` is not wrapped
(texts with < 2^31 fields).

The model is import-free so that the driver links as a native executable.
-/
namespace SkimModel.Field

abbrev Bytes := List UInt8

/-! ## FieldRange and its grammar -/

inductive FieldRange where
  | single (n : Int)
  | leftInf (n : Int)
  | rightInf (n : Int)
  | both (l r : Int)
  deriving DecidableEq, Repr, Inhabited

def isAsciiDigit (c : Char) : Bool := 48 ≤ c.toNat && c.toNat ≤ 57

/-- value of a string of ASCII digits, most significant first -/
def digitsVal (acc : Nat) (ds : List Char) : Nat :=
  ds.foldl (fun a c => a * 10 + (c.toNat - 48)) acc

/-- an optional leading `-` -/
def splitSign : List Char → Bool × List Char
  | '-' :: t => (true, t)
  | s => (false, s)

/-- `str::parse::<i32>` on a capture of `-?\d+` (so the only sign that can occur is `-`):
    ASCII digits only, value inside the `i32` range, otherwise `Err` (= `none`). -/
def parseI32 (cap : List Char) : Option Int :=
  let p := splitSign cap
  if p.2.isEmpty || !p.2.all isAsciiDigit then none
  else
    let v : Int := (digitsVal 0 p.2 : Int)
    if p.1 then (if -v < -2147483648 then none else some (-v))
    else (if v > 2147483647 then none else some v)

/-- the optional group `(-?\d+)?` at the head of `s`, greedy: the captured text (if the group
    takes part) and the rest.  `isD` is the regex class `\d` (Unicode `Nd`; a parameter). -/
def optNum (isD : Char → Bool) (s : List Char) : Option (List Char) × List Char :=
  let p := splitSign s
  let d := p.2.takeWhile isD
  if d.isEmpty then (none, s) else (some (if p.1 then '-' :: d else d), p.2.dropWhile isD)

/-- the optional group `(\.\.)?` -/
def optSep (s : List Char) : Bool × List Char :=
  match s with
  | '.' :: '.' :: t => (true, t)
  | _ => (false, s)

/-- `FieldRange::from_str`: hand parser for `^(-?\d+)?(\.\.)?(-?\d+)?$` followed by the `match`
    on the captures, including the arms commented "should not happen". -/
def fromStr (isD : Char → Bool) (s : List Char) : Option FieldRange :=
  let l := optNum isD s
  let sp := optSep l.2
  let r := optNum isD sp.2
  if !r.2.isEmpty then none
  else
    let optLeft : Option Int := l.1.map (fun c => (parseI32 c).getD 1)
    let optRight : Option Int := r.1.map (fun c => (parseI32 c).getD (-1))
    match optLeft, optRight with
    | none, none => some (.rightInf 0)
    | some left, none => if sp.1 then some (.rightInf left) else some (.single left)
    | none, some right => if sp.1 then some (.leftInf right) else some (.single right)
    | some left, some right => some (.both left right)

/-! ## to_index_pair -/

/-- `translate_neg`: `max(0, if idx < 0 { idx + len + 1 } else { idx }) as usize` -/
def translateNeg (idx : Int) (length : Nat) : Nat :=
  let idx' : Int := if idx < 0 then idx + (length : Int) + 1 else idx
  (max 0 idx').toNat

/-- `FieldRange::to_index_pair(length)`: 0-based half-open pair of FIELD indices -/
def toIndexPair (r : FieldRange) (length : Nat) : Option (Nat × Nat) :=
  match r with
  | .single num =>
    let num := translateNeg num length
    if num == 0 || num > length then none else some (num - 1, num)
  | .leftInf right =>
    let right := translateNeg right length
    if length == 0 || right == 0 then none else some (0, min right length)
  | .rightInf left =>
    let left := translateNeg left length
    if length == 0 || left > length then none else some (max left 1 - 1, length)
  | .both left right =>
    let left := translateNeg left length
    let right := translateNeg right length
    if length == 0 || right == 0 || left > right || left > length then none
    else some (max left 1 - 1, min right length)

/-! ## bytes, boundaries, slicing -/

/-- UTF-8 continuation byte `10xxxxxx` -/
def isCont (b : UInt8) : Bool := b.toNat / 64 == 2

/-- `str::is_char_boundary` -/
def isBoundary (x : Bytes) (i : Nat) : Bool :=
  i == 0 || i == x.length ||
    (match x[i]? with
     | some b => !isCont b
     | none => false)

/-- the bytes `[b, e)` (total) -/
def sub (x : Bytes) (b e : Nat) : Bytes := (x.drop b).take (e - b)

/-- `&text[b..e]`; `none` = panic -/
def slice (x : Bytes) (b e : Nat) : Option Bytes :=
  if b ≤ e && e ≤ x.length && isBoundary x b && isBoundary x e then some (sub x b e) else none

/-- `s.chars().count()` of valid UTF-8 = number of non-continuation bytes -/
def charCount (x : Bytes) : Nat := (x.filter (fun b => !isCont b)).length

/-! ## the delimiter contract -/

/-- the assumed behaviour of `Regex::find_iter`: matches in order, each `start ≤ end`, no overlap
    (`start` of a match ≥ `end` of the previous one), inside the text, ends on char boundaries. -/
def okFrom (x : Bytes) (last : Nat) : List (Nat × Nat) → Bool
  | [] => last ≤ x.length
  | (s, e) :: ms => last ≤ s && s ≤ e && e ≤ x.length && isBoundary x s && isBoundary x e && okFrom x e ms

def okMatches (x : Bytes) (ms : List (Nat × Nat)) : Bool := okFrom x 0 ms

/-! ## get_ranges_by_delimiter and the three consumers -/

/-- the loop of `get_ranges_by_delimiter` with its variable `last` -/
def rangesGo (last : Nat) (len : Nat) : List (Nat × Nat) → List (Nat × Nat)
  | [] => [(last, len)]
  | (s, e) :: ms => (last, s) :: rangesGo e len ms

def rangesByDelimiter (ms : List (Nat × Nat)) (len : Nat) : List (Nat × Nat) := rangesGo 0 len ms

/-- `get_string_by_field`.  outer `none` = panic, inner `none` = the function returns `None`. -/
def getStringByField (x : Bytes) (ms : List (Nat × Nat)) (field : FieldRange) : Option (Option Bytes) :=
  let ranges := rangesByDelimiter ms x.length
  match toIndexPair field ranges.length with
  | some (start, stop) =>
    match ranges[start]? with
    | none => none                                   -- `ranges[start]` out of bounds
    | some (b, _) =>
      if stop == 0 then none                         -- `stop - 1` underflows
      else
        let e := match ranges[stop - 1]? with
          | some (_, e) => e
          | none => 0                                -- `.unwrap_or(&(text.len(), 0))`, second component
        (slice x b e).map some
  | none => some none

/-- `get_string_by_range` -/
def getStringByRange (isD : Char → Bool) (x : Bytes) (ms : List (Nat × Nat)) (range : List Char) :
    Option (Option Bytes) :=
  match fromStr isD range with
  | some f => getStringByField x ms f
  | none => some none

/-- the `(begin, end)` computed inside the loops of `parse_matching_fields` / `parse_transform_fields`;
    outer `none` = panic, inner `none` = range skipped -/
def fieldSpan (ranges : List (Nat × Nat)) (len : Nat) (field : FieldRange) : Option (Option (Nat × Nat)) :=
  match toIndexPair field ranges.length with
  | some (start, stop) =>
    match ranges[start]? with
    | none => none
    | some (b, _) =>
      let e := match ranges[stop]? with
        | some (e, _) => e
        | none => len                                -- `.unwrap_or(&(text.len(), 0))`, first component
      some (some (b, e))
  | none => some none

/-- `parse_matching_fields` -/
def parseMatchingFields (x : Bytes) (ms : List (Nat × Nat)) (fields : List FieldRange) :
    Option (List (Nat × Nat)) :=
  let ranges := rangesByDelimiter ms x.length
  let rec go : List FieldRange → List (Nat × Nat) → Option (List (Nat × Nat))
    | [], ret => some ret
    | f :: fs, ret =>
      match fieldSpan ranges x.length f with
      | none => none
      | some none => go fs ret
      | some (some be) => go fs (ret ++ [be])
  go fields []

/-- `parse_transform_fields` -/
def parseTransformFields (x : Bytes) (ms : List (Nat × Nat)) (fields : List FieldRange) : Option Bytes :=
  let ranges := rangesByDelimiter ms x.length
  let rec go : List FieldRange → Bytes → Option Bytes
    | [], ret => some ret
    | f :: fs, ret =>
      match fieldSpan ranges x.length f with
      | none => none
      | some none => go fs ret
      | some (some (b, e)) =>
        match slice x b e with
        | none => none
        | some s => go fs (ret ++ s)
  go fields []

/-! ## DefaultSkimItem::new (without `--ansi`) -/

/-- `DefaultSkimItem::new(orig, false, trans_fields, matching_fields, delimiter)`: the text shown and
    matched is the transformed line when `--with-nth` is given, and the matching ranges are computed
    ON THAT TEXT (so `--nth` counts the fields of what `--with-nth` produced).  `ms` are the delimiter
    matches on the original line, `ms'` those on the item text (second parameter).
    Result: (text, matching_ranges); `none` = panic. -/
def itemNew (x : Bytes) (ms : List (Nat × Nat)) (trans matching : List FieldRange)
    (ms' : List (Nat × Nat)) : Option (Bytes × Option (List (Nat × Nat))) :=
  let text? := if !trans.isEmpty then parseTransformFields x ms trans else some x
  match text? with
  | none => none
  | some text =>
    if !matching.isEmpty then
      match parseMatchingFields text ms' matching with
      | none => none
      | some r => some (text, some r)
    else some (text, none)

/-! ## the engines' loop over the matching ranges -/

/-- `ExactEngine::match_item` / `RegexEngine::match_item` (the latter with `inverse = false`).
    `find` is `regex_match(slice, query_regex)` (external), `noRegex` is `query_regex.is_none()`.
    `ranges = none` is `get_matching_ranges() == None` (no `--nth`).
    outer `none` = panic; inner = `matched_result` (`ByteRange(begin, end)` in whole-line bytes). -/
def matchBytes (find : Bytes → Option (Nat × Nat)) (noRegex inverse : Bool) (text : Bytes)
    (ranges : Option (List (Nat × Nat))) : Option (Option (Nat × Nat)) :=
  let rec go : List (Nat × Nat) → Option (Option (Nat × Nat))
    | [] => some none
    | (s, e) :: rest =>
      let start := min s text.length
      let stop := min e text.length
      if noRegex then some (some (0, 0))
      else
        match slice text start stop with
        | none => none
        | some sl =>
          let r := (find sl).map (fun (b, e) => (b + start, e + start))
          let r := if inverse then (match r with | some _ => none | none => some (0, 0)) else r
          match r with
          | some m => some (some m)
          | none => go rest
  go (ranges.getD [(0, text.length)])

/-- `FuzzyEngine::match_item`.  `fz` is `fuzzy_match(slice, query)` returning char indices
    relative to the slice (external).  Result: char indices relative to the whole line. -/
def matchChars (fz : Bytes → Option (List Nat)) (text : Bytes)
    (ranges : Option (List (Nat × Nat))) : Option (Option (List Nat)) :=
  let rec go : List (Nat × Nat) → Option (Option (List Nat))
    | [] => some none
    | (s, e) :: rest =>
      let start := min s text.length
      let stop := min e text.length
      match slice text start stop with
      | none => none
      | some sl =>
        match fz sl with
        | some v =>
          if start != 0 then
            match slice text 0 start with
            | none => none
            | some pre => some (some (v.map (· + charCount pre)))
          else some (some v)
        | none => go rest
  go (ranges.getD [(0, text.length)])

end SkimModel.Field
