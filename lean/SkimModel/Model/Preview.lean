import SkimModel.Generated.Preview
/-
Model of src/previewer.rs (lotabout/skim): the preview request protocol.  No imports except the
constants extracted from the source (Generated/Preview.lean, import-free itself).

Two parts.

(i)  the client side, `on_item_change`: change detection on (item identity, query, cmd query,
     NUMBER of selected items, force) and the scroll actions (`act_scroll_down`).

(ii) the worker protocol as a labelled transition system `step : St → Label → Option St`:
     request channel (std::sync::mpsc, FIFO), the `run` loop (recv; kill + join the previous
     child; drain the channel keeping the newest event; dispatch by event kind), the child
     process (running → exited ok | err | by signal), the waiter thread `wait` (discards
     signal-terminated results; sets `stopped` before the callback) and the callback that
     writes the pane content and resets the scroll offsets.

Granularity / over-approximations (each one only ADDS behaviours, so invariants proved here hold
for every finer interleaving of the real code):
 * `killCheck sawStopped`: `PreviewThread::kill` reads the flag `stopped` (Relaxed) that only
   the waiter ever sets (monotone false → true).  The step may read a stale `false` whenever it
   likes; reading `true` needs the flag to be set.
 * `dispatch` (the `try_recv` loop ended) is enabled even when the channel is not empty: a send
   that is in flight may or may not be seen by `try_recv`.  The left-over event is picked up by
   the next `recv`.
 * child processes may end at any moment with any status (`exit r`), including by a signal
   nobody in skim sent (`exit sig` while running) and a failing `wait_with_output` (`fail`).
 * the callback's two stores (scroll offset, then content) and `act_scroll_down`'s
   load/lock/store are atomic steps: in the code both run inside the `content_lines` spin lock
   (after the fix "keep the preview scroll offset inside the content").
Not modelled (stated limits): `PreviewEvent::Abort` (sent only by `Drop`: the history ends there),
process trees (SIGKILL reaches only the shell; a surviving grandchild holding the pipe delays
`wait_with_output`, hence the join — it delays, it never reorders), pid reuse between the
child's exit and `libc::kill`, horizontal scroll / wrap (no property clause is about them).
-/
namespace SkimModel.Preview

/-! ### (i) client side -/

/-- the four `match (prev, new)` blocks of `on_item_change` -/
def optChanged {α : Type} [DecidableEq α] : Option α → Option α → Bool
  | none, none => false
  | none, some _ => true
  | some _, none => true
  | some a, some b => a != b

/-- what `on_item_change` compares.  `item` is the identity of the `Arc` (`Arc::ptr_eq`),
    strings are compared by value, the selection only by its SIZE. -/
structure Key where
  item : Option Nat
  query : Option Nat
  cmdQuery : Option Nat
  nsel : Nat
  deriving DecidableEq, Repr

structure Client where
  prev : Key := ⟨none, none, none, 0⟩
  deriving Repr

/-- `on_item_change`: returns the new `prev_*` fields and whether a request was sent -/
def onItemChange (c : Client) (k : Key) (force : Bool) : Client × Bool :=
  let itemChanged := optChanged c.prev.item k.item
  let queryChanged := optChanged c.prev.query k.query
  let cmdQueryChanged := optChanged c.prev.cmdQuery k.cmdQuery
  let selectedItemsChanged := c.prev.nsel != k.nsel
  if !force && !itemChanged && !queryChanged && !cmdQueryChanged && !selectedItemsChanged then
    (c, false)
  else
    ({ prev := k }, true)

/-- tuikit `Size` and `calc_fixed_size` -/
inductive Size where
  | default
  | fixed (n : Nat)
  | percent (p : Nat)
  deriving DecidableEq, Repr

def Size.calc (sz : Size) (total dflt : Nat) : Nat :=
  match sz with
  | .fixed n => min total n
  | .percent p => min total (total * p / 100)
  | .default => dflt

/-- last two lines of `act_scroll_down`: `max(min(v, max(len,1)-1), 1)` -/
def clampScroll (v len : Nat) : Nat := max (min v (max len 1 - 1)) 1

/-- first lines of `act_scroll_down` (`diff > 0` adds, otherwise subtracts, saturating at 0) -/
def scrollBy (v : Nat) (d : Int) : Nat :=
  if d > 0 then v + d.toNat else v - min (-d).toNat v

/-- the callback's initial vertical offset: `max(vscroll, voffset) - voffset` with
    `vscroll = v_scroll.calc_fixed_size(usize::MAX, 0)` (no bound: `Fixed n` gives `n`) and
    `voffset = v_offset.calc_fixed_size(height, 0)` -/
def initialOffset (vs : Nat) (vo : Size) (height : Nat) : Nat :=
  let voffset := vo.calc height 0
  max vs voffset - voffset

/-! ### (ii) the worker protocol -/

inductive Kind where
  | cmd       -- PreviewCommand with a non-empty command line
  | emptyCmd  -- PreviewCommand(""): `continue`
  | text      -- PreviewPlainText / PreviewAnsiText: shown synchronously by the worker
  | noop      -- Noop (no current item)
  deriving DecidableEq, Repr

/-- a request event.  `id` = sequence number of the send (1, 2, 3, …) -/
structure Ev where
  id : Nat
  kind : Kind
  vs : Nat := 0          -- v_scroll (0 = Default)
  vo : Size := .default  -- v_offset
  deriving DecidableEq, Repr

/-- result of `wait_with_output` -/
inductive Res where
  | ok | err | sig | fail
  deriving DecidableEq, Repr

/-- `wait` passes stdout (ok) or stderr (err) to the callback, nothing otherwise -/
def Res.shown : Res → Bool
  | .ok => true | .err => true | .sig => false | .fail => false

inductive Proc where
  | running
  | exited (r : Res)
  deriving DecidableEq, Repr

inductive Waiter where
  | waiting            -- blocked in wait_with_output
  | reaped (r : Res)   -- has a result to show, `stopped` not yet set
  | stopping           -- `stopped` set, content not yet written
  | done               -- thread finished (joinable)
  deriving DecidableEq, Repr

structure Child where
  id : Nat
  vs : Nat
  vo : Size
  proc : Proc := .running
  waiter : Waiter := .waiting
  stopped : Bool := false
  signalled : Bool := false   -- ghost: `libc::kill(pid, SIGKILL)` was called for it
  deriving DecidableEq, Repr

/-- where the worker thread is inside `run` -/
inductive Phase where
  | idle                 -- blocked in `rx.recv()`
  | killing (e : Ev)     -- got `e`, `preview_thread.is_some()`: about to load `stopped`
  | joining (e : Ev)     -- in `thread.join()`
  | draining (e : Ev)    -- in the `try_recv` loop, `e` = newest so far; `preview_thread = None`
  deriving DecidableEq, Repr

def Phase.held : Phase → Option Ev
  | .idle => none
  | .killing e => some e
  | .joining e => some e
  | .draining e => some e

structure St where
  chan : List Ev := []
  phase : Phase := .idle
  child : Option Child := none
  content : Nat := 0        -- id of the request whose output is in the pane (0 = nothing yet)
  len : Nat := 0            -- number of lines in the pane
  vscroll : Nat := Generated.Preview.initialVScroll
  height : Nat := Generated.Preview.defaultHeight
  nextId : Nat := 1
  writes : List Nat := []   -- ghost: ids written to the pane, newest first
  sent : List Ev := []      -- ghost: all requests sent, newest first
  last : Option Ev := none  -- ghost: the event dispatched by the last completed loop iteration
  deriving Repr

inductive Label where
  | send (k : Kind) (vs : Nat) (vo : Size)  -- client: `tx_preview.send(event)`
  | recv                                    -- worker: `rx.recv()` returned
  | killCheck (sawStopped : Bool)           -- worker: load `stopped`; SIGKILL unless it read true
  | join                                    -- worker: `thread.join()` returned
  | tryRecv                                 -- worker: `try_recv()` returned an event
  | dispatch (spawnOk : Bool) (len : Nat)   -- worker: drain over, act on the newest event
  | exit (r : Res)                          -- child process ends by itself / by a foreign signal
  | reap                                    -- waiter: `wait_with_output` returned
  | setStopped                              -- waiter: `stopped.store(true)`
  | write (len : Nat)                       -- waiter: the callback stores offsets and content
  | scroll (d : Int)                        -- client: `act_scroll_down(d)`
  | draw (w h : Nat)                        -- client: `draw` records the pane size
  deriving Repr

/-- the callback `|lines, pos|` of `Previewer::new` for request `id` -/
def St.show (s : St) (id vs : Nat) (vo : Size) (len : Nat) : St :=
  { s with content := id, len := len,
           vscroll := clampScroll (initialOffset vs vo s.height) len,
           writes := id :: s.writes }

def step (s : St) : Label → Option St
  | .send k vs vo =>
    let e : Ev := { id := s.nextId, kind := k, vs := vs, vo := vo }
    some { s with chan := s.chan ++ [e], nextId := s.nextId + 1, sent := e :: s.sent }
  | .recv =>
    match s.phase, s.chan with
    | .idle, e :: rest =>
      some { s with chan := rest, last := none,
                    phase := if s.child.isSome then .killing e else .draining e }
    | _, _ => none
  | .killCheck saw =>
    match s.phase, s.child with
    | .killing e, some c =>
      if saw then
        if c.stopped then some { s with phase := .joining e } else none
      else
        some { s with phase := .joining e,
                      child := some { c with signalled := true,
                                             proc := if c.proc = .running then .exited .sig else c.proc } }
    | _, _ => none
  | .join =>
    match s.phase, s.child with
    | .joining e, some c =>
      if c.waiter = .done then some { s with phase := .draining e, child := none } else none
    | _, _ => none
  | .tryRecv =>
    match s.phase, s.chan with
    | .draining _, e' :: rest => some { s with phase := .draining e', chan := rest }
    | _, _ => none
  | .dispatch spawnOk len =>
    match s.phase with
    | .draining e =>
      match e.kind with
      | .cmd =>
        if spawnOk then
          some { s with phase := .idle, last := some e,
                        child := some { id := e.id, vs := e.vs, vo := e.vo } }
        else
          -- "Failed to spawn: …" is shown through the same callback; `preview_thread = None`
          some { (s.show e.id e.vs e.vo len) with phase := .idle, last := some e, child := none }
      | .emptyCmd => some { s with phase := .idle, last := some e }
      | .text => some { (s.show e.id e.vs e.vo len) with phase := .idle, last := some e }
      | .noop => some { s with phase := .idle, last := some e }
    | _ => none
  | .exit r =>
    match s.child with
    | some c => if c.proc = .running then some { s with child := some { c with proc := .exited r } } else none
    | none => none
  | .reap =>
    match s.child with
    | some c =>
      match c.waiter, c.proc with
      | .waiting, .exited r =>
        some { s with child := some { c with waiter := if r.shown then .reaped r else .done } }
      | _, _ => none
    | none => none
  | .setStopped =>
    match s.child with
    | some c =>
      match c.waiter with
      | .reaped _ => some { s with child := some { c with waiter := .stopping, stopped := true } }
      | _ => none
    | none => none
  | .write len =>
    match s.child with
    | some c =>
      match c.waiter with
      | .stopping => some { (s.show c.id c.vs c.vo len) with child := some { c with waiter := .done } }
      | _ => none
    | none => none
  | .scroll d => some { s with vscroll := clampScroll (scrollBy s.vscroll d) s.len }
  | .draw w h => if w = 0 ∨ h = 0 then some s else some { s with height := h }

/-- run a label sequence -/
def run : St → List Label → Option St
  | s, [] => some s
  | s, l :: ls => match step s l with
    | some s' => run s' ls
    | none => none

def init : St := {}

/-- every state the protocol can be in: reachable from `init` by enabled labels -/
inductive Reachable : St → Prop where
  | init : Reachable init
  | step {s s' : St} (l : Label) : Reachable s → step s l = some s' → Reachable s'

/-- preview activity has settled: nothing queued, worker blocked in `recv`, no waiter alive -/
def Settled (s : St) : Prop :=
  s.chan = [] ∧ s.phase = .idle ∧ ∀ c, s.child = some c → c.waiter = .done

instance (s : St) : Decidable (Settled s) := by
  unfold Settled
  cases h : s.child with
  | none => exact decidable_of_iff (s.chan = [] ∧ s.phase = .idle) (by simp)
  | some c => exact decidable_of_iff (s.chan = [] ∧ s.phase = .idle ∧ c.waiter = .done) (by simp)

end SkimModel.Preview
