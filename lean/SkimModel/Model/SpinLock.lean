/-
Model of `SpinLock` (src/spinlock.rs) with N contending threads.  Each thread repeatedly:
  idle --CAS(false→true) succeeds--> holding(read)   (a failed CAS leaves it idle = spinning)
  holding(read):  tmp := data        --> holding(write)
  holding(write): data := tmp + 1    --> holding(done)
  holding(done) --CAS(true→false)--> idle             (guard dropped)
The critical section is a deliberately NON-atomic read-modify-write, so a lost update is visible.
Atomics are interleaved under sequential consistency (the orderings written in the source are
checked separately against a generated table).
-/
namespace SkimModel.SpinLock

inductive PC
  | idle
  | csRead
  | csWrite (tmp : Nat)
  | csDone
  deriving DecidableEq, Repr

structure St where
  locked : Bool := false
  data   : Nat := 0
  pcs    : List PC := []
  done   : Nat := 0         -- ghost: completed critical sections
  deriving Repr

def PC.inCS : PC → Bool
  | .idle => false
  | _ => true

/-- thread `i` takes one step (a failed CAS is a stutter step) -/
def step (s : St) (i : Nat) : St :=
  match s.pcs[i]? with
  | none => s
  | some .idle =>
      if s.locked then s else { s with locked := true, pcs := s.pcs.set i .csRead }
  | some .csRead => { s with pcs := s.pcs.set i (.csWrite s.data) }
  | some (.csWrite t) => { s with data := t + 1, pcs := s.pcs.set i .csDone }
  | some .csDone =>
      -- drop: CAS(true→false); it can only fail if the lock is not held, which the invariant excludes
      if s.locked then { s with locked := false, pcs := s.pcs.set i .idle, done := s.done + 1 } else s

def init (n : Nat) : St := { pcs := List.replicate n .idle }

def run (s : St) (sched : List Nat) : St := sched.foldl step s

end SkimModel.SpinLock
