/-
Model of how a session ends (src/model.rs: the EvActAccept / EvActAbort arms of `Model::start`;
src/selection.rs: get_selected_indices_and_items; src/bin/main.rs: what is printed and the exit code).
Composes the models of the selection set (C10), the cursor (C09) and the query editor (C18).
-/
import SkimModel.Model.SelSet
import SkimModel.Model.SelCursor
import SkimModel.Model.Editor
namespace SkimModel.Accept
open SkimModel

/-- the event that ended the session -/
inductive FinalEv
  | accept (arg : Option String)
  | abort
  deriving DecidableEq, Repr

/-- `SkimOutput` -/
structure Output (κ : Type) where
  isAbort    : Bool
  finalEvent : FinalEv
  finalKey   : κ
  query      : List Char
  cmd        : List Char
  items      : List SelSet.Item
  deriving Repr

/-- the EvActAccept / EvActAbort arms; `none` = the `panic!("model:act_output: failed to get item")`
    of get_selected_indices_and_items (cursor outside a non-empty list) -/
def finish {κ : Type} (sel : SelSet.Sel) (cur : SelCursor.Cur) (ed : Editor.Ed) (key : κ) (ev : FinalEv) :
    Option (Output κ) :=
  match SelSet.accept sel cur.cursor with
  | none => none
  | some r =>
    some { isAbort := (match ev with | .abort => true | .accept _ => false),
           finalEvent := ev, finalKey := key,
           query := ed.fz.line, cmd := ed.cmd.line, items := r.2 }

/-- options of the `sk` binary that shape its output -/
structure BinOpts where
  printQuery : Bool := false
  printCmd   : Bool := false
  expect     : Bool := false
  ending     : String := "\n"

/-- what `main.rs` prints (pieces, each followed by the ending) and the exit code; `out item` is the
    item's `output()` text -/
def binOutput {κ : Type} (o : Output κ) (b : BinOpts) (out : SelSet.Item → String) : List String × Nat :=
  if o.isAbort then ([], 130) else
  let q := if b.printQuery then [String.ofList o.query] else []
  let c := if b.printCmd then [String.ofList o.cmd] else []
  let e := if b.expect then
      (match o.finalEvent with
       | .accept (some k) => [k]
       | .accept none => [""]
       | .abort => [])
    else []
  (q ++ c ++ e ++ o.items.map out, if o.items.isEmpty then 1 else 0)

end SkimModel.Accept
