/-
Types shared by the generated SGR table (`Generated/Sgr.lean`), the model of `src/ansi.rs`
(`Model/Ansi.lean`) and the spec (`Spec/Sgr.lean`).  Import-free.

`Attr` mirrors `tuikit::attr::Attr { fg, bg, effect }`; `Color` mirrors `tuikit::attr::Color`
(`Default | AnsiValue(u8) | Rgb(u8,u8,u8)`), with `Nat` components (the model stores `x % 256`
wherever the code writes `x as u8`); `Effect` is the 5-flag bit set BOLD/DIM/UNDERLINE/BLINK/REVERSE
as five booleans (the harness prints `contains(flag)` per flag, so bit positions never matter).
-/
namespace SkimModel.Ansi

inductive Color
  | default
  | ansi (n : Nat)
  | rgb (r g b : Nat)
  deriving DecidableEq, Repr, Inhabited

structure Effect where
  bold : Bool := false
  dim : Bool := false
  underline : Bool := false
  blink : Bool := false
  reverse : Bool := false
  deriving DecidableEq, Repr, Inhabited

/-- `a | b` of the bitflags type -/
def Effect.or (a b : Effect) : Effect :=
  ⟨a.bold || b.bold, a.dim || b.dim, a.underline || b.underline, a.blink || b.blink, a.reverse || b.reverse⟩

/-- `!a` of the bitflags type (bitflags 1.x: complement truncated to the defined flags) -/
def Effect.compl (a : Effect) : Effect :=
  ⟨!a.bold, !a.dim, !a.underline, !a.blink, !a.reverse⟩

structure Attr where
  fg : Color := .default
  bg : Color := .default
  effect : Effect := {}
  deriving DecidableEq, Repr, Inhabited

/-- `Attr::default()` -/
def Attr.dflt : Attr := {}

/-! ### syntax of the rows of `match code[0]` in `csi_dispatch` (filled by the extractor) -/

inductive EffName | bold | dim | underline | blink | reverse
  deriving DecidableEq, Repr

def EffName.flag : EffName → Effect
  | .bold => { bold := true }
  | .dim => { dim := true }
  | .underline => { underline := true }
  | .blink => { blink := true }
  | .reverse => { reverse := true }

/-- right-hand side of `attr.effect |= …` : `Effect::X` or `!Effect::X` -/
inductive EffExpr
  | lit (e : EffName)
  | compl (e : EffName)
  deriving DecidableEq, Repr

def EffExpr.eval : EffExpr → Effect
  | .lit e => e.flag
  | .compl e => e.flag.compl

inductive Layer | fg | bg
  deriving DecidableEq, Repr

/-- match pattern: `n`, `num @ lo..=hi`, `_` -/
inductive Pat
  | lit (n : Nat)
  | range (lo hi : Nat)
  | wild
  deriving DecidableEq, Repr

def Pat.matches : Pat → Nat → Bool
  | .lit n, c => c == n
  | .range lo hi, c => decide (lo ≤ c) && decide (c ≤ hi)
  | .wild, _ => true

/-- arm body -/
inductive Act
  | reset                                  -- attr = Attr::default()
  | orEffect (e : EffExpr)                 -- attr.effect |= e
  | setAnsiSub (l : Layer) (k : Nat)       -- attr.l = Color::AnsiValue((num - k) as u8)
  | setDefault (l : Layer)                 -- attr.l = Color::Default
  | ext (l : Layer)                        -- the nested `match iter.next()` of 38 / 48
  | ignore                                 -- { trace!(..) }
  deriving DecidableEq, Repr

/-- one parameter as vte hands it to `csi_dispatch`: a non-empty slice `[head, sub…]`
    (`code[0]` is `head`; the pattern `&[2]` is `(2, [])`) -/
abbrev Param := Nat × List Nat

end SkimModel.Ansi
