/-
Model of the reader / pool / matcher / event-loop protocol of skim
(src/model.rs: act_heart_beat, handle_select1_or_exit0, restart_matcher, on_query_change,
on_cmd_query_change, the accept/abort arms; src/matcher.rs: Matcher::run thread, MatcherControl;
src/reader.rs: collect_item thread, ReaderControl; src/item.rs: ItemPool).

Threads:  M = event loop, T = matcher thread (at most one is relevant at a time), R = reader collector
thread, K = timer thread.  One label = one atomic step:

  rPush      R moves one item from the source into the reader buffer (under the buffer lock)
  rEnd       R sees the source closed: components_to_stop -= 1
  tTake      T: `num_taken(); pool.take()` (start index, slice, taken := len)  — holds the pool lock from here on
  tPublish   T: matching finished, result stored under its lock, callback sends a heart beat
  tStop      T: `stopped := true` (and the pool lock is released when the thread ends)
  timer      K: a scheduled heart beat fires
  user e     the input thread enqueues a user event
  loop rd    M takes the next event from the queue and runs its handler ATOMICALLY; `rd` says, for every
             read of a flag owned by another thread, whether M sees the current value or a STALE FALSE.

Why atomic handlers with stale-false reads cover every finer interleaving: the three flags M reads from
other threads — `stopped` of the current matcher run, `is_done` of the current reader, `taken = length` —
are monotone while M is inside a handler (only T sets `stopped`, only R finishes the reader, only T's take
raises `taken` to `length`; they are reset only by M itself).  A read performed earlier inside the handler
therefore returns either the value at the end of the handler or `false`.  All other shared accesses of a
handler happen under the pool / buffer / result lock.  (This reduction is argued here, not formalised.)

The model is of the code AFTER the two `fix:` commits (is_done read once per heart beat;
select-1/exit-0 require the matcher control to be harvested); the pre-fix handler is kept as
`handleHBPre` for the counterexample theorems.
-/
import SkimModel.Model.Pool
namespace SkimModel.Session
open SkimModel.Pool

inductive Clear | dont | clear | ifNotNull
  deriving DecidableEq, Repr

inductive Phase | spawned | matching | published | stopped
  deriving DecidableEq, Repr

/-- a matcher run: the thread and the `MatcherControl` M holds for it -/
structure MRun (α κ : Type) where
  q      : κ
  phase  : Phase := .spawned
  start  : Nat := 0
  slice  : List α := []
  result : List (Nat × α) := []
  deriving Repr

inductive Decision | accept | abort | interactive
  deriving DecidableEq, Repr

inductive UserEv (α κ : Type)
  | setQuery (q : κ)          -- query edit or mode rotation: kill, Clear, reset, restart
  | setCmd (run : Nat) (src : List α)
      -- refresh-cmd / command-query edit: new reader whose source is `src`; `run` is the run number
      -- `mark_new_run` hands out for that command string (the same string gets the same number again)
  | toggle (idx : Nat)        -- toggle the listed entry whose item_idx is `idx` (the one under the cursor)
  | selectAll
  | toggleAll
  | deselectAll
  | other                     -- any event that touches neither query, command nor selection (cursor moves ...)
  | accept
  | abort
  deriving Repr

inductive Ev (α κ : Type)
  | hb
  | user (e : UserEv α κ)
  deriving Repr

def Ev.isHB {α κ : Type} : Ev α κ → Bool
  | .hb => true
  | _ => false

/-- which reads of foreign flags see the current value (`true`) rather than a stale `false` -/
structure Reads where
  rs  : Bool := true     -- reader.is_done() in act_heart_beat
  ms  : Bool := true     -- matcher_control.stopped()
  ic  : Bool := true     -- item_pool.num_not_taken() == 0
  ic2 : Bool := true     -- the same three in handle_select1_or_exit0
  rs2 : Bool := true
  ms2 : Bool := true     -- (only the pre-fix handler reads `stopped` there)
  deriving Repr, DecidableEq

structure St (α κ : Type) where
  -- reader side of the current command run
  unread : List α := []
  buf    : List α := []
  live   : Bool := true
  -- item pool
  pool   : Pool α := {}
  -- matcher control held by M
  mc     : Option (MRun α κ) := none
  -- M's locals
  q      : κ
  clear  : Clear := .dont
  list   : List (Nat × α) := []       -- candidate list entries (item_idx, item); order is C02's business
  numOptions : Nat := 0
  queue  : List (Ev α κ) := [.hb]     -- `start` handles a heart beat first
  timer  : Bool := false
  run    : Nat := 0                   -- command run number (ghost: a fresh number per setCmd)
  selected : List (Nat × Nat) := []   -- selected keys (run, item_idx)
  -- options
  select1 : Bool := false
  exit0   : Bool := false
  noClearIfEmpty : Bool := false
  multi   : Bool := false
  -- outcome
  decision : Option Decision := none
  finished : Option Bool := none      -- session ended; the flag is `is_abort`
  -- ghost: everything the current command run delivers
  source : List α := []

variable {α κ : Type}

inductive Label (α κ : Type)
  | rPush | rEnd
  | tTake | tPublish | tStop
  | timer
  | user (e : Ev α κ)        -- the input thread (or anything else) enqueues an event
  | loop (rd : Reads)

/-- `ReaderControl::is_done`: collector finished and buffer drained -/
def readerDone (s : St α κ) : Bool := !s.live && s.buf.isEmpty

/-- items_consumed: `num_not_taken() == 0` -/
def itemsConsumed (s : St α κ) : Bool := s.pool.taken == s.pool.pool.length

/-- what a matcher run reports for a slice starting at index `start` -/
def hitsFrom (m : κ → α → Bool) (q : κ) (start : Nat) (xs : List α) : List (Nat × α) :=
  ((xs.zipIdx start).filter (fun p => m q p.1)).map (fun p => (p.2, p.1))

/-- `restart_matcher` -/
def restart (s : St α κ) : St α κ :=
  let s1 := if readerDone s then s else { s with pool := (s.pool.append s.buf).1, buf := [] }
  { s1 with queue := s1.queue ++ [.hb], mc := some { q := s1.q } }

/-- `MatcherControl::kill`: set `stopped`, join.  A thread that had not published yet still runs its
    callback (a heart beat); its result is dropped with the control. -/
def killMatcher (s : St α κ) : St α κ :=
  match s.mc with
  | none => s
  | some r =>
    let q' := match r.phase with
      | .spawned | .matching => s.queue ++ [.hb]
      | _ => s.queue
    { s with mc := none, queue := q' }

/-- the harvest block of act_heart_beat (`rs` = the reader_stopped value in use) -/
def harvest (s : St α κ) (r : MRun α κ) (rs : Bool) : St α κ :=
  let doClear : Bool := match s.clear with
    | .dont => false
    | .clear => true
    | .ifNotNull => (!s.noClearIfEmpty && rs) || !r.result.isEmpty
  let base := if doClear then [] else s.list
  { s with
    mc := none,
    clear := if doClear then .dont else s.clear,
    numOptions := s.numOptions + r.result.length,
    list := base ++ r.result }

def matcherStopped (s : St α κ) : Bool :=
  match s.mc with
  | some r => r.phase == .stopped
  | none => false

/-- select-1 / exit-0 decision once everything is processed -/
def decide1 (s : St α κ) : St α κ :=
  let n := s.list.length
  if n == 1 && s.select1 then
    { s with decision := some .accept, queue := s.queue ++ [.user .accept] }
  else if n == 0 && s.exit0 then
    { s with decision := some .abort, queue := s.queue ++ [.user .abort] }
  else
    { s with decision := some .interactive, select1 := false, exit0 := false }

/-- the harvest step of act_heart_beat: only when M sees `stopped` -/
def hbHarvest (s : St α κ) (rs ms : Bool) : St α κ :=
  match s.mc, ms with
  | some r, true => harvest s r rs
  | _, _ => s

/-- act_heart_beat (fixed code: `is_done` is read once, before anything else) -/
def hbMain (s : St α κ) (rd : Reads) : St α κ :=
  let rs := rd.rs && readerDone s
  let ms := rd.ms && matcherStopped s
  let s1 := hbHarvest s rs ms
  let ic := rd.ic && itemsConsumed s1
  let processed := rs && ic
  let s2 := if !processed && s1.mc.isNone then restart s1 else s1
  if s2.mc.isSome || !processed then { s2 with timer := true } else s2

/-- handle_select1_or_exit0 (fixed code: "matcher finished" means the control has been harvested) -/
def hbSelect (s3 : St α κ) (rd : Reads) : St α κ :=
  if !s3.select1 && !s3.exit0 then s3 else
  let ic' := rd.ic2 && itemsConsumed s3
  let rs' := rd.rs2 && readerDone s3
  let ms' := s3.mc.isNone
  if rs' && ic' && ms' then decide1 s3 else s3

def handleHB (s : St α κ) (rd : Reads) : St α κ := hbSelect (hbMain s rd) rd

/-- the handler of the UNFIXED code: is_done is read twice (before the harvest only if the matcher
    had stopped, and again afterwards), and select-1/exit-0 treat `stopped()` as "finished" -/
def handleHBPre (s : St α κ) (rd : Reads) : St α κ :=
  let ms := rd.ms && matcherStopped s
  let rs1 := rd.rs && readerDone s
  let s1 := match s.mc, ms with
    | some r, true => harvest s r rs1
    | _, _ => s
  let ic := rd.ic && itemsConsumed s1
  let rs2 := readerDone s1                 -- second, later read: sees the current value
  let processed := rs2 && ic
  let s2 := if !processed && s1.mc.isNone then restart s1 else s1
  let s3 := if s2.mc.isSome || !processed then { s2 with timer := true } else s2
  if !s3.select1 && !s3.exit0 then s3 else
  let ic' := rd.ic2 && itemsConsumed s3
  let rs' := rd.rs2 && readerDone s3
  let ms' := match s3.mc with
    | some r => rd.ms2 && (r.phase == .stopped)
    | none => true
  if rs' && ic' && ms' then decide1 s3 else s3

def toggleKey (sel : List (Nat × Nat)) (k : Nat × Nat) : List (Nat × Nat) :=
  if sel.contains k then sel.filter (· != k) else sel ++ [k]

def handleUser (s : St α κ) : UserEv α κ → St α κ
  | .setQuery q' =>
      let s1 := killMatcher s
      restart { s1 with clear := .clear, pool := s1.pool.reset, numOptions := 0, q := q' }
  | .setCmd run src =>
      -- reader killed (its unread input and buffer are dropped), matcher killed, pool cleared, new reader
      let s1 := killMatcher s
      restart { s1 with clear := .ifNotNull, pool := s1.pool.clear, numOptions := 0,
                        unread := src, buf := [], live := true, source := src, run := run }
  | .toggle idx =>
      if s.multi && (s.list.map (·.1)).contains idx then
        { s with selected := toggleKey s.selected (s.run, idx) }
      else s
  | .selectAll =>
      if s.multi then
        { s with selected := (s.list.map (·.1)).foldl (fun sel i => if sel.contains (s.run, i) then sel else sel ++ [(s.run, i)]) s.selected }
      else s
  | .toggleAll =>
      if s.multi then
        { s with selected := (s.list.map (·.1)).foldl (fun sel i => toggleKey sel (s.run, i)) s.selected }
      else s
  | .deselectAll => { s with selected := [] }
  | .other => s
  -- accept / abort also kill reader and matcher; nothing is observable after the session has returned,
  -- so the model only records the outcome
  | .accept => { s with finished := some false }
  | .abort => { s with finished := some true }

/-- one atomic step; `none` = the label is not enabled -/
def stepWith (hbHandler : St α κ → Reads → St α κ) (m : κ → α → Bool) (s : St α κ) :
    Label α κ → Option (St α κ)
  | .rPush =>
      if s.finished.isSome then none else
      match s.live, s.unread with
      | true, x :: u => some { s with unread := u, buf := s.buf ++ [x] }
      | _, _ => none
  | .rEnd =>
      if s.finished.isSome then none else
      match s.live, s.unread with
      | true, [] => some { s with live := false }
      | _, _ => none
  | .tTake =>
      match s.mc with
      | some r =>
        if r.phase == .spawned then
          let t := s.pool.take
          some { s with pool := t.1, mc := some { r with phase := .matching, start := t.2.1, slice := t.2.2 } }
        else none
      | none => none
  | .tPublish =>
      match s.mc with
      | some r =>
        if r.phase == .matching then
          some { s with mc := some { r with phase := .published, result := hitsFrom m r.q r.start r.slice },
                        queue := s.queue ++ [.hb] }
        else none
      | none => none
  | .tStop =>
      match s.mc with
      | some r => if r.phase == .published then some { s with mc := some { r with phase := .stopped } } else none
      | none => none
  | .timer => if s.timer then some { s with timer := false, queue := s.queue ++ [.hb] } else none
  | .user e => if s.finished.isSome then none else some { s with queue := s.queue ++ [e] }
  | .loop rd =>
      if s.finished.isSome then none else
      match s.queue with
      | [] => none
      | .hb :: rest =>
          -- consume_additional_event: further heart beats at the head of the queue are dropped
          some (hbHandler { s with queue := rest.dropWhile Ev.isHB } rd)
      | .user e :: rest => some (handleUser { s with queue := rest } e)

/-- the transition relation of the (fixed) code -/
def step (m : κ → α → Bool) (s : St α κ) (l : Label α κ) : Option (St α κ) := stepWith handleHB m s l

/-- the transition relation of the code before the two fixes -/
def stepPre (m : κ → α → Bool) (s : St α κ) (l : Label α κ) : Option (St α κ) := stepWith handleHBPre m s l

def runLPre (m : κ → α → Bool) (s : St α κ) (ls : List (Label α κ)) : St α κ :=
  ls.foldl (fun s l => (stepPre m s l).getD s) s

/-- run a label sequence; labels that are not enabled are skipped (so every label list is a history) -/
def runL (m : κ → α → Bool) (s : St α κ) (ls : List (Label α κ)) : St α κ :=
  ls.foldl (fun s l => (step m s l).getD s) s

structure Opts where
  select1 : Bool := false
  exit0   : Bool := false
  noClearIfEmpty : Bool := false
  headerLines : Nat := 0
  multi : Bool := false

def initWith (o : Opts) (q : κ) (src : List α) : St α κ :=
  { q := q, unread := src, source := src, pool := { nres := o.headerLines },
    select1 := o.select1, exit0 := o.exit0, noClearIfEmpty := o.noClearIfEmpty, multi := o.multi }

def init (q : κ) (src : List α) (nres : Nat) : St α κ := initWith { headerLines := nres } q src

end SkimModel.Session
