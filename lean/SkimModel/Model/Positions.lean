/-
Model of the POSITION arithmetic skim wraps around its matchers (property C08):

  src/engine/fuzzy.rs   `FuzzyEngine::{fuzzy_match, match_item}`      (loop over matching ranges = `Field.matchChars`)
  src/engine/exact.rs   `ExactEngine::match_item`                      (= `Field.matchBytes`)
  src/engine/regexp.rs  `RegexEngine::match_item`                      (= `Field.matchBytes`, never inverse)
  src/engine/all.rs     `MatchAllEngine::match_item`
  src/engine/andor.rs   `AndEngine::{match_item, merge_matched_items}`, `OrEngine::match_item`
  src/lib.rs            `MatchResult::range_char_indices`, `From<DisplayContext> for AnsiString`
  src/helper/item.rs    `DefaultSkimItem::display`
  src/ansi.rs           `AnsiStringIterator::next` (which characters carry the highlight)
  src/selection.rs      `draw_item`: `match_start_char` / `match_end_char`, the choice of `shift`
  src/util.rs           `accumulate_text_width`, `reshape_string`

Texts are UTF-8 BYTES (`Field.Bytes`), offsets are byte offsets, exactly as in the Rust code.  Every
function that slices a `str`, indexes a `Vec` or subtracts `usize`s returns an outer `Option` whose
`none` means "the Rust code panics here".

The external matchers are PARAMETERS (`Ext`): `find` = `regex_match(slice, regex)` of the regex crate,
`fz` = the index vector of `fuzzy-matcher`'s `fuzzy_indices(slice, pattern)`.  Their contracts are in
`Spec/Positions.lean`; nothing here depends on them.

`u32` / `i32` casts (`idx as u32` in the fragments, `usize as i32` in the rank) are not wrapped:
texts shorter than 2^31 bytes (DESIGN §2).  Import-free apart from the two sibling models.
-/
import SkimModel.Model.Engine
import SkimModel.Model.Field
namespace SkimModel.Positions
open SkimModel.Engine SkimModel.Field

/-- `MatchRange` of src/lib.rs -/
inductive MatchRange
  | bytes (b e : Nat)          -- `ByteRange(start, end)`
  | chars (is : List Nat)      -- `Chars(vec)`
  deriving DecidableEq, Repr, Inhabited

/-! ### UTF-8 (what a Rust `str` is) -/

/-- the UTF-8 encoding of one `char`, in `Nat` arithmetic -/
def encodeChar (c : Char) : Bytes :=
  let n := c.toNat
  if n < 0x80 then [UInt8.ofNat n]
  else if n < 0x800 then [UInt8.ofNat (0xC0 + n / 64), UInt8.ofNat (0x80 + n % 64)]
  else if n < 0x10000 then
    [UInt8.ofNat (0xE0 + n / 4096), UInt8.ofNat (0x80 + n / 64 % 64), UInt8.ofNat (0x80 + n % 64)]
  else
    [UInt8.ofNat (0xF0 + n / 262144), UInt8.ofNat (0x80 + n / 4096 % 64), UInt8.ofNat (0x80 + n / 64 % 64),
     UInt8.ofNat (0x80 + n % 64)]

/-- the bytes of a string given by its characters -/
def utf8 (x : List Char) : Bytes := x.flatMap encodeChar

/-! ### the leaf engines -/

/-- the external matchers of one leaf engine, as functions of the slice they are called on -/
structure Ext where
  find : Bytes → Option (Nat × Nat) := fun _ => none      -- `regex_match(slice, &self.query_regex)`
  fz   : Bytes → Option (List Nat) := fun _ => none       -- `self.matcher.fuzzy_indices(slice, query)` (indices)

/-- `FuzzyEngine::fuzzy_match`: empty pattern ⇒ `Some((0, []))`, else empty choice ⇒ `None`, else the matcher -/
def fuzzyMatch (fz : Bytes → Option (List Nat)) (body : List Char) (choice : Bytes) : Option (List Nat) :=
  if body.isEmpty then some []
  else if choice.isEmpty then none
  else fz choice

/-- a leaf of the engine tree -/
inductive Leaf
  | term (e : TermEngine)        -- built by `ExactOrFuzzyEngineFactory`
  | regex (compiled : Bool)      -- `RegexEngine`; `compiled = false`: `Regex::new` failed, `query_regex = None`
  deriving DecidableEq, Repr, Inhabited

def pairToRange (p : Nat × Nat) : MatchRange := .bytes p.1 p.2

/-- `match_item` of the four leaf engines: `matched_range`; outer `none` = panic, inner `none` = no match.
    `ExactEngine` keeps no regex for an empty body (`query_regex = None`). -/
def leafMatch (x : Ext) (text : Bytes) (ranges : Option (List (Nat × Nat))) : Leaf → Option (Option MatchRange)
  | .term .all => some (some (.bytes 0 0))
  | .term (.fuzzy body) => (matchChars (fuzzyMatch x.fz body) text ranges).map (·.map .chars)
  | .term (.exact body _ _ inv) => (matchBytes x.find body.isEmpty inv text ranges).map (·.map pairToRange)
  | .regex compiled => (matchBytes x.find (!compiled) false text ranges).map (·.map pairToRange)

/-- the `begin` / `end` a leaf engine hands to `build_rank`:
    exact / regex / match-all: the byte span; fuzzy: `*matched_range.first().unwrap_or(&0)` / `last()` -/
def rankKeys : MatchRange → Nat × Nat
  | .bytes b e => (b, e)
  | .chars v => (v.head?.getD 0, v.getLast?.getD 0)

/-! ### `MatchResult::range_char_indices`, `AndEngine`, `OrEngine` -/

/-- `text[..start].chars().count()` and `+ text[start..end].chars().count()`; `none` = a slice panics -/
def byteToCharRange (text : Bytes) (s e : Nat) : Option (Nat × Nat) :=
  match slice text 0 s, slice text s e with
  | some pre, some mid => some (charCount pre, charCount pre + charCount mid)
  | _, _ => none

/-- `MatchResult::range_char_indices` -/
def rangeCharIndices (text : Bytes) : MatchRange → Option (List Nat)
  | .bytes s e => (byteToCharRange text s e).map (fun p => List.range' p.1 (p.2 - p.1))
  | .chars v => some v

/-- the loop of `Vec::dedup`: drop an element equal to the last one kept -/
def dedupFrom (prev : Nat) : List Nat → List Nat
  | [] => []
  | b :: t => if prev = b then dedupFrom prev t else b :: dedupFrom b t

/-- `Vec::dedup` -/
def dedupAdj : List Nat → List Nat
  | [] => []
  | a :: t => a :: dedupFrom a t

/-- `Vec::<usize>::sort` (a sort; stability is unobservable on numbers) -/
def sortNat (l : List Nat) : List Nat := l.mergeSort (fun a b => decide (a ≤ b))

/-- the `for item in items` loop of `merge_matched_items`: the char indices of every result, concatenated -/
def collectIndices (text : Bytes) : List MatchRange → Option (List Nat)
  | [] => some []
  | r :: rs =>
    match rangeCharIndices text r with
    | none => none
    | some v => (collectIndices text rs).map (v ++ ·)

/-- `AndEngine::merge_matched_items` (the range; the rank is `items[0].rank`) -/
def mergeMatched (text : Bytes) (items : List MatchRange) : Option MatchRange :=
  (collectIndices text items).map (fun v => .chars (dedupAdj (sortNat v)))

/-- the `for engine in &self.engines { let result = engine.match_item(..)?; results.push(result) }` loop -/
def andCollect (text : Bytes) (ranges : Option (List (Nat × Nat))) :
    List (Leaf × Ext) → Option (Option (List MatchRange))
  | [] => some (some [])
  | (l, x) :: rest =>
    match leafMatch x text ranges l with
    | none => none
    | some none => some none
    | some (some r) =>
      match andCollect text ranges rest with
      | none => none
      | some none => some none
      | some (some rs) => some (some (r :: rs))

/-- what an engine reports: the `matched_range`, and the range of the leaf whose `rank` is reported
    (the leaf itself, or the FIRST term of a conjunction) -/
structure Report where
  range : MatchRange
  first : MatchRange
  deriving DecidableEq, Repr, Inhabited

/-- `AndEngine::match_item` -/
def andMatch (text : Bytes) (ranges : Option (List (Nat × Nat))) (leaves : List (Leaf × Ext)) :
    Option (Option Report) :=
  match andCollect text ranges leaves with
  | none => none
  | some none => some none
  | some (some []) => some none                          -- `if results.is_empty() { None }`
  | some (some (r :: rs)) => (mergeMatched text (r :: rs)).map (fun m => some ⟨m, r⟩)

/-- `OrEngine::match_item`: the first alternative that matches -/
def orMatch (text : Bytes) (ranges : Option (List (Nat × Nat))) :
    List (List (Leaf × Ext)) → Option (Option Report)
  | [] => some none
  | a :: as =>
    match andMatch text ranges a with
    | none => none
    | some (some r) => some (some r)
    | some none => orMatch text ranges as

/-- the engine tree the factories build -/
inductive Tree
  | leaf (l : Leaf × Ext)                       -- bare factory / blank-only query
  | alts (as : List (List (Leaf × Ext)))        -- `OrEngine` of `AndEngine`s

def treeMatch (text : Bytes) (ranges : Option (List (Nat × Nat))) : Tree → Option (Option Report)
  | .leaf (l, x) => (leafMatch x text ranges l).map (·.map (fun r => ⟨r, r⟩))
  | .alts as => orMatch text ranges as

/-! ### consumers of the positions -/

/-- the fragments `(start, end)` (char indices) built by `DefaultSkimItem::display` and by
    `From<DisplayContext> for AnsiString` (both compute the same list); `none` = a slice panics -/
def fragments (text : Bytes) : MatchRange → Option (List (Nat × Nat))
  | .chars v => some (v.map (fun i => (i, i + 1)))
  | .bytes s e => (byteToCharRange text s e).map (fun p => [p])

/-- the `loop` of `AnsiStringIterator::next`: advance `fragment_idx` past the fragments ending at or
    before `char_idx` (the remaining fragments are the state) -/
def skipFrags (ci : Nat) : List (Nat × Nat) → List (Nat × Nat)
  | [] => []
  | (s, e) :: fs => if ci < e then (s, e) :: fs else skipFrags ci fs

/-- `AnsiStringIterator`: for the `n` characters from index `ci` on, does the character carry the
    fragment's attribute? -/
def iterFlags : List (Nat × Nat) → Nat → Nat → List Bool
  | _, _, 0 => []
  | frags, ci, n + 1 =>
    let fr := skipFrags ci frags
    let hit := match fr with
      | [] => false
      | (s, e) :: _ => decide (s ≤ ci) && decide (ci < e)
    hit :: iterFlags fr (ci + 1) n

/-- positions of the `true` flags, counted from `off` -/
def trueIdx (off : Nat) : List Bool → List Nat
  | [] => []
  | b :: bs => if b then off :: trueIdx (off + 1) bs else trueIdx (off + 1) bs

/-- the char indices that end up highlighted when the item is displayed; `none` = panic -/
def highlighted (text : Bytes) (r : MatchRange) : Option (List Nat) :=
  (fragments text r).map (fun f => trueIdx 0 (iterFlags f 0 (charCount text)))

/-- `draw_item`: `(match_start_char, match_end_char)` -/
def matchStartEnd (text : Bytes) : MatchRange → Option (Nat × Nat)
  | .chars v =>
    if !v.isEmpty then
      match v[0]?, v[v.length - 1]? with
      | some a, some b => some (a, b + 1)
      | _, _ => none
    else some (0, 0)
  | .bytes s e => byteToCharRange text s e

/-- `accumulate_text_width`: a character is a tab (`none`) or has a display width; `w` = width so far -/
def accWidth (tabstop : Nat) (w : Nat) : List (Option Nat) → List Nat
  | [] => []
  | c :: cs =>
    let w' := w + (match c with | none => tabstop - w % tabstop | some k => k)
    w' :: accWidth tabstop w' cs

/-- checked `usize` subtraction -/
def csub (a b : Nat) : Option Nat := if b ≤ a then some (a - b) else none

/-- `reshape_string` on the accumulated widths (`acc.length` = number of chars); `none` = an index out
    of range or a subtraction overflow -/
def reshapeString (acc : List Nat) (cw ms me : Nat) : Option (Nat × Nat) :=
  if acc.isEmpty then some (0, 0)
  else
    match acc[acc.length - 1]? with
    | none => none
    | some full =>
      if full ≤ cw then some (0, full)
      else
        let w1? := if ms == 0 then some 0 else acc[ms - 1]?
        match w1? with
        | none => none
        | some w1 =>
          let w2? := if me ≥ acc.length then csub full w1 else (acc[me]?).bind (csub · w1)
          match w2? with
          | none => none
          | some w2 =>
            match (csub full w1).bind (csub · w2) with
            | none => none
            | some w3 =>
              if (w1 > w3 && w2 + w3 ≤ cw) || w3 ≤ 2 then (csub full cw).map (·, full)
              else if w1 ≤ w3 && w1 + w2 ≤ cw then some (0, full)
              else (acc[me]?).bind (fun a => (csub a cw).map (fun d => (d + 2, full)))

/-- the part of `draw_item` that depends on the match positions: display fragments, match_start/end,
    `reshape_string`, the final `shift`.  `skip` = `calc_skip_width`.  Result `(shift, full_width)`. -/
def drawShift (text : Bytes) (chars : List (Option Nat)) (cw tabstop : Nat) (noHscroll keepRight : Bool)
    (skip : Nat) (r : MatchRange) : Option (Nat × Nat) :=
  if tabstop = 0 then none else
  match fragments text r, matchStartEnd text r with
  | some _, some (ms, me) =>
    match reshapeString (accWidth tabstop 0 chars) cw ms me with
    | none => none
    | some (shift, full) =>
      let shift :=
        if noHscroll then 0
        else if ms == 0 && me == 0 then (if keepRight then max full cw - cw else skip)
        else shift
      some (shift, full)
  | _, _ => none

end SkimModel.Positions
