import SkimModel.Driver.Util
import SkimModel.Spec.Draw
/-
C11 line protocol (see harness/src/c11.rs):
  case   = `<rev>,<tabstop>,<no_hscroll>,<keep_right>,<skip char>,<theme>|<op> <op> ...`
  answer = `H:<run>:<6 theme attrs>` then one token per op (`s..` state, `D..;grid` after a draw, `panic`).
The theme attributes and the run number are read from the header of the implementation's answer (they are
what the real `ColorTheme` object hands out; the property is about WHICH of them lands where).
`modelOut` produces the model's tokens; `judge` is the executable form of the property, evaluated on the
IMPLEMENTATION's grids (it never looks at the model's puts): see `Spec/Draw.lean`.
-/
namespace SkimModel.Driver.C11
open SkimModel.Draw SkimModel.Ansi SkimModel.SelCursor SkimModel.Driver

/-! ### the driver's width instance (`unicode-width` on the characters the generator uses) -/

def isWide (n : Nat) : Bool :=
  (0x1100 ≤ n && n ≤ 0x115F) || (0x2E80 ≤ n && n ≤ 0xA4CF) || (0xAC00 ≤ n && n ≤ 0xD7A3) ||
  (0xF900 ≤ n && n ≤ 0xFAFF) || (0xFE30 ≤ n && n ≤ 0xFE6F) || (0xFF00 ≤ n && n ≤ 0xFF60) ||
  (0xFFE0 ≤ n && n ≤ 0xFFE6) || (0x1F300 ≤ n && n ≤ 0x1F64F) || (0x20000 ≤ n && n ≤ 0x3FFFD)

/-- `ch.width().unwrap_or(2)` -/
def cwD (c : Char) : Nat :=
  let n := c.toNat
  if n = 0 then 0
  else if n < 32 || (127 ≤ n && n < 160) then 2
  else if isWide n then 2 else 1

/-- the East-Asian AMBIGUOUS-width characters the generator uses (Cyrillic а, Greek α, box drawing ─):
    `width()` is 1, `width_cjk()` is 2 -/
def isAmbiguous (n : Nat) : Bool := n = 1072 || n = 945 || n = 9472

/-- `ch.width_cjk().unwrap_or(0)` -/
def cwjD (c : Char) : Nat :=
  let n := c.toNat
  if n < 32 || (127 ≤ n && n < 160) then 0
  else if isWide n || isAmbiguous n then 2 else 1

/-! ### parsing -/

inductive Op
  | ev (e : Ev)                     -- cursor events of C09 (`SelCursor.step`)
  | append (b : List Item)
  | clear
  | toggle | toggleAll | selectAll | deselectAll
  | scroll (d : Int)
  | draw (w h : Nat)
  | run (k : Nat)                   -- `mark_new_run` of command string number k (canonical run number k + 1)
  deriving Repr

def parseMatch (m : String) : Option MatchRange :=
  if m == "n" then some .none
  else if m.startsWith "c" then
    let rest := (m.drop 1).toString
    if rest == "_" then some (.chars []) else (rest.splitOn ",").mapM String.toNat? |>.map .chars
  else if m.startsWith "b" then
    match ((m.drop 1).toString.splitOn ",").mapM String.toNat? with
    | some [a, b] => some (.bytes a b)
    | _ => none
  else none

def parseItem (t : String) : Option Item :=
  match t.splitOn "/" with
  | [i, tx, m] => do
    let idx ← i.toNat?
    let mr ← parseMatch m
    some { idx := idx, text := decStr tx, mr := mr }
  | _ => none

def parseOp (t : String) : Option Op :=
  match t.splitOn ":" with
  | ["u", k] => k.toInt?.map (.ev ∘ .up)
  | ["d", k] => k.toInt?.map (.ev ∘ .down)
  | ["pu", k] => k.toInt?.map (.ev ∘ .pageUp)
  | ["pd", k] => k.toInt?.map (.ev ∘ .pageDown)
  | ["hu", k] => k.toInt?.map (.ev ∘ .halfUp)
  | ["hd", k] => k.toInt?.map (.ev ∘ .halfDown)
  | ["r", k] => k.toNat?.map (.ev ∘ .row)
  | ["sl", k] => k.toInt?.map (fun d => .scroll (-d))
  | ["sr", k] => k.toInt?.map .scroll
  | ["t"] => some .toggle
  | ["ta"] => some .toggleAll
  | ["sa"] => some .selectAll
  | ["da"] => some .deselectAll
  | ["c"] => some .clear
  | ["rn", k] => k.toNat?.map .run
  | ["a", b] => ((b.splitOn ";").filter (· ≠ "")).mapM parseItem |>.map .append
  | ["w", wh] =>
    match (wh.splitOn ",").mapM String.toNat? with
    | some [w, h] => some (.draw w h)
    | _ => none
  | _ => none

structure Cfg where
  rev : Bool
  tabstop : Nat
  noHscroll : Bool
  keepRight : Bool
  skip : Option Char
  deriving Repr

def parseCase (case : String) : Except String (Cfg × List Op) :=
  match case.splitOn "|" with
  | [hd, ops] =>
    match hd.splitOn "," with
    | [rev, ts, nh, kr, sk, _theme] =>
      match ts.toNat?, sk.toNat? with
      | some ts, some sk =>
        let toks := (ops.splitOn " ").filter (· ≠ "")
        match toks.mapM parseOp with
        | none => .error "bad-op"
        | some os =>
          -- `parse_options`: `tabstop = max(1, tabstop_str.parse().unwrap_or(8))`
          .ok ({ rev := rev == "1" || rev == "2", tabstop := max 1 ts, noHscroll := nh == "1", keepRight := kr == "1",
                 skip := if sk = 0 then none else some (Char.ofNat sk) }, os)
      | _, _ => .error "bad-config"
    | _ => .error "bad-config"
  | _ => .error "bad-case"

def parseColor (s : String) : Option Color :=
  if s == "d" then some .default
  else if s.startsWith "r" then
    match ((s.drop 1).toString.splitOn "-").mapM String.toNat? with
    | some [r, g, b] => some (.rgb r g b)
    | _ => none
  else s.toNat?.map .ansi

def parseAttr (s : String) : Option Attr :=
  match s.splitOn "_" with
  | [f, b, e] => do
    let fg ← parseColor f
    let bg ← parseColor b
    let n ← e.toNat?
    some { fg := fg, bg := bg,
           effect := ⟨n % 2 == 1, n / 2 % 2 == 1, n / 4 % 2 == 1, n / 8 % 2 == 1, n / 16 % 2 == 1⟩ }
  | _ => none

def parseHeader (t : String) : Option (Nat × Theme) :=
  match t.splitOn ":" with
  | ["H", run, a, b, c, d, e, f] => do
    let run ← run.toNat?
    let a ← parseAttr a; let b ← parseAttr b; let c ← parseAttr c
    let d ← parseAttr d; let e ← parseAttr e; let f ← parseAttr f
    some (run, { normal := a, matched := b, current := c, currentMatch := d, cursor := e, selected := f })
  | _ => none

/-! ### printing -/

def showColor : Color → String
  | .default => "d"
  | .ansi n => toString n
  | .rgb r g b => s!"r{r}-{g}-{b}"

def showAttr (a : Attr) : String :=
  let e := a.effect
  let n := (if e.bold then 1 else 0) + (if e.dim then 2 else 0) + (if e.underline then 4 else 0) +
           (if e.blink then 8 else 0) + (if e.reverse then 16 else 0)
  s!"{showColor a.fg}_{showColor a.bg}_{n}"

/-- cells of a row up to the last one that is not a default blank -/
def trimRow (cells : List Cell) : List Cell :=
  (cells.reverse.dropWhile (fun c => c == blank)).reverse

def showRow (cells : List Cell) : String :=
  let cells := trimRow cells
  if cells.isEmpty then "." else
  let rec go (cs : List Cell) (cur : Option Attr) (acc : String) : String :=
    match cs with
    | [] => acc
    | (ch, a) :: t =>
      if cur == some a then go t cur (acc ++ "." ++ toString ch.toNat)
      else go t (some a) (acc ++ (if cur.isSome then "," else "") ++ showAttr a ++ "=" ++ toString ch.toNat)
  go cells none ""

def showGrid (rows : List (List Cell)) : String :=
  if rows.isEmpty then "-" else "/".intercalate (rows.map showRow)

/-- the grid of a `w × h` canvas after the writes `ps` -/
def gridOf (w h : Nat) (ps : List Put) : List (List Cell) :=
  (List.range h).map fun r =>
    let pr := ps.filter (fun p => p.row == r)      -- other rows cannot hit row `r` (speed only)
    (List.range w).map fun c => cellAt cwD w h pr r c

def outOfArea (w h : Nat) (ps : List Put) : Nat :=
  (ps.filter fun p => !(decide (p.row < h ∧ p.col < w) && (cwD p.ch ≤ 1 || decide (p.col + 1 < w)))).length

def showState (v : View) : String :=
  s!"{v.cur.ic},{v.cur.lc},{v.cur.h},{v.cur.n},{v.selected.length}"

def showKeys (m : SelSet.SelMap) : String :=
  if m.isEmpty then "_" else ",".intercalate (m.map fun e => s!"{e.1.1}.{e.1.2}")

/-! ### model -/

def initView (cfg : Cfg) (run : Nat) (th : Theme) : View :=
  { cur := Cur.init cfg.rev, tabstop := cfg.tabstop, noHscroll := cfg.noHscroll, keepRight := cfg.keepRight,
    skip := cfg.skip, theme := th, run := run, cw := cwD, cwj := cwjD }

/-- one op: new view and its token; `none` = panic -/
def stepOp (v : View) : Op → Option (View × String)
  | .ev e => let v' := { v with cur := step v.cur e }; some (v', "s" ++ showState v')
  | .append b => let v' := v.append b; some (v', "s" ++ showState v')
  | .clear => let v' := v.clear; some (v', "s" ++ showState v')
  | .toggle => v.toggle.map fun v' => (v', "s" ++ showState v')
  | .toggleAll => let v' := v.toggleAll; some (v', "s" ++ showState v')
  | .selectAll => let v' := v.selectAll; some (v', "s" ++ showState v')
  | .deselectAll => let v' := v.deselectAll; some (v', "s" ++ showState v')
  | .scroll d => let v' := v.scroll d; some (v', "s" ++ showState v')
  | .run k => let v' := { v with run := k + 1 }; some (v', "s" ++ showState v')
  | .draw w h =>
    match draw v w h with
    | none => none
    | some ps =>
      let v' := { v with cur := SelCursor.draw v.cur h }
      some (v', s!"D{showState v'},{outOfArea w h ps},1;{showKeys v'.selected};{showGrid (gridOf w h ps)}")

def modelToks (v : View) : List Op → List String
  | [] => []
  | o :: os =>
    match stepOp v o with
    | none => ["panic"]
    | some (v', tok) => tok :: modelToks v' os


/-! ### executable spec, run on the implementation's answer -/

structure DrawObs where
  ic : Nat
  lc : Nat
  n : Nat
  ooa : Nat
  keys : List (Nat × Nat)
  rows : List (List Cell)

def parseRun (t : String) : Option (List Cell) :=
  match t.splitOn "=" with
  | [a, cps] => do
    let a ← parseAttr a
    let cs ← (cps.splitOn ".").mapM String.toNat?
    some (cs.map fun n => (Char.ofNat n, a))
  | _ => none

def parseRow (t : String) : Option (List Cell) :=
  if t == "." then some [] else ((t.splitOn ",").mapM parseRun).map List.flatten

def parseKey (t : String) : Option (Nat × Nat) :=
  match t.splitOn "." with
  | [a, b] => do some ((← a.toNat?), (← b.toNat?))
  | _ => none

def parseDraw (t : String) : Option DrawObs :=
  match t.splitOn ";" with
  | [st, keys, grid] =>
    if !st.startsWith "D" then none else
    match ((st.drop 1).toString.splitOn ",").mapM String.toNat? with
    | some [ic, lc, _h, n, _nsel, ooa, _clears] => do
      let keys ← if keys == "_" then some [] else (keys.splitOn ",").mapM parseKey
      let rows ← if grid == "-" then some [] else (grid.splitOn "/").mapM parseRow
      some { ic, lc, n, ooa, keys, rows }
    | _ => none
  | _ => none

structure SpecSt where
  items : List Item := []
  hscroll : Int := 0

def judgeRow (cfg : Cfg) (run : Nat) (th : Theme) (st : SpecSt) (o : DrawObs) (w h r : Nat) (cells : List Cell) :
    Except String Unit := do
  if cells.length > w then throw s!"row{r}:more-cells-than-the-width"
  let cells := cells ++ List.replicate (w - cells.length) blank
  let cur : Cur := { ic := o.ic, lc := o.lc, n := o.n, rev := cfg.rev, h := h }
  match itemAtRow cur h r with
  | none => if !allBlank cells then throw s!"row{r}:shows-something-but-no-result-belongs-there"
  | some i =>
    match st.items[i]? with
    | none => throw s!"row{r}:no-such-item"
    | some it =>
      let isCur := i - o.ic == o.lc
      if w ≥ 1 then
        if cells.head? != some ((if isCur then '>' else ' '), th.cursor) then
          throw s!"row{r}:pointer-column-wrong"
      if w ≥ 3 then
        let base := if isCur then th.current else th.normal
        let hl := if isCur then th.currentMatch else th.matched
        let selected := o.keys.contains (run, it.idx)
        let mark : Cell := if selected then ('>', extend base th.selected) else (' ', base)
        if (cells.drop 1).head? != some mark then throw s!"row{r}:selection-marker-wrong"
        let raws := expandFrom cwD cfg.tabstop 0 (styled it.text it.mr base hl)
        let tw := textWidth cwD cfg.tabstop it.text
        let tcells := cells.drop 2
        if tw ≤ w - 2 ∧ st.hscroll ≤ 0 ∧ cfg.skip.isNone then
          if !fitsCheck cwD raws tcells then throw s!"row{r}:text-fits-but-is-not-shown-in-full-with-its-highlight"
        else
          if !clippedCheck cwD base (extend base hl) raws tcells then
            -- a row left entirely blank although the text is cut (it was scrolled out of the window) is one specific, recorded
            -- finding; every other unmarked cut, wrong run or misplaced dot is reported as such
            if allBlank tcells && clippedCheckWith false cwD base (extend base hl) raws tcells then
              throw s!"row{r}:text-scrolled-out-of-the-window-and-no-dots-mark-the-cut"
            else
              throw s!"row{r}:not-a-contiguous-run-of-the-text-with-dots-on-the-cut-sides"

def judgeDraw (cfg : Cfg) (run : Nat) (th : Theme) (st : SpecSt) (o : DrawObs) (w h : Nat) : Except String Unit := do
  if o.rows.length != h then throw "wrong-number-of-rows"
  if o.n != st.items.length then throw "wrong-list-size"
  if w ≥ 3 ∧ o.ooa != 0 then throw s!"{o.ooa}-writes-outside-the-list-area"
  let mut r := 0
  for cells in o.rows do
    judgeRow cfg run th st o w h r cells
    r := r + 1

def judge (cfg : Cfg) (run : Nat) (th : Theme) (ops : List Op) (toks : List String) : String :=
  let rec go (i : Nat) (run : Nat) (st : SpecSt) (ops : List Op) (toks : List String) : String :=
    match ops, toks with
    | [], [] => "ok"
    | [], _ => "bad:too-many-tokens"
    | _ :: _, [] => "bad:too-few-tokens"
    | o :: os, t :: ts =>
      let allValid := st.items.all fun it => it.mr.validB it.text
      if t == "panic" then (if allValid then s!"bad:op{i}:panic" else "ok") else
      match o with
      | .append b => go (i + 1) run { st with items := st.items ++ b } os ts
      | .clear => go (i + 1) run { st with items := [] } os ts
      | .scroll d => go (i + 1) run { st with hscroll := st.hscroll + d } os ts
      | .draw w h =>
        if !allValid then go (i + 1) run st os ts else
        match parseDraw t with
        | none => s!"bad:op{i}:unparsable-draw-token"
        | some ob =>
          match judgeDraw cfg run th st ob w h with
          | .ok _ => go (i + 1) run st os ts
          | .error why => s!"bad:op{i}:{why}"
      | .run k => go (i + 1) (k + 1) st os ts
      | _ => go (i + 1) run st os ts
  go 0 run {} ops toks

/-- returns (model answer, verdict on the implementation's answer) -/
def handle (case impl : String) : Except String (String × String) :=
  match parseCase case with
  | .error e => .error e
  | .ok (cfg, ops) =>
    let toks := (impl.splitOn " ").filter (· ≠ "")
    match toks with
    | hd :: rest =>
      match parseHeader hd with
      | none => .error "no-header-in-implementation-answer"
      | some (run, th) =>
        let v0 := initView cfg run th
        .ok (" ".intercalate (hd :: modelToks v0 ops), judge cfg run th ops rest)
    | [] => .error "empty-implementation-answer"

def answer (case impl : String) : String :=
  match handle case impl with
  | .ok (m, v) => m ++ "\t" ++ v
  | .error e => "error:" ++ e ++ "\terror"

end SkimModel.Driver.C11
