import SkimModel.Driver.Util
import SkimModel.Spec.SelSet
/-
C10 driver.  Case line:

  <multi>;<nosort>;<tac>;<first_n|->;<preset item ids|_>|op op op ...

ops:  run:<name>   (name `-` = the empty command string, run number 0)
      clr          Selection::clear
      app:<idx>.<item>.<rank>,...   (app:_ = empty batch)   Selection::append_sorted_items
      tog:<item_cursor>:<line_cursor>     cursor placed, then EvActToggle
      tall | sall | dall                  EvActToggleAll / EvActSelectAll / EvActDeselectAll
      selm:<idx>:<item>                   act_select_matched(current_run_num(), ..)
      acc:<item_cursor>:<line_cursor>     cursor placed, then get_selected_indices_and_items

observation after the initial state and after every op:
      <get_num_selected>;<run.idx.item,...|_>;<-|indices:items>
-/
namespace SkimModel.Driver.C10
open SkimModel.SelSet SkimModel.Driver

def parseMItem (t : String) : Option MItem :=
  match t.splitOn "." with
  | [i, it, r] => do
    let i ← i.toNat?
    let it ← it.toNat?
    let r ← r.toInt?
    pure { idx := i, item := it, rank := r }
  | _ => none

def parseOp (t : String) : Option Op :=
  match t.splitOn ":" with
  | ["run", n] => some (.run (if n == "-" then "" else n))
  | ["clr"] => some .clear
  | ["app", b] => if b == "_" then some (.append []) else ((b.splitOn ",").mapM parseMItem).map .append
  | ["tog", i, l] => do let i ← i.toNat?; let l ← l.toNat?; pure (.toggle (i + l))
  | ["tall"] => some .toggleAll
  | ["sall"] => some .selectAll
  | ["dall"] => some .deselectAll
  | ["selm", i, it] => do let i ← i.toNat?; let it ← it.toNat?; pure (.selectMatched i it)
  | ["acc", i, l] => do let i ← i.toNat?; let l ← l.toNat?; pure (.accept (i + l))
  | _ => none

def encTriples (l : List (Key × Item)) : String :=
  if l.isEmpty then "_" else ",".intercalate (l.map (fun e => s!"{e.1.1}.{e.1.2}.{e.2}"))

def encAcc : Option (List Nat × List Item) → String
  | none => "-"
  | some (is, ts) => encNats is ++ ":" ++ encNats ts

def obsModel (s : Sel) (acc : Option (List Nat × List Item)) : String :=
  s!"{numSelected s};{encTriples s.selected};{encAcc acc}"

/-- identity table of the case: key -> item, `none` once two different items were seen under one key -/
abbrev Tbl := List (Key × Item)

def tblAdd (k : Key) (it : Item) (t : Tbl) : Option Tbl :=
  match t.find? (fun e => e.1 == k) with
  | some e => if e.2 == it then some t else none
  | none => some ((k, it) :: t)

def tblGet (t : Tbl) (k : Key) : Item := ((t.find? (fun e => e.1 == k)).map (·.2)).getD 0

def obsSpec (S : KSet) (t : Tbl) (acc : Option (List Nat × List Item)) : String :=
  let ks := sortKeys S
  s!"{S.length};{encTriples (ks.map (fun k => (k, tblGet t k)))};{encAcc acc}"

structure Acc where
  st : St
  S : KSet := []
  tbl : Tbl := []
  listRuns : List Nat := []     -- run numbers under which the listed items were appended
  applicable : Bool := true     -- the reference semantics speaks about this history
  why : String := ""
  outM : List String := []
  outS : List String := []
  panic : Option String := none

def hasDup : List Key → Bool
  | [] => false
  | k :: t => t.contains k || hasDup t

def stepAcc (a : Acc) (o : Op) : Acc :=
  if a.panic.isSome then a else
  let run := a.st.runs.cur
  -- identity table
  let newPairs : List (Key × Item) := match o with
    | .append b => b.map (fun m => ((run, m.idx), m.item))
    | .selectMatched i it => [((run, i), it)]
    | _ => []
  let (tbl, okT) := newPairs.foldl (fun (p : Tbl × Bool) e =>
      match tblAdd e.1 e.2 p.1 with | some t => (t, p.2) | none => (p.1, false)) (a.tbl, true)
  let dupAll := match o with
    | .toggleAll => a.st.sel.multi && hasDup (listedKeys a.st.sel run)
    | _ => false
  -- the property speaks about actions issued while the list shown belongs to the current run
  let foreign := match o with
    | .toggle _ | .toggleAll | .selectAll | .accept _ => a.listRuns.any (· != run)
    | _ => false
  let listRuns := match o with
    | .clear => []
    | .append b => if b.isEmpty then a.listRuns else if a.listRuns.contains run then a.listRuns else run :: a.listRuns
    | _ => a.listRuns
  let applicable := a.applicable && okT && !dupAll && !foreign
  let why := if a.applicable && !applicable then
      (if !okT then "two-items-under-one-key" else if dupAll then "toggle-all-on-duplicate-keys" else "list-of-another-run")
    else a.why
  match step a.st o with
  | none =>
    let c := match o with | .toggle c => c | .accept c => c | _ => 0
    let msg := match o with
      | .toggle _ => s!"panic:model:act_toggle: failed to get item {c}"
      | _ => s!"panic:model:act_output: failed to get item {c}"
    { a with panic := some msg }
  | some st' =>
    let S' := specStep a.st a.S o
    let accM := match o with | .accept c => accept a.st.sel c | _ => none
    let accS : Option (List Nat × List Item) := match o with
      | .accept c =>
        let idxs := specAccept a.st a.S c
        let its := (sortKeys a.S).map (tblGet tbl)
        let cur := if idxs.length > its.length then (a.st.sel.listed[c]?.map (·.item)).toList else []
        some (idxs, its ++ cur)
      | _ => none
    { a with st := st', S := S', tbl := tbl, listRuns := listRuns, applicable := applicable, why := why,
             outM := obsModel st'.sel accM :: a.outM, outS := obsSpec S' tbl accS :: a.outS }

def firstDiff (a b : List String) (i : Nat := 0) : Nat :=
  match a, b with
  | x :: xs, y :: ys => if x == y then firstDiff xs ys (i + 1) else i
  | _, _ => i

def parseSelector (fn pre : String) : Option Selector :=
  if fn == "-" && (pre == "_" || pre == "") then none
  else some { firstN := (fn.toNat?).getD 0, preset := decNats pre }

/-- returns (model output, verdict on the implementation's output) -/
def handle (case impl : String) : Except String (String × String) :=
  match case.splitOn "|" with
  | [hd, ops] =>
    match hd.splitOn ";" with
    | [multi, nosort, tac, fn, pre] =>
      let toks := (ops.splitOn " ").filter (· ≠ "")
      match toks.mapM parseOp with
      | none => .error "bad-op"
      | some os =>
        let sel : Sel := { multi := multi == "1", nosort := nosort == "1", tac := tac == "1",
                           selector := parseSelector fn pre }
        let a0 : Acc := { st := { sel := sel }, outM := [obsModel sel none], outS := [obsSpec [] [] none] }
        let a := os.foldl stepAcc a0
        match a.panic with
        | some msg => .ok (msg, "ok")     -- cursor outside the list: outside C10 (that is C09)
        | none =>
          let m := " ".intercalate a.outM.reverse
          if !a.applicable then .ok (m, "ok")
          else
            let sOut := a.outS.reverse
            let iOut := impl.splitOn " "
            if iOut == sOut then .ok (m, "ok")
            else .ok (m, s!"bad:selection-differs-from-set-semantics-at-step-{firstDiff iOut sOut}")
    | _ => .error "bad-case"
  | _ => .error "bad-case"

end SkimModel.Driver.C10
