import SkimModel.Driver.Util
import SkimModel.Model.Ansi
import SkimModel.Spec.Sgr
/-
C16 line protocol.   case = `<mode>|<seg seg …>`
  seg:  t=<cps>            text run (dot-separated code points, `-` = empty)
        s=<body>           ESC [ body m        body written literally, characters 0-9 ; :
        c=<cps>=<final>    ESC [ bytes final   (bytes as code points, final as one code point)
        r=<cps>            raw characters (malformed stream; outside the grammar, model-vs-code only)
        n                  line break (modes multi / item / hdr)
  mode: one    AnsiString::parse(line)
        multi  ONE ANSIParser, parse_ansi per line          (previewer / header mechanism)
        hdr    Header::with_options(header = lines joined by \n)   (str_lines + one parser)
        item   DefaultSkimItem::new(line, ansi = true) per line    (fresh parser per item)
        tok    vte alone with a recording Perform vs. the model's tokenizer
  answer (modes one/multi/hdr/item): per line `<stripped>~<has_attrs>~<k*fg,bg,eff+…>`, lines joined by `/`.
-/
namespace SkimModel.Driver.C16
open SkimModel.Ansi SkimModel.Driver

inductive CSeg
  | seg (s : Spec.Seg)
  | raw (cs : List Char)
  | nl

def parseSeg (t : String) : Option CSeg :=
  if t == "n" then some .nl else
  match t.splitOn "=" with
  | ["t", s] => some (.seg (.text (decStr s)))
  | ["r", s] => some (.raw (decStr s))
  | ["s", b] => if b.toList.all Spec.isParamChar then some (.seg (.sgr b.toList)) else none
  | ["c", s, f] =>
    match f.toNat? with
    | some n => some (.seg (.csi (decStr s) (Char.ofNat n)))
    | none => none
  | _ => none

def CSeg.render : CSeg → List Char
  | .seg s => s.render
  | .raw cs => cs
  | .nl => ['\n']

/-- split at the line breaks -/
def splitLines : List CSeg → List (List CSeg)
  | [] => [[]]
  | s :: r =>
    match splitLines r with
    | [] => [[]]
    | l :: ls => match s with
      | .nl => [] :: l :: ls
      | x => (x :: l) :: ls

def renderLine (l : List CSeg) : List Char := (l.map CSeg.render).flatten

/-! ### observation format (shared with harness/src/c16.rs) -/

def showColor : Color → String
  | .default => "d"
  | .ansi n => s!"a{n}"
  | .rgb r g b => s!"r{r}.{g}.{b}"

def showEffect (e : Effect) : String :=
  let s := (if e.bold then "b" else "") ++ (if e.dim then "d" else "") ++ (if e.underline then "u" else "") ++
    (if e.blink then "k" else "") ++ (if e.reverse then "r" else "")
  if s.isEmpty then "-" else s

def showAttr (a : Attr) : String := s!"{showColor a.fg},{showColor a.bg},{showEffect a.effect}"

def rleGo : List Attr → Option (Attr × Nat) → List String → List String
  | [], none, acc => acc.reverse
  | [], some (a, k), acc => (s!"{k}*{showAttr a}" :: acc).reverse
  | x :: xs, none, acc => rleGo xs (some (x, 1)) acc
  | x :: xs, some (a, k), acc =>
    if x = a then rleGo xs (some (a, k + 1)) acc else rleGo xs (some (x, 1)) (s!"{k}*{showAttr a}" :: acc)

def showRle (as : List Attr) : String :=
  let l := rleGo as none []
  if l.isEmpty then "_" else "+".intercalate l

def obs (s : AnsiString) : String :=
  let it := s.iter
  s!"{encStr (it.map (·.1))}~{if s.hasAttrs then 1 else 0}~{showRle (it.map (·.2))}"

def showParam (p : Param) : String := ":".intercalate ((p.1 :: p.2).map toString)

def showTok : Tok → String
  | .print c => s!"p{c.toNat}"
  | .execute b => s!"x{b}"
  | .csi ps a => s!"c{a.toNat}:" ++ ";".intercalate (ps.map showParam)
  | .esc b => s!"e{b}"

/-! ### executable spec (verdict on the implementation's answer) -/

def segOk : Spec.Seg → Bool
  | .text cs => cs.all (fun c => c == '\t' || 0x20 ≤ c.toNat)
  | .sgr body => body.all Spec.isParamChar && Spec.inLimits body
  | .csi body f => body.all (fun c => 0x20 ≤ c.toNat && c.toNat ≤ 0x3f) && 0x40 ≤ f.toNat && f.toNat ≤ 0x7e && f != 'm'

def lineSegs : List CSeg → Option (List Spec.Seg)
  | [] => some []
  | .seg s :: r => if segOk s then (lineSegs r).map (s :: ·) else none
  | _ :: _ => none

/-- `trim_end` on the reversed segment list (header mode) -/
def trimRev : List CSeg → List CSeg
  | .nl :: r => trimRev r
  | .seg (.text cs) :: r =>
    let t := trimEnd cs
    if t.isEmpty then trimRev r else .seg (.text t) :: r
  | l => l

def isEsc : Spec.Seg → Bool
  | .text _ => false
  | _ => true

/-- expected (stripped, attrs, a line without sequences starting from default) per line -/
def expectLines (carry : Bool) : Attr → List (List Spec.Seg) → List (String × String × Bool × Bool)
  | _, [] => []
  | a, l :: ls =>
    let as := Spec.attrs a l
    (encStr (Spec.text l), showRle as, as.any (· ≠ {}), (l.any isEsc) || a ≠ {}) ::
      expectLines carry (if carry then Spec.final a l else {}) ls

def judgeLine (impl : String) (e : String × String × Bool × Bool) : Option String :=
  match impl.splitOn "~" with
  | [s, h, r] =>
    if s ≠ e.1 then some "text"
    else if r ≠ e.2.1 then some "attrs"
    else if e.2.2.1 && h ≠ "1" then some "has_attrs-missing"
    else if !e.2.2.2 && h ≠ "0" then some "has_attrs-on-plain-line"
    else none
  | _ => some "format"

def judge (impl : String) (exp : List (String × String × Bool × Bool)) : String :=
  let ls := if impl == "" then [] else impl.splitOn "/"
  if ls.length ≠ exp.length then "bad:line-count" else
  match (ls.zip exp).findSome? (fun (i, e) => judgeLine i e) with
  | some why => "bad:" ++ why
  | none => "ok"

/-- consecutive pairs (the preview texts of mode `pv`) -/
def pairs {α : Type} : List α → List (List α)
  | a :: b :: r => [a, b] :: pairs r
  | [a] => [[a]]
  | [] => []

def verdict (mode : String) (segs : List CSeg) (impl : String) : String :=
  if mode == "tok" then "ok" else
  let segs' := if mode == "hdr" then (trimRev segs.reverse).reverse else segs
  let empty := mode == "hdr" && (renderLine segs).isEmpty
  match (splitLines segs').mapM lineSegs with
  | none => "ok"       -- outside the property's grammar: only the model correspondence applies
  | some ls =>
    if empty then (if impl == "" then "ok" else "bad:line-count")
    else if mode == "pv" then
      -- every preview text starts from default attributes; inside one text a non-default attribute carries over its lines
      judge impl ((pairs ls).flatMap (expectLines true {}))
    else judge impl (expectLines (mode == "multi" || mode == "hdr") {} ls)

/-- returns (model observations, verdict on `impl`) -/
def handle (case : String) (impl : String) : Except String (String × String) :=
  match case.splitOn "|" with
  | [mode, body] =>
    let toks := (body.splitOn " ").filter (· ≠ "")
    match toks.mapM parseSeg with
    | none => .error "bad-seg"
    | some segs =>
      let lines := (splitLines segs).map renderLine
      let whole := renderLine segs
      let hasNl := segs.any (fun s => match s with | .nl => true | _ => false)
      if (mode == "one" || mode == "tok") && hasNl then .error "bad-case" else
      if (vtRun {} whole).unsupported || (lines.any fun l => (vtRun {} l).unsupported) then
        .ok ("unsupported", "ok")
      else
      let v := verdict mode segs impl
      match mode with
      | "one" => .ok (obs (parse whole), v)
      | "multi" => .ok ("/".intercalate ((parseLines {} lines).map obs), v)
      | "pv" => .ok ("/".intercalate (((pairs lines).flatMap (parseLines {})).map obs), v)
      | "item" => .ok ("/".intercalate ((parseItems lines).map obs), v)
      | "hdr" =>
        let r := if whole.isEmpty then [] else headerLines whole
        .ok ("/".intercalate (r.map obs), v)
      | "tok" => .ok (",".intercalate ((tokenize whole).map showTok), v)
      | _ => .error "bad-mode"
  | _ => .error "bad-case"

end SkimModel.Driver.C16
