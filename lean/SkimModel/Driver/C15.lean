import SkimModel.Driver.Util
import SkimModel.Model.Pool
import SkimModel.Model.SpinLock
namespace SkimModel.Driver.C15
open SkimModel.Pool SkimModel.Driver

/-- items are numbered in arrival order (the harness does the same): `a:k` appends the next k ids -/
def parseOps (toks : List String) : Option (List (Op Nat)) :=
  let rec go (next : Nat) : List String → Option (List (Op Nat))
    | [] => some []
    | t :: ts =>
      match t.splitOn ":" with
      | ["a", k] =>
        match k.toNat? with
        | some k => (go (next + k) ts).map (fun r => Op.append (List.range' next k) :: r)
        | none => none
      | ["t"] => (go next ts).map (Op.take :: ·)
      | ["r"] => (go next ts).map (Op.reset :: ·)
      | ["c"] => (go next ts).map (Op.clear :: ·)
      | ["l"] => (go next ts).map (Op.len :: ·)
      | ["nt"] => (go next ts).map (Op.numTaken :: ·)
      | ["nn"] => (go next ts).map (Op.numNotTaken :: ·)
      | ["h"] => (go next ts).map (Op.reserved :: ·)
      | _ => none
  go 0 toks

def showOut : Out Nat → String
  | .unit => "u"
  | .nat n => s!"n{n}"
  | .slice s xs => s!"t{s}:{encNats xs}"
  | .items xs => s!"h{encNats xs}"
  | .panic => "panic"

def handlePool (n : Nat) (ops : String) : String :=
  match parseOps ((ops.splitOn " ").filter (· ≠ "")) with
  | none => "error:bad-op"
  | some os => " ".intercalate ((run ({ nres := n } : Pool Nat) os).2.map showOut)

/-- lock stress: `threads iters` — the model runs each thread to completion in turn (any schedule
    gives the same final count by `c15_lock_no_lost_update`) -/
def handleLock (threads iters : Nat) : String :=
  let one (i : Nat) : List Nat := [i, i, i, i]       -- acquire, read, write, release
  let sched := (List.range threads).flatMap (fun i => (List.range iters).flatMap (fun _ => one i))
  let s := SpinLock.run (SpinLock.init threads) sched
  s!"count={s.data} overlaps=0"

def answer (case impl : String) : String :=
  let m :=
    match case.splitOn "|" with
    | ["P", n, ops] => handlePool (n.toNat?.getD 0) ops
    | ["L", t, k] => handleLock (t.toNat?.getD 0) (k.toNat?.getD 0)
    | _ => "error:bad-case"
  m ++ "\t" ++ (if m.startsWith "error" then "error" else if impl == m then "ok" else "bad:differs-from-sequential-pool-spec")

end SkimModel.Driver.C15
