import SkimModel.Driver.Util
import SkimModel.Model.Pool
import SkimModel.Model.SpinLock
namespace SkimModel.Driver.C15
open SkimModel.Pool SkimModel.Driver

/-- items are numbered in arrival order (the harness does the same): `a:k` appends the next k ids -/
def parseOps (toks : List String) : Option (List (Op Nat)) :=
  let rec go (next : Nat) : List String → Option (List (Op Nat))
    | [] => some []
    | t :: ts =>
      match t.splitOn ":" with
      | ["a", k] =>
        match k.toNat? with
        | some k => (go (next + k) ts).map (fun r => Op.append (List.range' next k) :: r)
        | none => none
      | ["t"] => (go next ts).map (Op.take :: ·)
      | ["ts"] => (go next ts).map (Op.take :: ·)
      | ["r"] => (go next ts).map (Op.reset :: ·)
      | ["c"] => (go next ts).map (Op.clear :: ·)
      | ["l"] => (go next ts).map (Op.len :: ·)
      | ["nt"] => (go next ts).map (Op.numTaken :: ·)
      | ["nn"] => (go next ts).map (Op.numNotTaken :: ·)
      | ["h"] => (go next ts).map (Op.reserved :: ·)
      | _ => none
  go 0 toks

def showOut : Out Nat → String
  | .unit => "u"
  | .nat n => s!"n{n}"
  | .slice s xs => s!"t{s}:{encNats xs}"
  | .items xs => s!"h{encNats xs}"
  | .panic => "panic"

def handlePool (n : Nat) (ops : String) : String :=
  match parseOps ((ops.splitOn " ").filter (· ≠ "")) with
  | none => "error:bad-op"
  | some os =>
    let toks := (ops.splitOn " ").filter (· ≠ "")
    let outs := (run ({ nres := n } : Pool Nat) os).2
    -- `ts` = a take whose slice is summarised (start, length, first, last)
    " ".intercalate ((List.zip toks outs).map (fun p =>
      match p.1, p.2 with
      | "ts", .slice s xs =>
          let sh := fun (o : Option Nat) => match o with | some v => toString v | none => "_"
          s!"T{s}:{xs.length}:{sh xs.head?}:{sh xs.getLast?}"
      | _, o => showOut o))

/-- lock stress: `threads iters` — the model runs each thread to completion in turn (any schedule
    gives the same final count by `c15_lock_no_lost_update`) -/
def handleLock (threads iters : Nat) : String :=
  let one (i : Nat) : List Nat := [i, i, i, i]       -- acquire, read, write, release
  let sched := (List.range threads).flatMap (fun i => (List.range iters).flatMap (fun _ => one i))
  let s := SpinLock.run (SpinLock.init threads) sched
  s!"count={s.data} overlaps=0"

/-- appends overlapping takes: whatever the interleaving, the takes hand out `range n` exactly once and in
    order (`c15_takes_partition` / `c15_takes_chain`); the model runs one particular interleaving (append a chunk,
    take, append, take, ...) and reports the same summary the harness computes for the real pool -/
def handleOverlap (n chunk : Nat) : String :=
  let chunk := max chunk 1
  let rec ops (next fuel : Nat) : List (Op Nat) :=
    match fuel with
    | 0 => []
    | fuel + 1 =>
      if next ≥ n then [Op.take] else
      let k := min chunk (n - next)
      Op.append (List.range' next k) :: Op.take :: ops (next + k) fuel
  let outs := (run ({ nres := 0 } : Pool Nat) (ops 0 (n + 1))).2
  let slices := outs.filterMap (fun o => match o with | .slice s xs => some (s, xs) | _ => none)
  let got := slices.flatMap (·.2)
  let idxErr := (slices.map (fun p => (p.2.zipIdx p.1).countP (fun q => q.1 != q.2))).sum
  s!"handed={got.length} exact={if got == List.range n then 1 else 0} index_errors={idxErr}"

/-- one matcher run per appended batch (query matching everything): the runs' takes hand out `range n` exactly once
    (`c15_takes_partition`), and every item is identified by its position in the source (`session_item_index`): the summary
    the harness computes for the real `Matcher::run` -/
def handleMatcherRuns (batches : List Nat) : String :=
  let rec ops (next : Nat) : List Nat → List (Op Nat)
    | [] => []
    | k :: ks => Op.append (List.range' next k) :: Op.take :: ops (next + k) ks
  let outs := (run ({ nres := 0 } : Pool Nat) (ops 0 batches)).2
  let slices := outs.filterMap (fun o => match o with | .slice s xs => some (s, xs) | _ => none)
  let got := slices.flatMap (·.2)
  let idxErr := (slices.map (fun p => (p.2.zipIdx p.1).countP (fun q => q.1 != q.2))).sum
  let n := batches.sum
  s!"matched={got.length} exact={if got == List.range n then 1 else 0} index_errors={idxErr}"

/-- the Header widget over the pool: a draw shows exactly the reserved items (`c15_header`), one per row, and asks for that height -/
def handleHeader (n : Nat) (ops : String) : String :=
  let toks := (ops.splitOn " ").filter (· ≠ "")
  let rec go (p : Pool Nat) (next : Nat) : List String → List String
    | [] => []
    | t :: ts =>
      match t.splitOn ":" with
      | ["a", k] =>
        let k := k.toNat?.getD 0
        "u" :: go (p.append (List.range' next k)).1 (next + k) ts
      | ["c"] => "u" :: go p.clear next ts
      | ["d"] =>
        let r := p.reserved
        s!"d{r.length}:{if r.isEmpty then "_" else ",".intercalate (r.map toString)}" :: go p next ts
      | _ => ["error:bad-op"]
  " ".intercalate (go ({ nres := n } : Pool Nat) 0 toks)

def answer (case impl : String) : String :=
  let m :=
    match case.splitOn "|" with
    | ["P", n, ops] => handlePool (n.toNat?.getD 0) ops
    | ["H", n, ops] => handleHeader (n.toNat?.getD 0) ops
    | ["L", t, k] => handleLock (t.toNat?.getD 0) (k.toNat?.getD 0)
    | ["X", n, c] => handleOverlap (n.toNat?.getD 0) (c.toNat?.getD 1)
    | ["M", bs] => handleMatcherRuns (decNats bs)
    | _ => "error:bad-case"
  m ++ "\t" ++ (if m.startsWith "error" then "error" else if impl == m then "ok" else "bad:differs-from-sequential-pool-spec")

end SkimModel.Driver.C15
