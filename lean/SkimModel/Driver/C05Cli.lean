import SkimModel.Driver.Util
import SkimModel.Model.Keymap
import SkimModel.Model.Engine
import SkimModel.Model.Editor
import SkimModel.Model.SelCursor
import SkimModel.Model.Accept
import SkimModel.Model.Inject
import SkimModel.Model.Field
/-
End-to-end stream for C05 (and the expect, bind and conditional parts of C19): the REAL `sk` binary is
driven under a pty (items on stdin, keystrokes on the terminal); its stdout and exit code are judged against
the composition of the models that the theorems are about:

  key name ──C19 keymap (default map, bind, expect, generated tables)──▶ action chain (conditionals: condStep)
  add-char / backward-delete-char ──C18 editor──▶ query ──C03/C04 engine model──▶ listed items (--no-sort: input order)
  up / down / refilter ──C09 cursor model──▶ cursor;   toggle ──(run, index) set──▶ selected
  accept / abort ──C05 `binOutput`──▶ printed pieces and exit code

case:  K|<opts>|<items>|<keys>
  opts   comma list: multi pq pc expect=<enc of the --expect value> bind=<enc of one --bind value> q=<enc initial query>
  items  comma separated enc texts (lower-case ASCII words: ranking is irrelevant under --no-sort, matching is the
         in-order-subsequence rule of C03)
  keys   space separated key NAMES as the bind and expect options spell them (enc), e.g. enc("ctrl-p"), enc("a"), enc("enter")
impl:  rc=<n> out=<hex of stdout> exec=<hex,hex,...|_>     (exec: the commands handed to $SHELL by execute-silent, in order; the
       stand-in shell tools/logshell.sh records them instead of running them)
  execute-silent(template) ──C07 `Inject.inject` with the context the Model builds from the live list / selection / query──▶ command
-/
namespace SkimModel.Driver.C05Cli
open SkimModel SkimModel.Driver

structure S where
  ed       : Editor.Ed := {}
  items    : List (List Char) := []
  listed   : List Nat := []          -- indices into `items`, input order (--no-sort)
  cur      : SelCursor.Cur := {}
  selected : List Nat := []          -- item indices, kept ascending (= (run, index) order within one run)
  multi    : Bool := false
  execs    : List String := []       -- commands handed to the shell so far (hex), oldest first
  comma    : Bool := false           -- `-d ,`: fields are split at commas (the only non-default delimiter this stream generates)
  done     : Option (Accept.FinalEv × Keymap.Key) := none
  unsupported : Option String := none

def cfg : Engine.Cfg := {}
def cls : Editor.Cls := { isAlnum := Char.isAlphanum, isWs := Char.isWhitespace }

def filterIdx (items : List (List Char)) (q : List Char) : List Nat :=
  (items.zipIdx.filter (fun p => Engine.matchQuery cfg q p.1)).map (·.2)

/-- query change: the list is cleared and the new matches arrive in one batch (the whole input has been read) -/
def refilter (s : S) : S :=
  let l := filterIdx s.items s.ed.fz.line
  { s with listed := l,
           cur := SelCursor.step (SelCursor.step (SelCursor.step s.cur .clear) (.append l.length)) (.draw 22) }

def insertAsc (x : Nat) : List Nat → List Nat
  | [] => [x]
  | y :: ys => if x < y then x :: y :: ys else if x = y then y :: ys else y :: insertAsc x ys

def ctorIs (c : List Char) (n : String) : Bool := c == n.toList

def hexOf (s : String) : String :=
  let hexd (n : Nat) : Char := if n < 10 then Char.ofNat (48 + n) else Char.ofNat (87 + n)
  String.ofList (s.toUTF8.toList.flatMap (fun b => [hexd (b.toNat / 16), hexd (b.toNat % 16)]))

/-- does the template refer to items (`depends_on_items`, RE_ITEMS `\{ *-?[0-9.+]*? *}`) -/
def refersToItems (t : List Char) : Bool :=
  let inner (c : Char) : Bool := c == ' ' || c == '-' || c == '.' || c == '+' || c.isDigit
  let rec go : List Char → Bool
    | '{' :: r => (match r.dropWhile inner with | '}' :: _ => true | _ => go r)
    | _ :: r => go r
    | [] => false
  go t

/-- `get_string_by_range(",", item, range)` for ASCII items: the C12 field model on the bytes of the item, delimiter matches = the commas -/
def commaField (item range : List Char) : Option (List Char) :=
  let bytes : List UInt8 := item.map (fun c => UInt8.ofNat c.toNat)
  let ms := (bytes.zipIdx.filter (fun p => p.1 == 0x2c)).map (fun p => (p.2, p.2 + 1))
  match Field.getStringByRange Field.isAsciiDigit bytes ms range with
  | some (some b) => some (b.map (fun x => Char.ofNat x.toNat))
  | _ => none

/-- `Model::act_execute_silent`: the context is built from the live list, selection and query (C07: `{}` the current item,
    `{n}` its index = the ordinal index of the line in the input, `{+…}` the same for every selected item, or for the current item
    when none is selected); nothing runs when the template refers to items and there is none -/
def execSilent (s : S) (tmpl : List Char) : S :=
  let curItem : Option Nat := s.listed[s.cur.cursor]?
  if refersToItems tmpl && curItem.isNone then s else
  let text (i : Nat) : List Char := s.items.getD i []
  let selIdx : List Nat :=
    if s.multi && !s.selected.isEmpty then s.selected
    else match curItem with | some i => [i] | none => []
  let ctx : Inject.Ctx :=
    { cur := (curItem.map text).getD [], curIdx := curItem.getD 0,
      sels := selIdx.map text, idxs := selIdx,
      query := s.ed.fz.line, cmdQuery := s.ed.cmd.line,
      fld := if s.comma then commaField else (fun _ _ => none) }
  let cmd := Inject.inject ctx tmpl
  { s with execs := s.execs ++ [if cmd.isEmpty then "-" else hexOf (String.ofList cmd)] }

/-- one event reaching the model -/
partial def handle (key : Keymap.Key) (s : S) (ev : Keymap.Event) : S :=
  if s.done.isSome then s else
  let edit (a : Editor.Action) : S :=
    let ed' := Editor.act cls s.ed a
    if ed'.fz.line == s.ed.fz.line then { s with ed := ed' } else refilter { s with ed := ed' }
  match ev with
  | .addChar c => edit (.addChar c)
  | .plain c =>
    if ctorIs c "EvActBackwardDeleteChar" then edit .backwardDeleteChar
    else if ctorIs c "EvActBackwardChar" then edit .backwardChar
    else if ctorIs c "EvActForwardChar" then edit .forwardChar
    else if ctorIs c "EvActUnixLineDiscard" then edit .unixLineDiscard
    else if ctorIs c "EvActKillLine" then edit .killLine
    else if ctorIs c "EvActBeginningOfLine" then edit .beginningOfLine
    else if ctorIs c "EvActEndOfLine" then edit .endOfLine
    else if ctorIs c "EvActYank" then edit .yank
    else if ctorIs c "EvActPreviousHistory" then edit .previousHistory
    else if ctorIs c "EvActNextHistory" then edit .nextHistory
    else if ctorIs c "EvActAbort" then { s with done := some (.abort, key) }
    else if ctorIs c "EvActToggle" then
      if s.multi then
        match s.listed[s.cur.cursor]? with
        | some i => { s with selected := if s.selected.contains i then s.selected.filter (· != i) else insertAsc i s.selected }
        | none => s
      else s
    else if ctorIs c "EvActSelectAll" then
      if s.multi then { s with selected := s.listed.foldl (fun acc i => insertAsc i acc) s.selected } else s
    else if ctorIs c "EvActDeselectAll" then { s with selected := [] }
    else if ctorIs c "EvActToggleAll" then
      if s.multi then
        { s with selected := s.listed.foldl (fun acc i => if acc.contains i then acc.filter (· != i) else insertAsc i acc) s.selected }
      else s
    else if ctorIs c "EvActAppendAndSelect" then
      -- act_append_and_select: nothing with an empty query; otherwise the query becomes a new item at the end of the
      -- input, is selected (multi-selection only: act_select_raw_item ignores it in single mode), and the heart beat
      -- that follows lets the matcher list it (it matches the query it was made from; the generator keeps queries to letters)
      let q := s.ed.fz.line
      if q.isEmpty then s else
      let i := s.items.length
      let s1 := { s with items := s.items ++ [q], selected := if s.multi then insertAsc i s.selected else s.selected }
      if Engine.matchQuery cfg q q then
        { s1 with listed := s1.listed ++ [i], cur := SelCursor.step s1.cur (.append 1) }
      else s1
    else if ctorIs c "EvActIgnore" then s
    else { s with unsupported := some (String.ofList c) }
  | .int c n =>
    if ctorIs c "EvActUp" then { s with cur := SelCursor.step s.cur (.up n) }
    else if ctorIs c "EvActDown" then { s with cur := SelCursor.step s.cur (.down n) }
    else { s with unsupported := some (String.ofList c) }
  | .optStr c a =>
    if ctorIs c "EvActAccept" then { s with done := some (.accept (a.map String.ofList), key) }
    else { s with unsupported := some (String.ofList c) }
  | .str c a =>
    if ctorIs c "EvActExecuteSilent" then execSilent s a else
    -- the conditional arms of Model::start: the inner action runs at once, before the rest of the chain
    let env : Keymap.Env := { query := s.ed.fz.line, matched := s.listed.length }
    match Keymap.condStep (.str c a) env with
    | .ok (some ev') => handle key s ev'
    | .ok none =>
      if (Generated.Keymap.condTable.find? (fun r => r.1 == c)).isSome then s else { s with unsupported := some (String.ofList c) }
    | .error _ => { s with unsupported := some "panic-in-parse_action_arg" }
  | .inputKey _ => s

/-- the `exec=` part of an observation (`rc=… out=… exec=…`) -/
def execPart (obs : String) : String :=
  match obs.splitOn " exec=" with
  | [_, e] => e
  | _ => "?"

/-- `execOnly` (stream id C07CLI, the sub-stream of C07): only the commands handed to the shell are judged — what the session
    prints at the end is C05's and C19's subject, and a change there is not C07's alarm -/
def answerWith (execOnly : Bool) (case impl : String) : String :=
  match case.splitOn "|" with
  | ["K", opts, items, keys] =>
    let os := (opts.splitOn ",").filter (· ≠ "")
    let has (k : String) := os.contains k
    let val (k : String) : Option String := (os.find? (fun o => o.startsWith (k ++ "="))).map (fun o => (o.drop (k.length + 1)).toString)
    let expect := (val "expect").map decStr
    -- `--history` / `--cmd-history`: src/bin/main.rs puts `ctrl-p:previous-history,ctrl-n:next-history` IN FRONT of the user's bindings
    let hist : List (List Char) := match val "hist" with
      | some h => ((h.splitOn "+").filter (· ≠ "")).map decStr
      | none => []
    let binds0 := (os.filter (fun o => o.startsWith "bind=")).map (fun o => decStr (o.drop 5).toString)
    let binds := if (val "hist").isSome then "ctrl-p:previous-history,ctrl-n:next-history".toList :: binds0 else binds0
    match Keymap.buildInput binds expect with
    | .error m => "error:keymap:" ++ String.ofList m ++ "\terror"
    | .ok km =>
      let its := ((items.splitOn ",").filter (· ≠ "")).map decStr
      let q0 := ((val "q").map decStr).getD []
      let s0 : S := refilter { items := its, multi := has "multi", ed := { fz := { before := q0.reverse }, fzH := { before := hist.reverse } },
                               cur := SelCursor.Cur.init false, comma := (val "d") == some "44" }
      let pvTmpl := (val "pv").map decStr
      let ks := ((keys.splitOn " ").filter (· ≠ "")).map decStr
      let s := ks.foldl (fun s name =>
        if s.done.isSome then s else
        match Keymap.keyOf name with
        | none => { s with unsupported := some ("key:" ++ String.ofList name) }
        | some k =>
          let kc := Keymap.translateEvent km (.key k)
          kc.2.foldl (handle kc.1) s) s0
      match s.unsupported, s.done with
      | some u, _ => "error:unsupported:" ++ u ++ "\terror"
      | none, none => "error:session-not-ended\terror"
      | none, some (ev, key) =>
        let sel : SelSet.Sel :=
          { multi := s.multi, selected := s.selected.map (fun i => ((0, i), i)),
            listed := s.listed.map (fun i => { idx := i, item := i, rank := 0 }) }
        match Accept.finish sel s.cur s.ed key ev with
        | none => "panic\tbad:model-predicts-a-panic-in-accept"
        | some o =>
          let b : Accept.BinOpts := { printQuery := has "pq", printCmd := has "pc", expect := expect.isSome }
          let r := Accept.binOutput o b (fun i => String.ofList (s.items.getD i []))
          let out := String.join (r.1.map (· ++ "\n"))
          -- the preview pane: the last command handed to the shell is the expansion of the preview template in the final state
          -- (current item = the ORIGINAL line, its index, the query; the same field lookup as the execute actions)
          let pvWant : String := match pvTmpl with
            | none => "_"
            | some t =>
              match s.listed[s.cur.cursor]? with
              | none => "_"
              | some i =>
                let ctx : Inject.Ctx :=
                  { cur := s.items.getD i [], curIdx := i, sels := [s.items.getD i []], idxs := [i],
                    query := s.ed.fz.line, cmdQuery := s.ed.cmd.line,
                    fld := if s.comma then commaField else (fun _ _ => none) }
                hexOf (String.ofList (Inject.inject ctx t))
          let model := s!"rc={r.2} out={hexOf out} exec={if s.execs.isEmpty then "_" else ",".intercalate s.execs} pv={pvWant}"
          if execOnly then
            s!"exec={execPart model}" ++ "\t" ++
              (if execPart impl == execPart model then "ok" else "bad:command-handed-to-the-shell-differs-from-the-expansion-of-the-template")
          else
            model ++ "\t" ++ (if impl == model then "ok" else "bad:binary-output-differs-from-accept-model")
  | _ => "error:bad-case\terror"

def answer (case impl : String) : String := answerWith false case impl

end SkimModel.Driver.C05Cli
