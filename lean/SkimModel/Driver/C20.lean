import SkimModel.Driver.Util
import SkimModel.Model.Preview
/-
C20 driver.  The harness sends the ordered trace of shared-memory steps the REAL previewer made
(schedule points of `verif::sched`, values it observed) plus the final pane.
 * `replay`  : trace acceptance — every trace token is mapped to a label of the Lean transition
               system `Preview.step`; a label that is not enabled, or whose observed value differs
               from the model state, rejects the trace.  Child exits are not observable (they happen
               in the OS); they are inferred from the status the waiter later reports.
 * `verdict` : the executable form of the property, evaluated on the IMPLEMENTATION's observations
               only (monotone writes, each write is the output of the request it names, pane after
               settling = latest request, dedupe, scroll range, kill/join discipline).
-/
namespace SkimModel.Driver.C20
open SkimModel.Preview SkimModel.Driver

def dropS (s : String) (n : Nat) : String := String.ofList (s.toList.drop n)
def headC (s : String) : Char := s.toList.headD ' '

structure ItemSpec where
  kind : Char
  delay : Nat
  lines : Nat
  vs : Nat
  vo : Nat
  usesSel : Bool
  deriving Repr, Inhabited

structure Cfg where
  items : Array ItemSpec
  gLines : Nat
  offset : Option (Bool × Nat)   -- none = "", (false, n) = "+{2}-n", (true, n) = "+{2}-/n"
  deriving Repr

inductive Op where
  | req (item : Nat) (q cq : Option Nat) (sel : List Nat) (force : Bool)
  | wait
  | settle
  | scroll (kind : Char) (n : Nat)
  | draw (w h : Nat)
  deriving Repr, Inhabited

def parseItem (t : String) : Option ItemSpec :=
  let k := headC t
  if !("TCFKEG".toList.contains k) then none else
  match (dropS t 1).splitOn "x" |>.map String.toNat? with
  | [some a, some b, some c, some d, some e] =>
    some { kind := k, delay := min a 200, lines := min b 400, vs := c, vo := d, usesSel := e == 1 }
  | _ => none

def parseOptNat (t : String) : Option (Option Nat) :=
  if t == "-" then some none else t.toNat?.map some

def parseOp (nitems : Nat) (t : String) : Option Op :=
  match headC t with
  | 'r' =>
    match t.splitOn ":" with
    | [_, it, q, cq, sel, f] =>
      match it.toNat?, parseOptNat q, parseOptNat cq with
      | some it, some q, some cq =>
        let sl := if sel == "_" then [] else (sel.splitOn "+").filterMap String.toNat?
        if it ≤ nitems && sl.all (fun x => 0 < x && x ≤ nitems) then some (.req it q cq sl (f == "1")) else none
      | _, _, _ => none
    | _ => none
  | 'w' => some .wait
  | 's' => if t == "s" then some .settle else none
  | 'p' =>
    match (dropS t 1).splitOn "x" |>.map String.toNat? with
    | [some w, some h] => some (.draw w h)
    | _ => none
  | c => if c == 'd' || c == 'u' || c == 'D' || c == 'U' then some (.scroll c ((dropS t 1).toNat?.getD 1)) else none

def parseCase (case : String) : Except String (Cfg × Array Op) :=
  match case.splitOn "|" with
  | [hd, ops] =>
    match hd.splitOn "~" with
    | [its, g, off, _rules] =>
      match ((its.splitOn ",").filter (· ≠ "")).mapM parseItem with
      | none => .error "bad-item"
      | some items =>
        match g.splitOn "x" |>.map String.toNat? with
        | [some _, some gl] =>
          let offset : Except String (Option (Bool × Nat)) :=
            match headC off with
            | '-' => .ok none
            | 'f' => .ok (some (false, (dropS off 1).toNat?.getD 0))
            | 'p' => .ok (some (true, (dropS off 1).toNat?.getD 0))
            | _ => .error "bad-offset"
          match offset with
          | .error e => .error e
          | .ok offset =>
            match ((ops.splitOn " ").filter (· ≠ "")).mapM (parseOp items.length) with
            | none => .error "bad-op"
            | some ops => .ok ({ items := items.toArray, gLines := min gl 400, offset := offset }, ops.toArray)
        | _ => .error "bad-global"
    | _ => .error "bad-case"
  | _ => .error "bad-case"

/-! ### what each request should print -/

def showOpt (p : String) (o : Option Nat) : String :=
  match o with | none => p ++ "-" | some n => p ++ toString n

def selStr (sel : List Nat) : String :=
  if sel.isEmpty then "_" else "+".intercalate (sel.map toString)

def itemOf (cfg : Cfg) (it : Nat) : Option ItemSpec := if it = 0 then none else cfg.items[it - 1]?

/-- does the output of this item depend on the selection -/
def usesSelection (sp : ItemSpec) : Bool := sp.usesSel || sp.kind == 'G'

/-- (first line, number of lines) printed for request `i`, `none` when nothing is ever shown -/
def expected (cfg : Cfg) (i : Nat) (op : Op) : Option (String × Nat) :=
  match op with
  | .req it q cq sel _ =>
    match itemOf cfg it with
    | none => none
    | some sp =>
      if sp.kind == 'G' then
        let qs := match q with | none => "" | some n => "q" ++ toString n
        let cs := match cq with | none => "" | some n => "c" ++ toString n
        let ss := if sel.isEmpty then toString i else " ".intercalate (sel.map toString)
        some (s!"G_{i}_{qs}_{cs}_{ss}", max 1 cfg.gLines)
      else if sp.kind == 'T' || sp.kind == 'C' || sp.kind == 'F' then
        let t := s!"R{i}_i{it}_{showOpt "q" q}_{showOpt "c" cq}" ++ (if sp.usesSel then "_s" ++ selStr sel else "")
        if sp.lines = 0 then some ("", 0) else some (t, sp.lines)
      else none
  | _ => none

def kindOf (cfg : Cfg) (it : Nat) : Kind :=
  match itemOf cfg it with
  | none => .noop
  | some sp => if sp.kind == 'T' then .text else if sp.kind == 'E' then .emptyCmd else .cmd

/-- (v_scroll, v_offset) of the event built by `on_item_change` -/
def posOf (cfg : Cfg) (it : Nat) : Nat × Size :=
  match itemOf cfg it with
  | none => (0, .default)
  | some sp =>
    if sp.kind == 'G' then
      match cfg.offset with
      | none => (0, .default)
      | some (false, n) => (sp.vs, .fixed n)
      | some (true, n) => (sp.vs, .percent (if n = 0 then 0 else 100 / n))
    else if sp.vs = 0 && sp.vo = 0 then (0, .default) else (sp.vs, .fixed sp.vo)

def encS (s : String) : String := encStr s.toList

/-! ### trace acceptance -/

structure RS where
  st : St := {}
  client : Client := {}
  pendingReq : Option (Nat × Bool) := none   -- op index, model says "sent"
  idOp : List (Nat × Nat) := []              -- model request id ↦ op index
  pendingKill : Bool := false
  pendingAct : Option Nat := none
  width : Nat := Generated.Preview.defaultWidth

def stepE (rs : RS) (l : Label) (what : String) : Except String RS :=
  match step rs.st l with
  | some s => .ok { rs with st := s }
  | none => .error (what ++ ":not-enabled")

def opOfId (rs : RS) (id : Nat) : Option Nat := rs.idOp.lookup id

def expectedOfId (cfg : Cfg) (ops : Array Op) (rs : RS) (id : Nat) : String × Nat :=
  match opOfId rs id with
  | none => ("", 0)
  | some i => (expected cfg i (ops.getD i .wait)).getD ("", 0)

/-- the status the waiter of the current child will report (first `reaped:` token ahead) -/
def nextStatus (rest : List String) : Option Res :=
  match rest.find? (fun t => t.startsWith "reaped:") with
  | some "reaped:ok" => some .ok
  | some "reaped:err" => some .err
  | some "reaped:sig" => some .sig
  | some "reaped:fail" => some .fail
  | _ => none

def checkPending (rs : RS) : Except String Unit :=
  match rs.pendingReq with
  | some (_, true) => .error "model-sends-but-no-send-seen"
  | _ => .ok ()

def lineOf (first : String) (idx : Nat) : String := if idx = 0 then first else s!"l{idx + 1}"

def padTo (s : String) (n : Nat) : String := s ++ String.ofList (List.replicate (n - s.length) ' ')

def trimR (s : String) : String := String.ofList ((s.toList.reverse.dropWhile (· == ' ')).reverse)

/-- what `draw` puts on a w×h canvas (no wrap, no horizontal scroll) -/
def paneRows (first : String) (len v w h : Nat) : List String :=
  let status := s!"{v}/{len}"
  let col := max (status.length + 1) (w - status.length - 1)
  (List.range h).map fun r =>
    let idx := (max 1 v - 1) + r
    let line := if idx < len then String.ofList ((lineOf first idx).toList.take w) else ""
    let row := if r = 0 then
        String.ofList (((padTo line col).toList.take col ++ status.toList).take w)
      else line
    encS (trimR row)

def feed (cfg : Cfg) (ops : Array Op) (rs : RS) (tok : String) (rest : List String) : Except String RS := do
  match tok.splitOn ":" with
  | ["req", i] =>
    checkPending rs
    let i := i.toNat?.getD 0
    match ops.getD i .wait with
    | .req it q cq sel force =>
      let key : Key := { item := if it = 0 then none else some it, query := q, cmdQuery := cq, nsel := sel.length }
      let (c', sent) := onItemChange rs.client key force
      .ok { rs with client := c', pendingReq := some (i, sent) }
    | _ => .error "req-token-for-non-request-op"
  | ["send"] =>
    match rs.pendingReq with
    | some (i, true) =>
      match ops.getD i .wait with
      | .req it _ _ _ _ =>
        let (vs, vo) := posOf cfg it
        let id := rs.st.nextId
        let rs ← stepE rs (.send (kindOf cfg it) vs vo) "send"
        .ok { rs with pendingReq := none, idOp := (id, i) :: rs.idOp }
      | _ => .error "send-without-request"
    | _ => .error "send-but-model-dedupes"
  | ["recv"] => stepE rs .recv "recv"
  | ["tryrecv"] => stepE rs .tryRecv "tryrecv"
  | ["kill"] => .ok { rs with pendingKill := true }
  | ["sig"] =>
    -- the child had already ended by itself iff its waiter will report a non-signal status
    let rs ← (match rs.st.child, nextStatus rest with
      | some c, some r => if c.proc = .running && r != .sig then stepE rs (.exit r) "exit" else .ok rs
      | _, _ => .ok rs)
    let rs ← stepE rs (.killCheck false) "killCheck-false"
    .ok { rs with pendingKill := false }
  | ["killed", b] =>
    -- a second load of the (monotone) flag AFTER the kill decision: if no signal was sent the
    -- decision read `true`, so this later load must read `true` as well
    if rs.pendingKill then
      if b == "false" then .error "no-signal-although-flag-not-set"
      else do
        let rs ← stepE rs (.killCheck true) "killCheck-true"
        .ok { rs with pendingKill := false }
    else .ok rs
  | ["joined"] =>
    if rs.pendingKill then .error "join-without-kill-decision" else
    stepE rs .join "join"
  | ["dispatch"] => .ok rs
  | ["scroll.store"] => .ok rs
  | ["spawned"] =>
    match rs.st.phase with
    | .draining e => if e.kind = .cmd then stepE rs (.dispatch true 0) "spawn" else .error "spawn-for-non-command"
    | _ => .error "spawn-outside-dispatch"
  | ["idle"] =>
    let rs ← (match rs.st.phase with
      | .draining e => if e.kind = .noop || e.kind = .emptyCmd then stepE rs (.dispatch true 0) "dispatch" else .ok rs
      | _ => .ok rs)
    if rs.st.phase = .idle then .ok rs else .error "idle-but-model-busy"
  | ["reaped", st] =>
    let r : Res := if st == "ok" then .ok else if st == "err" then .err else if st == "sig" then .sig else .fail
    let rs ← (match rs.st.child with
      | some c => if c.proc = .running then stepE rs (.exit r) "exit" else .ok rs
      | none => .error "reaped-without-child")
    match rs.st.child with
    | some c => if c.proc = .exited r then stepE rs .reap "reap" else .error "reaped-status-differs"
    | none => .error "reaped-without-child"
  | ["stopping"] => stepE rs .setStopped "setStopped"
  | ["content", first, len, v] =>
    let len := len.toNat?.getD 0
    let v := v.toNat?.getD 0
    let isWaiter : Bool := match rs.st.child with | some c => c.waiter == Waiter.stopping | none => false
    let rs ← (if isWaiter then stepE rs (.write len) "write" else
      match rs.st.phase with
      | .draining e =>
        if e.kind = Kind.text then stepE rs (.dispatch true len) "dispatch-text"
        else if e.kind = Kind.cmd then stepE rs (.dispatch false len) "dispatch-spawn-failed"
        else .error "content-for-silent-event"
      | _ => .error "content-without-writer")
    let (ef, el) := expectedOfId cfg ops rs rs.st.content
    if encS ef != first then .error s!"content-differs:model-first={encS ef}"
    else if el != len then .error s!"content-differs:model-len={el}"
    else if rs.st.vscroll != v then .error s!"content-differs:model-vscroll={rs.st.vscroll}"
    else .ok rs
  | ["wexit"] =>
    match rs.st.child with
    | some c => if c.waiter = .done then .ok rs else .error "wexit-but-model-waiter-alive"
    | none => .error "wexit-without-child"
  | ["act", i] => .ok { rs with pendingAct := i.toNat? }
  | ["scroll", v] =>
    match rs.pendingAct with
    | some i =>
      match ops.getD i .wait with
      | .scroll k n =>
        let d : Int := match k with
          | 'd' => (n : Int) | 'u' => -(n : Int)
          | 'D' => (rs.st.height : Int) * n | _ => -((rs.st.height : Int) * n)
        let rs ← stepE rs (.scroll d) "scroll"
        if some rs.st.vscroll = v.toNat? then .ok { rs with pendingAct := none }
        else .error s!"scroll-differs:model={rs.st.vscroll}"
      | _ => .error "scroll-without-action"
    | none => .error "scroll-without-action"
  | ["draw", i] =>
    match ops.getD (i.toNat?.getD 0) .wait with
    | .draw w h => do
      let rs ← stepE rs (.draw w h) "draw"
      .ok { rs with width := w }
    | _ => .error "draw-without-op"
  | ["pane", rows] =>
    let (ef, _) := expectedOfId cfg ops rs rs.st.content
    let want := ",".intercalate (paneRows ef rs.st.len rs.st.vscroll rs.width rs.st.height)
    if want == rows then .ok rs else .error s!"pane-differs:model={want}"
  | ["settled"] =>
    checkPending rs
    if decide (Settled rs.st) then .ok rs else .error "settled-but-model-not-settled"
  | _ => .error "unknown-token"

def replay (cfg : Cfg) (ops : Array Op) : Nat → RS → List String → Except String RS
  | _, rs, [] => .ok rs
  | k, rs, t :: rest =>
    match feed cfg ops rs t rest with
    | .ok rs' => replay cfg ops (k + 1) rs' rest
    | .error e => .error s!"REJECT@{k}:{t}:{e}"

def finalObs (cfg : Cfg) (ops : Array Op) (rs : RS) (h : String) : String :=
  let (ef, _) := expectedOfId cfg ops rs rs.st.content
  s!"F:{encS ef}:{rs.st.len}:{rs.st.vscroll}:{h}"

/-! ### executable spec on the implementation's observations -/

structure VS where
  lastWrite : Option Nat := none       -- op index of the newest write
  untagged : Bool := false             -- the pane holds an empty (hence untagged) output
  curFirst : String := "-"
  curLen : Nat := 0
  lastReq : Option Nat := none         -- op index of the most recent `on_item_change` call
  prevSent : Option Op := none         -- the last request that was sent
  pending : Option (Nat × Bool) := none  -- op index, spec says "must send"; `true` tolerated flag below
  pendingStale : Bool := false         -- not sending would be the same-count selection staleness
  alive : Bool := false                -- a child was spawned and not joined
  needKill : Bool := false
  killSeen : Bool := false
  sigSeen : Bool := false
  stoppingSeen : Bool := false
  wexitSeen : Bool := false
  reapedDead : Bool := false           -- the waiter got a signal-terminated / failed result
  bad : List String := []

def VS.flag (v : VS) (m : String) : VS := if v.bad.contains m then v else { v with bad := v.bad ++ [m] }

/-- op index named by a pane first line `R<i>_…` / `G_<i>_…` -/
def tagIndex (first : List Char) : Option Nat :=
  let digits (cs : List Char) := String.ofList (cs.takeWhile Char.isDigit) |>.toNat?
  match first with
  | 'R' :: cs => digits cs
  | 'G' :: '_' :: cs => digits cs
  | _ => none

def inRange (v len : Nat) : Bool := 1 ≤ v && v ≤ max 1 (len - 1)

def sameRequest (cfg : Cfg) (a b : Op) : Bool × Bool :=
  -- (identical as far as the output is concerned, identical except for a same-size selection)
  match a, b with
  | .req ia qa ca sa _, .req ib qb cb sb _ =>
    let base := ia == ib && qa == qb && ca == cb
    let uses := match itemOf cfg ib with | some sp => usesSelection sp | none => false
    (base && (!uses || sa == sb), base && uses && sa != sb && sa.length == sb.length)
  | _, _ => (false, false)

/-- pane-after-settling check -/
def checkLatest (cfg : Cfg) (ops : Array Op) (v : VS) : VS :=
  match v.lastReq with
  | none => v
  | some l =>
    let opL := ops.getD l .wait
    match expected cfg l opL with
    | none => v    -- no item / empty command / command that kills itself: the pane is left alone
    | some (_, el) =>
      if v.untagged then (if el = 0 then v else v.flag "stale-pane") else
      match v.lastWrite with
      | none => v.flag "stale-pane:nothing-shown"
      | some w =>
        let (same, selOnly) := sameRequest cfg (ops.getD w .wait) opL
        if same then v else if selOnly then v.flag "stale-selection-same-count" else v.flag "stale-pane"

def closePending (cfg : Cfg) (v : VS) : VS :=
  let _ := cfg
  match v.pending with
  | some (_, true) => { (if v.pendingStale then v.flag "stale-selection-same-count" else v.flag "request-dropped") with pending := none }
  | _ => { v with pending := none }

def vfeed (cfg : Cfg) (ops : Array Op) (v : VS) (tok : String) : VS :=
  match tok.splitOn ":" with
  | ["req", i] =>
    let v := closePending cfg v
    let i := i.toNat?.getD 0
    match ops.getD i .wait with
    | .req it q cq sel force =>
      let (must, stale) : Bool × Bool :=
        match v.prevSent with
        | none => (force || it != 0 || q.isSome || cq.isSome || !sel.isEmpty, false)
        | some (.req pi pq pc ps _) =>
          let other := force || pi != it || pq != q || pc != cq || ps.length != sel.length
          let uses := match itemOf cfg it with | some sp => usesSelection sp | none => false
          if other then (true, false) else if ps != sel && uses then (true, true) else (false, false)
        | some _ => (true, false)
      { v with lastReq := some i, pending := some (i, must), pendingStale := stale }
    | _ => v.flag "trace-malformed"
  | ["send"] =>
    match v.pending with
    | some (i, must) =>
      let v := if must then v else v.flag "rerun-of-identical-request"
      { v with pending := none, prevSent := some (ops.getD i .wait) }
    | none => v.flag "send-without-request"
  | ["recv"] => if v.alive then { v with needKill := true, killSeen := false, sigSeen := false } else v
  | ["kill"] => { v with killSeen := true }
  | ["sig"] => { v with sigSeen := true }
  | ["killed", b] =>
    -- no signal although the flag is still unset after the decision: a running child was spared
    if !v.sigSeen && b == "false" then v.flag "running-child-not-killed" else v
  | ["joined"] =>
    let v := if v.wexitSeen then v else v.flag "join-before-waiter-finished"
    { v with alive := false, needKill := false }
  | ["tryrecv"] => if v.needKill then v.flag "next-request-examined-before-kill-join" else v
  | ["dispatch"] => if v.needKill then v.flag "next-request-examined-before-kill-join" else v
  | ["spawned"] =>
    let v := if v.alive then v.flag "two-children-alive" else v
    { v with alive := true, stoppingSeen := false, wexitSeen := false, sigSeen := false, killSeen := false,
             reapedDead := false }
  | ["reaped", st] => if st == "sig" || st == "fail" then { v with reapedDead := true } else v
  | ["stopping"] =>
    let v := if v.reapedDead then v.flag "signal-terminated-result-shown" else v
    { v with stoppingSeen := true }
  | ["wexit"] => { v with wexitSeen := true }
  | ["content", first, len, vs] =>
    let len := len.toNat?.getD 0
    let vs := vs.toNat?.getD 0
    let v := if inRange vs len then v else v.flag "initial-scroll-outside-content"
    let v := { v with curFirst := first, curLen := len }
    match tagIndex (decStr first) with
    | none =>
      -- an untagged pane is legal only for a request that prints nothing
      if len = 0 then { v with untagged := true } else v.flag "unidentified-content"
    | some i =>
      let v := match v.lastWrite with
        | some w => if w < i then v else v.flag "older-request-replaced-newer"
        | none => v
      let v := match expected cfg i (ops.getD i .wait) with
        | some (ef, el) => if encS ef == first && el == len then v else v.flag "content-is-not-the-output-of-its-request"
        | none => v.flag "content-from-silent-request"
      { v with lastWrite := some i, untagged := false }
  | ["scroll", vs] => if inRange (vs.toNat?.getD 0) v.curLen then v else v.flag "scroll-outside-content"
  | ["settled"] => checkLatest cfg ops (closePending cfg v)
  | _ => v

def verdict (cfg : Cfg) (ops : Array Op) (toks : List String) (final : String) : String :=
  let v := toks.foldl (vfeed cfg ops) {}
  let fparts := final.splitOn " "
  let v := if fparts.length > 1 then v.flag "not-settled" else v
  let v := match (fparts.headD "").splitOn ":" with
    | ["F", first, len, vs, _h] =>
      let v := if first == v.curFirst && len.toNat? == some v.curLen then v else v.flag "final-pane-differs-from-last-write"
      if inRange (vs.toNat?.getD 0) v.curLen then v else v.flag "scroll-outside-content"
    | _ => v.flag "final-malformed"
  if v.bad.isEmpty then "ok" else "bad:" ++ ",".intercalate v.bad

/-- returns (model output, verdict) for the implementation's output -/
def handle (case impl : String) : Except String (String × String) :=
  match parseCase case with
  | .error e => .error e
  | .ok (cfg, ops) =>
    match impl.splitOn " # " with
    | [trace, final] =>
      let toks := (trace.splitOn " ").filter (· ≠ "")
      let hs := match ((final.splitOn " ").headD "").splitOn ":" with | [_, _, _, _, h] => h | _ => "?"
      let model := match replay cfg ops 0 {} toks with
        | .ok rs => trace ++ " # " ++ finalObs cfg ops rs hs
        | .error e => e
      .ok (model, verdict cfg ops toks final)
    | _ => .ok ("error:impl-output-malformed", if impl.startsWith "panic" then "bad:panic" else "bad:impl-output-malformed")


/-- End-state stream (`E~<delay>|r<item>[f] w<ms> ...`): the index passed is the item's own index, only the
    current item changes.  Spec (c20_latest): once settled the pane shows the output of the most recent request;
    a request without a current item (Noop) leaves the pane as it is, so when the LAST request has an item the
    pane must show that item's output, whatever was killed or deduplicated before. -/
def endState (case impl : String) : String :=
  let ops := match case.splitOn "|" with
    | [_, o] => (o.splitOn " ").filter (· ≠ "")
    | _ => []
  let reqs := ops.filterMap (fun o =>
    if o.startsWith "r" then ((o.drop 1).toString.takeWhile Char.isDigit).toString.toNat? else none)
  let want : Option String := match reqs.getLast? with
    | some 0 => none
    | some k => some (SkimModel.Driver.encStr s!"P_it{k}".toList)
    | none => none
  let model := match want with
    | some w => "final=" ++ w
    | none => "final=*"
  let verdict :=
    if impl.startsWith "error" || impl.startsWith "panic" then "error"
    else if (impl.splitOn " ").contains "settle-timeout" then "bad:preview-activity-does-not-settle"
    else match want with
      | none => "ok"
      | some w => if impl == "final=" ++ w then "ok" else s!"bad:pane-does-not-show-latest-request:{impl}"
  -- the model output equals the implementation's whenever the verdict is ok (keeps the strict comparison quiet)
  (if verdict == "ok" then impl else model) ++ "\t" ++ verdict

end SkimModel.Driver.C20
