import SkimModel.Driver.Util
import SkimModel.Spec.Inject
/-
C07 driver.
case : `<stream>;<delim>;<curIdx>;<cur>;<idxs>;<sels>;<query>;<cmdq>;<ranges>|<template>`
  stream 0 = inject_command, 1 = inject_command + read back by /bin/sh, 2 = interactive command (Query::get_cmd:
  template = base command, cmdq = command query, the other fields unused), 3 = as 1 but the sh words come from
  the real call site Previewer::on_item_change (context built from item / queries / selection) + `$SHELL -c`
impl : `<inject_command output>;<field table>;<sh words>`
  field table = for every item of `cur :: sels` (joined by `/`), for every string of `<ranges>` (joined by
  `,`) the REAL `get_string_by_range(delimiter, item, range)`: `n` (None) or `s<text>`; `_` when no ranges.
  The table is the model's `Ctx.fld` (field lookup is given, see C12) and is echoed in the model output.
  sh words = `-` (not run) | `w:<list>` the arguments the real /bin/sh passed for
  `printf '%s\0' S <output>` (after the sentinel `S`) | `e:<why>`.
-/
namespace SkimModel.Driver.C07
open SkimModel.Driver SkimModel.Inject SkimModel.Sh

abbrev Oracle := List ((List Char × List Char) × Option (List Char))

def parseCell (c : String) : Option (List Char) :=
  if c.startsWith "s" then some (decStr (c.drop 1).toString) else none

def parseTable (items ranges : List (List Char)) (table : String) : Oracle :=
  let rows := table.splitOn "/"
  (items.zip rows).flatMap fun (it, row) =>
    if row == "_" then [] else
    (ranges.zip (row.splitOn ",")).map fun (r, cell) => ((it, r), parseCell cell)

def oracleFld (o : Oracle) (text range : List Char) : Option (List Char) :=
  match o.lookup (text, range) with
  | some r => r
  | none => none

/-- the strings `designate` hands to the field lookup for this range (none for `{}`, `{n}`, `{q}`, `{cq}`, `{+}`, `{+n}`) -/
def neededRange (rg : List Char) : Option (List Char) :=
  match rg with
  | '+' :: rest => (match rest with | [] => none | ['n'] => none | _ => some rest)
  | [] => none
  | ['n'] => none
  | ['q'] => none
  | ['c', 'q'] => none
  | _ => some rg

def encWords (ws : List (List Char)) : String := encList ws

def prefixCmd : List Char := "printf '%s\\0' S ".toList

/-- what `/bin/sh -c "printf '%s\0' S <out>"` passes after the sentinel, when the model can predict it -/
def predictSh (out : List Char) : String :=
  let s := run {} (prefixCmd ++ out)
  match finish s with
  | some toks =>
    if s.exp || !(toks.all Tok.isWord) then "e:unpredictable"
    else "w:" ++ encWords ((toks.filterMap fun t => match t with | .word w => some w | _ => none).drop 3)
  | none => "e:unpredictable"

def handle (case impl : String) : Except String (String × String) :=
  match case.splitOn "|" with
  | [hd, tmplE] =>
    match hd.splitOn ";" with
    | [shF, _delim, curIdx, cur, idxs, sels, query, cmdq, ranges] =>
      let tmpl := decStr tmplE
      let implParts := impl.splitOn ";"
      if shF == "2" then
        -- interactive-command stream: Query::get_cmd; impl = `<cmd>;_;-`
        let arg := decStr cmdq
        let out := interactiveCmd arg tmpl
        let modelOut := encStr out ++ ";_;-"
        match implParts with
        | [a, _, _] =>
          let ctx : Ctx := { cmdQuery := arg }
          let segs := scanInteractive tmpl
          let spec := specRun ctx {} segs
          let v :=
            if phUnquoted ctx {} segs && spec.mode != .unsupported then
              (if run {} (decStr a) == spec then "ok" else "bad:shell-reads-other-words-than-template+values")
            else (if decStr a == out then "ok" else "bad:differs-from-model-outside-the-unquoted-domain")
          .ok (modelOut, v)
        | _ => .ok (modelOut, "bad:" ++ (impl.take 40).toString)
      else
      let (implOutE, table, implSh) :=
        match implParts with
        | [a, b, c] => (a, b, c)
        | _ => ("", "", "")
      let cur := decStr cur
      let sels := decList sels
      let ranges := decList ranges
      let orc := parseTable (cur :: sels) ranges table
      let ctx : Ctx := { cur := cur, curIdx := curIdx.toNat?.getD 0, sels := sels, idxs := decNats idxs,
                         query := decStr query, cmdQuery := decStr cmdq, fld := oracleFld orc }
      let segs := scan tmpl
      let needed := segs.filterMap fun s => match s with | .ph _ rg => neededRange rg | _ => none
      if implParts.length == 3 && !(needed.all fun r => ranges.contains r) then .error "no-oracle-for-a-range" else
      let out := inject ctx tmpl
      let shOn := shF == "1" || shF == "3"
      let modelOut := encStr out ++ ";" ++ table ++ ";" ++ (if shOn then predictSh out else "-")
      if implParts.length != 3 then .ok (modelOut, "bad:" ++ (impl.take 40).toString) else
      let implOut := decStr implOutE
      -- 1. the property, on the implementation's output
      let spec := specRun ctx {} segs
      let v1 :=
        if phUnquoted ctx {} segs && spec.mode != .unsupported then
          (if run {} implOut == spec then "ok" else "bad:shell-reads-other-words-than-template+values")
        else
          (if implOut == out then "ok" else "bad:differs-from-model-outside-the-unquoted-domain")
      -- 2. the lexer model against the real /bin/sh, on the implementation's output
      let v2 :=
        if !shOn then "ok" else
        let p := predictSh implOut
        if p == implSh && p.startsWith "w:" then "ok"
        else if shF == "3" then "bad:previewer-call-site-words-differ:" ++ p
        else "bad:sh-lexer-model-vs-real-sh:" ++ p
      .ok (modelOut, if v1 != "ok" then v1 else v2)
    | _ => .error "bad-case"
  | _ => .error "bad-case"

end SkimModel.Driver.C07
