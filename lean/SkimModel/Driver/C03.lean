import SkimModel.Driver.Util
import SkimModel.Spec.Term
/-
C03 line protocol.
  case  = `<kind>;<exact 0|1>;<case s|r|i>;<algo 1|2|c>;<term>;<text>,<text>,…`   kind t = term engine, r = regex mode
  impl  = kind t: `<structure>;<verdict bits>`
          kind r: `<structure>;<verdict bits>;<compiles><find bits>;<compiles><find bits>`
                  (the two oracle groups = the regex crate's own answers for the pattern strings
                   `q` and `(?i)q`; the model chooses which one skim's wrapper must have used)
  structure = `A` | `F:<body>` | `E:<inv>:none` | `E:<inv>:<ci>:<pre>:<post>:<body>` | `R:<pattern or empty>`
-/
namespace SkimModel.Driver.C03
open SkimModel.Engine SkimModel.Driver

def parseCase : String → Option CaseMode
  | "s" => some .smart | "r" => some .respect | "i" => some .ignore | _ => none

def parseAlgo : String → Option Algo
  | "1" => some .skimV1 | "2" => some .skimV2 | "c" => some .clangd | _ => none

def b01 (b : Bool) : String := if b then "1" else "0"

def bits (l : List Bool) : String := String.join (l.map b01)

def showEngine (cm : CaseMode) : TermEngine → String
  | .all => "A"
  | .fuzzy body => "F:" ++ encStr body
  | .exact body pre post inv =>
    if body.isEmpty then s!"E:{b01 inv}:none"
    else s!"E:{b01 inv}:{b01 (!caseSensitive cm body)}:{b01 pre}:{b01 post}:{encStr body}"

def parseOracle (s : String) (n : Nat) : Option (List ReOracle) :=
  match s.toList with
  | c :: bs =>
    if bs.length != n then none else
    some (bs.map (fun b => { compiles := c == '1', finds := b == '1' }))
  | [] => none

/-- returns (model output, verdict on the implementation's output) -/
def handle (case impl : String) : Except String (String × String) :=
  match case.splitOn ";" with
  | [kind, ex, cm, al, term, texts] =>
    match parseCase cm, parseAlgo al with
    | some cm, some al =>
      let cfg : Cfg := { exactMode := ex == "1", case := cm, algo := al }
      let term := decStr term
      let texts := decList texts
      let implParts := impl.splitOn ";"
      let implBits := (implParts.getD 1 "").toList.map (· == '1')
      if kind == "t" || kind == "w" then
        let e := decodeTerm cfg.exactMode term
        let modelBits := texts.map (termVerdict cfg e)
        let specBits := texts.map (termSpecB cfg term)
        let specIgn := texts.map (termSpecB { cfg with case := .ignore } term)
        let verdict :=
          if impl.startsWith "panic" then "bad:panic"
          else if implBits.length != texts.length then "bad:malformed-output"
          else if implBits == specBits then "ok"
          else if al == .skimV1 && implBits == specIgn then "bad:v1-ignores-case"
          else "bad:term-verdict:spec=" ++ bits specBits
        .ok (showEngine cm e ++ ";" ++ bits modelBits, verdict)
      else if kind == "r" then
        let n := texts.length
        match parseOracle (implParts.getD 2 "") n, parseOracle (implParts.getD 3 "") n with
        | some o0, some o1 =>
          -- which oracle answers for the pattern the model says is compiled
          let pat := regexPattern cm term
          let os := if pat == term then o0 else o1
          let compiles := (os.head?.map (·.compiles)).getD true
          let modelBits := os.map regexVerdict
          -- spec: same rule, stated on the oracle as a function of the pattern string
          let specBits := (List.range n).map (fun i =>
            regexSpecB cm term (fun p => if p == term then o0.getD i default else o1.getD i default))
          let verdict :=
            if implBits.length != n then "bad:malformed-output"
            else if implBits == specBits then "ok"
            else "bad:regex-verdict:spec=" ++ bits specBits
          let disp := if compiles then pat else []
          .ok (s!"R:{encStr disp};{bits modelBits};{implParts.getD 2 ""};{implParts.getD 3 ""}", verdict)
        | _, _ =>
          if impl.startsWith "panic" then .ok ("?", "bad:panic") else .error "bad-oracle"
      else .error "bad-kind"
    | _, _ => .error "bad-cfg"
  | _ => .error "bad-case"

end SkimModel.Driver.C03
