import SkimModel.Driver.Util
import SkimModel.Model.SessionFG
import SkimModel.Model.Editor
/-
Trace acceptance for headless sessions (C01, C14, session parts of C10/C05).

The python runner linearises the trace recorded by the hooks (see vlib/props/session.py) into tokens:
  OPT select1=<b> exit0=<b> hl=<n> multi=<b> nce=<b> q=<qid> c=<cid> run=<r>
  SRC <cid> <n>                 number of items command <cid> delivers
  M <qid> <cid> <pos,pos,..>    positions (in that command's source) of the items matching query <qid>
  R+ R. T< Tp Ts                reader push / reader end / matcher take / publish / stop
  HB <rs> <ms> <ic> <ic2> <rs2> heart-beat handler with the values M observed (0/1, x = not read)
  Uq <qid> | Uc <cid> <run> | Ut <idx> | Usa | Uta | Uda | Uo | Uacc | Uabo      user-event handlers
  SNAP <list> <sel> <mc> <clear> <quiescent>     what the REAL model showed at the end of that loop iteration
  DEC <accept|abort|interactive> <n>             a select-1/exit-0 decision the real code took
  IDLEFAIL                                       the real session did not settle without a keystroke
Items are numbered cid*100000 + position.
-/
namespace SkimModel.Driver.C01
open SkimModel.Session SkimModel.Driver

abbrev S := St Nat Nat

structure Ctx where
  srcs  : List (Nat × Nat) := []                  -- (cid, n)
  table : List ((Nat × Nat) × List Nat) := []     -- ((qid, cid), positions)
  hl    : Nat := 0
  select1 : Bool := false
  exit0 : Bool := false
  cid   : Nat := 0                                -- current command (tracked from the labels)
  bad   : Option String := none                   -- first spec-level failure (judges the implementation)
  mis   : Option String := none                   -- first model/implementation disagreement
  out   : List String := []                       -- model snapshots (reverse order)
  step  : Nat := 0
  lastSel : List (Nat × Nat) := []
  lastWasSel : Bool := true
  lastCur : Option Nat := none                    -- item_idx under the cursor at the last snapshot
  runCmd : List (Nat × Nat) := []                 -- run number -> command id
  multi : Bool := false
  lastClear : String := "D"                       -- clear strategy at the last snapshot
  armWanted : Option Bool := none                 -- does the model's act_heart_beat leave a timer wake-up behind (set at its last step)
  decided : Option String := none                 -- the select-1 / exit-0 decision the real code has taken so far
  pc : PC := .idle                                -- M's program counter inside a heart-beat handler (read-granularity replay)
  listCid : Option Nat := none                    -- command whose items the displayed list held at the last snapshot
  transientSel : Bool := false                    -- a selection action was issued while the list still belonged to another command run
  ed : SkimModel.Editor.Ed := {}                  -- the query editor driven by the same editing events (C18's model)
  edKnown : Bool := false                         -- the session reported its initial query / mode / histories (OUT token)

def itemId (cid pos : Nat) : Nat := cid * 100000 + pos

def hitQ (c : Ctx) (qid : Nat) (item : Nat) : Bool :=
  let cid := item / 100000
  let pos := item % 100000
  match c.table.find? (fun e => e.1 == (qid, cid)) with
  | some e => e.2.contains pos
  | none => false

def srcOf (c : Ctx) (cid : Nat) : List Nat :=
  match c.srcs.find? (fun e => e.1 == cid) with
  | some e => (List.range e.2).map (itemId cid)
  | none => []

def b (s : String) : Bool := s == "1"

def insertSorted (x : Nat) : List Nat → List Nat
  | [] => [x]
  | y :: ys => if x ≤ y then x :: y :: ys else y :: insertSorted x ys
def sortNat (l : List Nat) : List Nat := l.foldr insertSorted []

def keyLE (a c : Nat × Nat) : Bool := a.1 < c.1 || (a.1 == c.1 && a.2 ≤ c.2)
def insertKey (x : Nat × Nat) : List (Nat × Nat) → List (Nat × Nat)
  | [] => [x]
  | y :: ys => if keyLE x y then x :: y :: ys else y :: insertKey x ys
def sortKeys (l : List (Nat × Nat)) : List (Nat × Nat) := l.foldr insertKey []

def showKeys (l : List (Nat × Nat)) : String :=
  if l.isEmpty then "_" else ",".intercalate (l.map (fun k => s!"{k.1}:{k.2}"))

def parseKeys (s : String) : List (Nat × Nat) :=
  if s == "_" || s == "" then [] else
  (s.splitOn ",").filterMap (fun t => match t.splitOn ":" with
    | [r, i] => match r.toNat?, i.toNat? with
      | some r, some i => some (r, i)
      | _, _ => none
    | _ => none)

def showClear : Clear → String
  | .dont => "D" | .clear => "C" | .ifNotNull => "N"

def modelSnap (s : S) : String :=
  s!"{encNats (sortNat (s.list.map (·.1)))} {showKeys (sortKeys s.selected)} {if s.mc.isSome then 1 else 0} {showClear s.clear}"

def flagMis (c : Ctx) (msg : String) : Ctx := if c.mis.isSome then c else { c with mis := some s!"{msg}@{c.step}" }
def flagBad (c : Ctx) (msg : String) : Ctx := if c.bad.isSome then c else { c with bad := some s!"{msg}@{c.step}" }

/-- expected list (as sorted item_idx list) in a quiescent state: the property's right-hand side -/
def expectedList (c : Ctx) (qid : Nat) : List Nat :=
  ((srcOf c c.cid).drop c.hl).zipIdx.filterMap (fun p => if hitQ c qid p.1 then some p.2 else none)

/-- observed read `o` ("0"/"1"/"x") against the model's current value: a `true` reading needs a true flag -/
def readFlag (o : String) (actual : Bool) : Bool × Bool :=   -- (rd flag, consistent?)
  if o == "1" then (true, actual) else if o == "0" then (false, true) else (true, true)

def kvGet (kvs : List String) (k : String) : String :=
  match kvs.find? (fun kv => kv.startsWith (k ++ "=")) with
  | some kv => (kv.drop (k.length + 1)).toString
  | none => ""

/-- C05: judge the session's `SkimOutput` against what the state said at the last snapshot of the REAL
    model (cursor row item / selected set in key order), against the query editor model driven by the same
    editing events, and against the event that ended the session. -/
def judgeOut (c : Ctx) (s : S) (kvs : List String) : Ctx :=
  if kvGet kvs "abort" == "" then flagBad c ("session-did-not-return:" ++ " ".intercalate kvs) else
  let isAbort := b (kvGet kvs "abort")
  let ev := kvGet kvs "ev"
  let last := kvGet kvs "last"
  -- how the session ended according to the trace: Uabo / Uacc were replayed into s.finished
  let c := match s.finished with
    | some true => if isAbort && ev == "abort" then c else flagBad c s!"abort-not-flagged:abort={isAbort},ev={ev}"
    | some false => if !isAbort && ev == "accept" then c else flagBad c s!"accept-misreported:abort={isAbort},ev={ev}"
    | none => flagMis c "session-ended-without-accept-or-abort-in-trace"
  if isAbort then c else
  -- the items
  let keys := sortKeys c.lastSel
  let cidOf (run : Nat) : Nat := match c.runCmd.find? (fun e => e.1 == run) with
    | some e => e.2
    | none => c.cid
  let want : List Nat :=
    if c.multi && !keys.isEmpty then keys.map (fun k => itemId (cidOf k.1) (k.2 + c.hl))
    else match c.lastCur with
      | some i => [itemId (c.listCid.getD c.cid) (i + c.hl)]   -- the item DISPLAYED on the cursor row (a re-run may be pending)
      | none => []
  let got := decNats (kvGet kvs "items")
  -- selections made during the transient of a command re-run (old list, new run number) have unspecified
  -- identities (excluded by C10/C05): then only "every returned item is a supplied object" is judged
  let c := if got == want || c.transientSel then c else flagBad c s!"accept-items:got[{encNats got}]want[{encNats want}]"
  let c := if kvGet kvs "ptr" == "1" then c else flagBad c "returned-item-is-not-the-supplied-object"
  -- query / command query exactly as edited
  let wq := encStr c.ed.fz.line
  let wc := encStr c.ed.cmd.line
  let c := if kvGet kvs "query" == wq then c else flagBad c s!"query-not-as-edited:got[{kvGet kvs "query"}]want[{wq}]"
  let c := if kvGet kvs "cmd" == wc then c else flagBad c s!"cmd-query-not-as-edited:got[{kvGet kvs "cmd"}]want[{wc}]"
  -- the key / event that ended the session (only when the script ended it itself)
  let wa := kvGet kvs "want_arg"
  let wk := kvGet kvs "want_key"
  let c := if last != "accept" || wa == "any" || kvGet kvs "arg" == wa then c
           else flagBad c s!"final-event-arg:got[{kvGet kvs "arg"}]want[{wa}]"
  let c := if last != "accept" || wk == "any" || kvGet kvs "key" == wk then c
           else flagBad c s!"final-key:got[{kvGet kvs "key"}]want[{wk}]"
  c

/-- the displayed list still belongs to another command run than the current one (a re-run is pending): selections made
    now have unspecified identities (excluded by C10/C05) -/
def inTransient (c : Ctx) : Bool :=
  c.lastClear == "N" || (match c.listCid with | some l => l != c.cid | none => false)

/-- one micro-step of M in the fine-grained system; `rd = false` makes a read return `false` (stale reading) -/
def mGo (c : Ctx) (s : S) (rd : Bool) : Ctx × S :=
  match mstep ({ s := s, pc := c.pc } : FSt Nat Nat) rd with
  | some f => ({ c with pc := f.pc }, f.s)
  | none => (flagMis c s!"micro-step-not-enabled:{repr c.pc}", s)

/-- a read micro-step: the observed value against the model's current value (a `true` needs a true flag) -/
def mRead (c : Ctx) (s : S) (name obs : String) (actual : Bool) : Ctx × S :=
  let (rd, ok) := readFlag obs actual
  let c1 := if ok then c else flagMis c s!"read-impossible:{name}={obs}/{actual}@{repr c.pc}"
  mGo c1 s rd

def applyTok (m : Nat → Nat → Bool) (cs : Ctx × S) (tok : List String) : Ctx × S :=
  let c := { cs.1 with step := cs.1.step + 1 }
  let s := cs.2
  let viaStep (l : Label Nat Nat) (name : String) : Ctx × S :=
    match step m s l with
    | some s' => (c, s')
    | none => (flagMis c s!"label-not-enabled:{name}", s)
  match tok with
  | ["R+"] => viaStep .rPush "R+"
  | ["R."] => viaStep .rEnd "R."
  | ["T<"] => viaStep .tTake "T<"
  | ["Tp"] => viaStep .tPublish "Tp"
  | ["Ts"] => viaStep .tStop "Ts"
  -- heart-beat handler at READ granularity (Model/SessionFG.lean); the other threads' tokens between these are in trace order
  | ["Mb"] =>
      if c.pc != .idle then (flagMis c s!"heart-beat-inside-a-handler:{repr c.pc}", s)
      else ({ c with pc := .hb1, lastWasSel := false, armWanted := none }, s)
  | ["Mrs", v] =>
      if c.pc != .hb1 then (flagMis c s!"unexpected-is_done-read@{repr c.pc}", s) else mRead c s "rs" v (readerDone s)
  | ["Mms", v] =>
      (match c.pc with
       | .hb2 _ => mRead c s "ms" v (matcherStopped s)
       | _ => (flagMis c s!"unexpected-stopped-read@{repr c.pc}", s))
  | ["Mhv"] =>
      (match c.pc with
       | .hb3 _ true => mGo c s true
       | _ => (flagMis c s!"harvest-the-model-cannot-make@{repr c.pc}", s))
  | ["Mic", v] =>
      let (c1, s1) := match c.pc with
        | .hb3 _ false => mGo c s true          -- no harvest in this heart beat
        | .hb3 _ true => (flagMis c "model-harvests-implementation-does-not", s)
        | _ => (c, s)
      (match c1.pc with
       | .hb4 _ => mRead c1 s1 "ic" v (itemsConsumed s1)
       | _ => (flagMis c1 s!"unexpected-num_not_taken-read@{repr c1.pc}", s1))
  | ["Mfin"] =>
      (match c.pc with
       | .hb5 rs ic =>
           let (c1, s1) := mGo c s true
           -- hbFinish arms the timer iff a run is outstanding or not everything has been read and taken
           ({ c1 with armWanted := some (s1.mc.isSome || !(rs && ic)) }, s1)
       | _ => (c, s))
  | ["Marm", v] =>
      -- the wake-up bookkeeping the liveness theorems (c01_wakeup_pending, c01_no_deadlock) are about
      (match c.armWanted with
       | some w => if w == (v == "1") then c else flagMis c s!"timer-wake-up:model={w},implementation={v}"
       | none => flagMis c "timer-wake-up-outside-act_heart_beat", s)
  | ["Ms1", ic, rs] =>
      let (c1, s1) := match c.pc with
        | .hb5 _ _ => mGo c s true
        | _ => (c, s)
      if c1.pc != .s1 then (flagMis c1 s!"select-check-entered@{repr c1.pc}", s1) else
      let (c2, s2) := mRead c1 s1 "ic'" ic (itemsConsumed s1)
      mRead c2 s2 "rs'" rs (readerDone s2)
  | ["Mdec"] =>
      (match c.pc with
       | .s3 true true =>
           let (c1, s1) := mGo c s true
           if s.mc.isNone then (c1, s1) else (flagMis c1 "implementation-decides-model-does-not", s1)
       | _ => (flagMis c s!"decision-the-model-cannot-take@{repr c.pc}", s))
  | ["Me"] =>
      let (c1, s1) := match c.pc with
        | .hb5 _ _ => mGo c s true
        | _ => (c, s)
      let (c2, s2) := match c1.pc with
        | .s3 ic rs =>
            let (c2, s2) := mGo c1 s1 true
            if ic && rs && s1.mc.isNone then (flagMis c2 "model-decides-implementation-does-not", s2) else (c2, s2)
        | _ => (c1, s1)
      if c2.pc == .idle then (c2, s2) else (flagMis { c2 with pc := .idle } s!"handler-ends@{repr c2.pc}", s2)
  | ["HB", rs, ms, ic, ic2, rs2] =>
      let (frs, ok1) := readFlag rs (readerDone s)
      let (fms, ok2) := readFlag ms (matcherStopped s)
      -- `ic` is read after the harvest; a harvest does not change taken/length, so the current value serves
      let (fic, ok3) := readFlag ic (itemsConsumed s)
      let rd : Reads := { rs := frs, ms := fms, ic := fic, ic2 := ic2 != "0", rs2 := rs2 != "0" }
      let c1 := if ok1 && ok2 && ok3 then c else flagMis c s!"read-impossible:rs={rs}/{readerDone s},ms={ms}/{matcherStopped s},ic={ic}/{itemsConsumed s}"
      ({ c1 with lastWasSel := false }, handleHB s rd)
  | ["Uq", q] => ({ c with lastWasSel := false }, handleUser s (.setQuery (q.toNat?.getD 0)))
  | ["Uc", cid, run] =>
      let cid := cid.toNat?.getD 0
      ({ c with cid := cid, lastWasSel := false, runCmd := (run.toNat?.getD 0, cid) :: c.runCmd },
        handleUser s (.setCmd (run.toNat?.getD 0) (srcOf c cid)))
  | ["Ut", idx] => ({ c with lastWasSel := true, transientSel := c.transientSel || inTransient c }, handleUser s (.toggle (idx.toNat?.getD 0)))
  | ["Usa"] => ({ c with lastWasSel := true, transientSel := c.transientSel || inTransient c }, handleUser s .selectAll)
  | ["Uta"] => ({ c with lastWasSel := true, transientSel := c.transientSel || inTransient c }, handleUser s .toggleAll)
  | ["Uda"] => ({ c with lastWasSel := true }, handleUser s .deselectAll)
  | ["Uo"] => ({ c with lastWasSel := false }, handleUser s .other)
  | ["Uacc"] => ({ c with lastWasSel := false }, handleUser s .accept)
  | ["Uabo"] => ({ c with lastWasSel := false }, handleUser s .abort)
  | ["SNAP", list, sel, mc, clear, quiet] =>
      let ms := modelSnap s
      let impl := s!"{list} {sel} {mc} {clear}"
      let c1 := { c with out := ms :: c.out }
      let c2 := if ms == impl then c1 else flagMis c1 s!"snapshot:model[{ms}]impl[{impl}]"
      -- spec-level judgement of the IMPLEMENTATION's state (does not use the model's list)
      let c3 := if b quiet && decNats list != expectedList c2 s.q && !s.noClearIfEmpty then
                  flagBad c2 s!"quiescent-list-wrong:impl[{list}]expected[{encNats (expectedList c2 s.q)}]"
                else c2
      let implSel := parseKeys sel
      let c4 := if !c3.lastWasSel && implSel != c3.lastSel then
                  flagBad c3 s!"selection-changed-by-non-selection-event:{showKeys c3.lastSel}->{sel}"
                else c3
      -- no clear pending => the list holds items of the current command only (or is empty)
      ({ c4 with lastSel := implSel, lastClear := clear, listCid := if clear == "D" then some c4.cid else c4.listCid }, s)
  | ["DEC", kind, n] =>
      -- the real code took a select-1/exit-0 decision inside the heart beat just replayed
      let quiet := s.unread.isEmpty && s.buf.isEmpty && !s.live && s.mc.isNone &&
                   s.pool.taken == s.pool.pool.length
      let total := (expectedList c s.q).length
      let c1 := if !quiet then flagBad c s!"decision-on-partial-result:{kind},listed={n},matching={total}" else c
      let want := if total == 1 && c.select1 then "accept"
                  else if total == 0 && c.exit0 then "abort" else "interactive"
      let c2 := if quiet && kind != want then flagBad c1 s!"wrong-decision:{kind},expected={want},matching={total}" else c1
      -- "... otherwise the interactive session starts and neither option fires later".  (An accept / abort may be decided again
      -- by a heart beat that runs before the first one's event has been handled: same state, same outcome, the session ends on
      -- the first; the model does the same.)
      let c3 := match c2.decided with
        | some "interactive" => flagBad c2 s!"decision-after-the-interactive-session-started:{kind}"
        | _ => c2
      ({ c3 with decided := some kind }, s)
  | ["IDLEFAIL"] => (flagBad c "not-quiescent-without-keystroke", s)
  | ["CUR", i] => ({ c with lastCur := i.toNat? }, s)
  | ["EV", e] =>
      let cls : SkimModel.Editor.Cls := { isAlnum := Char.isAlphanum, isWs := Char.isWhitespace }
      let a : Option SkimModel.Editor.Action := match e.splitOn ":" with
        | ["add", n] => n.toNat?.map (fun k => SkimModel.Editor.Action.addChar (Char.ofNat k))
        | ["bdel"] => some .backwardDeleteChar
        | ["ti"] => some .toggleInteractive
        | ["prevh"] => some .previousHistory
        | ["nexth"] => some .nextHistory
        | _ => none
      (match a with
       | some a => ({ c with ed := SkimModel.Editor.act cls c.ed a, step := c.step - 1 }, s)
       | none => (flagMis c s!"bad-editing-event:{e}", s))
  | ["DQ", qid, cid] =>
      -- C01, "nothing computed for an earlier query / command": at the end of every event-loop iteration the text the
      -- query line DISPLAYS is the query the matcher was last started with, and the command it stands for is the one
      -- whose output is being read (999 / 99 = a text nothing was ever computed for)
      let c1 := if qid.toNat? == some s.q then c else flagBad c s!"displayed-query-is-not-the-matched-one:displayed={qid},matched={s.q}"
      let c2 := if cid.toNat? == some c1.cid then c1 else flagBad c1 s!"displayed-command-is-not-the-running-one:displayed={cid},running={c1.cid}"
      (c2, s)
  | ["CQ", v] =>
      -- C07 at the Model's wiring: the command query in the context the Model builds for the previewer (what `{cq}` expands to)
      -- is the command query as edited (the C18 editor model driven by the same events)
      (if !c.edKnown || v == encStr c.ed.cmd.line then c
       else flagBad c s!"preview-context-cmd-query-is-not-the-edited-one:got[{v}]want[{encStr c.ed.cmd.line}]", s)
  | ["PV", v, quiet] =>
      -- C20 at the Model's wiring ("once settled, the pane shows the most recent request"): with a preview pane shown, at the end
      -- of an event-loop iteration that leaves the session settled (source ended, everything matched and harvested) the most
      -- recent preview request is the one for the item under the cursor.  (The unchanged code keeps this at EVERY iteration end;
      -- only the settled ones are claimed.)
      (if v == "0" && quiet == "1" then flagBad c "settled-but-preview-request-is-not-for-the-current-item" else c, s)
  | ["PVN", pvn, nsel, quiet] =>
      -- C20 at the Model's wiring, the selection part of a request: once the session is settled the most recent preview request was
      -- made for the CURRENT number of selected items (what `{+}` previews depend on; a selection change that keeps the count is the
      -- recorded known finding and is not judged here)
      (if quiet == "1" && pvn != nsel then flagBad c s!"settled-but-preview-request-is-for-another-selection:request={pvn},selected={nsel}" else c, s)
  | "OUT" :: kvs => (judgeOut c s kvs, s)
  | _ => (flagMis c s!"bad-token:{" ".intercalate tok}", s)

def parseHeader (toks : List (List String)) : Ctx × Opts × Nat × Nat × Nat :=
  -- returns ctx, opts, initial qid, initial cid, initial run
  toks.foldl (fun acc t =>
    let (c, o, q, cid, run) := acc
    match t with
    | "OPT" :: kvs =>
      kvs.foldl (fun acc kv =>
        let (c, o, q, cid, run) := acc
        match kv.splitOn "=" with
        | ["select1", v] => ({ c with select1 := b v }, { o with select1 := b v }, q, cid, run)
        | ["exit0", v] => ({ c with exit0 := b v }, { o with exit0 := b v }, q, cid, run)
        | ["multi", v] => (c, { o with multi := b v }, q, cid, run)
        | ["nce", v] => (c, { o with noClearIfEmpty := b v }, q, cid, run)
        | ["hl", v] => ({ c with hl := v.toNat?.getD 0 }, { o with headerLines := v.toNat?.getD 0 }, q, cid, run)
        | ["q", v] => (c, o, v.toNat?.getD 0, cid, run)
        | ["c", v] => (c, o, q, v.toNat?.getD 0, run)
        | ["run", v] => (c, o, q, cid, v.toNat?.getD 0)
        | _ => acc) (c, o, q, cid, run)
    | ["SRC", cid', n] => ({ c with srcs := c.srcs ++ [(cid'.toNat?.getD 0, n.toNat?.getD 0)] }, o, q, cid, run)
    | ["M", qid, cid', ps] =>
      ({ c with table := c.table ++ [((qid.toNat?.getD 0, cid'.toNat?.getD 0), decNats ps)] }, o, q, cid, run)
    | _ => acc) (({} : Ctx), ({} : Opts), 0, 0, 0)

def isHeader (t : List String) : Bool :=
  match t with
  | "OPT" :: _ => true
  | "SRC" :: _ => true
  | "M" :: _ => true
  | _ => false

def answer (_case impl : String) : String :=
  if impl.startsWith "error" || impl.startsWith "panic" || impl.startsWith "crash" || impl.startsWith "hang" then
    "-\tbad:session-" ++ (impl.take 40).toString
  else
  let toks := (impl.splitOn ";").map (fun t => (t.splitOn " ").filter (· ≠ ""))
  let toks := toks.filter (fun t => !t.isEmpty)
  let (c0, o, q0, cid0, run0) := parseHeader (toks.filter isHeader)
  let initQ := match (toks.find? (fun t => t.head? == some "OUT")) with
    | some t => decStr (kvGet t "init_q")
    | none => []
  let inter := match (toks.find? (fun t => t.head? == some "OUT")) with
    | some t => kvGet t "inter" == "1"
    | none => false
  -- histories arrive oldest first; the stack top is the last
  let histOf (k : String) : List (List Char) := match (toks.find? (fun t => t.head? == some "OUT")) with
    | some t => let v := kvGet t k
                if v == "_" || v == "" then [] else (v.splitOn "+").map decStr
    | none => []
  let ed0 : SkimModel.Editor.Ed :=
    { fz := { before := initQ.reverse }, cmd := { before := if inter then ['0'] else [] },
      mode := if inter then .cmd else .query,
      fzH := { before := (histOf "hist").reverse }, cmdH := { before := (histOf "chist").reverse } }
  let edKnown := match (toks.find? (fun t => t.head? == some "OUT")) with
    | some t => kvGet t "inter" != ""
    | none => false
  let c0 := { c0 with cid := cid0, runCmd := [(run0, cid0)], multi := o.multi, ed := ed0, edKnown := edKnown }
  let m : Nat → Nat → Bool := fun q x => hitQ c0 q x
  let s0 : S := { (initWith o q0 (srcOf c0 cid0) : S) with run := run0 }
  let r := (toks.filter (fun t => !isHeader t)).foldl (applyTok m) (c0, s0)
  let c := r.1
  let model := ";".intercalate c.out.reverse
  let verdict := match c.bad, c.mis with
    | some msg, _ => "bad:" ++ msg
    | none, some msg => "mismatch:" ++ msg
    | none, none => "ok"
  model ++ "\t" ++ verdict

end SkimModel.Driver.C01
