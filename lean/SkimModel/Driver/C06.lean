import SkimModel.Model.Reader
import SkimModel.Model.ReaderFns
import SkimModel.Spec.Reader
import SkimModel.Model.Field
import SkimModel.Driver.Util
/-
C06 driver.  Case line (no TAB/newline):

  <lvl>;<term>;<print0>;<ansi>;<with-nth>;<nth>;<delim>;<query>;<reads>;<close>|<tok> <tok> ...

  lvl     lib | cli          lib: SkimItemReader::of_bufread in-process;  cli: the real `sk -f`
  term    line_ending byte, decimal (cli: 10, or 0 = --read0)
  print0  0|1                (cli)
  ansi    0|1
  with-nth, nth   field expressions (digits , . -) or `_`
  delim   hex of the --delimiter regex or `_`
  query   hex of the -f query (lower-case ASCII letters only) or `-`
  reads   comma list of read sizes, cycled: how the stream is cut into `fill_buf` slices (lib)
  close   `_` or k: the consumer goes away after k items (lib) / after k bytes (cli)
  tok     hex bytes; the stream is the concatenation of the tokens

Observation (both sides):
  lib:  `_` or `<text>:<output>` per received item, blank separated, hex ("-" = empty);
        text is `?` when --with-nth is set (the shown text is then C12's subject)
  cli:  `rc=<exit code>;<hex of stdout>`
-/
namespace SkimModel.Driver.C06
open SkimModel.Reader SkimModel.Driver

def hexVal (c : Char) : Option Nat :=
  if '0' ≤ c && c ≤ '9' then some (c.toNat - 48)
  else if 'a' ≤ c && c ≤ 'f' then some (c.toNat - 87)
  else if 'A' ≤ c && c ≤ 'F' then some (c.toNat - 55)
  else none

def decHexGo : List Char → Option Bytes
  | [] => some []
  | [_] => none
  | a :: b :: r => do
    let x ← hexVal a
    let y ← hexVal b
    let t ← decHexGo r
    pure (UInt8.ofNat (16 * x + y) :: t)

def decHex (s : String) : Option Bytes :=
  if s == "-" || s == "" then some [] else decHexGo s.toList

def hexDigit (n : Nat) : Char := if n < 10 then Char.ofNat (48 + n) else Char.ofNat (87 + n)

def encHex (b : Bytes) : String :=
  if b.isEmpty then "-" else
  String.ofList (b.flatMap (fun x => [hexDigit (x.toNat / 16), hexDigit (x.toNat % 16)]))

/-- cut `bs` into slices of the given sizes (cycled; size 0 counts as 1) -/
def mkSrc (sizes : List Nat) (bs : Bytes) : Src :=
  let sz := if sizes.isEmpty then [bs.length + 1] else sizes
  let rec go (fuel : Nat) (i : Nat) (bs : Bytes) : Src :=
    match fuel with
    | 0 => if bs.isEmpty then [] else [bs]
    | fuel + 1 =>
      if bs.isEmpty then [] else
      let k := max 1 (sz.getD (i % sz.length) 1)
      bs.take k :: go fuel (i + 1) (bs.drop k)
  go bs.length 0 bs

structure Case where
  lvl : String
  opt : Opt
  print0 : Bool
  query : Bytes
  reads : List Nat
  close : Option Nat
  stream : Bytes
  wnAll : Bool := false    -- --with-nth shows the whole line (`..` / `1..`): parse_transform_fields = identity
  nthFields : List SkimModel.Field.FieldRange := []   -- the --nth expression (used with a query only for the literal delimiter `,`)
  delim : String := "_"

def parse (case : String) : Except String Case :=
  match case.splitOn "|" with
  | [hd, toks] =>
    match hd.splitOn ";" with
    | [lvl, term, p0, ansi, wn, nth, delim, query, reads, close] =>
      match ((toks.splitOn " ").filter (· ≠ "")).mapM decHex, decHex query, term.toNat? with
      | some bss, some q, some t =>
        if t > 255 then .error "bad-term" else
        .ok { lvl := lvl,
              opt := { term := UInt8.ofNat t, ansi := ansi == "1", withNth := wn != "_", nth := nth != "_" },
              print0 := p0 == "1", query := q, reads := decNats reads,
              close := if close == "_" then none else close.toNat?,
              stream := bss.flatten, wnAll := wn == ".." || wn == "1..",
              nthFields := if nth == "_" then [] else
                (nth.splitOn ",").filterMap (fun f => SkimModel.Field.fromStr SkimModel.Field.isAsciiDigit f.toList),
              delim := delim }
      | _, _, _ => .error "bad-hex"
    | _ => .error "bad-header"
  | _ => .error "bad-case"

/-- the executable instance of the library-function parameters; `transform` and `hasAttrs` are
    stand-ins (identity / "contains ESC"): they only influence observations the verdict does not
    pin down (text under --with-nth; output under --ansi together with --with-nth) -/
def fns : Fns :=
  { lossy := lossyImpl, stripAnsi := stripAnsiImpl,
    hasAttrs := fun s => s.contains 0x1b, transform := id }

/-- delimiter matches of the literal delimiter `,` -/
def commaMatches (x : Bytes) : List (Nat × Nat) :=
  (x.zipIdx.filter (fun p => p.1 == 0x2c)).map (fun p => (p.2, p.2 + 1))

/-- does the (one-term, lower-case) query match the item text?  With `--nth` (literal delimiter `,`, no --with-nth) the
    term has to match inside one of the selected fields OF THE ITEM TEXT — under --ansi that is the stripped text
    (DefaultSkimItem::new computes the matching ranges on `text.stripped()`; the engines' loop is `Field.matchChars`). -/
def matchesQ (c : Case) (text : Bytes) : Bool :=
  if !c.opt.nth then subseqFold c.query text else
  match SkimModel.Field.parseMatchingFields text (commaMatches text) c.nthFields with
  | none => false
  | some rs =>
    c.query.isEmpty ||
    rs.any (fun r => subseqFold c.query (SkimModel.Field.sub text (min r.1 text.length) (min r.2 text.length)))

def selOf (c : Case) : Item → Bool := fun it => matchesQ c it.text

def ending (c : Case) : Bytes := if c.print0 then [0] else [10]

def showItem (c : Case) (it : Item) : String :=
  (if c.opt.withNth then "?" else encHex it.text) ++ ":" ++ encHex (it.output fns)


def takeOpt {α} (k : Option Nat) (l : List α) : List α := match k with | some n => l.take n | none => l

/-- MODEL observation -/
def modelOut (c : Case) : String :=
  let src := mkSrc c.reads c.stream
  if c.lvl == "lib" then
    let items := takeOpt c.close (readItems c.opt fns src)
    if items.isEmpty then "_" else " ".intercalate (items.map (showItem c))
  else
    let r := filterMode c.opt fns (selOf c) (ending c) src
    match c.close with
    | none => s!"rc={r.2};{encHex r.1}"
    | some k => s!"rc=*;{encHex (r.1.take k)}"

/-! ### executable spec (judges the IMPLEMENTATION's observation) -/

def endsWithByte (b : UInt8) (p : Bytes) : Bool := p.getLast? == some b

/-- the property's exclusion: a NUL directly before a newline terminator / a CR directly before a
    NUL terminator is unspecified — the line without that byte is accepted as well -/
def altOf (t : UInt8) (line : Bytes) : List Bytes :=
  if t == 10 && endsWithByte 0 line then [line.dropLast]
  else if t == 0 && endsWithByte 13 line then [line.dropLast]
  else []

/-- per line of the SPEC: the acceptable raw lines (first = the specified one) -/
def specEntries (t : UInt8) : List Bytes → List (List Bytes)
  | [] => []
  | [p] => if p.isEmpty then [] else [[p]]
  | p :: q :: ps => (lineOf t p :: altOf t (lineOf t p)) :: specEntries t (q :: ps)

/-- acceptable (text, output) pairs for a raw line; `none` text = not pinned down -/
def accepted (o : Opt) (wnAll : Bool) (raw : Bytes) : List (Option Bytes × Bytes) :=
  let l := lossyImpl raw
  if o.ansi && o.withNth then
    -- exclusion 2 of the property: escape sequences outside the shown fields -> raw line accepted.
    -- Whether they are outside needs the field model (C12) — except when --with-nth shows the
    -- whole line: then nothing is outside and the stripped line is REQUIRED.
    if wnAll then [(none, stripAnsiImpl l)] else [(none, l), (none, stripAnsiImpl l)]
  else if o.withNth then [(none, l)]
  else if o.ansi then [(some (stripAnsiImpl l), stripAnsiImpl l)]
  else [(some l, l)]

def parseImplItem (s : String) : Option (Option Bytes × Bytes) :=
  match s.splitOn ":" with
  | [t, o] => do
    let ob ← decHex o
    if t == "?" then pure (none, ob) else do
      let tb ← decHex t
      pure (some tb, ob)
  | _ => none

def itemOk (o : Opt) (wnAll : Bool) (alts : List Bytes) (it : Option Bytes × Bytes) : Bool :=
  alts.any (fun raw => (accepted o wnAll raw).any (fun a =>
    a.2 == it.2 && (match a.1, it.1 with | some x, some y => x == y | none, _ => true | some _, none => false)))

def isPrefixB : Bytes → Bytes → Bool
  | [], _ => true
  | _ :: _, [] => false
  | a :: as, b :: bs => a == b && isPrefixB as bs

/-- can `out` be produced by choosing, for every spec line, one acceptable record (or nothing when
    that alternative does not match the query)?  `exact = false`: `out` only has to be a prefix -/
def matchOut (exact : Bool) : List (List (Option Bytes)) → Bytes → Bool
  | [], out => out.isEmpty
  | alts :: rest, out =>
    alts.any (fun a =>
      match a with
      | none => matchOut exact rest out
      | some rec =>
        if isPrefixB rec out then matchOut exact rest (out.drop rec.length)
        else (!exact) && isPrefixB out rec)

def cliRecords (c : Case) (alts : List Bytes) : List (Option Bytes) :=
  alts.flatMap (fun raw =>
    let l := lossyImpl raw
    let text := if c.opt.ansi then stripAnsiImpl l else l     -- (with-nth: only the empty query is generated)
    if matchesQ c text then (accepted c.opt c.wnAll raw).map (fun a => some (a.2 ++ ending c))
    else [none])

def verdict (c : Case) (impl : String) : String :=
  if impl.startsWith "panic" then "bad:panic" else
  let entries := specEntries c.opt.term (pieces c.opt.term c.stream)
  if c.lvl == "lib" then
    let got := if impl == "_" then some [] else ((impl.splitOn " ").filter (· ≠ "")).mapM parseImplItem
    match got with
    | none => "bad:unparsable-observation"
    | some items =>
      let want := takeOpt c.close entries
      if items.length != want.length then s!"bad:item-count-{items.length}-expected-{want.length}"
      else
        match (List.zip want items).findIdx? (fun p => !itemOk c.opt c.wnAll p.1 p.2) with
        | some i => s!"bad:item-{i}-is-not-line-{i}"
        | none => "ok"
  else
    match impl.splitOn ";" with
    | [rc, outHex] =>
      match decHex outHex with
      | none => "bad:unparsable-observation"
      | some out =>
        let recs := entries.map (fun e => (cliRecords c e).eraseDups)   -- (duplicates would make the search exponential)
        match c.close with
        | none =>
          if !matchOut true recs out then "bad:stdout-is-not-the-matching-lines-in-order"
          else if rc != (if out.isEmpty then "rc=1" else "rc=0") then "bad:exit-code"
          else "ok"
        | some _ =>
          if matchOut false recs out then "ok" else "bad:stdout-is-not-a-prefix-of-the-matching-lines"
    | _ => "bad:unparsable-observation"

def handle (case : String) (impl : String) : Except String (String × String) :=
  match parse case with
  | .error e => .error e
  | .ok c =>
    -- lvl `rdr`: contention runs of the real Reader: "done" is never answered while lines are buffered, nothing is lost or doubled
    -- (the Session model's `readerDone`: collector finished AND buffer drained, read as one atomic observation)
    if c.lvl == "rdr" then
      .ok ("stale=0 miscounted=0", if impl == "stale=0 miscounted=0" then "ok" else "bad:reader-done-while-lines-are-buffered-or-lines-lost")
    else
    if (c.opt.withNth || (c.opt.nth && c.delim != "2c")) && !c.query.isEmpty then .error "query-with-fields-unsupported"
    else .ok (modelOut c, verdict c impl)

end SkimModel.Driver.C06
