import SkimModel.Driver.Util
import SkimModel.Spec.Editor
namespace SkimModel.Driver.C18
open SkimModel.Editor SkimModel.Driver

/-- classification table shared with the harness generator: only these characters are generated -/
def cls : Cls :=
  { isAlnum := fun c => c.isAlphanum || c == 'é' || c == '中',
    isWs := fun c => c == ' ' || c == '\t' || c == '　' }

def parseAction (t : String) : Option Action :=
  match t.splitOn ":" with
  | ["add", n] => n.toNat?.map (fun k => .addChar (Char.ofNat k))
  | ["del"] => some .deleteChar
  | ["bch"] => some .backwardChar
  | ["bdel"] => some .backwardDeleteChar
  | ["bkw"] => some .backwardKillWord
  | ["bw"] => some .backwardWord
  | ["bol"] => some .beginningOfLine
  | ["eol"] => some .endOfLine
  | ["fch"] => some .forwardChar
  | ["fw"] => some .forwardWord
  | ["kl"] => some .killLine
  | ["kw"] => some .killWord
  | ["ph"] => some .previousHistory
  | ["nh"] => some .nextHistory
  | ["uld"] => some .unixLineDiscard
  | ["uwr"] => some .unixWordRubout
  | ["yank"] => some .yank
  | ["ti"] => some .toggleInteractive
  | ["ps"] => some .pasteStart
  | ["pe"] => some .pasteEnd
  | _ => none

def showMode : Mode → String | .query => "q" | .cmd => "c"

def obsEd (e : Ed) : String :=
  s!"{encStr e.fz.line}:{e.fz.before.length}:{encStr e.cmd.line}:{e.cmd.before.length}:{showMode e.mode}"

def obsSEd (e : SEd) : String :=
  s!"{encStr e.fz.line}:{e.fz.cur}:{encStr e.cmd.line}:{e.cmd.cur}:{showMode e.mode}"

/-- histories arrive oldest first (as in `SkimOptions::query_history`); the stack top is the last -/
def initEd (fz cmd : List Char) (fh ch : List (List Char)) (inter : Bool) : Ed :=
  { fz := { before := fz.reverse }, cmd := { before := cmd.reverse },
    fzH := { before := fh.reverse }, cmdH := { before := ch.reverse },
    mode := if inter then .cmd else .query }

/-- returns (model observations, reference-editor observations) -/
def handle (case : String) : Except String (String × String) :=
  match case.splitOn "|" with
  | [hd, acts] =>
    match hd.splitOn ";" with
    | [fz, cmd, fh, ch, inter] =>
      let e0 := initEd (decStr fz) (decStr cmd) (decList fh) (decList ch) (inter == "1")
      let toks := (acts.splitOn " ").filter (· ≠ "")
      match toks.mapM parseAction with
      | none => .error "bad-op"
      | some as =>
        let step (st : Ed × SEd × List String × List String) (a : Action) :=
          let e := act cls st.1 a
          let s := specAct cls st.2.1 a
          (e, s, obsEd e :: st.2.2.1, obsSEd s :: st.2.2.2)
        let r := as.foldl step (e0, e0.abs, [obsEd e0], [obsSEd e0.abs])
        .ok (" ".intercalate r.2.2.1.reverse, " ".intercalate r.2.2.2.reverse)
    | _ => .error "bad-case"
  | _ => .error "bad-case"

end SkimModel.Driver.C18
