import SkimModel.Driver.C04
import SkimModel.Driver.C12
import SkimModel.Spec.Positions
/-
C08 driver.  Case line (`;`-separated):

  <mode>;<exact 0|1>;<case s|r|i>;<algo 1|2|c>;<query>;<text>;<delim>;<nth>;<W>;<tabstop>;<flags>

  mode  t = AndOrEngineFactory(ExactOrFuzzyEngineFactory)   e = ExactOrFuzzyEngineFactory alone (the query is ONE term)
        r = RegexEngineFactory
  nth   `_` | dot-encoded FieldRange strings joined by `,` (DefaultSkimItem) | `@s-e,…` raw byte ranges (custom item)
  flags `-` or letters: h = no_hscroll, k = keep_right

The implementation's answer (harness/src/c08.rs) is a `;`-separated list of `key=value`:
  it   item.text() bytes                      mr   item.get_matching_ranges()        (both PARAMETERS: C12's business)
  st   engine tree recovered from Display     (diffed against the model's own parse, as in C03/C04)
  raw  answers of the external matchers per leaf (`/`) and clipped range (`,`)       (PARAMETER; its contract is checked)
  res  matched_range   rk  rank under the probe builder [Score, Begin, End, Length]
  hl   highlighted char indices of `item.display(ctx).iter()`
  ws   display widths (PARAMETER)             cv   canvas cells of the drawn row      (judged, not predicted)
-/
namespace SkimModel.Driver.C08
open SkimModel.Engine SkimModel.Field SkimModel.Positions SkimModel.Driver
open SkimModel.Driver.C03 (parseCase parseAlgo showEngine)
open SkimModel.Driver.C04 (showQuery)
open SkimModel.Driver.C12 (encBytes decBytes encPairs decPairs decPair fieldsOf lookup decodeUtf8)

/-- one raw answer of an external matcher -/
inductive Raw
  | miss                                  -- `n`
  | noMatcher                             -- `-`
  | unsliceable                           -- `x`
  | span (s e : Nat)
  | idx (score : Int) (v : List Nat)
  deriving Repr, Inhabited

def parseRaw (s : String) : Option Raw :=
  if s == "n" then some .miss
  else if s == "-" then some .noMatcher
  else if s == "x" then some .unsliceable
  else match s.splitOn ":" with
    | [sc, v] =>
      match sc.toInt? with
      | some k => some (.idx k (if v == "e" then [] else (v.splitOn ".").filterMap String.toNat?))
      | none => none
    | [p] => (decPair p).map (fun q => .span q.1 q.2)
    | _ => none

def parseRawLeaf (s : String) : Option (List Raw) :=
  if s == "_" then some [] else (s.splitOn ",").mapM parseRaw

structure Case where
  mode : String
  cfg : Cfg
  query : List Char
  x : List Char
  width : Nat
  tabstop : Nat
  noHscroll : Bool
  keepRight : Bool

def parseCaseLine (case : String) : Except String Case :=
  match case.splitOn ";" with
  | [mode, ex, cm, al, q, t, _delim, _nth, w, ts, fl] =>
    match parseCase cm, parseAlgo al, w.toNat?, ts.toNat? with
    | some cm, some al, some w, some ts =>
      .ok { mode, cfg := { exactMode := ex == "1", case := cm, algo := al }, query := decStr q, x := decStr t,
            width := w, tabstop := ts, noHscroll := fl.contains 'h', keepRight := fl.contains 'k' }
    | _, _, _, _ => .error "bad-cfg"
  | _ => .error "bad-case"

/-- the model's parse of the query: structure string (as C03/C04 render it) and the leaves, alternative by alternative.
    Regex mode: `implSt` tells whether `Regex::new` succeeded (oracle): the displayed pattern is empty iff it failed,
    except for the empty pattern itself. -/
def modelTree (c : Case) (implSt : String) : String × List (List Leaf) × Bool :=
  if c.mode == "r" then
    let pat := regexPattern c.cfg.case c.query
    let shown := "V:R:" ++ encStr pat
    if implSt == shown || pat.isEmpty then (shown, [[.regex true]], true)
    else if implSt == "V:R:-" then ("V:R:-", [[.regex false]], true)
    else (shown, [[.regex true]], true)
  else if c.mode == "e" then
    let e := decodeTerm c.cfg.exactMode c.query
    ("V:" ++ showEngine c.cfg.case e, [[.term e]], true)
  else
    let pq := parseQuery c.query
    match pq with
    | .verbatim t => (showQuery c.cfg pq, [[.term (decodeTerm c.cfg.exactMode t)]], true)
    | .alts as => (showQuery c.cfg pq, as.map (fun a => a.map (fun t => .term (decodeTerm c.cfg.exactMode t))), false)

/-- the external matchers of one leaf as lookup tables over the slices the harness evaluated -/
def extOf (slices : List (Option Bytes)) (answers : List Raw) : Ext :=
  let tab := slices.zip answers
  { find := fun sl => match tab.find? (fun p => p.1 == some sl) with
      | some (_, .span s e) => some (s, e)
      | _ => none,
    fz := fun sl => match tab.find? (fun p => p.1 == some sl) with
      | some (_, .idx _ v) => some v
      | _ => none }

/-- attach the raw answers to the leaves (in order) -/
def attach (slices : List (Option Bytes)) : List (List Leaf) → List (List Raw) → List (List (Leaf × Ext)) × List (List Raw)
  | [], rest => ([], rest)
  | a :: as, raws =>
    let here := a.zip ((raws.take a.length).map (extOf slices))
    let r := attach slices as (raws.drop a.length)
    (here :: r.1, r.2)

def showRange : MatchRange → String
  | .bytes b e => s!"B{b}-{e}"
  | .chars v => "C" ++ encNats v

def parseRange (s : String) : Option MatchRange :=
  match s.toList with
  | 'B' :: r => (decPair (String.ofList r)).map (fun p => .bytes p.1 p.2)
  | 'C' :: r => some (.chars (decNats (String.ofList r)))
  | _ => none

def parseWidths (s : String) : List (Option Nat) :=
  if s == "-" || s == "" then [] else (s.splitOn ".").map (fun t => if t == "t" then none else some (t.toNat?.getD 1))

def parseCells (s : String) : List (Nat × Bool) :=
  if s == "-" || s == "" || s == "E" || s == "P" then [] else
  (s.splitOn ".").map (fun t =>
    if t.endsWith "h" then ((t.dropEnd 1).toString.toNat?.getD 0, true) else (t.toNat?.getD 0, false))

/-- score the fuzzy engine reports: 0 for the empty pattern, else the matcher's score on the first slice it accepts -/
def fuzzyScore (body : List Char) (slices : List (Option Bytes)) (answers : List Raw) : Option Int :=
  if body.isEmpty then some 0 else
  match (slices.zip answers).find? (fun p => match p.1, p.2 with
      | some sl, .idx _ _ => !sl.isEmpty
      | _, _ => false) with
  | some (_, .idx k _) => some k
  | _ => none

def showInts (l : List Int) : String := ",".intercalate (l.map toString)

/-- is `a` an infix of `b`? -/
def isInfix (a : List Nat) : List Nat → Bool
  | [] => a.isEmpty
  | c :: cs => a.isPrefixOf (c :: cs) || isInfix a cs

/-- the cells the highlighted characters occupy when nothing is hidden: the character itself, a tab as
    the blanks it expands to -/
def expectedHl (x : List Char) (acc : List Nat) (idx : List Nat) : List Nat :=
  idx.flatMap (fun i =>
    match x[i]? with
    | some c =>
      if c == '\t' then List.replicate (acc.getD i 0 - (if i == 0 then 0 else acc.getD (i - 1) 0)) 32
      else [c.toNat]
    | none => [0x110000])

structure Parsed where
  c : Case
  text : Bytes
  ranges : Option (List (Nat × Nat))
  slices : List (Option Bytes)
  stModel : String
  leaves : List (List Leaf)
  raws : List (List Raw)
  tree : Tree
  single : Bool

def build (c : Case) (kv : List (String × String)) : Except String Parsed := do
  let it ← (lookup kv "it").elim (.error "no-it") .ok
  let text := decBytes it
  let mrS ← (lookup kv "mr").elim (.error "no-mr") .ok
  let ranges ← if mrS == "N" then .ok none else (decPairs mrS).elim (.error "bad-mr") (fun v => .ok (some v))
  let st := (lookup kv "st").getD ""
  let rawS := (lookup kv "raw").getD ""
  let (stModel, leaves, single) := modelTree c st
  let slices := (clipped text ranges).map (fun p => slice text p.1 p.2)
  let raws ← if rawS == "?" || rawS == "" then .ok [] else
    ((rawS.splitOn "/").mapM parseRawLeaf).elim (.error "bad-raw") .ok
  let (alts, _) := attach slices leaves raws
  let tree := if single then
      match alts with
      | [[l]] => Tree.leaf l
      | _ => Tree.alts alts
    else Tree.alts alts
  .ok { c, text, ranges, slices, stModel, leaves, raws, tree, single }

/-- the model's answer in the harness format -/
def modelOut (p : Parsed) (kv : List (String × String)) : String :=
  let echo := fun k => (lookup kv k).getD ""
  let implRk := (echo "rk").splitOn ","
  let (res, rk, hl, cv) :=
    match treeMatch p.text p.ranges p.tree with
    | none => ("P", "-", "-", "-")
    | some none => ("N", "-", "-", "-")
    | some (some r) =>
      let keys := rankKeys r.first
      let score : String :=
        match r.first with
        | .bytes b e => toString (-( (e : Int) - (b : Int)))
        | .chars _ =>
          -- the leaf that produced `first` is the first leaf of the alternative that matched; its score is external
          let flat := p.leaves.flatten.zip p.raws
          let cand := flat.filterMap (fun (lr : Leaf × List Raw) => match lr.1 with
            | .term (.fuzzy body) => (fuzzyScore body p.slices lr.2).map (fun k => toString (-k))
            | _ => none)
          -- the score of a fuzzy term is external (fuzzy-matcher; it depends on the case handling of the matcher the engine was built
          -- with, which the harness' own raw query does not always reproduce): it is echoed, not predicted.  Begin / end / length ARE predicted.
          let _ := cand
          implRk.headD ""
      let rk := s!"{score},{keys.1},{keys.2},{p.text.length}"
      let hl := match highlighted p.text r.range with
        | none => "P"
        | some v => encNats v
      let cv := match drawShift p.text (parseWidths (echo "ws")) (p.c.width - 2) (max 1 p.c.tabstop) p.c.noHscroll
                  p.c.keepRight 0 r.range with
        | none => "P"
        | some _ => echo "cv"
      (showRange r.range, rk, hl, cv)
  s!"it={echo "it"};mr={echo "mr"};st={p.stModel};raw={echo "raw"};res={res};rk={rk};hl={hl};ws={echo "ws"};cv={cv}"

/-- contract check of the raw answers of one leaf -/
def contractOk (cfg : Cfg) (slices : List (Option Bytes)) : Leaf → List Raw → Bool
  | leaf, answers =>
    (slices.zip answers).all (fun p =>
      match p.1, p.2 with
      | none, _ => true
      | some sl, .span s e =>
        match leaf with
        | .term (.exact body pre post _) =>
          litAnswerOk (caseSensitive cfg.case body) pre post (utf8 body) sl (some (s, e))
        | .regex _ => reAnswerOk sl (some (s, e))
        | _ => false
      | some sl, .idx _ v =>
        match leaf with
        | .term (.fuzzy body) =>
          let y := decodeUtf8 sl
          utf8 y == sl && fzAnswerOk (fuzzyCaseSensitive cfg body) body y (some v)
        | _ => false
      | some _, _ => true)

/-- the executable spec: verdict on the implementation's answer -/
def verdict (p : Parsed) (kv : List (String × String)) : String := Id.run do
  let echo := fun k => (lookup kv k).getD ""
  let c := p.c
  if utf8 c.x != p.text then return "bad:item-text-is-not-the-utf8-of-the-line"
  if echo "res" == "P" then return "bad:panic-in-match_item"
  if echo "hl" == "P" then return "bad:panic-in-display"
  if echo "cv" == "P" then return "bad:panic-in-draw"
  -- the external matchers kept their contracts on every slice
  let flat := p.leaves.flatten
  if flat.length != p.raws.length then return "error:raw-leaf-count"
  if !(flat.zip p.raws).all (fun lr => contractOk c.cfg p.slices lr.1 lr.2) then return "bad:contract-of-external-matcher"
  if echo "res" == "N" then return "ok"
  let some r := parseRange (echo "res") | return "bad:malformed-res"
  -- first sentence of C08
  if !validPositions p.text r then return "bad:invalid-positions"
  -- the witness
  let nchars := charCount p.text
  if p.single then
    match flat with
    | [leaf] => if !leafReportOk c.cfg c.x p.text p.ranges leaf r then return "bad:not-a-witness"
    | _ => return "error:single-leaf"
  else
    -- a multi-term alternative: sorted union of its terms' positions, each of them a valid report of its leaf
    let (alts, _) := attach p.slices p.leaves p.raws
    let firstHit := alts.findSome? (fun a =>
      match andCollect p.text p.ranges a with
      | some (some (q :: qs)) => some (a.map (·.1), q :: qs)
      | _ => none)
    match firstHit, r with
    | some (ls, rs), .chars v =>
      if !(ls.zip rs).all (fun lr => leafReportOk c.cfg c.x p.text p.ranges lr.1 lr.2) then
        return "bad:term-position-not-a-witness"
      match rs.mapM (rangeCharIndices p.text) with
      | some parts => if !isSortedUnion v parts then return "bad:not-the-sorted-union"
      | none => return "bad:term-range-unsliceable"
    | _, _ => return "bad:union-expected"
  -- rank keys
  let rk := (echo "rk").splitOn ","
  match rk with
  | [_, b, e, l] =>
    match b.toNat?, e.toNat?, l.toNat? with
    | some b, some e, some l =>
      if !(b ≤ e && e ≤ p.text.length && l == p.text.length) then return "bad:rank-keys-outside-text"
    | _, _, _ => return "bad:rank-keys-negative"
  | _ => return "bad:malformed-rank"
  -- the highlight = the reported characters
  let some idx := rangeCharIndices p.text r | return "bad:report-unsliceable"
  if echo "hl" != encNats idx then return "bad:highlight-differs-from-report"
  if !idx.all (· < nchars) then return "bad:report-outside-text"
  -- the canvas
  let cvS := echo "cv"
  if cvS != "E" then
    let cells := parseCells cvS
    let ws := parseWidths (echo "ws")
    let acc := accWidth (max 1 c.tabstop) 0 ws
    let seen := (cells.filter (fun q => q.2 && q.1 != 0)).map (·.1)
    let want := expectedHl c.x acc idx
    let plain := ws.all (fun w => w != some 0) && !c.x.contains (Char.ofNat 8)
    let full := acc.getLastD 0
    if plain then
      if full ≤ c.width - 2 then
        if seen != want then return "bad:canvas-highlight-differs"
      else
        if !isInfix (seen.filter (· != 46)) (want.filter (· != 46)) then return "bad:canvas-highlight-not-a-window-of-report"
  return "ok"

def answer (case impl : String) : String :=
  match parseCaseLine case with
  | .error e => "error:" ++ e ++ "\terror"
  | .ok c =>
    if impl.startsWith "panic" then "?\tbad:panic"
    else if impl.startsWith "error" then "?\terror"
    else
      let kv := fieldsOf impl
      match build c kv with
      | .error e => "error:" ++ e ++ "\terror"
      | .ok p => modelOut p kv ++ "\t" ++ verdict p kv

end SkimModel.Driver.C08
