import SkimModel.Driver.C03
import SkimModel.Spec.Query
/-
C04 line protocol.
  case  = `<exact 0|1>;<case s|r|i>;<algo 1|2|c>;<query>;<text>,<text>,…;<expected AST or ?>`
          expected AST (known to the generator that rendered it): alternatives joined by `/`,
          terms by `+`, each term dot-encoded; `=` for an alternative without terms
  impl  = `<structure>;<verdict bits>`
  structure = `O:` alternatives joined by `/`, terms joined by `+`, each term as in C03
              (`A`, `F:…`, `E:…`); `V:<term>` when the query is blank-only (passed verbatim)
-/
namespace SkimModel.Driver.C04
open SkimModel.Engine SkimModel.Driver SkimModel.Driver.C03

def showAst (cfg : Cfg) (ast : Ast) : String :=
  "O:" ++ "/".intercalate (ast.map (fun alt =>
    "+".intercalate (alt.map (fun t => showEngine cfg.case (decodeTerm cfg.exactMode t)))))

def showQuery (cfg : Cfg) : Query → String
  | .verbatim t => "V:" ++ showEngine cfg.case (decodeTerm cfg.exactMode t)
  | .alts as => showAst cfg as

def decAst (s : String) : Ast :=
  (s.splitOn "/").map (fun a => if a == "=" || a == "" then [] else (a.splitOn "+").map decStr)

def handle (case impl : String) : Except String (String × String) :=
  match case.splitOn ";" with
  | [ex, cm, al, query, texts, expect] =>
    match parseCase cm, parseAlgo al with
    | some cm, some al =>
      let cfg : Cfg := { exactMode := ex == "1", case := cm, algo := al }
      let q := decStr query
      let texts := decList texts
      let implParts := impl.splitOn ";"
      let implStruct := implParts.getD 0 ""
      let implBits := (implParts.getD 1 "").toList.map (· == '1')
      let pq := parseQuery q
      let modelBits := texts.map (queryVerdict cfg pq)
      -- the spec: on the AST the generator rendered (when known), else on the parsed AST;
      -- blank-only queries are outside C04 (handed verbatim to the term engine): C03's spec
      let (specBits, structOk) :=
        if expect == "?" then
          match pq with
          | .verbatim t => (texts.map (termSpecB cfg t), true)
          | .alts as => (texts.map (astSpecB cfg as), true)
        else
          let ast := decAst expect
          (texts.map (astSpecB cfg ast), implStruct == showAst cfg ast)
      let verdict :=
        if impl.startsWith "panic" then "bad:panic"
        else if implBits.length != texts.length then "bad:malformed-output"
        else if !structOk then "bad:parsed-structure-differs-from-rendered-ast"
        else if implBits == specBits then "ok"
        else "bad:query-verdict:spec=" ++ bits specBits
      .ok (showQuery cfg pq ++ ";" ++ bits modelBits, verdict)
    | _, _ => .error "bad-cfg"
  | _ => .error "bad-case"

end SkimModel.Driver.C04
