import SkimModel.Driver.Util
import SkimModel.Spec.Merge
/-
C17 line protocol.  Attributes travel as small tags: 0 = `Attr::default()`, t ≥ 1 = fg AnsiValue(t).
Fragment lists: `t:s:e t:s:e …` (`_` = empty).  Case = `<kind>[;hdr…]|<A>|<B>`:
  M|old|new                      merge_fragments(old,new)                          -> fragment list
  O;<text>|old|new               new_string(text,old); override_attrs(new); iter() -> <text>;<tags>
  D;<text>;<hl>|<tags>|<matches> DefaultSkimItem (ANSI text rendered from per-char tags)::display -> <text>;<tags>
  F;<text>;<hl>|_|<matches>      AnsiString::from(DisplayContext)                  -> <text>;<tags>
matches: none | ci:i,i,i | cr:s:e | br:s:e      (a slicing panic is the output `panic`)

Observable level.  The property observes attributes per character and the orderedness of the resulting ranges,
not the exact fragment vector.  For `M` on ordered inputs the model column therefore repeats the implementation's
vector whenever that vector is ordered and denotes the same character -> attribute function as the model's
(`sameDenotation`): a rewrite of `merge_fragments` that, say, keeps or drops an empty fragment is not a
disagreement.  On unordered inputs (no claim by the property) the vectors are compared literally.
-/
namespace SkimModel.Driver.C17
open SkimModel.Merge SkimModel.Driver

abbrev F := Frag Nat

def parseFrag (t : String) : Option F :=
  match t.splitOn ":" with
  | [a, s, e] =>
    match a.toNat?, s.toNat?, e.toNat? with
    | some a, some s, some e => some ⟨a, s, e⟩
    | _, _, _ => none
  | _ => none

def parseFrags (s : String) : Option (List F) :=
  if s == "_" || s == "" then some [] else ((s.splitOn " ").filter (· ≠ "")).mapM parseFrag

def showFrags (fs : List F) : String :=
  if fs.isEmpty then "_" else " ".intercalate (fs.map fun f => s!"{f.attr}:{f.start}:{f.stop}")

def parseMatches (s : String) : Option Matches :=
  match s.splitOn ":" with
  | ["none"] => some .none
  | ["ci", l] => some (.charIndices (decNats l))
  | ["cr", a, b] => match a.toNat?, b.toNat? with
    | some a, some b => some (.charRange a b)
    | _, _ => none
  | ["br", a, b] => match a.toNat?, b.toNat? with
    | some a, some b => some (.byteRange a b)
    | _, _ => none
  | _ => none

/-- what `ANSIParser::parse_ansi` leaves for a text whose colour changes are rendered one SGR per change:
    one fragment per maximal run of equal attribute, default runs included (validated by the tie) -/
def runsGo : Nat → Nat → Nat → List Nat → List F
  | s, k, cur, [] => if s < k then [⟨cur, s, k⟩] else []
  | s, k, cur, t :: ts =>
    if t = cur then runsGo s (k + 1) cur ts
    else (if s < k then [⟨cur, s, k⟩] else []) ++ runsGo k (k + 1) t ts

def runs (tags : List Nat) : List F := runsGo 0 0 0 tags

def showIter (text : List Char) (tags : List Nat) : String := encStr text ++ ";" ++ encNats tags

def maxStop (fs : List F) : Nat := fs.foldl (fun m f => max m (max f.start f.stop)) 0

/-- first character index below `n` at which two attribute functions differ -/
def firstDiff (n : Nat) (f g : Nat → Nat) : Option Nat := (List.range n).find? (fun k => f k != g k)

/-- two fragment vectors denote the same character -> attribute function (exact for ordered vectors: beyond the
    largest coordinate both are `default`) -/
def sameDenotation (a b : List F) : Bool :=
  let n := max (maxStop a) (maxStop b) + 2
  (firstDiff n (lookup 0 a) (lookup 0 b)).isNone

/-- the model column for `M` (see the header) -/
def mergeColumn (old new : List F) (impl : String) : String :=
  let m := mergeFragments old new
  if orderedB old && orderedB new then
    match parseFrags impl with
    | some out => if orderedB out && sameDenotation out m then impl else showFrags m
    | none => showFrags m
  else showFrags m

/-- verdict on the IMPLEMENTATION's merged list: ordered, and the pointwise law both through the declarative
    lookup and through the iterator walk -/
def judgeMerge (old new : List F) (impl : String) : String :=
  if !(orderedB old && orderedB new) then "ok" else
  match parseFrags impl with
  | none => "bad:unparsable-output"
  | some out =>
    if !orderedB out then "bad:result-not-ordered" else
    let n := max (maxStop old) (max (maxStop new) (maxStop out)) + 2
    match firstDiff n (lookup 0 out) (specAttr 0 old new) with
    | some k => s!"bad:pointwise-law-fails-at-char-{k}"
    | none =>
      if iterAttrs 0 (some out) n == specAttrs 0 old new n then "ok" else "bad:iterator-walk-differs-from-spec"

def judgeIter (text : List Char) (spec : List Nat) (impl : String) : String :=
  if impl == showIter text spec then "ok" else
  match impl.splitOn ";" with
  | [t, tags] =>
    if t != encStr text then "bad:characters-changed" else
    let got := decNats tags
    match firstDiff text.length (fun k => got.getD k 9999) (fun k => spec.getD k 0) with
    | some k => s!"bad:pointwise-law-fails-at-char-{k}"
    | none => "bad:wrong-number-of-characters"
  | _ => "bad:" ++ (if impl.startsWith "panic" then "panic" else "unparsable-output")

/-- returns (model output, verdict on the implementation's output) -/
def handle (case impl : String) : Except String (String × String) :=
  match case.splitOn "|" with
  | [hd, a, b] =>
    match hd.splitOn ";" with
    | ["M"] =>
      match parseFrags a, parseFrags b with
      | some old, some new => .ok (mergeColumn old new impl, judgeMerge old new impl)
      | _, _ => .error "bad-frags"
    | ["O", text] =>
      match parseFrags a, parseFrags b with
      | some old, some new =>
        let text := decStr text
        let res := overrideAttrs (mkAnsi 0 old) new
        let out := showIter text (iterAttrs 0 res text.length)
        let v := if orderedB old && orderedB new then judgeIter text (specAttrs 0 old new text.length) impl else "ok"
        .ok (out, v)
      | _, _ => .error "bad-frags"
    | [kind, text, hl] =>
      let text := decStr text
      match hl.toNat?, parseMatches b with
      | some hl, some m =>
        let tags := if kind == "D" then decNats a else List.replicate text.length 0
        if tags.length != text.length then .error "bad-tags" else
        let r := if kind == "D" then display hl text (mkAnsi 0 (runs tags)) m
                 else if kind == "F" then fromContext 0 hl text m else none
        if kind != "D" && kind != "F" then .error "bad-kind" else
        match r, newFragments hl text m with
        | some res, some new =>
          let out := showIter text (iterAttrs 0 res text.length)
          let spec := (List.range text.length).map fun k =>
            match findCover new k with
            | some f => f.attr
            | none => tags.getD k 0
          .ok (out, if orderedB new then judgeIter text spec impl else "ok")
        | _, _ => .ok ("panic", "ok")
      | _, _ => .error "bad-header"
    | _ => .error "bad-case"
  | _ => .error "bad-case"

end SkimModel.Driver.C17
