import SkimModel.Driver.Util
import SkimModel.Spec.OrderedVec
import SkimModel.Generated.OrderedVec
/-
C02 driver.  Case line:  `<tac><nosort>[<m>]|<op> <op> …`   (tac, nosort ∈ {0,1}; m ∈ {0,1,2}: m = 1 makes the harness use real
  `MatchedItem`s whose rank array is a monotone image of the key, m = 2 drives the list widget `Selection` configured with
  `options.tac/nosort` — the model is the same)
  ops:  `a:<batch>`  append     batch = `_` (empty) or comma-separated pieces `k` | `k*n` (n copies) | `lo~hi` (lo … hi-1)
        `g:<i>`      get(i)     `l` len     `i` iter (consumed to the end)     `c` clear
Every appended item gets the next id (0,1,2,… over the whole case, never reused); items are ordered by key only.
Answers, one token per op:  `-` | `L<n>` | `N` | `S<key>:<id>` | `P` | `I<key>:<id>,…` (`I_` empty, `I!…` panicked).
-/
namespace SkimModel.Driver.C02
open SkimModel.OrderedVec SkimModel.Driver

abbrev Item := Int × Nat

def leI (a b : Item) : Bool := decide (a.1 ≤ b.1)
def keyI (a : Item) : Int := a.1
/-- a linear order on items (key, then id), used only by the permutation test -/
def totI (a b : Item) : Bool := decide (a.1 < b.1) || (decide (a.1 = b.1) && decide (a.2 ≤ b.2))

def parsePiece (t : String) : Option (List Int) :=
  match t.splitOn "~" with
  | [lo, hi] => do
    let l ← lo.toInt?
    let h ← hi.toInt?
    pure ((List.range (h - l).toNat).map (fun (d : Nat) => l + Int.ofNat d))
  | _ =>
    match t.splitOn "*" with
    | [k, n] => do
      let k ← k.toInt?
      let n ← n.toNat?
      pure (List.replicate n k)
    | [k] => k.toInt?.map (fun x => [x])
    | _ => none

def parseBatch (t : String) : Option (List Int) :=
  if t == "_" || t == "" then some [] else
  ((t.splitOn ",").mapM parsePiece).map List.flatten

/-- op with raw keys (ids are assigned while folding) -/
inductive ROp | append (ks : List Int) | get (i : Nat) | len | iter | clear

def parseOp (t : String) : Option ROp :=
  match t.splitOn ":" with
  | ["a", b] => (parseBatch b).map .append
  | ["g", i] => i.toNat?.map .get
  | ["l"] => some .len
  | ["i"] => some .iter
  | ["c"] => some .clear
  | _ => none

def assignIds : Nat → List ROp → List (Op Item)
  | _, [] => []
  | n, .append ks :: ops =>
    .append ((List.range ks.length).zipWith (fun d k => (k, n + d)) ks) :: assignIds (n + ks.length) ops
  | n, .get i :: ops => .get i :: assignIds n ops
  | n, .len :: ops => .len :: assignIds n ops
  | n, .iter :: ops => .iter :: assignIds n ops
  | n, .clear :: ops => .clear :: assignIds n ops

def showItem (a : Item) : String := s!"{a.1}:{a.2}"

def showOut : Out Item → String
  | .unit => "-"
  | .len n => s!"L{n}"
  | .got .none => "N"
  | .got (.some a) => "S" ++ showItem a
  | .got .panic => "P"
  | .items l p => "I" ++ (if p then "!" else "") ++ (if l.isEmpty then "_" else ",".intercalate (l.map showItem))

def parseItem (t : String) : Option Item :=
  match t.splitOn ":" with
  | [k, i] => do
    let k ← k.toInt?
    let i ← i.toNat?
    pure (k, i)
  | _ => none

def parseOut (t : String) : Option (Out Item) :=
  if t == "-" then some .unit
  else if t == "N" then some (.got .none)
  else if t == "P" then some (.got .panic)
  else if t.startsWith "L" then (t.drop 1).toString.toNat?.map .len
  else if t.startsWith "S" then (parseItem (t.drop 1).toString).map (fun a => .got (.some a))
  else if t.startsWith "I!" then some (.items [] true)
  else if t == "I_" then some (.items [] false)
  else if t.startsWith "I" then (((t.drop 1).toString.splitOn ",").mapM parseItem).map (fun l => .items l false)
  else none

def cfgOf (hd : String) : Option Cfg :=
  let mk (t n : Char) : Option Cfg :=
    if (t == '0' || t == '1') && (n == '0' || n == '1') then
      some { tac := t == '1', nosort := n == '1', maxMove := SkimModel.Generated.OrderedVec.maxMovement }
    else none
  match hd.toList with
  | [t, n] => mk t n
  | [t, n, m] => if m == '0' || m == '1' || m == '2' then mk t n else none   -- m: harness-side item type / entry point, same model
  | _ => none

/-- first op (0-based) whose observed answer the spec rejects -/
def firstBad (c : Cfg) : Nat → List Item → List (Op Item) → List (Out Item) → Option Nat
  | _, _, [], [] => none
  | n, arr, op :: ops, o :: os =>
    let r := specStep leI c arr op
    if accepts keyI totI c arr r.2 o then firstBad c (n + 1) r.1 ops os else some n
  | n, _, _, _ => some n

/-- returns (model answers, verdict on the implementation's answers) -/
def handle (case : String) (impl : String) : Except String (String × String) :=
  match case.splitOn "|" with
  | [hd, opsS] =>
    match cfgOf hd with
    | none => .error "bad-config"
    | some c =>
      let toks := (opsS.splitOn " ").filter (· ≠ "")
      match toks.mapM parseOp with
      | none => .error "bad-op"
      | some rops =>
        let ops := assignIds 0 rops
        let m := (run leI c {} ops).2
        let mo := " ".intercalate (m.map showOut)
        let verdict :=
          if impl.startsWith "panic:" then "bad:panic"
          else
            match ((impl.splitOn " ").filter (· ≠ "")).mapM parseOut with
            | none => "bad:unreadable-answer"
            | some outs =>
              if outs.length ≠ ops.length then "bad:answer-count" else
              if acceptsAll leI keyI totI c [] ops outs then "ok" else
              match firstBad c 0 [] ops outs with
              | none => "bad:rejected"
              | some n => s!"bad:op{n}:{toks.getD n "?"}"
        .ok (mo, verdict)
  | _ => .error "bad-case"

end SkimModel.Driver.C02
