import SkimModel.Driver.Util
import SkimModel.Spec.Keymap
/-
C19 line protocol.

case   = `<binds>;<expect>;<condargs>|<probes>`
  binds     list of --bind strings (`,`-separated code-point strings, `_` = none)
  expect    `~` = no --expect, else a code-point string
  condargs  list of strings handed to `parse_action_arg`
  probes    space separated: `n<name>` translate the key `from_keyname(name)`; `k<key>` translate that key;
            `r` resize event; `o` other terminal event; `d` all keys of the default key map

answer = `<KM> # <PKA> # <COND>`
  KM    `panic:<msg>` or `<changed default keys> @ <probe results>`
  PKA   per bind string the raw result of `parse_key_action`
  COND  per condarg the result of `parse_action_arg`
-/
namespace SkimModel.Driver.C19
open SkimModel.Keymap SkimModel.Driver SkimModel.Generated.Keymap

def s (cs : Str) : String := String.ofList cs

def encKey : Key → String
  | .named n => s n
  | .ctrl c => s!"Ctrl.{c.toNat}"
  | .ctrlAlt c => s!"CtrlAlt.{c.toNat}"
  | .alt c => s!"Alt.{c.toNat}"
  | .char c => s!"Char.{c.toNat}"
  | .f n => s!"F.{n}"

def decKey (t : String) : Option Key :=
  match t.splitOn "." with
  | [n] => if n.isEmpty then none else some (.named n.toList)
  | [v, p] =>
    match p.toNat? with
    | none => none
    | some n =>
      match v with
      | "Ctrl" => some (.ctrl (Char.ofNat n))
      | "CtrlAlt" => some (.ctrlAlt (Char.ofNat n))
      | "Alt" => some (.alt (Char.ofNat n))
      | "Char" => some (.char (Char.ofNat n))
      | "F" => some (.f n)
      | _ => none
  | _ => none

def encEvent : Event → String
  | .plain c => s c
  | .int c n => s!"{s c}(i{n})"
  | .str c a => s!"{s c}(s{encStr a})"
  | .optStr c none => s!"{s c}(n)"
  | .optStr c (some a) => s!"{s c}(o{encStr a})"
  | .addChar ch => s!"EvActAddChar(c{ch.toNat})"
  | .inputKey k => s!"EvInputKey(k{encKey k})"

def encChain (ch : Chain) : String := "+".intercalate (ch.map encEvent)

def sortedDefaultKeys : List Key :=
  let ks := defaultKeymap.map (·.1)
  (ks.map (fun k => (encKey k, k))).mergeSort (fun a b => a.1 ≤ b.1) |>.map (·.2)

inductive Probe
  | name (n : Str) | key (k : Key) | resize | other | defaults

def parseProbe (t : String) : Option Probe :=
  if t == "r" then some .resize
  else if t == "o" then some .other
  else if t == "d" then some .defaults
  else if t.startsWith "n" then some (.name (decStr (t.drop 1).toString))
  else if t.startsWith "k" then (decKey (t.drop 1).toString).map .key
  else none

def showTr (r : Key × Chain) : String := s!"{encKey r.1}={encChain r.2}"

/-- `tr` is the translation function under test (model or spec) -/
def probeOut (tr : TermEvent → Key × Chain) : Probe → String
  | .name n =>
    match keyOf n with
    | none => s!"n{encStr n}:?"
    | some k => s!"n{encStr n}:{showTr (tr (.key k))}"
  | .key k => showTr (tr (.key k))
  | .resize => s!"r:{showTr (tr .resize)}"
  | .other => s!"o:{showTr (tr .other)}"
  | .defaults => ";".intercalate (sortedDefaultKeys.map (fun k => showTr (tr (.key k))))

def changedDefaults (tr : TermEvent → Key × Chain) : String :=
  let ch := sortedDefaultKeys.filter (fun k => some (tr (.key k)).2 ≠ kmLookup defaultKeymap k)
  if ch.isEmpty then "_" else ";".intercalate (ch.map (fun k => showTr (tr (.key k))))

def kmSection (tr : TermEvent → Key × Chain) (probes : List Probe) : String :=
  changedDefaults tr ++ " @ " ++ (if probes.isEmpty then "_" else ";".intercalate (probes.map (probeOut tr)))

def encPKA (r : List (Str × List (Str × Option Str))) : String :=
  if r.isEmpty then "_" else
  "/".intercalate (r.map (fun ka =>
    encStr ka.1 ++ ">" ++ "+".intercalate (ka.2.map (fun na =>
      encStr na.1 ++ "~" ++ (match na.2 with | none => "n" | some a => "s" ++ encStr a)))))

def encOptEvent : Except Str (Option Event) → String
  | .error m => "panic:" ++ s m
  | .ok none => "none"
  | .ok (some e) => encEvent e

/-! ### certificate: is this string the rendering of a well-formed specification? -/

def formOf (opener : Option Char) (arg : Option Str) : ArgForm :=
  match arg, opener with
  | none, _ => .none
  | some a, some '(' => .paren a
  | some a, some '[' => .brack a
  | some a, some '"' => .dq a
  | some a, some '\'' => .sq a
  | some a, _ => .colon a

/-- rebuild the argument forms by walking the text alongside the parse result (a guess; it is only
    USED after `render spec = text ∧ WF spec` has been checked, which does not depend on how the
    guess was made) -/
def reformChain : Str → List (Str × Option Str) → List ActionSpec × Str
  | t, [] => ([], t)
  | t, (n, a) :: r =>
    let t1 := t.drop n.length
    let f := formOf t1.head? a
    let t2 := (t1.drop f.render.length).drop 1
    let (as, t3) := reformChain t2 r
    (⟨n, f⟩ :: as, t3)

def reform : Str → List (Str × List (Str × Option Str)) → BindSpec
  | _, [] => []
  | t, (k, acts) :: r =>
    let t1 := t.drop (k.length + 1)
    let (as, t2) := reformChain t1 acts
    ⟨k, as⟩ :: reform t2 r

/-- `some spec` iff `text` certifiably is `render spec` for a semantically well-formed `spec` -/
def certify (text : Str) : Option BindSpec :=
  let spec := reform text (parseKeyAction text)
  if SWF spec && render spec == text then some spec else none

def handle (case : String) (impl : String) : Except String (String × String) :=
  match case.splitOn "|" with
  | [hd, pr] =>
    match hd.splitOn ";" with
    | [b, e, c] =>
      let binds := decList b
      let expect : Option Str := if e == "~" then none else some (decStr e)
      let conds := decList c
      let toks := (pr.splitOn " ").filter (· ≠ "")
      match toks.mapM parseProbe with
      | none => .error "bad-probe"
      | some probes =>
        -- model
        let km := match buildInput binds expect with
          | .error m => "panic:" ++ s m
          | .ok km => kmSection (translateEvent km) probes
        let pka := if binds.isEmpty then "_" else ",".intercalate (binds.map (fun t => encPKA (parseKeyAction t)))
        let cond := if conds.isEmpty then "_" else ";".intercalate (conds.map (fun a => encOptEvent (parseActionArg a)))
        let model := km ++ " # " ++ pka ++ " # " ++ cond
        -- spec verdict on the implementation's answer
        let verdict :=
          match impl.splitOn " # " with
          | [ikm, ipka, icond] =>
            match binds.mapM certify with
            | none => "ok"       -- some --bind string is outside the well-formed grammar: the property is silent
            | some specs =>
              let tr : TermEvent → Key × Chain := fun ev =>
                match ev with
                | .key k => (k, specTranslate specs expect k)
                | ev' => translateEvent [] ev'
              let ekm := kmSection tr probes
              let epka := if specs.isEmpty then "_" else ",".intercalate (specs.map (fun sp => encPKA sp.parsed))
              -- conditional arguments that are one well-formed action
              let condBad := (conds.zip (icond.splitOn ";")).any (fun ai =>
                match certify (fakeKey ++ ai.1) with
                | some [⟨k, a :: _⟩] => k == "fake_key".toList && encOptEvent (.ok (actionEvent a)) != ai.2
                | _ => false)
              if ikm != ekm then "bad:keymap-differs-from-specification"
              else if ipka != epka then "bad:parse-differs-from-specification"
              else if condBad then "bad:conditional-argument-differs-from-specification"
              else "ok"
          | _ => if impl.startsWith "error" then "ok" else "bad:malformed-answer"
        .ok (model, verdict)
    | _ => .error "bad-case"
  | _ => .error "bad-case"

end SkimModel.Driver.C19
