import SkimModel.Driver.Util
import SkimModel.Spec.SelCursor
/-
C09 line protocol (see harness/src/c09.rs):
  case   = `<reverse 0|1>|<op> <op> ...`   ops: u:K d:K pu:K pd:K hu:K hd:K r:N a:N c w:H
  answer = tokens `ic,lc,h,n,idx,cur[;screen]`, one for the initial state and one per op.
`handle` produces the model's tokens; `verdict` is the executable form of the property, evaluated on the
IMPLEMENTATION's tokens only (it never looks at the model's state).
-/
namespace SkimModel.Driver.C09
open SkimModel.SelCursor SkimModel.Driver

def parseOp (t : String) : Option Ev :=
  match t.splitOn ":" with
  | ["u", k] => k.toInt?.map .up
  | ["d", k] => k.toInt?.map .down
  | ["pu", k] => k.toInt?.map .pageUp
  | ["pd", k] => k.toInt?.map .pageDown
  | ["hu", k] => k.toInt?.map .halfUp
  | ["hd", k] => k.toInt?.map .halfDown
  | ["r", k] => k.toNat?.map .row
  | ["a", k] => k.toNat?.map .append
  | ["c"] => some .clear
  | ["w", k] => k.toNat?.map .draw
  | _ => none

def showCur (s : Cur) : String :=
  match s.currentItem with
  | some i => toString i
  | none => "x"

def obsCur (s : Cur) : String :=
  s!"{s.ic},{s.lc},{s.h},{s.n},{s.cursor},{showCur s}"

/-- what `Draw::draw` paints in columns 0 and 2.. of a canvas of height `sh`, rows top to bottom -/
def screenOf (s : Cur) (sh : Nat) : String :=
  if sh == 0 then "-" else
  "/".intercalate ((List.range sh).map fun r =>
    match itemAtRow s sh r with
    | none => "."
    | some i => (if pointerRow s sh == some r then ">" else "_") ++ toString i)

def parseCase (case : String) : Except String (Bool × List Ev) :=
  match case.splitOn "|" with
  | [hd, ops] =>
    if hd != "0" && hd != "1" then .error "bad-case" else
    let toks := (ops.splitOn " ").filter (· ≠ "")
    match toks.mapM parseOp with
    | none => .error "bad-op"
    | some evs => .ok (hd == "1", evs)
  | _ => .error "bad-case"

/-- model tokens -/
def modelOut (rev : Bool) (evs : List Ev) : String :=
  let s0 := Cur.init rev
  let stepTok (st : Cur × List String) (e : Ev) : Cur × List String :=
    let s' := step st.1 e
    let tok := match e with
      | .draw sh => obsCur s' ++ ";" ++ screenOf st.1 sh
      | _ => obsCur s'
    (s', tok :: st.2)
  let r := evs.foldl stepTok (s0, [obsCur s0])
  " ".intercalate r.2.reverse

/-! ### executable spec, run on the implementation's answer -/

structure Obs where
  ic : Nat
  lc : Nat
  h : Nat
  n : Nat
  idx : Nat
  cur : Option Nat
  screen : Option String
deriving Repr

def parseObs (t : String) : Option Obs :=
  match t.splitOn ";" with
  | st :: rest =>
    match st.splitOn "," with
    | [a, b, c, d, e, f] => do
      let ic ← a.toNat?
      let lc ← b.toNat?
      let h ← c.toNat?
      let n ← d.toNat?
      let idx ← e.toNat?
      let cur ← if f == "x" then some none else f.toNat?.map some
      match rest with
      | [] => some { ic, lc, h, n, idx, cur, screen := none }
      | [sc] => some { ic, lc, h, n, idx, cur, screen := some sc }
      | _ => none
    | _ => none
  | [] => none

/-- judge one step: `p` before, `q` after, `shrunk` = the window has shrunk since the last move.
    Returns the new flag or the reason of the failure. -/
def judgeStep (rev : Bool) (e : Ev) (p q : Obs) (shrunk : Bool) (win : Nat) : Except String (Bool × Nat) := do
  -- the cursor designates an existing result
  if q.idx != q.ic + q.lc then throw "idx-is-not-ic+lc"
  if q.n > 0 then
    if ¬ (q.idx < q.n) then throw "cursor-outside-list"
    if q.cur != some q.idx then throw "current-item-is-not-the-designated-index"
  else
    if q.cur != none then throw "current-item-on-empty-list"
  -- size of the list
  let nOk : Bool := match e with
    | .append k => q.n == p.n + k
    | .clear => q.n == 0
    | _ => q.n == p.n
  if !nOk then throw "wrong-list-size"
  -- exact movement once the list has been drawn.  The window height is the JUDGE's own record (`win`: the height of the last
  -- draw that painted a row — the rule the property's "window" stands for), not the height the implementation says it stored
  if win ≥ 1 ∧ p.n > 0 ∧ p.idx < p.n then
    match askedRows win e with
    | some k =>
      let want := clamp 0 ((p.n : Int) - 1) ((p.idx : Int) + (if rev then -k else k))
      if (q.idx : Int) != want then throw s!"moved-to-{q.idx}-expected-{want}"
    | none => pure ()
    match e with
    | .row r =>
      if r < win then
        let i := if rev then r else win - 1 - r
        let want := min (p.ic + i) (p.n - 1)
        if q.idx != want then throw s!"click-selected-{q.idx}-expected-{want}"
    | _ => pure ()
  -- drawing changes neither the list nor the cursor; the pointer is on the row of the cursor
  let mut shrunk := shrunk
  let mut win := win
  match e with
  | .draw sh =>
    if q.idx != p.idx ∨ q.ic != p.ic then throw "draw-moved-the-cursor"
    -- a draw that paints at least one row shows the window as it is now
    if min (p.ic + sh) p.n - p.ic > 0 then
      if sh < win then shrunk := true
      win := sh
    match q.screen with
    | none => throw "no-screen"
    | some sc =>
      let rows := if sc == "-" then [] else sc.splitOn "/"
      if rows.length != sh then throw "screen-height"
      let ptr := (List.range rows.length).filter fun r => (rows.getD r "").startsWith ">"
      if ptr.length > 1 then throw "several-pointers"
      if ptr.any (fun r => rows.getD r "" != ">" ++ toString q.idx) then throw "pointer-row-shows-another-item"
      if q.n > 0 ∧ q.lc < sh then
        let want := if rev then q.lc else sh - 1 - q.lc
        if ptr != [want] then throw "pointer-not-on-the-cursor-row"
  | _ => pure ()
  if e.isMove then shrunk := false
  -- inside the window unless the window has shrunk since the last move (the fixed code also brings the
  -- cursor row back on `append`; the property does not ask for that, so the verdict does not either)
  if ¬ shrunk ∧ q.n > 0 ∧ ¬ (q.lc < max win 1) then throw "cursor-row-outside-window"
  return (shrunk, win)

def judge (rev : Bool) (evs : List Ev) (impl : String) : String :=
  let toks := (impl.splitOn " ").filter (· ≠ "")
  if toks.any (fun t => t.startsWith "panic") then "bad:panic" else
  match toks.mapM parseObs with
  | none => "bad:unparsable-answer"
  | some obs =>
    if obs.length != evs.length + 1 then "bad:wrong-number-of-observations" else
    match obs with
    | [] => "bad:empty"
    | o0 :: rest =>
      if o0.n != 0 ∨ o0.idx != 0 ∨ o0.cur != none then "bad:initial-state" else
      let rec go (i : Nat) (evs : List Ev) (p : Obs) (os : List Obs) (shrunk : Bool) (win : Nat) : String :=
        match evs, os with
        | e :: evs', q :: os' =>
          match judgeStep rev e p q shrunk win with
          | .ok f => go (i + 1) evs' q os' f.1 f.2
          | .error why => s!"bad:op{i}:{why}"
        | _, _ => "ok"
      go 0 evs o0 rest false 0

/-- returns (model tokens, verdict on the implementation's answer) -/
def handle (case impl : String) : Except String (String × String) :=
  match parseCase case with
  | .error e => .error e
  | .ok (rev, evs) => .ok (modelOut rev evs, judge rev evs impl)

/-- the answer line of the driver: `<model tokens>\t<verdict>` -/
def answer (case impl : String) : String :=
  match handle case impl with
  | .ok (m, v) => m ++ "\t" ++ v
  | .error e => "error:" ++ e ++ "\terror"

end SkimModel.Driver.C09
