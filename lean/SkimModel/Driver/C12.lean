import SkimModel.Driver.Util
import SkimModel.Spec.Field
/-
C12 driver.  Case line:

  <text>;<delim>;<mode>;<needle>[;k]|<op> <op> ...      (k: also run the real `sk --filter` binary)

text, delim, needle: dot-separated code points.  mode: e p s b i (exact: 'n ^n n$ ^n$ !n), f (fuzzy),
r rp rs (regex n ^n n$), x (no engine).  op = `w:<range>` (--with-nth), `n:<range>` (--nth),
`g:<range>` ({N} / get_string_by_range), `t:<range>:<len>` (from_str + to_index_pair(len)); range is
a dot-separated code point string.

The implementation's answer (harness) is a `;`-separated list of `key=value`:
  m1  delimiter matches on the text            (the model's PARAMETER, taken from here)
  fr  from_str of every op                     ip  to_index_pair of the t ops
  w   parse_transform_fields(text, w ranges)   it  DefaultSkimItem.text()
  m2  delimiter matches on the item text       (parameter)
  pm  parse_matching_fields(text, n ranges)    mr  item.get_matching_ranges()
  g   get_string_by_range per g op             ij  inject_command("{R}") consistency
  rd  the item built by SkimItemReader from the option STRINGS (-d, --with-nth a,b, --nth c,d) equals the
      item built directly (ok / differs / skip when the case cannot be written as option strings)
  sk  the real `sk --filter` binary prints the line iff match_item matched (ok / differs / skip; thorough tier)
  e   match_item result
-/
namespace SkimModel.Driver.C12
open SkimModel.Field SkimModel.Driver

/-- the regex class `\d` on the generated alphabet: ASCII digits and three non-ASCII `Nd` characters -/
def isD (c : Char) : Bool :=
  isAsciiDigit c || c.toNat == 0x0663 || c.toNat == 0xFF13 || c.toNat == 0x0967

def utf8 (cs : List Char) : Bytes := (String.ofList cs).toUTF8.toList

def decodeUtf8 (b : Bytes) : List Char :=
  match String.fromUTF8? (ByteArray.mk b.toArray) with
  | some s => s.toList
  | none => []

def hexDigit (n : Nat) : Char := if n < 10 then Char.ofNat (48 + n) else Char.ofNat (87 + n)

def encBytes (b : Bytes) : String :=
  if b.isEmpty then "-" else String.ofList (b.flatMap (fun x => [hexDigit (x.toNat / 16), hexDigit (x.toNat % 16)]))

def hexVal (c : Char) : Nat :=
  if c.toNat ≥ 97 then c.toNat - 87 else c.toNat - 48

def decBytes (s : String) : Bytes :=
  if s == "-" || s == "" then [] else
  let rec go : List Char → Bytes
    | a :: b :: t => UInt8.ofNat (hexVal a * 16 + hexVal b) :: go t
    | _ => []
  go s.toList

def encPair (p : Nat × Nat) : String := s!"{p.1}-{p.2}"

def encPairs (l : List (Nat × Nat)) : String :=
  if l.isEmpty then "_" else ",".intercalate (l.map encPair)

def decPair (s : String) : Option (Nat × Nat) :=
  match s.splitOn "-" with
  | [a, b] => match a.toNat?, b.toNat? with
    | some x, some y => some (x, y)
    | _, _ => none
  | _ => none

def decPairs (s : String) : Option (List (Nat × Nat)) :=
  if s == "_" || s == "" then some [] else (s.splitOn ",").mapM decPair

def encRange : Option FieldRange → String
  | none => "X"
  | some (.single n) => s!"S{n}"
  | some (.leftInf n) => s!"L{n}"
  | some (.rightInf n) => s!"R{n}"
  | some (.both l r) => s!"B{l}:{r}"

def joinOr (empty : String) (l : List String) : String :=
  if l.isEmpty then empty else ",".intercalate l

inductive Op
  | w (r : List Char) | n (r : List Char) | g (r : List Char) | t (r : List Char) (len : Nat)

def Op.range : Op → List Char
  | .w r => r | .n r => r | .g r => r | .t r _ => r

def parseOp (t : String) : Option Op :=
  match t.splitOn ":" with
  | ["w", r] => some (.w (decStr r))
  | ["n", r] => some (.n (decStr r))
  | ["g", r] => some (.g (decStr r))
  | ["t", r, l] => l.toNat?.map (fun k => .t (decStr r) k)
  | _ => none

/-- key=value fields of the implementation's answer -/
def fieldsOf (impl : String) : List (String × String) :=
  (impl.splitOn ";").filterMap (fun kv =>
    match kv.splitOn "=" with
    | [k, v] => some (k, v)
    | _ => none)

def lookup (kvs : List (String × String)) (k : String) : Option String :=
  (kvs.find? (fun p => p.1 == k)).map (·.2)

/-! literal instantiation of the engines' external matchers -/

def isPrefixB : Bytes → Bytes → Bool
  | [], _ => true
  | _ :: _, [] => false
  | a :: as, b :: bs => a == b && isPrefixB as bs

/-- leftmost occurrence of `needle` in `hay` at or after offset `off` -/
def findSubFrom (needle : Bytes) : Bytes → Nat → Option (Nat × Nat)
  | [], off => if needle.isEmpty then some (off, off) else none
  | h :: t, off =>
    if isPrefixB needle (h :: t) then some (off, off + needle.length) else findSubFrom needle t (off + 1)

/-- `Regex::find` of the escaped literal with optional `^` / `$` anchors (case respected) -/
def findLit (pre post : Bool) (needle : Bytes) (hay : Bytes) : Option (Nat × Nat) :=
  match pre, post with
  | false, false => findSubFrom needle hay 0
  | true, false => if isPrefixB needle hay then some (0, needle.length) else none
  | false, true =>
    if needle.length ≤ hay.length && hay.drop (hay.length - needle.length) == needle
    then some (hay.length - needle.length, hay.length) else none
  | true, true => if hay == needle then some (0, hay.length) else none

def isSubseq : List Char → List Char → Bool
  | [], _ => true
  | _ :: _, [] => false
  | a :: as, b :: bs => if a == b then isSubseq as bs else isSubseq (a :: as) bs

/-- greedy leftmost indices (only used when the implementation's indices are rejected) -/
def greedyIdx : List Char → List Char → Nat → List Nat
  | [], _, _ => []
  | _ :: _, [], _ => []
  | a :: as, b :: bs, i => if a == b then i :: greedyIdx as bs (i + 1) else greedyIdx (a :: as) bs (i + 1)

/-- `FuzzyEngine::fuzzy_match` verdict: empty pattern matches, empty choice does not, otherwise
    case-sensitive subsequence (indices are validated, not predicted) -/
def fuzzyVerdict (needle : List Char) (sl : Bytes) : Bool :=
  if needle.isEmpty then true
  else if sl.isEmpty then false
  else isSubseq needle (decodeUtf8 sl)

def strictlyInc : List Nat → Bool
  | a :: b :: t => a < b && strictlyInc (b :: t)
  | _ => true

structure Case where
  text : Bytes
  mode : String
  needle : List Char
  ops : List Op

def parseCase (case : String) : Except String Case :=
  match case.splitOn "|" with
  | [hd, ops] =>
    match (hd.splitOn ";").take 4 with
    | [text, _delim, mode, needle] =>
      let toks := (ops.splitOn " ").filter (· ≠ "")
      match toks.mapM parseOp with
      | none => .error "bad-op"
      | some os => .ok { text := utf8 (decStr text), mode := mode, needle := decStr needle, ops := os }
    | _ => .error "bad-case"
  | _ => .error "bad-case"

def showOptPairs : Option (List (Nat × Nat)) → String
  | none => "N"
  | some l => encPairs l

/-- engine result of the model; for the fuzzy engine the implementation's indices are validated
    and echoed -/
def engineOut (c : Case) (it : Bytes) (mr : Option (List (Nat × Nat))) (implE : String) : Option String :=
  let nb := utf8 c.needle
  -- `ExactEngine::builder` keeps no regex for an empty query (reachable as `^`, `$`, `^$`)
  let bytesRes (pre post inv : Bool) (exactEngine : Bool := true) : Option String :=
    (matchBytes (findLit pre post nb) (exactEngine && nb.isEmpty) inv it mr).map (fun r =>
      match r with
      | none => "N"
      | some (b, e) => s!"B{b}-{e}")
  match c.mode with
  | "x" => some "-"
  | "e" => bytesRes false false false
  | "p" => bytesRes true false false
  | "s" => bytesRes false true false
  | "b" => bytesRes true true false
  | "i" => bytesRes false false true
  | "r" => bytesRes false false false false
  | "rp" => bytesRes true false false false
  | "rs" => bytesRes false true false false
  | "f" =>
    -- which range matches first (as char span)?  use the model loop with a verdict-only matcher
    let probe := matchChars (fun sl => if fuzzyVerdict c.needle sl then some [] else none) it mr
    match probe with
    | none => none
    | some none => some "N"
    | some (some _) =>
      -- find the first matching range again to get its char span
      let ranges := mr.getD [(0, it.length)]
      match ranges.find? (fun (s, e) => fuzzyVerdict c.needle (sub it (min s it.length) (min e it.length))) with
      | none => some "N"
      | some (s, e) =>
        let s := min s it.length
        let e := min e it.length
        let lo := charCount (sub it 0 s)
        let hi := lo + charCount (sub it s e)
        let chars := decodeUtf8 it
        let implIdx : Option (List Nat) :=
          if implE.startsWith "C" then some (decNats (implE.drop 1).toString) else none
        let valid (v : List Nat) : Bool :=
          v.length == c.needle.length && strictlyInc v && v.all (fun i => lo ≤ i && i < hi) &&
          (v.zip c.needle).all (fun (i, ch) => chars[i]? == some ch)
        match implIdx with
        | some v => if valid v then some ("C" ++ encNats v) else some ("C" ++ encNats (greedyIdx c.needle (chars.drop lo) lo))
        | none => some ("C" ++ encNats (greedyIdx c.needle (chars.drop lo) lo))
  | _ => some "?"

/-- consistency flags computed inside the harness: the model expects `ok`, or `skip` when the harness skipped -/
def okOrSkip (v : String) : String := if v == "skip" then "skip" else "ok"

/-- the model's answer in the harness format; `none` = the model predicts a panic -/
def modelOut (c : Case) (m1 m2 : List (Nat × Nat)) (implE rd sk : String) : Option String := do
  let x := c.text
  let parsed := c.ops.map (fun o => (o, fromStr isD o.range))
  let fr := joinOr "_" (parsed.map (fun p => encRange p.2))
  let ip := joinOr "_" (parsed.filterMap (fun p =>
    match p.1 with
    | .t _ len => some (match p.2 with
        | none => "X"
        | some r => match toIndexPair r len with
          | none => "N"
          | some ab => encPair ab)
    | _ => none))
  let wf := parsed.filterMap (fun p => match p.1 with | .w _ => p.2 | _ => none)
  let nf := parsed.filterMap (fun p => match p.1 with | .n _ => p.2 | _ => none)
  let w ← parseTransformFields x m1 wf
  let item ← itemNew x m1 wf nf m2
  let it := item.1
  let mr := item.2
  let pm ← parseMatchingFields x m1 nf
  let gs ← (parsed.filterMap (fun p => match p.1 with | .g _ => some p.2 | _ => none)).mapM (fun r =>
    match r with
    | none => some "N"
    | some f => (getStringByField x m1 f).map (fun o => match o with | none => "N" | some b => encBytes b))
  let e ← engineOut c it mr implE
  some s!"m1={encPairs m1};fr={fr};ip={ip};w={encBytes w};it={encBytes it};m2={encPairs m2};pm={encPairs pm};mr={showOptPairs mr};g={joinOr "_" gs};ij=ok;rd={okOrSkip rd};sk={okOrSkip sk};e={e}"

/-! ## the executable spec (verdict on the implementation's answer) -/

open SkimModel.Field.Spec in
def verdict (c : Case) (m1 m2 : List (Nat × Nat)) (kv : List (String × String)) : String := Id.run do
  let x := c.text
  if !okMatches x m1 then return "bad:delimiter-contract-m1"
  let get (k : String) : String := (lookup kv k).getD "?"
  -- grammar: the four written forms must denote the corresponding range
  let frs := (get "fr").splitOn ","
  let mut idx := 0
  for o in c.ops do
    match specParse o.range with
    | some r => if frs[idx]? != some (encRange (some r)) then return s!"bad:grammar-op{idx}"
    | none => pure ()
    idx := idx + 1
  -- to_index_pair = the selected set
  let ips := (get "ip").splitOn ","
  let mut ti := 0
  for o in c.ops do
    match o with
    | .t r len =>
      match fromStr isD r with
      | some fr =>
        let s := sel fr len
        let want := match s, s.getLast? with
          | f :: _, some l => encPair (f - 1, l)
          | _, _ => "N"
        if ips[ti]? != some want then return s!"bad:index-pair-t{ti}"
        if s != (List.range' (s.headD 0) s.length) then return s!"bad:sel-not-contiguous"
      | none => pure ()
      ti := ti + 1
    | _ => pure ()
  let parsed := c.ops.map (fun o => (o, fromStr isD o.range))
  let wf := parsed.filterMap (fun p => match p.1 with | .w _ => p.2 | _ => none)
  let nf := parsed.filterMap (fun p => match p.1 with | .n _ => p.2 | _ => none)
  -- with-nth: concatenation of the selected fields (with their delimiters) in the order written
  let wantW := specWithNth x m1 wf
  if get "w" != encBytes wantW then return "bad:with-nth"
  let it := if wf.isEmpty then x else wantW
  if get "it" != encBytes it then return "bad:item-text"
  if !okMatches it m2 then return "bad:delimiter-contract-m2"
  -- nth: byte spans of the selected fields
  if get "pm" != encPairs (specNth x m1 nf) then return "bad:nth-spans"
  let wantMr : Option (List (Nat × Nat)) := if nf.isEmpty then none else some (specNth it m2 nf)
  if get "mr" != showOptPairs wantMr then return "bad:item-matching-ranges"
  -- boundaries
  match decPairs (get "pm"), (if get "mr" == "N" then some [] else decPairs (get "mr")) with
  | some a, some b =>
    if !(a.all (fun (s, e) => s ≤ e && e ≤ x.length && isBoundary x s && isBoundary x e)) then return "bad:boundary-pm"
    if !(b.all (fun (s, e) => s ≤ e && e ≤ it.length && isBoundary it s && isBoundary it e)) then return "bad:boundary-mr"
  | _, _ => return "bad:unparsable-ranges"
  -- placeholders: the selected fields without the trailing delimiter
  let gwant := parsed.filterMap (fun p => match p.1 with
    | .g _ => some (match p.2 with
      | none => "N"
      | some f => match specPlaceholder x m1 f with
        | none => "N"
        | some b => encBytes b)
    | _ => none)
  if get "g" != joinOr "_" gwant then return "bad:placeholder"
  if get "ij" != "ok" then return "bad:inject-command-differs-from-get_string_by_range"
  if get "rd" == "differs" then return "bad:item-from-option-strings-differs"
  if get "sk" == "differs" then return "bad:sk-filter-output-differs-from-match_item"
  -- matching restricted to the selected fields, positions relative to the whole line
  let spans : List (Nat × Nat) := (wantMr.getD [(0, it.length)])
  let nb := utf8 c.needle
  let e := get "e"
  let litCheck (pre post inv : Bool) (exactEngine : Bool := true) : String :=
    if exactEngine && nb.isEmpty then
      -- empty term: matches as soon as there is a selected field at all
      (if spans.isEmpty then (if e == "N" then "ok" else "bad:empty-term-without-fields")
       else (if e == "B0-0" then "ok" else "bad:empty-term"))
    else
    -- first span (in the order written) inside which the term matches
    let hit := spans.find? (fun (s, t) => ((findLit pre post nb (sub it s t)).isSome) != inv)
    match hit with
    | none => if e == "N" then "ok" else "bad:match-outside-fields"
    | some (s, t) =>
      if inv then (if e == "B0-0" then "ok" else "bad:inverse-result")
      else match decPair (e.drop 1).toString with
        | none => "bad:no-match-but-field-matches"
        | some (b, f) =>
          if !(e.startsWith "B") then "bad:engine-result-kind"
          else if !(s ≤ b && b ≤ f && f ≤ t) then "bad:match-not-inside-first-matching-field"
          else if sub it b f != nb then "bad:reported-position-is-not-the-term"
          else if !(isBoundary it b && isBoundary it f) then "bad:match-boundary"
          else if findLit pre post nb (sub it s t) != some (b - s, f - s) then "bad:not-leftmost-in-field"
          else "ok"
  let ev := match c.mode with
    | "x" => "ok"
    | "e" => litCheck false false false
    | "r" => litCheck false false false false
    | "p" => litCheck true false false
    | "rp" => litCheck true false false false
    | "s" => litCheck false true false
    | "rs" => litCheck false true false false
    | "b" => litCheck true true false
    | "i" => litCheck false false true
    | "f" =>
      let hit := spans.find? (fun (s, t) => fuzzyVerdict c.needle (sub it s t))
      match hit with
      | none => if e == "N" then "ok" else "bad:fuzzy-match-outside-fields"
      | some (s, t) =>
        if !(e.startsWith "C") then "bad:fuzzy-no-match-but-field-matches"
        else
          let v := decNats (e.drop 1).toString
          let lo := charCount (sub it 0 s)
          let hi := lo + charCount (sub it s t)
          let chars := decodeUtf8 it
          if v.length == c.needle.length && strictlyInc v && v.all (fun i => lo ≤ i && i < hi) &&
             (v.zip c.needle).all (fun (i, ch) => chars[i]? == some ch) then "ok"
          else "bad:fuzzy-indices-not-inside-first-matching-field"
    | _ => "bad:unknown-mode"
  return ev

def answer (case : String) (impl : String) : String :=
  match parseCase case with
  | .error e => "error:" ++ e ++ "\terror"
  | .ok c =>
    if impl.startsWith "panic" || impl.startsWith "error" || impl.startsWith "crash" then
      -- the model is evaluated without the implementation's match lists only when there is no delimiter match
      "no-panic-expected\tbad:implementation-" ++ ((impl.splitOn ":").headD "failed")
    else
      let kv := fieldsOf impl
      match (lookup kv "m1").bind decPairs, (lookup kv "m2").bind decPairs with
      | some m1, some m2 =>
        let m := match modelOut c m1 m2 ((lookup kv "e").getD "") ((lookup kv "rd").getD "") ((lookup kv "sk").getD "") with
          | some s => s
          | none => "panic"
        m ++ "\t" ++ verdict c m1 m2 kv
      | _, _ => "error:no-match-lists\terror"

end SkimModel.Driver.C12
