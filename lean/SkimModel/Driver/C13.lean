import SkimModel.Driver.Util
import SkimModel.Spec.Rank
namespace SkimModel.Driver.C13
open SkimModel.Generated.Rank SkimModel.Rank SkimModel.Driver

def parseOpt (s : String) : Except String (Option (List Char)) :=
  if s == "N" then .ok none
  else if s.startsWith "S" then .ok (some (decStr (s.drop 1).toString))
  else .error "bad-opt"

def parseTuple (s : String) : Option Tuple :=
  match s.splitOn "," with
  | [a, b, c, d] => do
    let score ← a.toInt?
    let b ← b.toNat?
    let c ← c.toNat?
    let d ← d.toNat?
    if score < i32Min ∨ score > i32Max then none
    else some { score := score, begin := b, «end» := c, length := d }
  | _ => none

def showRank : Option (List Int) → String
  | none => "panic"
  | some r => ",".intercalate (r.map toString)

def showOrd : Ordering → String
  | .lt => "<" | .eq => "=" | .gt => ">"

def pairs {α : Type} : List α → List (α × α)
  | a :: b :: t => (a, b) :: pairs (b :: t)
  | _ => []

/-- Debug name of the Rust variant (the generated constructor names ARE the Rust names) -/
def showCrit (c : Criterion) : String := (reprStr c).replace "SkimModel.Generated.Rank.Criterion." ""

/-- output of the code-shaped model for a builder `cs` -/
def modelOut (cs : List Criterion) (ts : List Tuple) : String :=
  let ranks := ts.map (buildRank cs)
  let cmps := (pairs ranks).map fun
    | (some a, some b) => showOrd (cmpRank a b)
    | _ => "!"
  " ".intercalate (ranks.map showRank) ++ ";" ++ "".intercalate cmps

/-- do the leading slots of the rank `r` (as printed by the harness) hold the configured keys of `t`? -/
def keysMatch (eff : List Criterion) (t : Tuple) (r : String) : Bool :=
  (r.splitOn ",").take eff.length == (eff.map (fun c => toString (Spec.key c t)))

/-- the executable spec, applied to the IMPLEMENTATION's answer: every in-range tuple must carry the
    key the property describes, and every adjacent in-range pair must compare as `lexCompare` says.
    Out-of-range tuples (casts that wrap, negation of `i32::MIN`) are outside the property. -/
def verdict (eff : List Criterion) (ts : List Tuple) (impl : String) : String :=
  match impl.splitOn ";" with
  | [rs, cs] =>
    let rs := (rs.splitOn " ").filter (· ≠ "")
    let cs := cs.toList
    if rs.length ≠ ts.length then "bad:number-of-ranks" else
    if cs.length ≠ ts.length - 1 then "bad:number-of-comparisons" else
    -- the leading slots are the keys; what the unused slots hold is not the property's business as long
    -- as it is the same for every item (the model says 0; a difference is reported as model mismatch)
    let inr := (ts.zip rs).filter fun (t, _) => decide (Spec.InRange t)
    let keyBad := inr.any fun (t, r) => !keysMatch eff t r
    if keyBad then "bad:key-is-not-the-configured-criteria" else
    let pads := inr.map fun (_, r) => (r.splitOn ",").drop eff.length
    if pads.any (· != pads.headD []) then "bad:unused-slots-differ-between-items" else
    let ordBad := ((pairs ts).zip cs).any fun ((t₁, t₂), c) =>
      decide (Spec.InRange t₁) && decide (Spec.InRange t₂) &&
        toString c != showOrd (Spec.lexCompare eff t₁ t₂)
    if ordBad then "bad:order-is-not-first-distinguishing-criterion" else "ok"
  | _ => "bad:shape"

/-! ### engine stream (`e`): what the engines feed into `build_rank`

Not covered by theorems (the engines' matching is C08's subject); this stream checks the CALL SITES:
every engine hands `build_rank` the tuple (score, begin, end, byte length of the item text) that belongs
to the match range it reports, and the rank it returns is the configured key of that tuple.  For
literal queries the exact/regex/all engines are predicted from scratch; for the fuzzy engine score and
indices come from the `fuzzy-matcher` crate and are taken from the probe run. -/

def utf8Len (cs : List Char) : Nat := cs.foldl (fun n c => n + c.utf8Size) 0

/-- byte offset of the first occurrence of `q` -/
def findSub (q : List Char) : List Char → Nat → Option Nat
  | [], off => if q.isEmpty then some off else none
  | c :: cs, off => if q.isPrefixOf (c :: cs) then some off else findSub q cs (off + c.utf8Size)

def parseInts (s : String) : Option (List Int) := (s.splitOn ",").mapM String.toInt?

/-- `P=… R=… M=…` -/
def parseEngineOut (impl : String) : Option (List Int × String × String) :=
  match impl.splitOn " " with
  | [p, r, m] =>
    if p.startsWith "P=" ∧ r.startsWith "R=" ∧ m.startsWith "M=" then
      (parseInts (p.drop 2).toString).map (fun pi => (pi, (r.drop 2).toString, (m.drop 2).toString))
    else none
  | _ => none

def tupleOfProbe : List Int → Option Tuple
  | [a, b, c, d] =>
    if b < 0 ∨ c < 0 ∨ d < 0 then none
    else some { score := -a, begin := b.toNat, «end» := c.toNat, length := d.toNat }
  | _ => none

def engineLine (o : Option (List Char)) (t : Tuple) (m : String) : String :=
  let probe := [Criterion.Score, .Begin, .End, .Length]
  s!"P={showRank (buildRank (rankBuilderNew probe) t)} R={showRank (buildRank (builderOf o) t)} M={m}"

def handleEngine (o : Option (List Char)) (eng : String) (q text : List Char) (impl : String) :
    Except String (String × String) :=
  let len := utf8Len text
  let implParsed := parseEngineOut impl
  -- the model's prediction
  let predicted : Option (Option (Tuple × String)) :=      -- none = cannot predict, some none = no match
    match eng with
    -- `regexbad`: the regex engine with an expression that does not compile — it filters nothing out and reports (0,0),
    -- and the length criterion is still the item's length
    | "all" | "regexbad" => some (some ({ score := 0, begin := 0, «end» := 0, length := len }, "B0,0"))
    | "exact" | "regex" =>
      if q.isEmpty then some (some ({ score := 0, begin := 0, «end» := 0, length := len }, "B0,0"))
      else match findSub q text 0 with
        | none => some none
        | some b =>
          let e := b + utf8Len q
          some (some ({ score := (e - b : Nat), begin := b, «end» := e, length := len }, s!"B{b},{e}"))
    | _ => none
  let model : String :=
    match predicted with
    | some none => "nomatch"
    | some (some (t, m)) => engineLine o t m
    | none =>
      match implParsed with
      | none => impl                      -- `nomatch` (or an error text) is echoed
      | some (p, _, m) =>
        match tupleOfProbe p with
        | none => "probe-rank-not-decodable"
        | some t => engineLine o t m
  -- the spec, applied to the implementation's answer
  let verdict : String :=
    if impl == "nomatch" then "ok" else
    match implParsed with
    | none => "bad:shape"
    | some (p, r, m) =>
      match tupleOfProbe p with
      | none => "bad:probe-rank-not-decodable"
      | some t =>
        if t.length ≠ len then "bad:length-is-not-the-byte-length-of-the-item" else
        let rangeOk : Bool :=
          if m.startsWith "B" then
            match (m.drop 1).toString.splitOn "," with
            | [b, e] => b.toNat? == some t.begin && e.toNat? == some t.«end» && t.score == ((t.«end» - t.begin : Nat) : Int)
            | _ => false
          else if m == "C-" then t.begin == 0 && t.«end» == 0
          else if m.startsWith "C" then
            match (m.drop 1).toString.splitOn "," with
            | [f, l, _] => f.toNat? == some t.begin && l.toNat? == some t.«end»
            | _ => false
          else false
        if !rangeOk then "bad:begin-end-are-not-the-reported-match-range" else
        if decide (Spec.InRange t) && !keysMatch (Spec.effective o) t r then
          "bad:key-is-not-the-configured-criteria"
        else "ok"
  .ok (model, verdict)

def handle (case : String) (impl : String) : Except String (String × String) :=
  match case.splitOn "|" with
  | [hd, tuples] =>
    match hd.splitOn ";" with
    | ["e", opt, eng, q, text] =>
      match parseOpt opt with
      | .error e => .error e
      | .ok o => handleEngine o eng (decStr q) (decStr text) impl
    | [kind, opt] =>
      match parseOpt opt with
      | .error e => .error e
      | .ok o =>
        let toks := (tuples.splitOn " ").filter (· ≠ "")
        match toks.mapM parseTuple with
        | none => .error "bad-tuple"
        | some ts =>
          match kind with
          | "m" => .ok (modelOut (builderOf o) ts, verdict (Spec.effective o) ts impl)
          | "d" => .ok (modelOut builderDefault ts, verdict (Spec.effective none) ts impl)
          | "p" =>
            let w := o.getD []
            let m := match parseCriteria w with | none => "none" | some c => showCrit c
            let s := match Spec.lookupLower w with | none => "none" | some c => showCrit c
            .ok (m, if impl == s then "ok" else "bad:name-lookup")
          | _ => .error "bad-kind"
    | _ => .error "bad-case"
  | _ => .error "bad-case"

end SkimModel.Driver.C13
