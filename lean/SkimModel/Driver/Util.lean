/-
Line-protocol helpers shared by all property drivers.
Strings travel as dot-separated decimal code points ("-" = empty string); lists use "," with "_"
for the empty list.  Nothing raw ever crosses the pipe.
-/
namespace SkimModel.Driver

def splitOn1 (s : String) (sep : String) : List String := s.splitOn sep

def decStr (s : String) : List Char :=
  if s == "-" || s == "" then [] else
  (s.splitOn ".").filterMap (fun t => t.toNat?.map Char.ofNat)

def encStr (cs : List Char) : String :=
  if cs.isEmpty then "-" else ".".intercalate (cs.map (fun c => toString c.toNat))

def decList (s : String) : List (List Char) :=
  if s == "_" || s == "" then [] else (s.splitOn ",").map decStr

def encList (l : List (List Char)) : String :=
  if l.isEmpty then "_" else ",".intercalate (l.map encStr)

def decNats (s : String) : List Nat :=
  if s == "_" || s == "" then [] else (s.splitOn ",").filterMap String.toNat?

def encNats (l : List Nat) : String :=
  if l.isEmpty then "_" else ",".intercalate (l.map toString)

def decInt (s : String) : Int := s.toInt?.getD 0

end SkimModel.Driver
