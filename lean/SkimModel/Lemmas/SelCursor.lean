/-
Helper lemmas for C09: one arithmetic fact per function of `Model/SelCursor.lean`.
-/
import SkimModel.Spec.SelCursor
namespace SkimModel.SelCursor

theorem H_pos (s : Cur) : 1 ≤ s.H := by unfold Cur.H; omega

theorem H_of_drawn (s : Cur) (h : 0 < s.h) : s.H = s.h := by unfold Cur.H; omega

theorem dir_neg (s : Cur) (d : Int) : s.dir (-d) = -(s.dir d) := by
  unfold Cur.dir; cases s.rev <;> simp

/-- everything about the signed computation of `act_move_line_cursor` at once -/
theorem moveRaw_spec (s : Cur) (d : Int) :
    0 ≤ (moveRaw s d).1 ∧ 0 ≤ (moveRaw s d).2 ∧ (moveRaw s d).2 < (s.H : Int) ∧
    (0 < s.n → s.ic + s.lc < s.n →
      (moveRaw s d).1 + (moveRaw s d).2 = clamp 0 ((s.n : Int) - 1) ((s.ic : Int) + s.lc + s.dir d)) := by
  have hH : (1 : Int) ≤ (s.H : Int) := by have := H_pos s; omega
  unfold moveRaw clamp Cur.dir
  cases s.rev <;> simp only [Bool.false_eq_true, if_true, if_false] <;> split <;> (try split) <;>
    simp only [] <;> omega

@[simp] theorem moveLine_n (s : Cur) (d : Int) : (moveLine s d).n = s.n := rfl
@[simp] theorem moveLine_h (s : Cur) (d : Int) : (moveLine s d).h = s.h := rfl
@[simp] theorem moveLine_rev (s : Cur) (d : Int) : (moveLine s d).rev = s.rev := rfl
@[simp] theorem moveLine_H (s : Cur) (d : Int) : (moveLine s d).H = s.H := rfl

theorem moveLine_inWindow (s : Cur) (d : Int) : InWindow (moveLine s d) := by
  have h := moveRaw_spec s d
  unfold InWindow
  show (moveRaw s d).2.toNat < s.H
  omega

theorem moveLine_cursor (s : Cur) (d : Int) (hn : 0 < s.n) (hv : s.ic + s.lc < s.n) :
    ((moveLine s d).cursor : Int) = clamp 0 ((s.n : Int) - 1) ((s.cursor : Int) + s.dir d) := by
  have h := moveRaw_spec s d
  obtain ⟨h1, h2, _, h4⟩ := h
  have h4 := h4 hn hv
  show (((moveRaw s d).1.toNat + (moveRaw s d).2.toNat : Nat) : Int) = _
  unfold Cur.cursor
  rw [Int.natCast_add s.ic s.lc, ← h4]
  omega

theorem moveLine_valid (s : Cur) (d : Int) (hv : Valid s) : Valid (moveLine s d) := by
  intro hn
  have hn' : 0 < s.n := hn
  have hc := moveLine_cursor s d hn' (hv hn')
  unfold clamp at hc
  have : ((moveLine s d).cursor : Int) < s.n := by omega
  show (moveLine s d).ic + (moveLine s d).lc < s.n
  unfold Cur.cursor at this
  omega

theorem appendItems_spec (s : Cur) (k : Nat) :
    (appendItems s k).n = s.n + k ∧ (appendItems s k).h = s.h ∧ (appendItems s k).rev = s.rev ∧
    Valid (appendItems s k) ∧ InWindow (appendItems s k) ∧
    (s.ic + s.lc < s.n → s.lc < s.H → (appendItems s k).ic = s.ic ∧ (appendItems s k).lc = s.lc) := by
  have hH := H_pos s
  unfold Valid InWindow appendItems
  have e : ∀ a b c : Nat, ({ ic := a, lc := b, h := s.h, n := c, rev := s.rev } : Cur).H = s.H := fun _ _ _ => rfl
  simp only [e]
  generalize s.H = H at *
  refine ⟨trivial, trivial, trivial, ?_⟩
  by_cases c1 : s.n + k ≤ s.lc ∨ H ≤ s.lc
  · simp only [if_pos c1]
    by_cases c2 : s.n + k ≤ max (min (s.n + k) H) 1 - 1 + s.ic
    · simp only [if_pos c2]; omega
    · simp only [if_neg c2]; omega
  · simp only [if_neg c1]
    by_cases c2 : s.n + k ≤ s.lc + s.ic
    · simp only [if_pos c2]; omega
    · simp only [if_neg c2]; exact ⟨by omega, by omega, fun _ _ => ⟨trivial, trivial⟩⟩

theorem draw_spec (s : Cur) (sh : Nat) :
    (draw s sh).ic = s.ic ∧ (draw s sh).lc = s.lc ∧ (draw s sh).n = s.n ∧ (draw s sh).rev = s.rev ∧
    ((draw s sh).h = s.h ∨ ((draw s sh).h = sh ∧ 1 ≤ sh ∧ s.ic < s.n)) := by
  unfold draw rowsDrawn
  split
  · refine ⟨rfl, rfl, rfl, rfl, Or.inr ⟨rfl, ?_, ?_⟩⟩ <;> omega
  · exact ⟨rfl, rfl, rfl, rfl, Or.inl rfl⟩

end SkimModel.SelCursor
